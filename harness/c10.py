"""C10 — batched, chunked and pooled evaluation equals pointwise evaluation, once."""
import itertools
import multiprocessing

import numpy as np

PROPS_MODULE = "NessaiVerif.Props.C10"
MANIFEST = dict(
    text="Lean theorems over a model of batch_evaluate_function / array_split_chunksize / np.array_split for every "
         "length, chunk size and pool size (concat∘split = id, chunk length ≤ chunksize, batchEval = map f, every point "
         "handed to the user function exactly once in order, counter += n once); model tied to the code by an exhaustive-grid "
         "correspondence against the real functions and Model.batch_evaluate_log_likelihood / _log_prior / "
         "_log_prior_unit_hypercube (physical and unit-hypercube mode, parallelise_prior on/off, distinct exactly rounded "
         "likelihood / prior / hypercube-prior functions so that a mixed-up wrapper is visible) with a fake order-preserving "
         "pool (real fork pools in the thorough tier). SOURCE TIE: the if-tree of batch_evaluate_function and the way each of "
         "its six leaves calls the user function are regenerated from the current source on every run (harness/c10_tx.py -> "
         "Gen/BatchTx.lean) and batch_calls_source_eq_model re-proves, for every input, that the generated tree hands over "
         "exactly the batches of the model and goes through pool.map exactly when a pool is given.",
    note="Assumed: Pool.map preserves order; the user function is batch-consistent. 'counter += n once' is definitional in the model "
         "(batchEvalCount returns n by construction) and the unit-hypercube mapping / wrapper selection / parallelise_prior switch "
         "have no theorem: all three are established by the correspondence against the real Model methods only.",
    technique="Lean 4 proof (induction over lists) + source-to-Lean translation of the dispatch tree of "
              "batch_evaluate_function re-proved equal to the model on every run + differential correspondence with the real "
              "functions",
    ref="5/C10")


def gen(ctx):
    """regenerate Gen/BatchTx.lean from the current source of batch_evaluate_function (harness/c10_tx.py)"""
    from . import c10_tx
    c10_tx.gen(ctx)


class FakePool:
    """deterministic stand-in for multiprocessing.Pool: order-preserving map"""

    def __init__(self, n, known=True):
        if known:
            self._processes = n
        self.map_calls = 0

    def map(self, func, iterable):
        self.map_calls += 1
        return [func(v) for v in iterable]

    def close(self): pass
    def join(self): pass
    def terminate(self): pass


def _exc(e):
    if isinstance(e, ValueError):
        return "err=value"
    if isinstance(e, TypeError):
        return "err=type"
    return "err=" + type(e).__name__


def fmt(calls):
    return "ok [" + ",".join("[" + ",".join(str(int(i)) for i in c) + "]" for c in calls) + "]"


EPS = 2.0 ** -40     # makes every value need more than float32's 24 bits (a result squeezed through f4 is visible)


def point_value(i):
    # IEEE arithmetic on small integers, identical for Python floats and NumPy float64 arrays:
    # batch == pointwise bit for bit
    return float(i) * 3.0 - 7.0 + EPS


class float_dtype:
    """run a block under config.livepoints.default_float_dtype = dt (seeded change C10-c: results collected with
    the PARAMETER dtype instead of float64)"""

    def __init__(self, dt):
        self.dt = dt

    def __enter__(self):
        from nessai import config
        self.old = config.livepoints.default_float_dtype
        config.livepoints.default_float_dtype = self.dt
        config.livepoints.reset_properties()

    def __exit__(self, *a):
        from nessai import config
        config.livepoints.default_float_dtype = self.old
        config.livepoints.reset_properties()


def run_raw(n, vec, chunk, pool_n, pool_known, kind):
    """real batch_evaluate_function on ids 0..n-1; returns (canonical, out, calls)"""
    from nessai.utils.multiprocessing import batch_evaluate_function
    calls = []
    x = np.arange(n, dtype=float)

    def f_vec(b):
        b = np.atleast_1d(b)
        calls.append([int(v) for v in b])
        return b * 3.0 - 7.0 + EPS

    def f_scalar(v):
        calls.append([int(v)])
        return float(v) * 3.0 - 7.0 + EPS

    def f_arr1(v):
        calls.append([int(v)])
        return np.array([float(v) * 3.0 - 7.0 + EPS])

    func = f_vec if vec else (f_scalar if kind == "scalar" else f_arr1)
    pool = FakePool(pool_n, pool_known) if pool_n is not None else None
    from nessai.utils.multiprocessing import get_n_pool
    n_pool = get_n_pool(pool) if pool is not None else None
    try:
        out = batch_evaluate_function(func, x, vec, chunksize=chunk, pool=pool, n_pool=n_pool)
    except Exception as e:  # noqa
        return _exc(e), None, calls
    return fmt(calls), out, calls


def oracle(ctx, case, canon, out, calls, n, chunk, key):
    if out is None:
        return
    want = np.array([point_value(i) for i in range(n)])
    out = np.asarray(out)
    if out.shape != want.shape or not np.array_equal(out, want):
        ctx.oracle_fail(key, f"batch result differs from pointwise values: got {out.tolist()} want {want.tolist()}", case)
    flat = [i for c in calls for i in c]
    if flat != list(range(n)):
        ctx.oracle_fail(key, f"points not evaluated exactly once in order: {calls}", case)
    if chunk and case.get("vec") and any(len(c) > chunk for c in calls):
        ctx.oracle_fail(key, f"function called with more than chunksize={chunk} points: {calls}", case)


def make_model(vec, dims=2, prior_vec=True, uprior_vec=True):
    """`vec`: the likelihood accepts batches; `prior_vec` / `uprior_vec`: log_prior / log_prior_unit_hypercube accept batches
    (independently of each other: a non-vectorised log_prior next to the default, vectorised, unit-hypercube prior is the normal
    situation of a user model — seeded change C10-hA took one flag for the other)"""
    from nessai.model import Model

    class M(Model):
        def __init__(self):
            self.names = ["id", "y"][:dims]
            self.bounds = {"id": [0.0, 1024.0], "y": [-2.0, 2.0]}
            self.calls = []
            self.prior_calls = []
            self.uprior_calls = []
            self._vec = vec

        def to_unit_hypercube(self, x):
            y = x.copy()
            y["id"] = x["id"] / 1024.0
            y["y"] = (x["y"] + 2.0) / 4.0
            return y

        def from_unit_hypercube(self, x):
            y = x.copy()
            y["id"] = x["id"] * 1024.0
            y["y"] = x["y"] * 4.0 - 2.0
            return y

        def log_prior(self, x):
            # an exactly rounded stand-in "prior" (2*id + 1) so that a mixed-up wrapper is visible
            if not prior_vec and not (x.ndim == 0 or x.shape == ()):
                raise TypeError("log_prior is not vectorised")
            if x.ndim == 0 or x.shape == ():
                self.prior_calls.append([float(x["id"])])
                return float(x["id"]) * 2.0 + 1.0 + EPS
            self.prior_calls.append([float(v) for v in np.atleast_1d(x["id"])])
            return np.atleast_1d(x["id"]).astype(float) * 2.0 + 1.0 + EPS

        def log_prior_unit_hypercube(self, x):
            # distinct from log_prior: 5*id + 2 evaluated from the unit-cube coordinate
            if not uprior_vec and not (x.ndim == 0 or x.shape == ()):
                raise TypeError("log_prior_unit_hypercube is not vectorised")
            if x.ndim == 0 or x.shape == ():
                self.uprior_calls.append([float(x["id"]) * 1024.0])
                return float(x["id"]) * 1024.0 * 5.0 + 2.0 + EPS
            self.uprior_calls.append([float(v) * 1024.0 for v in np.atleast_1d(x["id"])])
            return np.atleast_1d(x["id"]).astype(float) * 1024.0 * 5.0 + 2.0 + EPS

        def log_likelihood(self, x):
            if not self._vec:
                if np.ndim(x["id"]) != 0:
                    raise TypeError("not vectorised")
                self.calls.append([float(x["id"])])
                return float(x["id"]) * 3.0 - 7.0 + EPS
            ids = np.atleast_1d(x["id"])
            self.calls.append([float(v) for v in ids])
            return ids.astype(float) * 3.0 - 7.0 + EPS

    return M()


def run_model_layer(n, vec, chunk, pool_n, unit, which, par_prior=True, prior_flags=None):
    """real Model.batch_evaluate_* on live points with ids 0..n-1"""
    from nessai.livepoint import numpy_array_to_live_points
    from nessai.utils.multiprocessing import initialise_pool_variables
    pv, uv = prior_flags if prior_flags is not None else (True, True)
    m = make_model(vec, prior_vec=pv, uprior_vec=uv)
    m.likelihood_chunksize = chunk
    m.vectorised_likelihood = vec
    m.vectorised_prior = vec if prior_flags is None else pv
    m.vectorised_prior_unit_hypercube = vec if prior_flags is None else uv
    m.allow_vectorised = True
    if pool_n is not None:
        m.pool = FakePool(pool_n)
        m.n_pool = pool_n
        m.parallelise_prior = par_prior
        initialise_pool_variables(m)
    arr = np.stack([np.arange(n, dtype=float), np.linspace(-1, 1, n) if n else np.zeros(0)], axis=1)
    x = numpy_array_to_live_points(arr, m.names)
    # the non-sampling fields the points happen to carry must not matter ("for ANY batch of points"): stored log-priors of
    # -inf / NaN / finite values and stale log-likelihoods (seeded change C10-e: points with logP == -inf were skipped)
    if n:
        x["logP"] = np.array([[-np.inf, 0.0, np.nan, -1.5][(i + n) % 4] for i in range(n)])
        x["logL"] = np.array([[np.nan, 3.25, -np.inf][(i + 2 * n) % 3] for i in range(n)])
    xin = m.to_unit_hypercube(x) if unit else x
    before = m.likelihood_evaluations
    try:
        if which == "ll":
            out = m.batch_evaluate_log_likelihood(xin, unit_hypercube=unit)
            calls = m.calls
        elif which == "uprior":
            out = m.batch_evaluate_log_prior_unit_hypercube(m.to_unit_hypercube(x))
            calls = m.uprior_calls
        else:
            out = m.batch_evaluate_log_prior(xin, unit_hypercube=unit)
            calls = m.prior_calls
    except Exception as e:  # noqa
        return _exc(e), None, [], 0
    run_model_layer.last_pool_maps = m.pool.map_calls if pool_n is not None else 0
    # ids come back through an affine map in unit mode: round to the nearest integer for the
    # comparison of the call structure, the oracle checks the values exactly where it can
    canon = fmt([[round(v) for v in c] for c in calls])
    return canon, out, calls, m.likelihood_evaluations - before


def correspond(ctx):
    ctx.rule = ("(all of it under config.livepoints.default_float_dtype f8 and f4; function values carry a 2^-40 term so that "
                "a result squeezed through float32 differs) full grid n in 0..N x chunk in {None,0,1..N+1,-1} x pool in {None,1..4,unknown-size} x "
                "{vectorised array fn, scalar fn, shape-(1,) fn} on the real batch_evaluate_function with a fake "
                "order-preserving pool; then Model.batch_evaluate_log_likelihood / _log_prior (physical and unit "
                "hypercube) on the same grid subset; non-trivial = distinct (n,vec,chunk,pool,kind) with n>=1")
    ctx.assume("pool.map preserves order (multiprocessing contract); real fork pools sampled in the thorough tier only",
               "the user function is batch-consistent (what check_vectorised_function probes)")
    ctx.trust("hand-written model Model/Batch.lean + Model/Np.lean (splitChunk, splitN); tie = this correspondence",
              "numpy.array_split / concatenate (validated by the correspondence itself)")
    N = ctx.scale(12, 40)
    lines, impls, cases = [], [], []
    for dt in ("f8", "f4"):
      with float_dtype(dt):
        for n in range(N + 1):
            chunks = [None, 0, -1] + list(range(1, N + 2))
            if not ctx.quick:
                chunks = [None, 0, -1] + sorted(set(list(range(1, 8)) + [n - 1, n, n + 1, N + 1]) - {0, -1})
            for chunk in chunks:
                for pool_n, known in [(None, True), (1, True), (2, True), (3, True), (4, True), (2, False)]:
                    for vec, kind in [(True, "vec"), (False, "scalar"), (False, "arr1")]:
                        case = dict(layer="raw", n=n, vec=vec, chunk=chunk, pool=pool_n, known=known, kind=kind, float_dtype=dt)
                        canon, out, calls = run_raw(n, vec, chunk, pool_n, known, kind)
                        key = "batch_evaluate_function"
                        oracle(ctx, case, canon, out, calls, n, chunk, key)
                        np_tok = "none" if (pool_n is None or not known) else str(pool_n)
                        lines.append(f"bat calls {int(vec)} {'none' if chunk is None else chunk} "
                                     f"{int(pool_n is not None)} {np_tok} {n}")
                        impls.append(canon)
                        cases.append(case)
                        ctx.case((n, vec, chunk, pool_n, known, kind, dt), n >= 1, case, kind=("err" if out is None else kind) + ":" + dt)
    # direct primitive correspondence
    from nessai.utils.structures import array_split_chunksize
    for n in range(N + 1):
        for c in range(-1, N + 2):
            try:
                r = fmt([list(v) for v in array_split_chunksize(np.arange(n), c)])
            except Exception as e:  # noqa
                r = _exc(e)
            lines.append(f"bat split {n} {c}")
            impls.append(r)
            cases.append(dict(layer="array_split_chunksize", n=n, c=c))
            ctx.case(("split", n, c), n >= 1 and c >= 1, kind="split")
        for k in range(0, 6):
            try:
                r = fmt([list(v) for v in np.array_split(np.arange(n), k)])
            except Exception as e:  # noqa
                r = _exc(e)
            lines.append(f"bat splitn {n} {k}")
            impls.append(r)
            cases.append(dict(layer="np.array_split", n=n, k=k))
            ctx.case(("splitn", n, k), n >= 1 and k >= 1, kind="splitn")
    # Model layer
    M = ctx.scale(7, 16)
    for dt in ("f8", "f4"):
      with float_dtype(dt):
        for n in range(M + 1):
            for chunk in [None, 1, 2, 3, n + 1]:
                for pool_n in [None, 1, 3]:
                    for vec in [True, False]:
                        for unit in [False, True]:
                            for which, par in [("ll", True), ("prior", True), ("prior", False), ("uprior", True), ("uprior", False)]:
                                if which == "uprior" and unit:
                                    continue
                                case = dict(layer="Model." + which, n=n, vec=vec, chunk=chunk, pool=pool_n, unit=unit, parallelise_prior=par, float_dtype=dt)
                                canon, out, calls, delta = run_model_layer(n, vec, chunk, pool_n, unit, which, par)
                                key = "Model.batch_evaluate_log_" + {"ll": "likelihood", "prior": "prior", "uprior": "prior_unit_hypercube"}[which]
                                if out is None:
                                    ctx.oracle_fail(key, f"batch interface raised {canon} on a supported configuration", case)
                                    continue
                                flat = [v for c in calls for v in c]
                                if which == "ll":
                                    want = np.array([point_value(i) for i in range(n)])
                                    if not unit and not np.array_equal(np.asarray(out, dtype=float), want):
                                        ctx.oracle_fail(key, "batch log-likelihood differs from pointwise", case)
                                    if unit and not np.array_equal(np.asarray(out, dtype=float), want):
                                        ctx.oracle_fail(key, "unit-hypercube batch log-likelihood is not the value at the mapped physical point", case)
                                    if delta != n:
                                        ctx.oracle_fail(key + ".counter", f"likelihood_evaluations grew by {delta} for a batch of {n}", case)
                                    if chunk and vec and any(len(c) > chunk for c in calls):
                                        ctx.oracle_fail(key, "likelihood called with more than likelihood_chunksize points", case)
                                else:
                                    if delta != 0:
                                        ctx.oracle_fail(key + ".counter", "prior evaluation changed the likelihood counter", case)
                                    want = np.array([(5.0 * i + 2.0 + EPS) if which == "uprior" else (2.0 * i + 1.0 + EPS) for i in range(n)])
                                    if not np.array_equal(np.asarray(out, dtype=float).reshape(-1), want):
                                        ctx.oracle_fail(key, f"batch prior differs from pointwise evaluation of the same function: {np.asarray(out).tolist()} vs {want.tolist()}", case)
                                    if pool_n is not None and not par and run_model_layer.last_pool_maps:
                                        ctx.oracle_fail(key, "prior evaluated through the pool although parallelise_prior is False", case)
                                if [round(v) for v in flat] != list(range(n)) or any(abs(v - round(v)) > 1e-9 for v in flat):
                                    ctx.oracle_fail(key, f"points not evaluated once in order at the physical point: {calls}", case)
                                # model line: prior ignores chunksize, and the pool unless parallelise_prior
                                ch = chunk if which == "ll" else None
                                use_pool = pool_n is not None and (which == "ll" or par)
                                lines.append(f"bat calls {int(vec)} {'none' if ch is None else ch} "
                                             f"{int(use_pool)} {pool_n if use_pool else 'none'} {n}")
                                impls.append(canon)
                                cases.append(case)
                                ctx.case(("model", n, vec, chunk, pool_n, unit, which, par, dt), n >= 1, case if n == 3 else None, kind="Model." + which + ":" + dt)
    # the two prior functions have their OWN vectorisation flags: every mix, physical and unit-hypercube mode
    for n in range(M + 1):
        for pool_n in [None, 3]:
            for flags in [(False, True), (True, False), (False, False)]:
                for which, unit in [("prior", False), ("prior", True), ("uprior", False)]:
                    case = dict(layer="Model." + which, n=n, pool=pool_n, unit=unit, vectorised_prior=flags[0],
                                vectorised_prior_unit_hypercube=flags[1])
                    canon, out, calls, delta = run_model_layer(n, True, None, pool_n, unit, which, True, prior_flags=flags)
                    key = "Model.batch_evaluate_log_" + ("prior" if which == "prior" else "prior_unit_hypercube") + ".mixed-flags"
                    if out is None:
                        ctx.oracle_fail(key, f"batch interface raised {canon}: the function was handed a batch although its own "
                                        "vectorisation flag is False", case)
                        continue
                    want = np.array([(5.0 * i + 2.0 + EPS) if which == "uprior" else (2.0 * i + 1.0 + EPS) for i in range(n)])
                    if not np.array_equal(np.asarray(out, dtype=float).reshape(-1), want):
                        ctx.oracle_fail(key, f"batch prior differs from pointwise evaluation: {np.asarray(out).tolist()} vs {want.tolist()}", case)
                    ctx.case(("model-mixed", n, pool_n, flags, which, unit), n >= 2, case if n == 3 and pool_n is None else None,
                             kind="Model." + which + ":mixed-flags")
    ctx.diff_model(lines, impls, cases)
    reused_buffers(ctx)
    probe_layer(ctx)
    two_models(ctx)
    user_pools(ctx)
    if not ctx.quick:
        real_pools(ctx)


def probe_layer(ctx):
    """the REAL probe check_vectorised_function decides whether a function is treated as vectorised; whatever it decides,
    the batch result must be the pointwise values, shape (n,) (seeded change C10-eB: the probe reshaped the batch output, so
    a function returning (1, n) counted as vectorised and its (1, n) result was handed back / broke concatenation)"""
    from nessai.utils.multiprocessing import batch_evaluate_function, check_vectorised_function

    def f_ok(b):
        return np.atleast_1d(b) * 3.0 - 7.0 + EPS

    def f_row(b):                       # parameters-in-rows style: (1, n) for a batch, (1, 1) for one point
        return (np.atleast_1d(b) * 3.0 - 7.0 + EPS).reshape(1, -1)

    def f_col(b):                       # (n, 1)
        return (np.atleast_1d(b) * 3.0 - 7.0 + EPS).reshape(-1, 1)

    def f_scalar_only(v):
        if np.ndim(v) != 0:
            raise TypeError("scalar only")
        return float(v) * 3.0 - 7.0 + EPS

    def f_reduce(b):                    # reduces a batch to one number (NOT vectorised): pointwise it is the value
        b = np.atleast_1d(b)
        return float(np.sum(b * 3.0 - 7.0 + EPS)) if b.size > 1 else float(b[0] * 3.0 - 7.0 + EPS)

    def f_approx(b):                    # a batch kernel that reproduces the point path only to ~1e-9 (e.g. lower precision):
        b = np.atleast_1d(b)            # NOT vectorised in the property's sense — the batch interface must go point by point
        v = b * 3.0 - 7.0 + EPS
        return v * (1.0 + 2.0 ** -30) if b.size > 1 else float(v[0])

    def f_approx32(b):                  # the same in single precision: a float32 result whose batch path is off by 2^-22
        b = np.atleast_1d(b)            # (seeded change C14-hB took the tolerance from the resolution of the returned dtype)
        v = (b * 3.0 - 7.0).astype(np.float32)
        return (v * np.float32(1.0 + 2.0 ** -22)).astype(np.float32) if b.size > 1 else np.float32(v[0])

    for name, f in (("(n,)", f_ok), ("(1,n)", f_row), ("(n,1)", f_col), ("scalar-only", f_scalar_only), ("reducing", f_reduce),
                    ("approximate-batch-path", f_approx), ("approximate-batch-path-f32", f_approx32)):
        for n in (1, 2, 5):
            for chunk in (None, 2):
                for pool_n in (None, 2):
                    x = np.arange(n, dtype=float)
                    case = dict(layer="probe", function_output=name, n=n, chunk=chunk, pool=pool_n)
                    try:
                        vec = bool(check_vectorised_function(f, np.arange(3, dtype=float) + 0.5))
                    except Exception as e:  # noqa
                        ctx.oracle_fail("check_vectorised_function:raised", f"{_exc(e)}: {e}", case)
                        continue
                    pool = FakePool(pool_n) if pool_n else None
                    try:
                        out = batch_evaluate_function(f, x, vec, chunksize=chunk, pool=pool, n_pool=pool_n)
                    except Exception as e:  # noqa
                        ctx.oracle_fail("batch_evaluate_function", f"probe said vectorised={vec} for a function returning {name}; the batch "
                                        f"call then raised {_exc(e)}: {e}", case)
                        continue
                    want = np.array([point_value(i) for i in range(n)])
                    if name.endswith("-f32"):
                        want = np.array([float(np.float32(i * 3.0 - 7.0)) for i in range(n)])
                    out = np.asarray(out, dtype=float)
                    if out.shape != want.shape or not np.array_equal(out, want):
                        ctx.oracle_fail("batch_evaluate_function", f"probe said vectorised={vec} for a function returning {name}: batch result "
                                        f"shape {out.shape} {out.tolist()} differs from the pointwise values {want.tolist()}", case)
                    ctx.case(("probe", name, n, chunk, pool_n), True, case if n == 2 and chunk is None else None, kind="probe:" + name)


def reused_buffers(ctx):
    """SEQUENCES of batch calls on ONE model with ONE input buffer that is refilled in place between the calls (what a
    caller that reuses its arrays does): every call must see the current content (seeded change C10-d: mapped points cached
    by the identity of the input array).  Physical and unit-hypercube mode, likelihood and prior, pools, vectorised or not."""
    from nessai.livepoint import numpy_array_to_live_points
    from nessai.utils.multiprocessing import initialise_pool_variables
    for vec in (True, False):
        for pool_n in (None, 2):
            for unit in (False, True):
                for chunk in (None, 3):
                    m = make_model(vec)
                    m.likelihood_chunksize = chunk
                    m.vectorised_likelihood = m.vectorised_prior = m.vectorised_prior_unit_hypercube = vec
                    m.allow_vectorised = True
                    if pool_n is not None:
                        m.pool, m.n_pool, m.parallelise_prior = FakePool(pool_n), pool_n, True
                        initialise_pool_variables(m)
                    n = 7
                    buf = numpy_array_to_live_points(np.stack([np.arange(n, dtype=float), np.linspace(-1, 1, n)], axis=1), m.names)
                    if unit:
                        buf = m.to_unit_hypercube(buf)
                    for rnd in range(3):
                        ids = np.arange(n, dtype=float) + 10.0 * rnd          # refill IN PLACE, same array object
                        buf["id"] = ids / 1024.0 if unit else ids
                        case = dict(layer="Model.reused-buffer", vec=vec, pool=pool_n, unit=unit, chunk=chunk, round=rnd)
                        before = m.likelihood_evaluations
                        try:
                            ll = np.asarray(m.batch_evaluate_log_likelihood(buf, unit_hypercube=unit), dtype=float)
                            lp = np.asarray(m.batch_evaluate_log_prior(buf, unit_hypercube=unit), dtype=float).reshape(-1)
                        except Exception as e:  # noqa
                            ctx.oracle_fail("Model.batch_evaluate_log_likelihood", f"batch interface raised {_exc(e)} on a reused buffer", case)
                            break
                        want_ll = np.array([point_value(i) for i in ids])
                        want_lp = np.array([2.0 * i + 1.0 + EPS for i in ids])
                        if not np.array_equal(ll, want_ll):
                            ctx.oracle_fail("Model.batch_evaluate_log_likelihood",
                                            f"call #{rnd} on a buffer refilled in place returned {ll.tolist()}, pointwise values of the "
                                            f"CURRENT content are {want_ll.tolist()}", case)
                        if not np.array_equal(lp, want_lp):
                            ctx.oracle_fail("Model.batch_evaluate_log_prior",
                                            f"call #{rnd} on a buffer refilled in place returned {lp.tolist()}, pointwise values of the "
                                            f"CURRENT content are {want_lp.tolist()}", case)
                        if m.likelihood_evaluations - before != n:
                            ctx.oracle_fail("Model.batch_evaluate_log_likelihood.counter",
                                            f"likelihood_evaluations grew by {m.likelihood_evaluations - before} for a batch of {n}", case)
                        ctx.case(("reused", vec, pool_n, unit, chunk, rnd), True, case if rnd == 1 and vec and unit else None,
                                 kind="Model.reused-buffer")


def _pw(v):
    return float(v) * 3.0 - 7.0 + EPS


def _pv(b):
    return np.atleast_1d(b) * 3.0 - 7.0 + EPS


def real_pools(ctx):
    """thorough: real fork pools on a sample of the grid (order preservation of Pool.map observed)"""
    from nessai.utils.multiprocessing import batch_evaluate_function
    mpc = multiprocessing.get_context("fork")
    for p in (1, 2, 3, 4):
        with mpc.Pool(p) as pool:
            for n in (0, 1, 2, 5, 17, 40):
                for chunk in (None, 1, 3, 41):
                    for vec in (True, False):
                        x = np.arange(n, dtype=float)
                        out = batch_evaluate_function(_pv if vec else _pw, x, vec, chunksize=chunk, pool=pool, n_pool=p)
                        case = dict(layer="forkpool", n=n, vec=vec, chunk=chunk, pool=p)
                        if not np.array_equal(np.asarray(out, dtype=float), x * 3.0 - 7.0 + EPS):
                            ctx.oracle_fail("batch_evaluate_function", "fork pool result differs from pointwise", case)
                        ctx.case(("fork", n, vec, chunk, p), n >= 1, kind="forkpool")


def user_pools(ctx):
    """USER-SUPPLIED pools handed to `Model.configure_pool(pool=…)` WITHOUT `n_pool`: the number of workers is whatever nessai can
    read off the object (`_processes`, a ray `_actor_pool`, nothing at all, or — schwimmbad-style — an integer `size`, which is 0
    for a serial pool).  Whatever it concludes, the batch interface must return the pointwise values, in order, and count each point
    once (seeded change C10-jA: `get_n_pool` started to read `size`; a serial pool's 0 got past the `n_pool is None` guard and the
    vectorised batch was split into `None` pieces -> TypeError)."""
    from nessai.livepoint import numpy_array_to_live_points
    from nessai.model import Model
    from nessai.utils.multiprocessing import initialise_pool_variables

    class Base:
        def __init__(self):
            self.map_calls = 0

        def map(self, func, iterable):
            self.map_calls += 1
            return [func(v) for v in iterable]

        def close(self): pass
        def join(self): pass
        def terminate(self): pass

    def mk_pool(kind):
        pool = Base()
        if kind.startswith("processes"):
            pool._processes = int(kind.split("=")[1])
        elif kind.startswith("actors"):
            pool._actor_pool = [object()] * int(kind.split("=")[1])
        elif kind.startswith("size"):
            pool.size = int(kind.split("=")[1])
        return pool

    class M(Model):
        def __init__(self):
            self.names = ["id", "y"]
            self.bounds = {"id": [0.0, 1024.0], "y": [-2.0, 2.0]}

        def log_prior(self, x):
            return np.atleast_1d(x["id"]).astype(float) * 2.0 - 1.0 + EPS

        def log_likelihood(self, x):
            return np.atleast_1d(x["id"]).astype(float) * 3.0 - 7.0 + EPS

    for kind in ("processes=3", "actors=2", "unknown", "size=0", "size=1", "size=3"):
        for vec in (True, False):
            for chunk in (None, 2):
                m = M()
                m.vectorised_likelihood = vec
                m.vectorised_prior = True
                case = dict(layer="user-pool", pool=kind, vectorised=vec, chunksize=chunk)
                n = 7
                x = numpy_array_to_live_points(np.stack([np.arange(n, dtype=float), np.zeros(n)], axis=1), m.names)
                want = np.arange(n, dtype=float) * 3.0 - 7.0 + EPS
                try:
                    initialise_pool_variables(m)
                    m.configure_pool(pool=mk_pool(kind))
                    if chunk is not None:
                        m.likelihood_chunksize = chunk
                    before = int(m.likelihood_evaluations)
                    out = np.asarray(m.batch_evaluate_log_likelihood(x), dtype=float)
                    counted = int(m.likelihood_evaluations) - before
                except Exception as e:  # noqa
                    ctx.oracle_fail("Model.batch_evaluate_log_likelihood.user-pool",
                                    f"user-supplied pool ({kind}), vectorised={vec}, chunksize={chunk}: configure_pool / the batch interface raised "
                                    f"{_exc(e)}: {e}", case)
                    continue
                if out.shape != want.shape or not np.array_equal(out, want) or counted != n:
                    ctx.oracle_fail("Model.batch_evaluate_log_likelihood.user-pool",
                                    f"user-supplied pool ({kind}), vectorised={vec}, chunksize={chunk}: returned {out.tolist()} (pointwise "
                                    f"{want.tolist()}), counter advanced by {counted} for {n} points", case)
                ctx.case(("user-pool", kind, vec, chunk), True, case, kind="user-pool:" + kind.split("=")[0])


def two_models(ctx):
    """two models in one process: model A evaluates through a USER-SUPPLIED pool prepared as documented
    (`initialise_pool_variables(A)`, then a thread pool whose workers read the process-wide model); afterwards a second model B
    gets a pool of its own through `n_pool`.  A's batch interface must keep returning A's values (seeded change C10-hB made
    `configure_pool(n_pool=…)` overwrite the process-wide model in the parent)."""
    import multiprocessing.dummy
    from nessai.livepoint import numpy_array_to_live_points
    from nessai.model import Model
    from nessai.utils.multiprocessing import initialise_pool_variables

    def mk(a, b):
        class M(Model):
            def __init__(self):
                self.names = ["id", "y"]
                self.bounds = {"id": [0.0, 1024.0], "y": [-2.0, 2.0]}

            def log_prior(self, x):
                return np.atleast_1d(x["id"]).astype(float) * 2.0 + b + EPS

            def log_likelihood(self, x):
                return np.atleast_1d(x["id"]).astype(float) * a + b + EPS
        return M()

    for vec in (True, False):
        A, B = mk(3.0, -7.0), mk(11.0, 5.0)
        for m in (A, B):
            m.vectorised_likelihood = vec
            m.vectorised_prior = True
        initialise_pool_variables(A)
        tp = multiprocessing.dummy.Pool(2)
        case = dict(layer="two-models", vectorised=vec)
        try:
            A.configure_pool(pool=tp, n_pool=2)
            B.configure_pool(n_pool=2)
            n = 6
            x = numpy_array_to_live_points(np.stack([np.arange(n, dtype=float), np.zeros(n)], axis=1), A.names)
            try:
                out = np.asarray(A.batch_evaluate_log_likelihood(x), dtype=float)
            except Exception as e:  # noqa
                ctx.oracle_fail("Model.batch_evaluate_log_likelihood.two-models", f"model A's batch interface raised {_exc(e)}: {e}", case)
                continue
            want = np.arange(n, dtype=float) * 3.0 - 7.0 + EPS
            if not np.array_equal(out, want):
                ctx.oracle_fail("Model.batch_evaluate_log_likelihood.two-models",
                                f"model A, evaluating through its own user-supplied pool after a second model was given a pool with "
                                f"n_pool, returns {out.tolist()} instead of its own pointwise values {want.tolist()}", case)
            ctx.case(("two-models", vec), True, case, kind="two-models")
        finally:
            try:
                B.close_pool()
            except Exception:  # noqa
                pass
            tp.close()
            tp.join()
            initialise_pool_variables(None)


def search(ctx):
    # the correspondence grid is already exhaustive for its bounds; enlarge N
    pass


def replay(ctx, obj):
    c = obj["case"]
    if c.get("layer") == "raw":
        with float_dtype(c.get("float_dtype", "f8")):
            canon, out, calls = run_raw(c["n"], c["vec"], c["chunk"], c["pool"], c["known"], c["kind"])
            oracle(ctx, c, canon, out, calls, c["n"], c["chunk"], obj["key"])
        ctx.case(repr(c), True, c)
    else:
        correspond(ctx)
