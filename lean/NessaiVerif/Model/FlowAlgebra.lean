/-
C08 — the log-density bookkeeping of nessai's flow wrappers (core Lean only).

Everything below is generic: points live in arbitrary types `X` (data / x'-space / physical space)
and `Z` (latent space); log-densities and log-Jacobians live in a type `L` that only needs the
operations the code uses (`+`, `-`, unary `-`, `0`).  The driver runs the definitions at `L := Rat`
on the primitives read from the real torch objects; the theorems (Props/C08.lean) hold for every
additive commutative group `L` (so for ℚ and ℝ).

A *transform* is what glasflow calls a `Transform`: `forward` and `inverse`, each returning the mapped
point and the log|det J| of the map it applied.
-/
namespace NessaiVerif.Flow

/-- `glasflow.nflows.transforms.Transform`: `fwd x = (z, log|det dz/dx|)`, `inv z = (x, log|det dx/dz|)`. -/
structure Transform (X Z L : Type) where
  fwd : X → Z × L
  inv : Z → X × L

variable {X Y Z L K : Type}

/-- The lawful-transform hypothesis: `fwd` and `inv` are mutual inverses and report opposite log-Jacobians. -/
def Lawful [Neg L] (t : Transform X Z L) : Prop :=
  (∀ x, t.inv (t.fwd x).1 = (x, -(t.fwd x).2)) ∧ (∀ z, t.fwd (t.inv z).1 = (z, -(t.inv z).2))

/-- The round trip at ONE latent / prime point `z`: the inverse image of `z` maps forward to `z` with the opposite
log-Jacobian.  This pointwise statement is all the density theorems use (of the flow at the generating latent point, of the
reparameterisation at the generated x'-point); it follows from `Lawful` but also holds at the generated points of
reparameterisations that are not globally invertible (boundary inversion, angles, logit outside (0,1)). -/
def RoundTripAt [Neg L] (t : Transform X Z L) (z : Z) : Prop :=
  t.fwd (t.inv z).1 = (z, -(t.inv z).2)

/-- two transforms in sequence; log-Jacobians add in the order the maps are applied -/
def Transform.comp [Add L] (t1 : Transform X Y L) (t2 : Transform Y Z L) : Transform X Z L where
  fwd x := let a := t1.fwd x; let b := t2.fwd a.1; (b.1, a.2 + b.2)
  inv z := let b := t2.inv z; let a := t1.inv b.1; (a.1, b.2 + a.2)

/-- `CompositeTransform._cascade`: start from `total_logabsdet = 0`, apply the functions left to right,
accumulate `total_logabsdet += logabsdet`. -/
def cascade [Add L] [OfNat L 0] (fs : List (X → X × L)) (x : X) : X × L :=
  fs.foldl (fun acc f => let r := f acc.1; (r.1, acc.2 + r.2)) (x, 0)

/-- `CompositeTransform(layers)`: forward cascades the layers' `forward`, inverse cascades the
`inverse`s of the reversed list (what RealNVP / MaskedAutoregressiveFlow / NeuralSplineFlow build). -/
def composite [Add L] [OfNat L 0] (ts : List (Transform X X L)) : Transform X X L where
  fwd := cascade (ts.map (·.fwd))
  inv := cascade (ts.reverse.map (·.inv))

/-! ### primitive layers on `Fin n → K` (feature vectors)

`lg` stands for `log|·|`; the layer algebra does not depend on which function it is. -/

/-- the conditioner of a coupling layer sees the features that are *not* transformed -/
def maskOut [OfNat K 0] {n : Nat} (m : Fin n → Bool) (x : Fin n → K) : Fin n → K :=
  fun i => if m i then 0 else x i

/-- the multiplicative volume factor of a masked elementwise scaling: `∏_{i ∈ mask} s i` -/
def scaleProd [Mul K] [One K] {n : Nat} (m : Fin n → Bool) (s : Fin n → K) : K :=
  (List.ofFn fun i => if m i then s i else 1).prod

/-- the log-Jacobian the layer reports: `Σ_{i ∈ mask} lg (s i)` (`sum(log_scale)`) -/
def scaleLogSum [Add L] [Zero L] {n : Nat} (lg : K → L) (m : Fin n → Bool) (s : Fin n → K) : L :=
  (List.ofFn fun i => if m i then lg (s i) else 0).sum

/-- Affine coupling layer (`AffineCouplingTransform`): masked features `x i ↦ x i * s(c) i + t(c) i`
with `c` the unmasked features, arbitrary conditioner functions `s`, `t`; the other features pass through. -/
def coupling [Add K] [Sub K] [Mul K] [Div K] [OfNat K 0] [Add L] [Neg L] [Zero L] {n : Nat}
    (lg : K → L) (m : Fin n → Bool) (s t : (Fin n → K) → Fin n → K) :
    Transform (Fin n → K) (Fin n → K) L where
  fwd x :=
    let c := maskOut m x
    (fun i => if m i then x i * s c i + t c i else x i, scaleLogSum lg m (s c))
  inv y :=
    let c := maskOut m y
    (fun i => if m i then (y i - t c i) / s c i else y i, -(scaleLogSum lg m (s c)))

/-- Elementwise affine layer (`ActNorm`, `BatchNorm` in eval mode): `x i ↦ x i * a i + b i`. -/
def affine [Add K] [Sub K] [Mul K] [Div K] [Add L] [Neg L] [Zero L] {n : Nat}
    (lg : K → L) (a b : Fin n → K) : Transform (Fin n → K) (Fin n → K) L where
  fwd x := (fun i => x i * a i + b i, scaleLogSum lg (fun _ => true) a)
  inv y := (fun i => (y i - b i) / a i, -(scaleLogSum lg (fun _ => true) a))

/-- Permutation layer (`RandomPermutation`, `ReversePermutation`): `outputs = inputs[:, σ]`, log|det| = 0. -/
def permutation [OfNat L 0] {n : Nat} (σ σinv : Fin n → Fin n) : Transform (Fin n → K) (Fin n → K) L where
  fwd x := (fun i => x (σ i), 0)
  inv y := (fun i => y (σinv i), 0)

/-! ### autoregressive and triangular (LU) layers -/

/-- `n` applications of `f` (the `for _ in range(n)` loop of `AutoregressiveTransform.inverse`) -/
def iterN {α : Type} (f : α → α) : Nat → α → α
  | 0, a => a
  | k + 1, a => f (iterN f k a)

/-- one sweep of the inverse loop: `outputs = (inputs - shift(outputs)) / scale(outputs)`, all features at once -/
def arStep [Sub K] [Div K] {n : Nat} (s t : Fin n → (Fin n → K) → K) (y x : Fin n → K) : Fin n → K :=
  fun i => (y i - t i x) / s i x

/-- Masked affine autoregressive layer (`MaskedAffineAutoregressiveTransform`, the MAF/MADE layer):
forward in one pass `y i = s i x * x i + t i x` with log|det| `Σ lg (s i x)`; inverse by the literal loop — start from
zeros, `n` sweeps of `arStep`, log|det| `-Σ lg (s i ·)` taken from the parameters of the last sweep.
`s i`, `t i` are arbitrary functions of the whole point here; that they only look at the strict prefix `x 0 … x (i-1)`
is the hypothesis `PrefixDep` of the theorems (what MADE's masks enforce). -/
def autoregressive [Add K] [Sub K] [Mul K] [Div K] [OfNat K 0] [Add L] [Neg L] [Zero L] {n : Nat}
    (lg : K → L) (s t : Fin n → (Fin n → K) → K) : Transform (Fin n → K) (Fin n → K) L where
  fwd x := (fun i => x i * s i x + t i x, scaleLogSum lg (fun _ => true) (fun i => s i x))
  inv y :=
    let prev := iterN (arStep s t y) (n - 1) (fun _ => 0)
    (arStep s t y prev, -(scaleLogSum lg (fun _ => true) (fun i => s i prev)))

/-- `f i` only depends on the strict prefix of its argument -/
def PrefixDep {n : Nat} {β : Type} (f : Fin n → (Fin n → K) → β) : Prop :=
  ∀ i x x', (∀ j : Fin n, j.val < i.val → x j = x' j) → f i x = f i x'

/-- `Σ_{j < i} A i j * x j`: the strictly-lower part of row `i` applied to `x` -/
def lowerRow [Add K] [Mul K] [Zero K] {n : Nat} (A : Fin n → Fin n → K) (x : Fin n → K) (i : Fin n) : K :=
  (List.ofFn fun j : Fin n => if j.val < i.val then A i j * x j else 0).sum

/-- lower-triangular affine map `y i = d i * x i + Σ_{j<i} A i j * x j + b i` as the autoregressive layer with
constant scales `d` and affine shifts; its inverse loop is forward substitution -/
def triLower [Add K] [Sub K] [Mul K] [Div K] [Zero K] [Add L] [Neg L] [Zero L] {n : Nat}
    (lg : K → L) (d : Fin n → K) (A : Fin n → Fin n → K) (b : Fin n → K) : Transform (Fin n → K) (Fin n → K) L :=
  autoregressive lg (fun i _ => d i) (fun i x => lowerRow A x i + b i)

/-- index reversal `i ↦ n-1-i` -/
def finRev {n : Nat} (i : Fin n) : Fin n := ⟨n - 1 - i.val, by have := i.isLt; omega⟩

/-- upper-triangular affine map `y i = d i * x i + Σ_{j>i} A i j * x j + b i`: the lower-triangular map of the
reversed matrix between two index reversals (back substitution) -/
def triUpper [Add K] [Sub K] [Mul K] [Div K] [Zero K] [Add L] [Neg L] [Zero L] {n : Nat}
    (lg : K → L) (d : Fin n → K) (A : Fin n → Fin n → K) (b : Fin n → K) : Transform (Fin n → K) (Fin n → K) L :=
  (permutation finRev finRev).comp
    ((triLower lg (fun i => d (finRev i)) (fun i j => A (finRev i) (finRev j)) (fun i => b (finRev i))).comp
      (permutation finRev finRev))

/-- `LULinear`: `outputs = lower @ (upper @ x) + bias` with unit-diagonal `lower` (strict part `Lo`) and `upper` with
diagonal `ud` (strict part `Up`); log|det| is `Σ lg (ud i)` forwards and its negative backwards, as the code
reports it (independent of the point); the inverse is the two triangular solves.
This is the `forward_no_cache` / `inverse_no_cache` evaluation path (training mode).  nessai builds the layer with
`using_cache=True`, so in eval mode glasflow evaluates the SAME function through cached matrices: `F.linear(x, W, bias)`
with `W = lower @ upper` and `F.linear(y - bias, W⁻¹)` with `W⁻¹` obtained from the same two triangular solves applied to
the identity; the log|det| is the same expression.  `Props/C08.lean` `lu_linear_cached_path_same_function` proves that
the forward map equals the product with `W` and that ANY left inverse of it (in particular `y ↦ W⁻¹ (y - b)`) coincides
with the modelled inverse, so the two paths differ only in floating-point rounding. -/
def luLinear [Add K] [Sub K] [Mul K] [Div K] [Zero K] [OfNat K 1] [Add L] [Neg L] [Zero L] {n : Nat}
    (lg : K → L) (Lo : Fin n → Fin n → K) (ud : Fin n → K) (Up : Fin n → Fin n → K) (b : Fin n → K) :
    Transform (Fin n → K) (Fin n → K) L :=
  let C := (triUpper lg ud Up (fun _ => 0)).comp (triLower lg (fun _ => 1) Lo b)
  { fwd := fun x => ((C.fwd x).1, scaleLogSum lg (fun _ => true) ud)
    inv := fun y => ((C.inv y).1, -(scaleLogSum lg (fun _ => true) ud)) }

/-! ### `nessai.flows.base.NFlow` -/

/-- an `NFlow`: a transform and the base distribution's `log_prob` -/
structure NFlowM (X Z L : Type) where
  T : Transform X Z L
  base : Z → L

namespace NFlowM
variable [Add L] [Sub L]

/-- `NFlow.forward` -/
def forward (f : NFlowM X Z L) (x : X) : Z × L := f.T.fwd x
/-- `NFlow.inverse` -/
def inverse (f : NFlowM X Z L) (z : Z) : X × L := f.T.inv z
/-- `NFlow.base_distribution_log_prob` -/
def baseLogProb (f : NFlowM X Z L) (z : Z) : L := f.base z

/-- `NFlow.log_prob`: `noise, logabsdet = transform(x); return distribution.log_prob(noise) + logabsdet` -/
def logProb (f : NFlowM X Z L) (x : X) : L :=
  let r := f.T.fwd x
  f.base r.1 + r.2

/-- `NFlow.forward_and_log_prob`: `z, log_J = forward(x); return z, base_log_prob(z) + log_J` -/
def forwardAndLogProb (f : NFlowM X Z L) (x : X) : Z × L :=
  let r := f.forward x
  (r.1, f.baseLogProb r.1 + r.2)

/-- `NFlow.sample_and_log_prob`; `noise` is the draw of `distribution.sample_and_log_prob` (its reported
log-density is `base noise`): `samples, logabsdet = transform.inverse(z); return samples, log_prob - logabsdet` -/
def sampleAndLogProb (f : NFlowM X Z L) (noise : Z) : X × L :=
  let r := f.T.inv noise
  (r.1, f.base noise - r.2)

/-- `NFlow.sample`: the inverse image of the noise, Jacobian discarded -/
def sample (f : NFlowM X Z L) (noise : Z) : X := (f.T.inv noise).1

end NFlowM

/-! ### `nessai.flowmodel.base.FlowModel` (numpy-level interface; casts are not modelled) -/
section FlowModel
variable [Add L] [Sub L]

/-- `FlowModel.forward_and_log_prob` -/
def fmForwardAndLogProb (f : NFlowM X Z L) (x : X) : Z × L := f.forwardAndLogProb x

/-- `FlowModel.log_prob` -/
def fmLogProb (f : NFlowM X Z L) (x : X) : L := f.logProb x

/-- `FlowModel.sample_and_log_prob(N, z, alt_dist)`:
without `z` it is the flow's own `sample_and_log_prob`; with supplied `z` the base term is
`alt_dist.log_prob(z)` if an alternative distribution is given and the flow's base density otherwise,
and `log_prob -= log_J` with `x, log_J = model.inverse(z)`. -/
def fmSampleAndLogProb (f : NFlowM X Z L) (noise : Z) (z : Option Z) (alt : Option (Z → L)) : X × L :=
  match z with
  | none => f.sampleAndLogProb noise
  | some z =>
    let logProbFn : Z → L := match alt with
      | some a => a
      | none => f.baseLogProb
    let logp := logProbFn z
    let r := f.inverse z
    (r.1, logp - r.2)

end FlowModel

/-! ### `nessai.proposal.flowproposal.FlowProposal`

`R` is the reparameterisation (`rescale` = `R.fwd`: physical → x', `inverse_rescale` = `R.inv`).  The row
filters (`discard_nans`, `check_prior_bounds`) drop whole rows and are not modelled. -/
section FlowProposal
variable [Add L] [Sub L] [OfNat L 0]

/-- `FlowProposal.forward_pass(x, rescale)`:
`log_J = 0; if rescale: x, log_J_rescale = rescale(x); log_J += log_J_rescale;`
`z, log_prob = flow.forward_and_log_prob(x); return z, log_prob + log_J` -/
def fpForwardPass (f : NFlowM X Z L) (R : Transform X X L) (rescale : Bool) (x : X) : Z × L :=
  let logJ0 : L := 0
  let p : X × L := if rescale then (let r := R.fwd x; (r.1, logJ0 + r.2)) else (x, logJ0)
  let r := fmForwardAndLogProb f p.1
  (r.1, r.2 + p.2)

/-- `FlowProposal.backward_pass(z, rescale)`:
`x, log_prob = flow.sample_and_log_prob(z=z, alt_dist=self.alt_dist);`
`if rescale: x, log_J = inverse_rescale(x); log_prob -= log_J` -/
def fpBackwardPass (f : NFlowM X Z L) (R : Transform X X L) (alt : Option (Z → L)) (rescale : Bool) (z : Z) :
    X × L :=
  let r := fmSampleAndLogProb f z (some z) alt
  if rescale then (let q := R.inv r.1; (q.1, r.2 - q.2)) else r

end FlowProposal

/-! ### `ImportanceFlowModel` / `ImportanceFlowProposal`

`fs` is the list of flows (`ImportanceFlowModel.models`); column 0 of a `log_q` row belongs to the
initial proposal (uniform on the unit hypercube, log-density 0, no Jacobian), column `i+1` to flow `i`. -/
section Importance
variable [Add L] [Sub L] [OfNat L 0]

/-- `ImportanceFlowModel.log_prob_ith` -/
def ifmLogProbIth (fs : List (NFlowM X Z L)) (x' : X) (i : Nat) : Option L := (fs[i]?).map (·.logProb x')
/-- `ImportanceFlowModel.log_prob_all` -/
def ifmLogProbAll (fs : List (NFlowM X Z L)) (x' : X) : List L := fs.map (·.logProb x')
/-- `ImportanceFlowModel.sample_ith` -/
def ifmSampleIth (fs : List (NFlowM X Z L)) (i : Nat) (noise : Z) : Option X := (fs[i]?).map (·.sample noise)

/-- the `log_q` row of `compute_log_Q(x_prime, log_j)`: `[0, log_prob_all(x') + log_j]` -/
def ifpLogQRow (fs : List (NFlowM X Z L)) (x' : X) (logj : L) : List L :=
  0 :: (ifmLogProbAll fs x').map (· + logj)

/-- `compute_meta_proposal_samples(samples)`: `x, log_j = rescale(samples); compute_log_Q(x, log_j)` -/
def ifpMetaRow (fs : List (NFlowM X Z L)) (R : Transform X X L) (x : X) : List L :=
  let r := R.fwd x
  ifpLogQRow fs r.1 r.2

/-- `update_log_q(samples, log_q)`: append `log_prob_ith(x', level) + log_j` with `x', log_j = rescale(samples)` -/
def ifpUpdateLogQ (fs : List (NFlowM X Z L)) (R : Transform X X L) (level : Nat) (x : X) (logq : List L) :
    Option (List L) :=
  let r := R.fwd x
  (ifmLogProbIth fs r.1 level).map fun lp => logq ++ [lp + r.2]

/-- `draw(n, flow_number = i)` for one accepted point: `x' = sample_ith(i)`, `x, _ = inverse_rescale(x')`
(then `clip` when enabled), `_, log_j = rescale(x)`, and the row is `compute_log_Q(x', log_j)` — evaluated at the
*generated* `x'`, with the Jacobian of the re-rescaled `x`. -/
def ifpDraw (fs : List (NFlowM X Z L)) (R : Transform X X L) (clip : X → X) (i : Nat) (noise : Z) :
    Option (X × List L) :=
  (ifmSampleIth fs i noise).map fun x' =>
    let q := R.inv x'
    let x := clip q.1
    let c := R.fwd x
    (x, ifpLogQRow fs x' c.2)

end Importance

end NessaiVerif.Flow
