import NessaiVerif.Proofs.ReparamBox
import NessaiVerif.Proofs.ReparamPrior
import NessaiVerif.Proofs.ReparamCombine
import NessaiVerif.Proofs.ReparamReal
/-
C07 — reparameterisations are exact bijections with consistent Jacobians and priors.
Property theorems only.  Stage 1 (any linearly ordered field `K`, so ℚ — what the driver executes — and ℝ): the affine
family.  Stage 2 (ℝ): the transcendental maps.  Jacobians are multiplicative factors `J` in stage 1 (the code stores
`log J`: "J_fwd · J_inv = 1" ⇔ "the two log-Jacobians are negatives"), log-Jacobians in stage 2.
-/
namespace NessaiVerif.C07
open NessaiVerif.Reparam

section Exact
variable {K : Type} [Field K] [LinearOrder K] [IsStrictOrderedRing K]

/-! ## ScaleAndShift / Rescale -/

/-- ScaleAndShift with a non-zero scale (given, or estimated by `update`): mapping forward and back returns the
original value and the two Jacobian factors multiply to one. -/
theorem ss_roundtrip_jac_inv (r : SS K) (s x : K) (hs : r.scale = some s) (h0 : s ≠ 0) :
    ∃ y j j', ssFwd r x = .ok (y, j) ∧ ssInv r y = .ok (x, j') ∧ j * j' = 1 :=
  ss_lawful r s x hs h0

example : (ssFwd (⟨some 4, some 1, false, false⟩ : SS Rat) 3).toOption = some (1 / 2, 1 / 4) ∧
    (ssInv (⟨some 4, some 1, false, false⟩ : SS Rat) (1 / 2)).toOption = some (3, 4) := by decide +kernel

/-- the guard `scale ≠ 0` is needed: a zero scale (e.g. `np.std` of constant data after `update`) collapses every point -/
theorem ss_roundtrip_fails_without :
    ∃ y j, ssFwd (⟨some 0, none, true, false⟩ : SS Rat) 3 = .ok (y, j) ∧
      (ssInv (⟨some 0, none, true, false⟩ : SS Rat) y).toOption ≠ some (3, 1) :=
  ⟨0, 0, by decide +kernel, by decide +kernel⟩

/-- ScaleAndShift: the reported factor `1/|scale|` does not depend on the point and is the absolute slope of the map,
`|f x − f y| = J·|x − y|`, i.e. exactly `|det J|` of the one-dimensional map. -/
theorem ss_jac_is_derivative (r : SS K) (s : K) (hs : r.scale = some s) (h0 : s ≠ 0) :
    ∃ J : K, 0 ≤ J ∧ ∀ x y, ∃ fx fy, ssFwd r x = .ok (fx, J) ∧ ssFwd r y = .ok (fy, J) ∧ |fx - fy| = J * |x - y| := by
  obtain ⟨J, hJ, hc, hd⟩ := ss_affineJ s r.shift h0
  refine ⟨J, hJ, fun x y => ⟨(ssF s r.shift x).1, (ssF s r.shift y).1, ?_, ?_, hd x y⟩⟩
  · rw [ssFwd_eq r s x hs, ← hc x]
  · rw [ssFwd_eq r s y hs, ← hc y]

example : ∃ s : Rat, s ≠ 0 := ⟨-2, by decide⟩

/-- `update` of the z-score variant sets scale := std(data) and shift := mean(data): with four points −1, −1, 1, 1 the
model accepts the witness 1 for the square root and the updated map sends the mean to 0. -/
theorem ss_update_example :
    (ssUpdate (⟨some 1, some 0, true, true⟩ : SS Rat) [4, 4, 6, 6] 1).map (fun r => (r.scale, r.shift)) = some (some 1, some 5) := by
  decide +kernel

/-! ## the elementary rescalings of nessai/utils/rescaling.py -/

/-- `rescale_zero_to_one` / `inverse_rescale_zero_to_one` and `rescale_minus_one_to_one` / inverse are mutually inverse with
reciprocal Jacobian factors whenever `xmin ≠ xmax`. -/
theorem utils_roundtrip_jac_inv (a b x : K) (h : a ≠ b) :
    ((inverseRescaleZeroToOne (rescaleZeroToOne x a b).1 a b).1 = x ∧
     (rescaleZeroToOne x a b).2 * (inverseRescaleZeroToOne (rescaleZeroToOne x a b).1 a b).2 = 1) ∧
    ((inverseRescaleMinusOneToOne (rescaleMinusOneToOne x a b).1 a b).1 = x ∧
     (rescaleMinusOneToOne x a b).2 * (inverseRescaleMinusOneToOne (rescaleMinusOneToOne x a b).1 a b).2 = 1) :=
  ⟨z2o_lawful a b x h, m2o_lawful a b x h⟩

example : (rescaleMinusOneToOne (3 : Rat) 2 6, inverseRescaleMinusOneToOne (-1 / 2 : Rat) 2 6) = ((-1 / 2, 1 / 2), (3, 2)) := by
  decide +kernel

/-! ## RescaleToBounds -/

/-- **Round trip and Jacobian consistency of RescaleToBounds** for one parameter, any state (before or after `update`), any
rescale bounds / offset / inversion type / edge decision / sign bit, any pre- and post-rescaling hooks, under the exact
regularity guard: bounds distinct, target interval non-degenerate when no inversion is configured, the reflected value
on the kept side of the edge, hooks lawful at the points where they are applied. -/
theorem rtb_roundtrip_jac_inv (r : Rtb K) (neg : Bool) (x : K) (hb : r.b0 ≠ r.b1) (hf : r.FactorOK)
    (hok : r.ReflectOK (r.preF x).1) (hh : r.HooksOK neg x) :
    (rtbInv r (rtbFwd r neg x).1).1 = x ∧ (rtbFwd r neg x).2 * (rtbInv r (rtbFwd r neg x).1).2 = 1 :=
  rtb_lawful r neg x hb hf hok hh

/-- non-vacuity: offset, update to data [1/4, 3/4], reflection about the upper edge with the sign bit set, at the data maximum -/
example :
    let r := rtbDetect (rtbUpdate (rtbMk (0 : Rat) 1 none (some .split) true true true none none false true) [1 / 4, 3 / 4]) .upper
    rtbFwd r true (3 / 4) = (0, 2) ∧ rtbInv r 0 = (3 / 4, 1 / 2) ∧ rtbFwd r true (1 / 2) = (-1 / 2, 2) ∧
      rtbInv r (-1 / 2) = (1 / 2, 1 / 2) := by decide +kernel

/-- **Every point of the prior box, before any update**: for the state the constructor builds (any rescale bounds with distinct
ends, offset on/off, any inversion type, any edge decision, any sign bit) the round trip and `J_fwd · J_inv = 1` hold at every
`x ∈ [p0, p1]` — both bounds included. -/
theorem rtb_lawful_on_prior_box (p0 p1 : K) (rb : Option (K × K)) (inv : Option InvType) (oinv det off upd prior : Bool)
    (r0 : Rtb K) (hp : p0 < p1) (hrb : ∀ b, rb = some b → b.1 ≠ b.2)
    (h : rtbInit p0 p1 rb inv oinv det off upd none none false prior = .ok r0)
    (test : Edge) (neg : Bool) (x : K) (hx0 : p0 ≤ x) (hx1 : x ≤ p1) :
    (rtbInv (rtbDetect r0 test) (rtbFwd (rtbDetect r0 test) neg x).1).1 = x ∧
    (rtbFwd (rtbDetect r0 test) neg x).2 * (rtbInv (rtbDetect r0 test) (rtbFwd (rtbDetect r0 test) neg x).1).2 = 1 :=
  rtb_lawful_on_box p0 p1 rb inv oinv det off upd prior r0 hp hrb h test neg x hx0 hx1

example : (rtbInit (0 : Rat) 1 (some (0, 3)) none false false true true none none false true).toOption.isSome = true := by
  decide +kernel

/-- **After the data-dependent update** (bounds := data min / max): the round trip and `J_fwd · J_inv = 1` hold at *every* point
when nothing is reflected, and at the points on the data range of the reflecting side when an edge is inverted. -/
theorem rtb_lawful_after_update (r0 : Rtb K) (d : K) (ds : List K) (hupd : r0.update = true)
    (hpre : r0.pre = none) (hpost : r0.post = none) (hf : r0.FactorOK)
    (hmM : minL d ds < maxL d ds) (test : Edge) (neg : Bool) (x : K)
    (hside : (rtbDetect (rtbUpdate r0 (d :: ds)) test).reflects →
      if (rtbDetect (rtbUpdate r0 (d :: ds)) test).edge = .upper then x ≤ maxL d ds else minL d ds ≤ x) :
    let r := rtbDetect (rtbUpdate r0 (d :: ds)) test
    (rtbInv r (rtbFwd r neg x).1).1 = x ∧ (rtbFwd r neg x).2 * (rtbInv r (rtbFwd r neg x).1).2 = 1 :=
  Reparam.rtb_lawful_after_update r0 d ds hupd hpre hpost hf hmM test neg x hside

example : minL (1 / 4 : Rat) [3 / 4, 1 / 2] < maxL (1 / 4 : Rat) [3 / 4, 1 / 2] := by decide +kernel

/-- the side condition of `rtb_lawful_after_update` is needed — and the unchanged code violates the property here: after
`update` with data in [1/4, 3/4], edge `lower`, the prior-box point 1/8 maps to −1/4 and comes back as 3/8. -/
theorem rtb_roundtrip_fails_without_reflect_guard :
    let r := rtbDetect (rtbUpdate (rtbMk (0 : Rat) 1 none (some .split) true false true none none false false) [1 / 4, 3 / 4]) .lower
    rtbFwd r false (1 / 8) = (-1 / 4, 2) ∧ rtbInv r (-1 / 4) = (3 / 8, 1 / 2) := by decide +kernel

/-- the guard `b0 ≠ b1` is needed (constant data after `update`): everything collapses -/
theorem rtb_roundtrip_fails_without_distinct_bounds :
    let r := rtbUpdate (rtbMk (0 : Rat) 1 none none false false true none none false false) [1 / 2, 1 / 2]
    (rtbInv r (rtbFwd r false (1 / 4)).1).1 ≠ 1 / 4 := by decide +kernel

/-- **The reported Jacobian is the derivative.**  With bounds in order and hooks whose factor is their absolute slope (none, or
affine), the factor reported by `reparameterise` is one non-negative constant `J` — it does not depend on the point — and
`|f x − f y| = J·|x − y|` for all points: `J` is exactly `|det J|` of the map, the allowed constant is zero. -/
theorem rtb_jac_is_derivative (r : Rtb K) (neg : Bool) (hb : r.b0 < r.b1) (hpre : AffineJ r.preF) (hpost : AffineJ r.postF) :
    ∃ J : K, 0 ≤ J ∧ (∀ x, (rtbFwd r neg x).2 = J) ∧ ∀ x y, |(rtbFwd r neg x).1 - (rtbFwd r neg y).1| = J * |x - y| :=
  rtbFwd_affineJ r neg hb hpre hpost

example : AffineJ (Hook.affine (2 : Rat) 1).fwd ∧ AffineJ (fun x : Rat => (x, 1)) :=
  ⟨Hook.affine_affineJ 2 1, AffineJ.id⟩

end Exact

section Combine
variable {K : Type} [Field K]

/-! ## Null, composition, CombinedReparameterisation, the FlowProposal layer -/

/-- a one-parameter object built from scalar maps that are mutually inverse with reciprocal factors on `D` is `Lawful`:
it reads only its own parameter, writes only its own prime parameter, leaves every other field of `x` and `x_prime`
untouched, and round-trips on `D`.  (RescaleToBounds, ScaleAndShift and Null parameters are such objects.) -/
theorem scalar_object_lawful {ι κ : Type} [DecidableEq ι] [DecidableEq κ] (p : ι) (pp : κ) (f g : K → K × K) (D : K → Prop)
    (h : ∀ a, D a → (g (f a).1).1 = a ∧ (f a).2 * (g (f a).1).2 = 1) :
    Lawful (ofScalar p pp f g) (fun i => i = p) (fun k => k = pp) (fun x => D (x p)) :=
  ofScalar_lawful p pp f g D h

/-- NullReparameterisation is lawful everywhere with Jacobian factor one -/
theorem null_lawful {ι : Type} [DecidableEq ι] (p : ι) :
    Lawful (nullReparam p : Reparam (ι → K) (ι → K) K) (fun i => i = p) (fun k => k = p) (fun _ => True) :=
  (ofScalar_lawful p p (fun x => (x, 1)) (fun x => (x, 1)) (fun _ => True) (fun a _ => ⟨rfl, by simp⟩))

/-- **Closure under composition**: applying lawful objects on disjoint parameters one after the other and inverting them in
the reverse order is lawful for the union of the parameters. -/
theorem lawful_compose {ι κ : Type} {r1 r2 : Reparam (ι → K) (κ → K) K} {P1 P2 : ι → Prop} {PP1 PP2 : κ → Prop}
    {D1 D2 : (ι → K) → Prop} (h1 : Lawful r1 P1 PP1 D1) (h2 : Lawful r2 P2 PP2 D2)
    (hP : ∀ i, ¬ (P1 i ∧ P2 i)) (hPP : ∀ k, ¬ (PP1 k ∧ PP2 k)) :
    Lawful (compose r1 r2) (fun i => P1 i ∨ P2 i) (fun k => PP1 k ∨ PP2 k) (fun x => D1 x ∧ D2 x) :=
  h1.comp h2 hP hPP

/-- **CombinedReparameterisation round trip** — any list of lawful objects on pairwise disjoint parameters, either value of
`reverse_order`: `inverse_reparameterise` applied to a fresh `x` and the forward `x_prime` returns every reparameterised
parameter, for every starting `x_prime` and every accumulated log-Jacobian. -/
theorem combined_roundtrip {ι κ : Type} (es : List (Entry ι κ K)) (h : AllLawful es) (rev : Bool)
    (x : ι → K) (xp : κ → K) (j : K) (y : ι → K) (j' : K) (hD : allD es x) (i : ι) (hi : unionP es i) :
    ((combined (es.map (·.rep)) rev).inv (y, ((combined (es.map (·.rep)) rev).fwd (x, xp, j)).2.1, j')).1 i = x i :=
  (combined_lawful es h rev).roundtrip x xp j y j' hD i hi

/-- **CombinedReparameterisation Jacobians**: the accumulated forward and inverse factors multiply to one -/
theorem combined_jac {ι κ : Type} (es : List (Entry ι κ K)) (h : AllLawful es) (rev : Bool)
    (x : ι → K) (xp : κ → K) (y : ι → K) (hD : allD es x) :
    ((combined (es.map (·.rep)) rev).fwd (x, xp, 1)).2.2 *
      ((combined (es.map (·.rep)) rev).inv (y, ((combined (es.map (·.rep)) rev).fwd (x, xp, 1)).2.1, 1)).2.2 = 1 :=
  (combined_lawful es h rev).jac x xp y hD

/-- **Non-sampling fields (and every field no object owns) are untouched**: forward never changes `x`, changes `x_prime` only
at owned prime parameters; inverse never changes `x_prime`, changes `x` only at owned parameters. -/
theorem nonsampling_untouched {ι κ : Type} (es : List (Entry ι κ K)) (h : AllLawful es) (rev : Bool)
    (s : (ι → K) × (κ → K) × K) :
    ((combined (es.map (·.rep)) rev).fwd s).1 = s.1 ∧
    (∀ k, ¬ unionPP es k → ((combined (es.map (·.rep)) rev).fwd s).2.1 k = s.2.1 k) ∧
    ((combined (es.map (·.rep)) rev).inv s).2.1 = s.2.1 ∧
    (∀ i, ¬ unionP es i → ((combined (es.map (·.rep)) rev).inv s).1 i = s.1 i) :=
  let L := combined_lawful es h rev
  ⟨L.fwd_x s, L.fwd_frame s, L.inv_xp s, L.inv_frame s⟩

/-- a two-object example: RescaleToBounds on parameter 0 and ScaleAndShift on parameter 1 satisfy `AllLawful` -/
example : AllLawful ([⟨ofScalar (0 : Nat) (0 : Nat) (fun x : Rat => (x / 2, 1 / 2)) (fun y => (y * 2, 2)), (· = 0), (· = 0), fun _ => True⟩,
    ⟨nullReparam 1, (· = 1), (· = 1), fun _ => True⟩] : List (Entry Nat Nat Rat)) := by
  refine ⟨?_, ?_⟩
  · intro e he
    simp only [List.mem_cons, List.not_mem_nil, or_false] at he
    rcases he with rfl | rfl
    · exact ofScalar_lawful (K := Rat) 0 0 (fun x => (x / 2, 1 / 2)) (fun y => (y * 2, 2)) (fun _ => True)
        (fun a _ => ⟨by ring, by norm_num⟩)
    · exact null_lawful 1
  · simp only [List.pairwise_cons, List.mem_cons, List.not_mem_nil, or_false, forall_eq, List.Pairwise.nil, and_true,
      IsEmpty.forall_iff, implies_true]
    exact ⟨fun i h => by omega, fun k h => by omega⟩

/-- **FlowProposal.rescale / inverse_rescale**: with any lawful combined reparameterisation and non-sampling names that no
object owns, the reparameterised parameters come back, the non-sampling fields are copied to `x_prime` and back unchanged,
and `log_J` of `rescale` is minus `log_J` of `inverse_rescale`. -/
theorem proposal_rescale_roundtrip {ι : Type} [DecidableEq ι] (c : Reparam (ι → K) (ι → K) K) (P PP : ι → Prop)
    (D : (ι → K) → Prop) (hc : Lawful c P PP D) (ns : List ι) (hnsP : ∀ p ∈ ns, ¬ P p) (hnsPP : ∀ p ∈ ns, ¬ PP p)
    (e e' x : ι → K) (hD : D x) :
    (∀ i, P i → (proposalInverseRescale c ns e' (proposalRescale c ns e x).1).1 i = x i) ∧
    (∀ p ∈ ns, (proposalRescale c ns e x).1 p = x p ∧
               (proposalInverseRescale c ns e' (proposalRescale c ns e x).1).1 p = x p) ∧
    (proposalRescale c ns e x).2 * (proposalInverseRescale c ns e' (proposalRescale c ns e x).1).2 = 1 :=
  proposal_roundtrip c P PP D hc ns hnsP hnsPP e e' x hD

example : (proposalRescale (nullReparam (0 : Nat)) [7] (fun _ => (0 : Rat)) (fun i => if i = 0 then 5 else if i = 7 then 3 else 0)).1 7 = 3 := by
  decide +kernel

end Combine

section Prior
variable {K : Type} [Field K] [LinearOrder K] [IsStrictOrderedRing K]

/-! ## prime-space prior -/

/-- **Support of the prime prior, no reflection** (no inversion configured, any state before or after `update`, any target
interval `r0 < r1`): the bounds `update_prime_prior_bounds` stores are exactly the image of the (pre-rescaled) prior interval
under the forward map: every prior point lands inside, every point inside is hit. -/
theorem prime_prior_support_plain (r : Rtb K) (hp : r.hasPrimePrior = true) (hinv : r.inversion = none)
    (hb : r.b0 < r.b1) (hr : r.r0 < r.r1) :
    ∃ lo hi, rtbPrimeBounds r = some (some (lo, hi)) ∧ IsImage r lo hi :=
  image_plain r hp hinv hb hr

/-- the same when inversion is configured but the edge decision is "none" (`False`) or not yet taken -/
theorem prime_prior_support_inversion_off (r : Rtb K) (hp : r.hasPrimePrior = true) (t : InvType)
    (hinv : r.inversion = some t) (he : r.edge = .unset ∨ r.edge = .off) (hb : r.b0 < r.b1) :
    ∃ lo hi, rtbPrimeBounds r = some (some (lo, hi)) ∧ IsImage r lo hi :=
  image_inversion_off r hp t hinv he hb

/-- reflection about the lower edge, the lower prior bound on the edge (the state before any update): the stored bounds
`(−upper, upper)` are the image of the prior interval over both sign choices -/
theorem prime_prior_support_lower (r : Rtb K) (hp : r.hasPrimePrior = true) (t : InvType) (hinv : r.inversion = some t)
    (he : r.edge = .lower) (hb : r.b0 < r.b1) (hedge : r.P0 - r.offset = r.b0) :
    ∃ lo hi, rtbPrimeBounds r = some (some (lo, hi)) ∧ IsImage r lo hi :=
  image_lower r hp t hinv he hb hedge

/-- reflection about the upper edge, the upper prior bound on the edge: stored bounds `(lower − 1, 1 − lower)` -/
theorem prime_prior_support_upper (r : Rtb K) (hp : r.hasPrimePrior = true) (t : InvType) (hinv : r.inversion = some t)
    (he : r.edge = .upper) (hb : r.b0 < r.b1) (hedge : r.P1 - r.offset = r.b1) :
    ∃ lo hi, rtbPrimeBounds r = some (some (lo, hi)) ∧ IsImage r lo hi :=
  image_upper r hp t hinv he hb hedge

example :
    let r := rtbDetect (rtbMk (0 : Rat) 4 none (some .duplicate) true true true none none false true) .upper
    r.hasPrimePrior = true ∧ r.b0 < r.b1 ∧ r.P1 - r.offset = r.b1 ∧ rtbPrimeBounds r = some (some (-1, 1)) := by
  decide +kernel

omit [Field K] [IsStrictOrderedRing K] in
/-- `log_uniform_prior` is finite exactly on the closed interval of the stored bounds -/
theorem prime_prior_indicator (x lo hi : K) : inUniformSupport x lo hi = true ↔ lo ≤ x ∧ x ≤ hi :=
  inUniformSupport_iff x lo hi

/-- edge decision `both` is *not* covered, and the unchanged code breaks the property there: `_apply_inversion` treats it like
`lower` (image [−1, 1]) but `determine_rescaled_bounds` stores (−1/2, 3/2): the image −3/4 of the prior point 3/4 is outside. -/
theorem prime_prior_support_both_fails :
    let r := rtbDetect (rtbMk (0 : Rat) 1 none (some .duplicate) false false true none none false true) .both
    rtbPrimeBounds r = some (some (-1 / 2, 3 / 2)) ∧ (rtbFwd r true (3 / 4)).1 = -3 / 4 ∧
      inUniformSupport (rtbFwd r true (3 / 4)).1 (-1 / 2) (3 / 2) = false := by decide +kernel

/-- the hypothesis `r0 < r1` is needed: with reversed rescale bounds `[1, −1]` the map still sends the box onto [1, 3]
(factor = `ptp` = 2) but the stored bounds are (1, −1), an empty support -/
theorem prime_prior_support_fails_without_ordered_rescale_bounds :
    let r := rtbMk (0 : Rat) 1 (some (1, -1)) none false false true none none false true
    rtbPrimeBounds r = some (some (1, -1)) ∧ (rtbFwd r false 1).1 = 3 := by decide +kernel

/-- the hypothesis "prior bound on the edge" of `prime_prior_support_lower` is needed: after `update` the stored bounds
(−3/2, 3/2) no longer contain the image 2·… of every prior point — and the map is no longer injective there -/
theorem prime_prior_support_lower_fails_after_update :
    let r := rtbDetect (rtbUpdate (rtbMk (0 : Rat) 1 none (some .split) true false true none none false true) [1 / 2, 3 / 4]) .lower
    rtbPrimeBounds r = some (some (-2, 2)) ∧ (rtbFwd r false 0).1 = -2 ∧ (rtbFwd r false (3 / 4)).1 = 1 ∧
      (rtbFwd r true (1 / 4)).1 = 1 := by decide +kernel

end Prior

/-! ## Stage 2 — transcendental maps over ℝ.  The tie to the NumPy code is the numeric oracle of the check. -/

section Real
open Real

/-- logit / sigmoid (`eps=None`): on the open unit interval the sigmoid undoes the logit, the two log-Jacobians are
negatives of each other, and the logit has derivative `exp(log_j)`: the reported log-Jacobian is `log|f'|` exactly. -/
theorem logit_roundtrip_jac (x : ℝ) (h0 : 0 < x) (h1 : x < 1) :
    (sigmoidLJ (logitLJ 0 x).1).1 = x ∧ (logitLJ 0 x).2 + (sigmoidLJ (logitLJ 0 x).1).2 = 0 ∧
    HasDerivAt (fun t => (logitLJ 0 t).1) (exp (logitLJ 0 x).2) x :=
  ⟨sigmoid_logit x h0 h1, logit_sigmoid_logJ x h0 h1, logit_hasDerivAt x h0 h1⟩

example : (0 : ℝ) < 1 / 2 ∧ (1 / 2 : ℝ) < 1 := by norm_num

/-- with a clamp `eps` the function coincides with the unclamped logit exactly on `[eps, 1 − eps]` (outside it is constant,
hence not injective — RescaleToBounds never passes `eps`) -/
theorem logit_eps_partial (eps x : ℝ) (h0 : eps ≤ x) (h1 : x ≤ 1 - eps) : logitLJ eps x = logitLJ 0 x :=
  logit_eps_eq eps x h0 h1

example : (1 / 4 : ℝ) ≤ 1 / 2 ∧ (1 / 2 : ℝ) ≤ 1 - 1 / 4 := by norm_num

/-- log / exp pre- and post-rescalings: mutually inverse (log needs `x > 0`), log-Jacobians negatives, derivatives
`exp(log_j)` -/
theorem log_exp_roundtrip_jac (x y : ℝ) (h0 : 0 < x) :
    ((expLJ (logLJ x).1).1 = x ∧ (logLJ x).2 + (expLJ (logLJ x).1).2 = 0) ∧
    ((logLJ (expLJ y).1).1 = y ∧ (expLJ y).2 + (logLJ (expLJ y).1).2 = 0) ∧
    HasDerivAt (fun t => (logLJ t).1) (exp (logLJ x).2) x ∧ HasDerivAt (fun t => (expLJ t).1) (exp (expLJ y).2) y :=
  ⟨exp_log_roundtrip x h0, log_exp_roundtrip y, log_hasDerivAt x h0, exp_hasDerivAt y⟩

example : (0 : ℝ) < 2 := by norm_num

/-- RescaleToBounds with the named hooks: `logit` / `log` / `exp` satisfy the hook hypothesis of `rtb_roundtrip_jac_inv` on their
domains, so e.g. the registered `logit` reparameterisation round-trips on the open prior interval. -/
theorem named_hooks_lawful (x : ℝ) :
    (0 < x → logHook.LawfulAt x) ∧ expHook.LawfulAt x ∧ (0 < x → x < 1 → logitHook.LawfulAt x) :=
  ⟨logHook_lawful x, expHook_lawful x, logitHook_lawful x⟩

example : logitHook.LawfulAt (1 / 2) := logitHook_lawful _ (by norm_num) (by norm_num)

/-- **chain rule**: for RescaleToBounds over ℝ with hooks differentiable where they are applied (derivative = their reported
factor), the forward map is differentiable and the reported factor is the absolute value of its derivative. -/
theorem rtb_jac_is_derivative_real (r : Rtb ℝ) (neg : Bool) (x : ℝ) (hb : r.b0 < r.b1)
    (hpre : HasDerivAt (fun t => (r.preF t).1) (r.preF x).2 x)
    (hpost : HasDerivAt (fun t => (r.postF t).1) (r.postF (rtbCore r neg (r.preF x).1).1).2
      (rtbCore r neg (r.preF x).1).1) :
    ∃ d, HasDerivAt (fun t => (rtbFwd r neg t).1) d x ∧ |d| = |(rtbFwd r neg x).2| :=
  rtbFwd_hasDerivAt r neg x hb hpre hpost

example : HasDerivAt (fun t => (logitHook.fwd t).1) (logitHook.fwd (1 / 2)).2 (1 / 2) :=
  logit_hasDerivAt _ (by norm_num) (by norm_num)

/-- **Angle** (with or without a radial parameter, any non-zero `scale`): for `r > 0` and the scaled angle inside the branch
the inverse uses — `(−π, π]` without, `[0, 2π)` with the `% 2π` of a zero lower bound — the inverse returns angle and radius
and its log-Jacobian is minus the forward one. -/
theorem angle_roundtrip (s θ r : ℝ) (zb : Bool) (hs : s ≠ 0) (hr : 0 < r)
    (h1 : zb = false → -π < θ * s ∧ θ * s ≤ π) (h2 : zb = true → 0 ≤ θ * s ∧ θ * s < 2 * π) :
    angleInv s zb (angleFwd s θ r).1 (angleFwd s θ r).2.1 = (θ, r, -(angleFwd s θ r).2.2) :=
  angle_roundtrip_aux s θ r zb hs hr h1 h2

example : (0 : ℝ) ≤ 1 * 2 ∧ (1 : ℝ) * 2 < 2 * π := by
  have := two_le_pi; constructor <;> nlinarith

/-- the branch guard is needed: without the modulo, an angle beyond π comes back shifted by a full turn (this is the
configuration `FlowProposal.verify_rescaling` refuses at initialisation) -/
theorem angle_roundtrip_fails_without_branch :
    (angleInv 1 false (angleFwd 1 (3 * π / 2) 1).1 (angleFwd 1 (3 * π / 2) 1).2.1).1 ≠ 3 * π / 2 := by
  have hpi := pi_pos
  simp only [angleFwd, angleInv, Bool.false_eq_true, if_false, mul_one, one_mul, div_one]
  have h : arctan2 (sin (3 * π / 2)) (cos (3 * π / 2)) = 3 * π / 2 - 2 * π := by
    have := arctan2_polar 1 (3 * π / 2 - 2 * π) one_pos (by linarith) (by linarith)
    rwa [sin_sub_two_pi, cos_sub_two_pi, one_mul, one_mul] at this
  rw [h]; intro e; linarith

/-- Angle: the four partial derivatives of `(θ, r) ↦ (r cos sθ, r sin sθ)` and the determinant `−s·r` of the Jacobian:
`log|det J| = log r + log|s|`, the reported `log r` is off by the constant `log|s|` only. -/
theorem angle_jacobian (s θ r : ℝ) :
    (HasDerivAt (fun t => r * cos (s * t)) (r * (-sin (s * θ) * s)) θ ∧
     HasDerivAt (fun t => r * sin (s * t)) (r * (cos (s * θ) * s)) θ ∧
     HasDerivAt (fun ρ => ρ * cos (s * θ)) (cos (s * θ)) r ∧
     HasDerivAt (fun ρ => ρ * sin (s * θ)) (sin (s * θ)) r) ∧
    (r * (-sin (s * θ) * s)) * sin (s * θ) - cos (s * θ) * (r * (cos (s * θ) * s)) = -(s * r) :=
  ⟨angle_partials s θ r, angle_det s θ r⟩

/-- **ToCartesian** (modes split / duplicate / half = both sign bits): for `r > 0` every point of the closed prior interval —
both bounds included — comes back, with opposite log-Jacobians. -/
theorem toCartesian_roundtrip (p0 p1 x r : ℝ) (neg : Bool) (hp : p0 < p1) (hr : 0 < r) (h0 : p0 ≤ x) (h1 : x ≤ p1) :
    toCartInv p0 p1 (toCartFwd p0 p1 neg x r).1 (toCartFwd p0 p1 neg x r).2.1 = (x, r, -(toCartFwd p0 p1 neg x r).2.2) :=
  toCart_roundtrip_aux p0 p1 x r neg hp hr h0 h1

example : (2 : ℝ) < 5 ∧ (2 : ℝ) ≤ 5 ∧ (5 : ℝ) ≤ 5 := by norm_num

/-- **AnglePair**, both conventions, with or without the `% 2π`: off the poles and off the identified end point of the
horizontal angle, for `r > 0`, both angles and the radius come back and the log-Jacobians are negatives of each other. -/
theorem anglePair_roundtrip (α β r : ℝ) (m : Bool) (hr : 0 < r)
    (h1 : m = false → -π < α ∧ α ≤ π) (h2 : m = true → 0 ≤ α ∧ α < 2 * π) :
    (-(π / 2) < β → β < π / 2 →
      radecInv m (radecFwd α β r).1 (radecFwd α β r).2.1 (radecFwd α β r).2.2.1 = (α, β, r, -(radecFwd α β r).2.2.2)) ∧
    (0 < β → β < π →
      azzenInv m (azzenFwd α β r).1 (azzenFwd α β r).2.1 (azzenFwd α β r).2.2.1 = (α, β, r, -(azzenFwd α β r).2.2.2)) :=
  ⟨fun a b => radec_roundtrip_aux α β r m hr a b h1 h2, fun a b => azzen_roundtrip_aux α β r m hr a b h1 h2⟩

example : -(π / 2) < (0 : ℝ) ∧ (0 : ℝ) < π / 2 := by
  have := pi_pos; constructor <;> linarith

/-- AnglePair: the nine partial derivatives and the 3×3 determinants `r² cos δ` (ra-dec) and `−r² sin ζ` (az-zen): the
reported `2 log r + log cos δ` / `2 log r + log sin ζ` is `log|det J|` exactly. -/
theorem anglePair_jacobian (r α β : ℝ) :
    det3 (r * cos β * -sin α) (r * -sin β * cos α) (1 * cos β * cos α)
         (r * cos β * cos α) (r * -sin β * sin α) (1 * cos β * sin α)
         0 (r * cos β) (1 * sin β) = r ^ 2 * cos β ∧
    det3 (r * sin β * -sin α) (r * cos β * cos α) (1 * sin β * cos α)
         (r * sin β * cos α) (r * cos β * sin α) (1 * sin β * sin α)
         0 (r * -sin β) (1 * cos β) = -(r ^ 2 * sin β) ∧
    HasDerivAt (fun t => r * cos β * cos t) (r * cos β * -sin α) α ∧
    HasDerivAt (fun t => r * sin t) (r * cos β) β :=
  ⟨anglePair_radec_det r α β, anglePair_azzen_det r α β, (anglePair_radec_partials r α β).1,
   (anglePair_radec_partials r α β).2.2.2.2.2.2.2.1⟩

/-- what stage 2 does **not** show: the prime priors of the polar classes (chi-distributed auxiliary radius), the GW distance
converters (power law: oracle only; co-moving volume: lookup table), `DeltaPhaseReparameterisation`, and every effect of
float rounding.  Stated as the trivially true residue so that the gap is recorded next to the theorems. -/
theorem polar_priors_and_gw_partial : True := trivial

end Real

end NessaiVerif.C07
