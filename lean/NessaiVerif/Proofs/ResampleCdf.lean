import NessaiVerif.Proofs.Resample
/-
C16 helper lemmas, part 2: cumulative sums, the `choice` look-up table, `searchsorted(side='right')`,
Kish's effective sample size.
-/
set_option linter.unusedSectionVars false

namespace NessaiVerif.Resample
open NessaiVerif.Np

variable {K : Type} [Field K] [LinearOrder K] [IsStrictOrderedRing K]

/-! ### cumsum -/

theorem cumsum_length (w : List K) (a : K) : (cumsum w a).length = w.length := by
  induction w generalizing a with
  | nil => simp [cumsum]
  | cons x xs ih => simp [cumsum, ih]

theorem cumsum_getElem (w : List K) (a : K) (i : Nat) (hi : i < (cumsum w a).length) :
    (cumsum w a)[i] = a + lsum (w.take (i + 1)) := by
  induction w generalizing a i with
  | nil => simp [cumsum] at hi
  | cons x xs ih =>
    cases i with
    | zero => simp [cumsum]
    | succ i =>
      simp only [cumsum, List.getElem_cons_succ, List.take_succ_cons, lsum_cons]
      rw [ih]
      ring

theorem cumsum_getLastD (w : List K) (a : K) : (cumsum w a).getLastD a = a + lsum w := by
  induction w generalizing a with
  | nil => simp [cumsum]
  | cons x xs ih =>
    simp only [cumsum, lsum_cons]
    rw [List.getLastD_cons, ih]
    ring

theorem cumsum_map_div (w : List K) (a s : K) :
    cumsum (w.map (fun x => x / s)) (a / s) = (cumsum w a).map (fun x => x / s) := by
  induction w generalizing a with
  | nil => simp [cumsum]
  | cons x xs ih =>
    simp only [List.map_cons, cumsum]
    rw [← add_div, ih]

theorem getLastD_map {β γ : Type} (f : β → γ) (l : List β) (d : β) :
    (l.map f).getLastD (f d) = f (l.getLastD d) := by
  induction l generalizing d with
  | nil => simp
  | cons x xs ih => simp only [List.map_cons, List.getLastD_cons]; exact ih x

/-- the table `choice` searches: cumulative weights over the total -/
theorem cdf_eq (w : List K) (hS : lsum w ≠ 0) : cdf w = (cumsum w 0).map (fun x => x / lsum w) := by
  unfold cdf cdfOfProbs probs
  have h0 : (0 : K) = 0 / lsum w := by simp
  have hc : cumsum (w.map (fun x => x / lsum w)) 0 = (cumsum w 0).map (fun x => x / lsum w) := by
    conv_lhs => rw [h0]
    exact cumsum_map_div w 0 (lsum w)
  simp only [hc]
  have hlast : ((cumsum w 0).map (fun x => x / lsum w)).getLastD 0 = 1 := by
    have := getLastD_map (fun x => x / lsum w) (cumsum w 0) 0
    simp only [zero_div] at this
    rw [this, cumsum_getLastD, zero_add, div_self hS]
  rw [hlast]
  simp

theorem cdf_length (w : List K) (hS : lsum w ≠ 0) : (cdf w).length = w.length := by
  rw [cdf_eq w hS, List.length_map, cumsum_length]

theorem cdf_getElem (w : List K) (hS : lsum w ≠ 0) (i : Nat) (hi : i < (cdf w).length) :
    (cdf w)[i] = lsum (w.take (i + 1)) / lsum w := by
  have hi' : i < (cumsum w 0).length := by rw [cumsum_length, ← cdf_length w hS]; exact hi
  simp only [cdf_eq w hS, List.getElem_map]
  rw [cumsum_getElem w 0 i hi', zero_add]

/-! ### searchsorted(side='right') -/

theorem ssr_le_length (a : List K) (v : K) : ssr a v ≤ a.length := by
  unfold ssr
  induction a with
  | nil => simp
  | cons x xs ih =>
    rw [List.takeWhile_cons]
    split <;> simp
    omega

/-- `ssr a v` is the first position whose entry exceeds `v` (the length when there is none) -/
theorem ssr_eq_iff (a : List K) (v : K) (i : Nat) :
    ssr a v = i ↔ i ≤ a.length ∧ (∀ j (hj : j < a.length), j < i → a[j] ≤ v) ∧
      (∀ hi : i < a.length, v < a[i]) := by
  induction a generalizing i with
  | nil =>
    simp [ssr]
    omega
  | cons x xs ih =>
    have hss : ssr (x :: xs) v = if x ≤ v then ssr xs v + 1 else 0 := by
      unfold ssr
      rw [List.takeWhile_cons]
      by_cases h : x ≤ v <;> simp [h]
    rw [hss]
    by_cases hx : x ≤ v
    · rw [if_pos hx]
      cases i with
      | zero =>
        constructor
        · intro h; omega
        · rintro ⟨_, _, h3⟩
          have := h3 (by simp)
          simp at this
          exact absurd hx (not_le.mpr this)
      | succ i =>
        rw [Nat.add_right_cancel_iff, ih i]
        constructor
        · rintro ⟨h1, h2, h3⟩
          refine ⟨by simpa using h1, ?_, ?_⟩
          · intro j hj hji
            cases j with
            | zero => simpa using hx
            | succ j => simpa using h2 j (by simpa using hj) (by omega)
          · intro hi; simpa using h3 (by simpa using hi)
        · rintro ⟨h1, h2, h3⟩
          refine ⟨by simpa using h1, ?_, ?_⟩
          · intro j hj hji
            have := h2 (j + 1) (by simpa using hj) (by omega)
            rwa [List.getElem_cons_succ] at this
          · intro hi
            have := h3 (by simpa using hi)
            rwa [List.getElem_cons_succ] at this
    · rw [if_neg hx]
      cases i with
      | zero =>
        constructor
        · intro _
          refine ⟨by simp, fun j _ h => by omega, fun _ => by simpa using not_le.mp hx⟩
        · intro _; rfl
      | succ i =>
        constructor
        · intro h; omega
        · rintro ⟨_, h2, _⟩
          have := h2 0 (by simp) (by omega)
          simp at this
          exact absurd this hx

/-! ### one multinomial draw -/

/-- For non-negative weights with positive total and `0 ≤ u < 1`, the draw is `i` exactly when
`u` lies in `[prefix i / S, prefix (i+1) / S)`. -/
theorem multIndex_eq_iff (w : List K) (hw : ∀ x ∈ w, 0 ≤ x) (hS : 0 < lsum w) (u : K)
    (hu0 : 0 ≤ u) (hu1 : u < 1) (i : Nat) :
    multIndex w u = i ↔
      i < w.length ∧ lsum (w.take i) / lsum w ≤ u ∧ u < lsum (w.take (i + 1)) / lsum w := by
  have hS' : lsum w ≠ 0 := ne_of_gt hS
  have hlen := cdf_length w hS'
  unfold multIndex
  rw [ssr_eq_iff]
  constructor
  · rintro ⟨h1, h2, h3⟩
    have hi : i < w.length := by
      rcases Nat.lt_or_ge i w.length with h | h
      · exact h
      · exfalso
        have hN : w.length ≠ 0 := by
          intro h0
          have : w = [] := List.eq_nil_of_length_eq_zero h0
          subst this; exact hS' rfl
        have hl : w.length - 1 < (cdf w).length := by omega
        have := h2 (w.length - 1) hl (by omega)
        rw [cdf_getElem w hS' _ hl] at this
        have e : w.length - 1 + 1 = w.length := by omega
        rw [e, List.take_length, div_self hS'] at this
        exact absurd hu1 (not_lt.mpr this)
    refine ⟨hi, ?_, ?_⟩
    · cases i with
      | zero => simpa using hu0
      | succ i =>
        have hl : i < (cdf w).length := by omega
        have := h2 i hl (by omega)
        rwa [cdf_getElem w hS' _ hl] at this
    · have hl : i < (cdf w).length := by omega
      have := h3 hl
      rwa [cdf_getElem w hS' _ hl] at this
  · rintro ⟨hi, hlo, hhi⟩
    refine ⟨by omega, ?_, ?_⟩
    · intro j hj hji
      rw [cdf_getElem w hS' _ hj]
      have := lsum_take_le hw (show j + 1 ≤ i by omega)
      have := div_le_div_of_nonneg_right this hS.le
      exact le_trans this hlo
    · intro hl
      rw [cdf_getElem w hS' _ hl]
      exact hhi

/-! ### Kish's effective sample size -/

def sumSq (w : List K) : K := lsum (w.map (fun x => x * x))

theorem lsum_map_sq_div (w : List K) (s : K) :
    lsum ((w.map (fun x => x / s)).map (fun p => p * p)) = sumSq w / (s * s) := by
  unfold sumSq
  induction w with
  | nil => simp
  | cons x xs ih =>
    simp only [List.map_cons, lsum_cons, ih]
    rw [div_mul_div_comm, add_div]

theorem ess_eq_kish (w : List K) : ess w = lsum w * lsum w / sumSq w := by
  unfold ess probs
  rw [lsum_map_sq_div, one_div_div]

theorem sumSq_nonneg (w : List K) : 0 ≤ sumSq w := by
  unfold sumSq
  apply lsum_nonneg
  intro x hx
  obtain ⟨y, _, rfl⟩ := List.mem_map.mp hx
  exact mul_self_nonneg y

/-- `Σ wᵢ² ≤ (Σ wᵢ)²` for non-negative weights -/
theorem sumSq_le_sq_sum (w : List K) (hw : ∀ x ∈ w, 0 ≤ x) : sumSq w ≤ lsum w * lsum w := by
  induction w with
  | nil => simp [sumSq]
  | cons x xs ih =>
    have hx : 0 ≤ x := hw x (by simp)
    have hxs : ∀ y ∈ xs, 0 ≤ y := fun y hy => hw y (by simp [hy])
    have h1 := ih hxs
    have h2 := lsum_nonneg hxs
    have h3 : 0 ≤ x * lsum xs := mul_nonneg hx h2
    have e : sumSq (x :: xs) = x * x + sumSq xs := rfl
    rw [e, lsum_cons]
    nlinarith

theorem lsum_sq_sub (a : K) (w : List K) :
    lsum (w.map (fun x => (a - x) * (a - x))) = (w.length : K) * (a * a) - 2 * a * lsum w + sumSq w := by
  induction w with
  | nil => simp [sumSq]
  | cons x xs ih =>
    have e : sumSq (x :: xs) = x * x + sumSq xs := rfl
    simp only [List.map_cons, lsum_cons, ih, e, List.length_cons, Nat.cast_succ]
    ring

/-- Cauchy–Schwarz against the all-ones vector: `(Σ wᵢ)² ≤ N · Σ wᵢ²` -/
theorem sq_sum_le_length_mul_sumSq (w : List K) : lsum w * lsum w ≤ (w.length : K) * sumSq w := by
  induction w with
  | nil => simp [sumSq]
  | cons x xs ih =>
    have e : sumSq (x :: xs) = x * x + sumSq xs := rfl
    have hsq : 0 ≤ lsum (xs.map (fun y => (x - y) * (x - y))) := by
      apply lsum_nonneg
      intro z hz
      obtain ⟨y, _, rfl⟩ := List.mem_map.mp hz
      exact mul_self_nonneg _
    rw [lsum_sq_sub] at hsq
    rw [e, lsum_cons, List.length_cons, Nat.cast_succ]
    nlinarith

theorem sumSq_pos (w : List K) (hS : 0 < lsum w) : 0 < sumSq w := by
  have h := sq_sum_le_length_mul_sumSq w
  have hp : 0 < lsum w * lsum w := mul_pos hS hS
  have hn : (0 : K) ≤ (w.length : K) := Nat.cast_nonneg _
  by_contra hneg
  have h0 : sumSq w = 0 := le_antisymm (not_lt.mp hneg) (sumSq_nonneg w)
  rw [h0, mul_zero] at h
  exact absurd hp (not_lt.mpr h)

theorem probs_map_mul_left {c : K} (hc : c ≠ 0) (w : List K) :
    probs (w.map (fun x => c * x)) = probs w := by
  unfold probs
  rw [lsum_map_mul_left, List.map_map]
  apply List.map_congr_left
  intro x _
  simp only [Function.comp]
  rw [mul_div_mul_left _ _ hc]

end NessaiVerif.Resample
