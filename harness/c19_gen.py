"""C19 generators: value trees of the types that occur in nessai results / keyword arguments.
All randomness comes from the `random.Random` handed in (ctx.rng)."""
import datetime
import math
import struct

import numpy as np

KEYS = ["log_evidence", "log_evidence_error", "history", "nested_samples", "samples", "seed", "logZ", "dlogZ",
        "stopping_criteria", "ratio", "truth", "a", "b", "x_0", "insertion indices", "é", "training.time", "A", "k-1"]


class FakePool:
    """stand-in for a multiprocessing pool handed to FlowSampler"""

    def map(self, f, it):
        return [f(v) for v in it]

    def close(self): pass
    def join(self): pass


class SomeFlow:
    """stand-in for a user-supplied class (flow_class=…, ftype=…)"""


def some_callback(sampler):
    return None


class CallableObject:
    """a callback given as an instance with __call__ (no __qualname__/__name__ of its own)"""

    def __call__(self, sampler):
        return None

    def method(self, sampler):
        return None


def callbacks():
    """the shapes a user-supplied callable takes: function, lambda, functools.partial, callable instance, bound method,
    builtin, torch module instance (seeded change C19-c: an encoder branch that assumes every callable has __qualname__)"""
    import functools
    import torch
    return [some_callback, (lambda s: None), functools.partial(some_callback), functools.partial(max, 1), CallableObject(),
            CallableObject().method, math.tanh, torch.nn.Tanh(), torch.tanh, functools.partial(CallableObject())]


_POOLS = []


def real_pool():
    from multiprocessing.pool import ThreadPool
    if not _POOLS:
        _POOLS.append(ThreadPool(1))
    return _POOLS[0]


def close_pools():
    while _POOLS:
        p = _POOLS.pop()
        p.close()
        p.join()


def live_dtype(names):
    from nessai.livepoint import get_dtype
    return get_dtype(names)


def rfloat(rng, special=0.25):
    r = rng.random()
    if r < special:
        return rng.choice([math.nan, math.inf, -math.inf, -0.0, 0.0, 1e-320, 1.7976931348623157e308, -1.0, 0.1])
    if r < special + 0.15:
        # timedelta-derived, as in sampling_time / training_time
        return datetime.timedelta(microseconds=rng.randrange(0, 10 ** 9)).total_seconds()
    if r < special + 0.3:
        return struct.unpack("<d", struct.pack("<Q", rng.getrandbits(64)))[0]  # any bit pattern (NaNs included)
    return rng.uniform(-50, 50)


def rint(rng):
    return rng.choice([0, 1, -1, rng.randrange(-1000, 1000), rng.randrange(0, 2 ** 31), 2 ** 53 + 1, -(2 ** 62)])


def rstr(rng, boundary=False):
    pool = ["", "0.1.dev1+gb3af0f19a", "rejection_sampling", "x", "log L", "naïve—ok", "a/b", "None", "nan", "[1, 2]"]
    if boundary:
        pool += ["__none__", "x\x00y"]
    return rng.choice(pool)


def np_scalar(rng):
    r = rng.random()
    if r < 0.3:
        return np.float64(rfloat(rng))
    if r < 0.45:
        return rng.choice([np.int64, np.int32, np.uint8, np.uint64])(rng.randrange(0, 200))
    if r < 0.55:
        return np.int64(rng.randrange(-2 ** 62, 2 ** 62))
    if r < 0.7:
        return np.float32(rng.choice([0.1, 1.5, math.nan, math.inf, rng.uniform(-3, 3)]))
    if r < 0.78:
        return np.float16(rng.choice([0.1, 2.0, -math.inf]))
    if r < 0.9:
        # np.longdouble appears in the INS history (stopping_criteria/fractional_error)
        if rng.random() < 0.5:
            return np.longdouble(rng.choice([0.5, 3.0, math.nan, -math.inf, rng.uniform(-2, 2)]))
        return np.longdouble(rng.randrange(1, 1000)) / np.longdouble(3)
    return np.float64(rfloat(rng))


def plain_array(rng):
    r = rng.random()
    shape = rng.choice([(0,), (1,), (3,), (5,), (2, 3), (3, 1), (2, 0), (), (2, 2, 2)])
    n = int(np.prod(shape)) if shape else 1
    if r < 0.6:
        a = np.array([rfloat(rng) for _ in range(n)], dtype=float).reshape(shape)
        if rng.random() < 0.15:
            with np.errstate(all="ignore"):
                a = a.astype(np.float32)
        return a
    if r < 0.85:
        return np.array([rng.randrange(-5, 500) for _ in range(n)], dtype=rng.choice(["i8", "i4"])).reshape(shape)
    return np.array([rng.random() < 0.5 for _ in range(n)], dtype=bool).reshape(shape)


def structured_array(rng):
    names = rng.choice([["x"], ["x", "y"], ["x_0", "x_1", "mass ratio"]])
    extra = rng.random() < 0.3  # INS-style extra fields
    n = rng.choice([0, 1, 2, 4])
    dt = live_dtype(names)
    if extra:
        # (the importance sampler may already have registered its extra fields in this process)
        dt = np.dtype(dt.descr + [(f, "f8") for f in ("logW", "logQ", "logU") if f not in dt.names])
    a = np.zeros(n, dtype=dt)
    for f in dt.names:
        if dt[f].kind == "f":
            with np.errstate(all="ignore"):
                a[f] = np.array([rfloat(rng, 0.15) for _ in range(n)]).astype(dt[f])
        else:
            a[f] = [rng.randrange(-1, 50) for _ in range(n)]
    return a


def num_list(rng, allow_none=False):
    n = rng.choice([0, 1, 2, 3, 6])
    kind = rng.random()
    if kind < 0.35:
        xs = [rfloat(rng) for _ in range(n)]
    elif kind < 0.55:
        xs = [np.float64(rfloat(rng)) for _ in range(n)]
    elif kind < 0.7:
        xs = [rng.randrange(0, 5000) for _ in range(n)]
    elif kind < 0.8:
        xs = [rng.choice([rng.randrange(0, 50), np.int64(rng.randrange(0, 50)), rfloat(rng, 0.1)]) for _ in range(n)]
    elif kind < 0.87:
        xs = [np.longdouble(rng.randrange(1, 50)) / np.longdouble(rng.choice([2, 3])) for _ in range(n)]
    elif kind < 0.93:
        xs = [rng.random() < 0.5 for _ in range(n)]
    else:
        xs = [rng.choice(["a", "rejection", "é", ""]) for _ in range(n)]
    if allow_none and n:
        xs[rng.randrange(n)] = None
    return xs


def array_list(rng, ragged=False):
    k = rng.choice([1, 2, 3])
    m = rng.choice([1, 2, 4])
    out = [np.array([rfloat(rng, 0.1) for _ in range(m)]) for _ in range(k)]
    if ragged:
        out.append(np.array([rfloat(rng, 0.1) for _ in range(m + 1)]))
    if rng.random() < 0.2:
        out = [list(a) for a in out]
    return out


def opaque(rng):
    return rng.choice([SomeFlow, SomeFlow(), FakePool(), some_callback, (lambda x: x), b"ab", {1, 2},
                       datetime.timedelta(seconds=3), 1 + 2j, np.dtype("f8"), Ellipsis, range(3)] + callbacks())


def value(rng, depth, profile):
    """profile: 'results' (types that occur in result dictionaries), 'kwargs' (adds non-serialisable objects),
    flags in `profile` switch on the known-weak corners at a low rate"""
    r = rng.random()
    if depth > 0 and r < 0.18:
        return tree(rng, depth - 1, profile)
    if r < 0.24:
        return None
    if r < 0.36:
        return rfloat(rng)
    if r < 0.42:
        return rint(rng) if "json-only" in profile else rng.choice([0, 1, -7, rng.randrange(0, 2 ** 31), -(2 ** 62)])
    if r < 0.46:
        return rng.random() < 0.5
    if r < 0.52:
        return rstr(rng)
    if r < 0.64:
        return np_scalar(rng)
    if r < 0.74:
        return plain_array(rng)
    if r < 0.80:
        return structured_array(rng)
    if r < 0.90:
        return num_list(rng, allow_none="weak" in profile and rng.random() < 0.15)
    if r < 0.95:
        return array_list(rng, ragged="weak" in profile and rng.random() < 0.2)
    if r < 0.97:
        return tuple(num_list(rng)[:3])
    if "kwargs" in profile:
        return opaque(rng)
    return rfloat(rng)


def tree(rng, depth, profile):
    n = rng.choice([1, 2, 3, 4, 6])
    if "weak" in profile and rng.random() < 0.05:
        n = 0
    keys = rng.sample(KEYS, n)
    return {k: value(rng, depth, profile) for k in keys}


def kwargs_tree(rng):
    """keyword arguments as FlowSampler receives them"""
    d = {}
    cand = {
        "nlive": lambda: rng.choice([100, np.int64(2000), 50.0]),
        "seed": lambda: rng.choice([None, 1234, np.int32(7)]),
        # a stand-in pool, or a REAL pool object (which can neither be pickled nor deep-copied: the configuration writer has
        # to cope with it as it is; seeded change C19-eB: copy.deepcopy(kwargs))
        "pool": lambda: rng.choice([FakePool, real_pool])(),
        "n_pool": lambda: rng.choice([None, 4]),
        "checkpoint_callback": lambda: rng.choice(callbacks()),
        "flow_class": lambda: rng.choice([SomeFlow, "GWFlowProposal", None]),
        "flow_config": lambda: {"model_config": {"ftype": rng.choice(["realnvp", SomeFlow]), "n_blocks": 2,
                                                 "kwargs": {"batch_norm_between_layers": True,
                                                            "activation": rng.choice([math.tanh] + callbacks()[2:])}},
                                "lr": np.float64(0.001)},
        "reparameterisations": lambda: {"x": rng.choice(["default", {"reparameterisation": SomeFlow, "update_bounds": False}]),
                                        "y": None},
        "plot": lambda: rng.choice([True, False]),
        "output": lambda: "/tmp/out",
        "tolerance": lambda: rfloat(rng),
        "prior_bounds": lambda: {"x": np.array([-5.0, 5.0]), "y": (-math.inf, math.inf)},
        "stopping_criterion": lambda: ["ratio", "ess"],
        "levels": lambda: np.arange(rng.randrange(0, 4)),
    }
    for k in rng.sample(sorted(cand), rng.randrange(0, len(cand))):
        d[k] = cand[k]()
    for _ in range(rng.choice([0, 0, 1, 2])):
        d[rng.choice(KEYS)] = value(rng, 2, "kwargs json-only")
    return d


def boundary_trees(rng):
    """inputs outside the property's quantifier that pin model = code on the error paths"""
    bad = [
        {1: 2.0, "a": None}, {np.int64(1): 2}, {(1, 2): 3}, {"a": {np.int64(1): 2}}, {None: 1, True: 2, "x": 3},
        {"a/b": 1}, {"a/b": 1, "a": {"b": 2}}, {"a": {"c": 1}, "a/b": 2}, {"a": 1, "a/b": 2}, {"": 1}, {".": 1},
        {"a": {"": 1}}, {"a//b": [1.0]}, {"/a": None}, {"a/": 2.5}, {"..": 1},
        {"a": "__none__"}, {"a": ["__none__"]}, {"a": {"b": "__none__", "c": None}},
        {"a": "x\x00y"}, {"a": 2 ** 70}, {"a": np.str_("x")}, {"a": SomeFlow}, {"a": [1, "x"]},
        {"a": np.array(["a", "b"])}, {"a": np.array([None, 1], dtype=object)}, {"a": [1.0, None]}, {"a": [None]},
        {"a": [[1, 2], [3]]}, {"a": [np.arange(2), np.arange(3)]}, {"a": {}}, {"a": {}, "b": {"c": {}}},
        {"a": [1, [2]]}, {"a": [[1, None], [3]]}, {"a": [{}]}, {"a": ()}, {"a": [[], []]}, {"a": [[]]},
        {"a": np.bool_(True), "b": [np.bool_(False), 2]}, {"a": np.longdouble(1) / 3}, {"plot": np.bool_(False), "x": [np.bool_(True)]},
        {"a": {"b/c": None, "d": np.bool_(True)}}, {"a": ["__none__", "x"], "b": "__none__"},
        {"a": [1.0, None], 1: 2}, {1: 2, "a": [1.0, None]}, {1: 0, "1": 5}, {"a": {"true": 1, True: 2, "x": None}}, {"a": {"b": [[1], [2, 3]]}, "a/b": 1},
    ]
    extra = []
    for _ in range(40):
        t = tree(rng, 2, "results weak")
        k = rng.choice([3, np.int64(4), (1, 2), None, "p/q", "x/", "", "."])
        v = value(rng, 1, "results weak")
        pos = rng.randrange(0, len(t) + 1)
        items = list(t.items())
        items.insert(pos, (k, v))
        try:
            extra.append(dict(items))
        except TypeError:
            pass
    return bad + extra
