import NessaiVerif.Proofs.LiveSet
/- C01: the step specification of `consume` and the run invariant. -/
namespace NessaiVerif.LiveSet

/-- the state `consume` produces from `s` when the worst point is `w`, the rest of the live set
`t`, the accepted candidate `c` with likelihood `v`, after the rejected draws `pre` -/
def stepResult (s : St) (w : Pt) (t : List Pt) (c : Cand) (v : Int) (pre : List Cand) : St :=
  let p := mkPt c v (s.iter + 1)
  { s with live := insSorted p t, nested := s.nested ++ [w],
           idx := s.idx ++ [(rankIn p t : Int)], logLmin := some w.logL,
           logLmax := maxL s.logLmax v, iter := s.iter + 1, accepted := s.accepted + 1,
           rejected := s.rejected + (pre.filter (fun x => !x.popd)).length,
           lastCount := pre.length + 1, hist := s.hist ++ [p] }

/-- Every successful `consume` is: remove the head, skip the candidates that fail the filter,
sorted-insert the first one that passes. -/
theorem consume_spec (s s' : St) (cands rest : List Cand) (h : consume s cands = .ok (s', rest)) :
    ∃ w t c v pre, s.live = w :: t ∧ cands = pre ++ c :: rest ∧
      accepts (some w.logL) c = some v ∧ (∀ x ∈ pre, accepts (some w.logL) x = none) ∧
      s' = stepResult s w t c v pre := by
  unfold consume at h
  split at h
  · cases h
  · rename_i w t hlive
    dsimp only at h
    split at h
    · cases h
    · rename_i c v count rej rest' hloop
      obtain ⟨hacc, pre, hpre, hrej, hcount, hr⟩ := consumeLoop_spec _ _ _ _ _ _ _ _ _ hloop
      obtain ⟨_, _, hgt⟩ := accepts_some hacc
      have hlt : w.logL < (mkPt c v (s.iter + 1)).logL := by
        simpa [gtMin, mkPt] using hgt
      rw [hlive, insertLive_of_lt w t _ hlt] at h
      simp only [Except.ok.injEq, Prod.mk.injEq] at h
      obtain ⟨hs, hrest⟩ := h
      subst hrest
      refine ⟨w, t, c, v, pre, hlive, hpre, hacc, hrej, ?_⟩
      rw [← hs]
      simp [stepResult, hcount, hr]

/-- the atomic model step is the first half of `consume_sample` followed by the second -/
theorem consume_eq_begin_finish (s : St) (cands : List Cand) :
    consume s cands =
      match beginConsume s with
      | none => .error .index
      | some m => finishConsume m cands := by
  unfold consume beginConsume finishConsume
  cases s.live with
  | nil => rfl
  | cons w t => rfl

/-- `consume` never fails in `insert_live_point`: on a non-empty live set the only failure is a
proposal that stops producing acceptable points. -/
theorem consume_total (s : St) (cands : List Cand) (hl : s.live ≠ []) :
    consume s cands = .error .exhausted ∨ ∃ s' rest, consume s cands = .ok (s', rest) := by
  unfold consume
  split
  · rename_i h; exact absurd h hl
  · rename_i w t hlive
    dsimp only
    split
    · exact Or.inl rfl
    · rename_i c v count rej rest' hloop
      obtain ⟨hacc, _⟩ := consumeLoop_spec _ _ _ _ _ _ _ _ _ hloop
      obtain ⟨_, _, hgt⟩ := accepts_some hacc
      have hlt : w.logL < (mkPt c v (s.iter + 1)).logL := by
        simpa [gtMin, mkPt] using hgt
      rw [hlive, insertLive_of_lt w t _ hlt]
      exact Or.inr ⟨_, _, rfl⟩

/-- a stream containing an acceptable candidate is enough for `consume` to succeed -/
theorem consumeLoop_some_of_mem (m : Option Int) (cands : List Cand) (k r : Nat)
    (h : ∃ c ∈ cands, (accepts m c).isSome) : (consumeLoop m cands k r).isSome := by
  induction cands generalizing k r with
  | nil => simp at h
  | cons x xs ih =>
    unfold consumeLoop
    cases hx : accepts m x with
    | some v => simp
    | none =>
      simp only
      apply ih
      obtain ⟨c, hc, hs⟩ := h
      rcases List.mem_cons.mp hc with rfl | hc
      · simp [hx] at hs
      · exact ⟨c, hc, hs⟩

/-- The invariant of the sampling loop, relative to the initial live set `init`. -/
structure Inv (init : List Pt) (s : St) : Prop where
  npos : 1 ≤ s.n
  len : s.live.length = s.n
  sorted : SortedL s.live
  nsorted : SortedL s.nested
  nle : ∀ x ∈ s.nested, ∀ y ∈ s.live, x.logL ≤ y.logL
  perm : (s.nested ++ s.live).Perm (init ++ s.hist)
  nlen : s.nested.length = s.iter
  ilen : s.idx.length = s.iter
  hlen : s.hist.length = s.iter
  irange : ∀ i ∈ s.idx, 0 ≤ i ∧ i < (s.n : Int)
  lmin : ∀ w, s.nested.getLast? = some w → s.logLmin = some w.logL

theorem stepResult_inv (init : List Pt) (s : St) (w : Pt) (t : List Pt) (c : Cand) (v : Int)
    (pre : List Cand) (hI : Inv init s) (hlive : s.live = w :: t)
    (hacc : accepts (some w.logL) c = some v) : Inv init (stepResult s w t c v pre) := by
  obtain ⟨_, _, hgt⟩ := accepts_some hacc
  have hlt : w.logL < v := by simpa [gtMin] using hgt
  have hsorted := hI.sorted
  rw [hlive] at hsorted
  obtain ⟨hwt, hts⟩ := List.pairwise_cons.mp hsorted
  have hlen := hI.len
  rw [hlive] at hlen
  simp at hlen
  have hpl : (mkPt c v (s.iter + 1)).logL = v := rfl
  have hmem : ∀ y ∈ insSorted (mkPt c v (s.iter + 1)) t, w.logL ≤ y.logL := by
    intro y hy
    have := (insSorted_perm _ t).mem_iff.mp hy
    rcases List.mem_cons.mp this with rfl | hy
    · rw [hpl]; omega
    · exact hwt y hy
  refine
    { npos := hI.npos
      len := by simp [stepResult, insSorted_length]; omega
      sorted := insSorted_sorted _ _ hts
      nsorted := ?_
      nle := ?_
      perm := ?_
      nlen := by simp [stepResult, hI.nlen]
      ilen := by simp [stepResult, hI.ilen]
      hlen := by simp [stepResult, hI.hlen]
      irange := ?_
      lmin := ?_ }
  · show SortedL (s.nested ++ [w])
    refine List.pairwise_append.mpr ⟨hI.nsorted, by simp, ?_⟩
    intro a ha b hb
    simp at hb
    subst hb
    exact hI.nle a ha b (by rw [hlive]; simp)
  · intro x hx y hy
    have hx' : x ∈ s.nested ++ [w] := hx
    have hy' : y ∈ insSorted (mkPt c v (s.iter + 1)) t := hy
    rcases List.mem_append.mp hx' with hx' | hx'
    · have h1 := hI.nle x hx' w (by rw [hlive]; simp)
      have h2 := hmem y hy'
      omega
    · simp at hx'
      subst hx'
      exact hmem y hy'
  · show ((s.nested ++ [w]) ++ insSorted (mkPt c v (s.iter + 1)) t).Perm (init ++ (s.hist ++ [mkPt c v (s.iter + 1)]))
    have h0 := hI.perm
    rw [hlive] at h0
    have h1 : ((s.nested ++ [w]) ++ insSorted (mkPt c v (s.iter + 1)) t).Perm
        ((s.nested ++ [w]) ++ (mkPt c v (s.iter + 1) :: t)) :=
      List.Perm.append_left _ (insSorted_perm _ t)
    refine h1.trans ?_
    have h2 : ((s.nested ++ [w]) ++ (mkPt c v (s.iter + 1) :: t)).Perm
        (mkPt c v (s.iter + 1) :: ((s.nested ++ [w]) ++ t)) := List.perm_middle
    refine h2.trans ?_
    have h3 : ((s.nested ++ [w]) ++ t) = s.nested ++ w :: t := by simp
    rw [h3]
    have h4 : (mkPt c v (s.iter + 1) :: (s.nested ++ w :: t)).Perm
        (mkPt c v (s.iter + 1) :: (init ++ s.hist)) := List.Perm.cons _ h0
    refine h4.trans ?_
    rw [← List.append_assoc]
    exact (List.perm_append_singleton _ _).symm
  · intro i hi
    have hi' : i ∈ s.idx ++ [(rankIn (mkPt c v (s.iter + 1)) t : Int)] := hi
    rcases List.mem_append.mp hi' with hi' | hi'
    · exact hI.irange i hi'
    · simp at hi'
      subst hi'
      have := rankIn_le (mkPt c v (s.iter + 1)) t
      show 0 ≤ _ ∧ _ < (s.n : Int)
      omega
  · intro w' hw'
    have : (s.nested ++ [w]).getLast? = some w' := hw'
    simp at this
    subst this
    rfl

end NessaiVerif.LiveSet

namespace NessaiVerif.LiveSet

/-- What C01 demands of one iteration `s → s'` that consumed `cands` down to `rest`. -/
def StepOK (s s' : St) (cands rest : List Cand) : Prop :=
  ∃ (w : Pt) (t : List Pt) (c : Cand) (p : Pt) (pre : List Cand),
    s.live = w :: t ∧ (∀ y ∈ s.live, w.logL ≤ y.logL) ∧
    cands = pre ++ c :: rest ∧ (∀ x ∈ pre, accepts (some w.logL) x = none) ∧
    c.logP ≠ .ninf ∧ p.id = c.id ∧ p.logP = c.logP ∧ p.inB = c.inB ∧ p.it = s.iter + 1 ∧
    w.logL < p.logL ∧
    s'.live = insSorted p t ∧
    s'.nested = s.nested ++ [w] ∧
    s'.idx = s.idx ++ [(rankIn p t : Int)] ∧
    s'.live[rankIn p t]? = some p ∧ rankIn p t < s.n ∧
    s'.logLmin = some w.logL ∧ s'.iter = s.iter + 1 ∧ s'.n = s.n ∧ s'.hist = s.hist ++ [p]

theorem consume_stepOK (init : List Pt) (s s' : St) (cands rest : List Cand) (hI : Inv init s)
    (h : consume s cands = .ok (s', rest)) : StepOK s s' cands rest := by
  obtain ⟨w, t, c, v, pre, hlive, hc, hacc, hrej, hs'⟩ := consume_spec s s' cands rest h
  obtain ⟨hp, _, hgt⟩ := accepts_some hacc
  have hlt : w.logL < v := by simpa [gtMin] using hgt
  have hsorted := hI.sorted
  rw [hlive] at hsorted
  obtain ⟨hwt, _⟩ := List.pairwise_cons.mp hsorted
  have hlen := hI.len
  rw [hlive] at hlen
  simp at hlen
  have hk := rankIn_le (mkPt c v (s.iter + 1)) t
  refine ⟨w, t, c, mkPt c v (s.iter + 1), pre, hlive, ?_, hc, hrej, hp, rfl, rfl, rfl, rfl, hlt, ?_⟩
  · intro y hy
    rw [hlive] at hy
    rcases List.mem_cons.mp hy with rfl | hy
    · omega
    · exact hwt y hy
  · subst hs'
    refine ⟨rfl, rfl, rfl, insSorted_getElem _ _, by omega, rfl, rfl, rfl, rfl⟩

theorem runSteps_inv (init : List Pt) (k : Nat) (s s' : St) (cands rest : List Cand) (hI : Inv init s)
    (h : runSteps k s cands = .ok (s', rest)) : Inv init s' ∧ s'.iter = s.iter + k ∧ s'.n = s.n := by
  induction k generalizing s cands with
  | zero =>
    simp [runSteps] at h
    obtain ⟨rfl, _⟩ := h
    exact ⟨hI, rfl, rfl⟩
  | succ k ih =>
    unfold runSteps at h
    split at h
    · cases h
    · rename_i s1 r1 h1
      obtain ⟨w, t, c, v, pre, hlive, _, hacc, _, hs1⟩ := consume_spec s s1 cands r1 h1
      have hI1 : Inv init s1 := by rw [hs1]; exact stepResult_inv init s w t c v pre hI hlive hacc
      obtain ⟨hI', hit, hn⟩ := ih s1 r1 hI1 h
      refine ⟨hI', ?_, ?_⟩
      · rw [hit, hs1]; simp [stepResult]; omega
      · rw [hn, hs1]; rfl

/-- a run of `k+1` steps is a run of `k` steps followed by one `consume` -/
theorem runSteps_succ_right (k : Nat) (s : St) (cands : List Cand) :
    runSteps (k + 1) s cands =
      match runSteps k s cands with
      | .error e => .error e
      | .ok (sk, ck) => consume sk ck := by
  induction k generalizing s cands with
  | zero =>
    simp only [runSteps]
    cases consume s cands with
    | error e => rfl
    | ok r => rfl
  | succ k ih =>
    conv => lhs; unfold runSteps
    cases h : consume s cands with
    | error e => simp [runSteps, h]
    | ok r =>
      obtain ⟨s1, r1⟩ := r
      simp only
      rw [ih s1 r1]
      conv => rhs; unfold runSteps
      simp [h]

theorem populate_spec (n : Nat) (hn : 1 ≤ n) (cands rest : List Cand) (s : St)
    (h : populate (St.new n) cands = .ok (s, rest)) :
    Inv s.live s ∧ s.iter = 0 ∧ s.n = n ∧
    ∃ used, cands = used ++ rest ∧ s.live.Perm (used.filterMap storeOf) := by
  unfold populate at h
  split at h
  · cases h
  · rename_i pts lmax rest' hloop
    simp only [Except.ok.injEq, Prod.mk.injEq] at h
    obtain ⟨hs, hrest⟩ := h
    subst hrest
    obtain ⟨used, hu, ho, hl⟩ := populateLoop_spec _ _ _ _ _ _ _ hloop
    have hlen : pts.length = n := by
      have := hl (by simp)
      simpa [St.new] using this
    subst hs
    refine ⟨?_, rfl, rfl, used, hu, ?_⟩
    · exact
        { npos := hn
          len := by simp [St.new, (sortKey_perm pts).length_eq, hlen]
          sorted := sorted_sortKey _
          nsorted := by simp [St.new, SortedL]
          nle := by simp [St.new]
          perm := by simp [St.new]
          nlen := rfl
          ilen := rfl
          hlen := rfl
          irange := by simp [St.new]
          lmin := by simp [St.new] }
    · simp only [List.nil_append] at ho
      rw [← ho]
      exact sortKey_perm _

/-! ### concrete states used by the satisfiability examples -/
namespace Ex

def cands0 : List Cand :=
  [⟨1, .fin 5, .fin 5, .fin, true, true⟩, ⟨2, .fin 3, .fin 3, .fin, true, true⟩,
   ⟨3, .nan, .fin 3, .fin, true, true⟩, ⟨4, .fin 3, .fin 3, .ninf, true, true⟩,
   ⟨5, .fin 0, .fin 7, .fin, true, true⟩,
   ⟨6, .fin 3, .fin 3, .fin, true, false⟩, ⟨8, .fin 9, .fin 9, .ninf, false, true⟩,
   ⟨7, .fin 5, .fin 5, .fin, true, true⟩, ⟨9, .fin 6, .fin 6, .fin, true, true⟩]

/-- the state after `populate` of three points from `cands0`: ids 2,1,5 with logL 3,5,7 -/
def s0 : St :=
  { St.new 3 with live := [⟨2, 3, 0, .fin, true⟩, ⟨1, 5, 0, .fin, true⟩, ⟨5, 7, 0, .fin, true⟩],
                  logLmax := some 7 }

def rest0 : List Cand := cands0.drop 5

theorem ok_of_toOption {ε α : Type} {e : Except ε α} {a : α} (h : e.toOption = some a) : e = .ok a := by
  cases e with
  | error _ => simp [Except.toOption] at h
  | ok b => simp [Except.toOption] at h; rw [h]

theorem populate_s0 : populate (St.new 3) cands0 = .ok (s0, rest0) :=
  ok_of_toOption (by decide)

theorem inv_s0 : Inv s0.live s0 := (populate_spec 3 (by omega) cands0 rest0 s0 populate_s0).1

/-- one iteration: worst (id 2, logL 3) out; id 6 (logL 3, tie with logLmin) and id 8 (prior -inf)
are skipped; id 7 (logL 5, tie with live point 1) goes in *before* point 1, index 0. -/
def s1 : St :=
  { s0 with live := [⟨7, 5, 1, .fin, true⟩, ⟨1, 5, 0, .fin, true⟩, ⟨5, 7, 0, .fin, true⟩],
            nested := [⟨2, 3, 0, .fin, true⟩], idx := [0], logLmin := some 3, iter := 1,
            accepted := 1, rejected := 2, lastCount := 3, hist := [⟨7, 5, 1, .fin, true⟩] }

def rest1 : List Cand := [⟨9, .fin 6, .fin 6, .fin, true, true⟩]

theorem consume_s0 : consume s0 rest0 = .ok (s1, rest1) :=
  ok_of_toOption (by decide)

theorem run1_s0 : runSteps 1 s0 rest0 = .ok (s1, rest1) :=
  ok_of_toOption (by decide)

/-- second iteration: id 7 (logL 5) out, id 9 (logL 6) in at index 1 -/
def s2 : St :=
  { s1 with live := [⟨1, 5, 0, .fin, true⟩, ⟨9, 6, 2, .fin, true⟩, ⟨5, 7, 0, .fin, true⟩],
            nested := [⟨2, 3, 0, .fin, true⟩, ⟨7, 5, 1, .fin, true⟩], idx := [0, 1], logLmin := some 5,
            iter := 2, accepted := 2, rejected := 2, lastCount := 1,
            hist := [⟨7, 5, 1, .fin, true⟩, ⟨9, 6, 2, .fin, true⟩] }

/-- `s0` pickled in the middle of `consume_sample`: the worst point (id 2) is already recorded and
the iteration counted, but it is still in the live set and no insertion index exists -/
def m0 : St :=
  { s0 with nested := [⟨2, 3, 0, .fin, true⟩], logLmin := some 3, iter := 1 }

theorem begin_s0 : beginConsume s0 = some m0 := by decide

/-- the run resumed from `m0` restarts `consume_sample` from the top: id 2 is recorded again -/
def m1 : St :=
  { m0 with live := [⟨7, 5, 2, .fin, true⟩, ⟨1, 5, 0, .fin, true⟩, ⟨5, 7, 0, .fin, true⟩],
            nested := [⟨2, 3, 0, .fin, true⟩, ⟨2, 3, 0, .fin, true⟩], idx := [0], iter := 2,
            accepted := 1, rejected := 2, lastCount := 3, hist := [⟨7, 5, 2, .fin, true⟩] }

theorem consume_m0 : consume m0 rest0 = .ok (m1, rest1) :=
  ok_of_toOption (by decide)

theorem run2_s0 : runSteps 2 s0 rest0 = .ok (s2, []) :=
  ok_of_toOption (by decide)

end Ex

end NessaiVerif.LiveSet
