#!/bin/bash
# usage: harness/seedtest.sh <worktree> <Cxx> [tier]   — run a check against another checkout, then restore
# the generated Lean files and the evidence of this repository (they must always describe /repo itself).
cd "$(dirname "$(readlink -f "$0")")/.."
WT="$1"; P="$2"; TIER="${3:-quick}"
NESSAI_REPO="$WT" ./check "$P" --tier "$TIER" > "/tmp/seedtest-$P.log" 2>&1
RC=$?
grep -a "VIOLATION\|^\[$P\]" "/tmp/seedtest-$P.log" | grep -v "KNOWN-FINDING" | tail -6
echo "exit=$RC"
git checkout -- lean/NessaiVerif/Gen "evidence/$P.json" 2>/dev/null
exit 0
