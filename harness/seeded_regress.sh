#!/bin/bash
# Re-run every kept seeded change (seeded/<id>/patch.diff) against the check of its property in a scratch worktree of
# /repo's HEAD; prints one line per change: id, exit code of the check (1 = caught), VIOLATION kind.
# usage: harness/seeded_regress.sh [tier] [id-pattern]
# Runs in its OWN copy of /verif (generated Lean files and the lake build are per-checkout state: two checks pointed at
# different repositories must not share them).
SRC="$(dirname "$(readlink -f "$0")")/.."
TIER="${1:-quick}"; PAT="${2:-*}"
WT=/tmp/seedreg-$$
COPY=/tmp/seedreg-verif-$$
rsync -a --exclude replay --exclude .git "$SRC/" "$COPY/"; [ -x "$COPY/check" ] || exit 2
cd "$COPY"
git -C /repo worktree add --detach "$WT" HEAD >/dev/null 2>&1 || exit 2
for d in seeded/$PAT/; do
  [ -f "$d/meta.json" ] || continue
  id=$(basename "$d"); prop=$(python3 -c "import json;print(json.load(open('$d/meta.json'))['property'])")
  git -C "$WT" reset -q --hard HEAD; git -C "$WT" clean -fdq
  if ! git -C "$WT" apply "$PWD/$d/patch.diff" 2>/dev/null; then
    if ! patch -d "$WT" -p1 -s -F3 --no-backup-if-mismatch < "$PWD/$d/patch.diff" >/dev/null 2>&1; then echo "$id $prop patch-does-not-apply"; continue; fi
  fi
  NESSAI_REPO="$WT" ./check "$prop" --tier "$TIER" > "/tmp/seedreg-$id.log" 2>&1; rc=$?
  kind=$(grep -a "VIOLATION" "/tmp/seedreg-$id.log" | grep -c "no-failing-input-found")
  nv=$(grep -ac "VIOLATION" "/tmp/seedreg-$id.log")
  echo "$id $prop exit=$rc violations=$nv no-input-lines=$kind $(grep -a "^\[$prop\]" /tmp/seedreg-$id.log | sed 's/.*obligations/obligations/')"
done
git -C /repo worktree remove --force "$WT"
cd /; rm -rf "$COPY"
