import NessaiVerif.Model.Tables
import NessaiVerif.Gen.Tables
import NessaiVerif.Driver.Parse
/-
C14 line protocol (token `tab`).  Strings carry no spaces (the table generator strips them).

  tab read <file> <func> <forward|guard|test|use>            → 1 / 0   (`readAllowed`)
  tab call <file> <func> <method>                            → 1 / 0   (`callAllowed`)
  tab rng <[seeded sources]> <source> <file> <func> <call>   → 1 / 0   (`siteOk`)
  tab guarded <file> <func> <setting>                        → 1 / 0   (`guardedKnown`)
  tab seedguard <none|int>                                   → 1 / 0   (generated `seedReplaced`: is the seed replaced?)
  tab probe <allow0> <userPool> <detected|none> <nPoolArg|none> <cached none|0|1> <isVec>
       → allow=<b> npool=<n|none> pool=<b> points=<n> vec=<b> cached=<none|0|1>
-/
namespace NessaiVerif.Driver.Tables
open NessaiVerif NessaiVerif.Parse NessaiVerif.Tables

def parseKind? : String → Option ReadKind
  | "forward" => some .forward
  | "guard" => some .guard
  | "test" => some .test
  | "use" => some .use
  | _ => none

def parseSource? : String → Option RngSource
  | "numpyGlobal" => some .numpyGlobal
  | "torchGlobal" => some .torchGlobal
  | "delegated" => some .delegated
  | "freshSeeded" => some .freshSeeded
  | "freshUnseeded" => some .freshUnseeded
  | "explicitGenerator" => some .explicitGenerator
  | "stdlibRandom" => some .stdlibRandom
  | "osEntropy" => some .osEntropy
  | _ => none

def handle (toks : List String) : String :=
  match toks with
  | ["read", file, func, kind] =>
    match parseKind? kind with
    | some k => showBool (readAllowed ⟨file, func, 0, "", k⟩)
    | none => "bad-op"
  | ["call", file, func, method] => showBool (callAllowed ⟨file, func, 0, method⟩)
  | ["rng", seeded, source, file, func, call] =>
    match parseList? parseSource? seeded, parseSource? source with
    | some sd, some s => showBool (siteOk sd ⟨file, func, 0, call, .draw, s⟩)
    | _, _ => "bad-op"
  | ["guarded", file, func, setting] => showBool (guardedKnown ⟨file, func, 0, setting, ""⟩)
  | ["seedguard", v] =>
    match parseOpt? parseInt? v with
    | some s => showBool (Gen.Tables.seedReplaced s)
    | none => "bad-op"
  | ["probe", allow0, userPool, detected, nPoolArg, cached, isVec] =>
    match parseBool? allow0, parseBool? userPool, parseOpt? parseNat? detected, parseOpt? parseNat? nPoolArg,
          parseOpt? parseBool? cached, parseBool? isVec with
    | some a0, some up, some det, some np, some c, some iv =>
      let cfg := configurePool a0 ⟨up, det, np⟩
      let pr := probe cfg.1 c iv
      s!"allow={showBool cfg.1} npool={showOpt toString cfg.2.1} pool={showBool cfg.2.2} " ++
      s!"points={pr.1} vec={showBool pr.2.1} cached={showOpt showBool pr.2.2}"
    | _, _, _, _, _, _ => "bad-op"
  | _ => "bad-op"

end NessaiVerif.Driver.Tables
