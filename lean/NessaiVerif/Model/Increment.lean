import NessaiVerif.Model.Information
/-
C02 — the COMPLETE state of `_NSIntegralState` as one record, target of the definition that
`harness/pylog2lean.py` GENERATES from the source of `_NSIntegralState.increment` on every run
(`Gen/Increment.lean`), and its two projections onto the hand-written models the C02 theorems are about:
the quadrature state `Quad.St` (`Model/Quadrature.lean`) and the information state `Info.ISt`
(`Model/Information.lean`).  `Props/C02.lean` proves that the generated definition commutes with both projections
(`increment_source_eq_quadrature_model`, `increment_source_eq_information_model`), so the theorems about `St.increment`
and `ISt.step` are theorems about what the source text says now.

Linear-domain dictionary as in `Model/Quadrature.lean`; field order = the order `pylog2lean` emits.
-/
namespace NessaiVerif.Incr
open NessaiVerif.Quad NessaiVerif.Info

/-- `_NSIntegralState`: `base_nlive, logZ, logw, logLs, log_vols, nlive, info` (`gradients` is plotting only) -/
structure NSt (K : Type) where
  base : Nat
  Z : K
  w : K
  Ls : List K
  Xs : List K
  ns : List Nat
  info : List K

variable {K : Type}

/-- `__init__` -/
def NSt.init [OfNat K 0] [OfNat K 1] (n : Nat) : NSt K := ⟨n, 0, 1, [0], [1], [], [0]⟩

/-- the fields the quadrature model keeps -/
def NSt.toSt (s : NSt K) : St K := ⟨s.base, s.Z, s.w, s.Ls, s.Xs, s.ns⟩

/-- the fields the information model keeps (`logLs[-1]` as `lastL`) -/
def NSt.toISt [OfNat K 0] (s : NSt K) : ISt K := ⟨s.Z, s.w, s.info, s.Ls.getLastD 0⟩

/-- the shrinkage the source computes from the live count: `logt = -1.0 / nlive` (expectation "logt", transcendental:
through the parameter `ex`) or `logt = -np.log1p(1 / nlive)` (expectation "t") -/
def shrinkOf [Div K] [Add K] [Neg K] [OfNat K 1] [NatCast K] (ex : K → K) (isLogt : Bool) (n : Nat) : K :=
  if isLogt = true then ex (-1 / (n : K)) else 1 / (1 + 1 / (n : K))

end NessaiVerif.Incr
