/-
C18 — model of `nessai/livepoint.py` and of the live-point registry of
`nessai/config.py` (`LivepointsConfig`).  Core Lean only (linked into the driver).

Values are an abstract type `V` (in the driver: `Int` tokens, the decimal of the
IEEE bit pattern of a float field / the integer of the `it` field).  A live-point
array is the ordered field-name list of its dtype, the number `nf` of leading
fields that have the default float dtype (a layout fact that decides which
unstructured views NumPy accepts) and its records (`rows`, one list of values per
point, in dtype-field order).

Everything follows the code that exists, quirks included:
* `add_extra_parameters_to_live_points` zips names with defaults (silent
  truncation), skips a name that is already registered and keeps its first default;
* `get_dtype` = names ++ logP, logL, it ++ registered extras (NumPy raises
  `ValueError` on a repeated field name — this is how duplicated / reserved names are
  rejected);
* `empty_structured_array` returns before any assignment when `n = 0`;
* `numpy_array_to_live_points`: `size == 0` ⇒ empty array; 1-d ⇒ one point;
  surplus columns ignored, missing columns ⇒ `IndexError`;
* `dict_to_live_points`: the branch and the number of points are taken from the FIRST
  value: a scalar first value ⇒ one record built with `np.array([tuple])` (which raises
  `ValueError` if a later value is a sequence); a sequence first value ⇒
  `empty_structured_array(len(first))` and field-wise assignment with broadcasting
  (length-one sequences included, since the repair 0091c80);
* `unstructured_view` ignores the ORDER of `names` (it builds a dtype from offsets
  and reinterprets the leading bytes of each record).
-/
namespace NessaiVerif.LivePoint

inductive Err | valueErr | indexErr | keyErr
deriving Repr, DecidableEq

/-- the part of `config.livepoints` the conversions read -/
structure Cfg (V : Type) where
  /-- `default_float_value` (NaN) -/
  nan : V
  /-- `it_default` (0) -/
  it0 : V
  /-- `logl_dtype == default_float_dtype` (true for the defaults `f8`/`f8`) -/
  loglFloat : Bool := true

/-- the registry of extra non-sampling fields: (name, default) in registration order -/
structure Registry (V : Type) where
  extras : List (String × V) := []
deriving Repr, DecidableEq

def coreNames : List String := ["logP", "logL", "it"]

variable {V : Type}

def Registry.names (r : Registry V) : List String := r.extras.map Prod.fst
def Registry.defaults (r : Registry V) : List V := r.extras.map Prod.snd

/-- one iteration of the loop in `add_extra_parameters_to_live_points` -/
def addOne (r : Registry V) (pd : String × V) : Registry V :=
  if r.names.contains pd.1 then r else ⟨r.extras ++ [pd]⟩

/-- `add_extra_parameters_to_live_points(parameters, default_values)` -/
def add (cfg : Cfg V) (r : Registry V) (ps : List String) (dvs : Option (List V)) : Registry V :=
  let d := match dvs with
    | none => List.replicate ps.length cfg.nan
    | some d => d
  (ps.zip d).foldl addOne r

/-- `reset_extra_live_points_parameters()` -/
def reset (_r : Registry V) : Registry V := ⟨[]⟩

inductive RegOp (V : Type)
  | add (ps : List String) (dvs : Option (List V))
  | reset
deriving Repr

def applyOp (cfg : Cfg V) (r : Registry V) : RegOp V → Registry V
  | .add ps dvs => add cfg r ps dvs
  | .reset => reset r

def applyOps (cfg : Cfg V) (r : Registry V) (ops : List (RegOp V)) : Registry V :=
  ops.foldl (applyOp cfg) r

/-- `config.livepoints.non_sampling_parameters` -/
def nonSamplingNames (r : Registry V) : List String := coreNames ++ r.names
/-- `config.livepoints.non_sampling_defaults` -/
def nonSamplingDefaults (cfg : Cfg V) (r : Registry V) : List V :=
  [cfg.nan, cfg.nan, cfg.it0] ++ r.defaults

/-- the field names appended to the parameter names -/
def nsNames (r : Registry V) (nsp : Bool) : List String :=
  if nsp then nonSamplingNames r else []

/-- the values appended to every record -/
def tail (cfg : Cfg V) (r : Registry V) (nsp : Bool) : List V :=
  if nsp then nonSamplingDefaults cfg r else []

/-- number of leading fields with the default float dtype: the parameters, `logP`, and `logL`
when it has the same dtype (then comes the integer field `it`) -/
def nfOf (cfg : Cfg V) (names : List String) (nsp : Bool) : Nat :=
  if nsp then names.length + (if cfg.loglFloat then 2 else 1) else names.length

structure Dtype where
  fields : List String
  nf : Nat
deriving Repr, DecidableEq

/-- `get_dtype(names, non_sampling_parameters=nsp)`; `np.dtype` raises `ValueError` when a
field name occurs twice. -/
def getDtype (cfg : Cfg V) (r : Registry V) (names : List String) (nsp : Bool) : Except Err Dtype :=
  let fs := names ++ nsNames r nsp
  if fs.Nodup then .ok ⟨fs, nfOf cfg names nsp⟩ else .error .valueErr

/-- a structured array of live points -/
structure LP (V : Type) where
  fields : List String
  nf : Nat
  rows : List (List V)
deriving Repr, DecidableEq

/-- `empty_structured_array(n, names, non_sampling_parameters=nsp)` -/
def emptyStructured (cfg : Cfg V) (r : Registry V) (n : Nat) (names : List String) (nsp : Bool) :
    Except Err (LP V) :=
  match getDtype cfg r names nsp with
  | .error e => .error e
  | .ok dt =>
    if n = 0 then .ok ⟨dt.fields, dt.nf, []⟩
    else if names.isEmpty && nsp then .error .valueErr   -- `arr[[]] = nan` hits the int field
    else .ok ⟨dt.fields, dt.nf, List.replicate n (names.map (fun _ => cfg.nan) ++ tail cfg r nsp)⟩

/-- `empty_structured_array(n, dtype=fields)` (non-sampling parameters included): every field
that is not a registered non-sampling field is NaN; a missing non-sampling field ⇒ `ValueError`
(but only when `n > 0`). -/
def emptyStructuredOfDtype (cfg : Cfg V) (r : Registry V) (n : Nat) (fields : List String) (nf : Nat) :
    Except Err (LP V) :=
  if !fields.Nodup then .error .valueErr
  else if n = 0 then .ok ⟨fields, nf, []⟩
  else if !(nonSamplingNames r).all fields.contains then .error .valueErr
  else
    let dflt := (nonSamplingNames r).zip (nonSamplingDefaults cfg r)
    .ok ⟨fields, nf, List.replicate n (fields.map fun f => (dflt.lookup f).getD cfg.nan)⟩

/-- The canonical live-point array for parameter names `names` and parameter records `data`:
fields `names ++ logP, logL, it ++ extras`, every record followed by the defaults.  The
conversion functions are proved (Props/C18) to produce exactly this value. -/
def canon (cfg : Cfg V) (r : Registry V) (names : List String) (nsp : Bool) (data : List (List V)) : LP V :=
  ⟨names ++ nsNames r nsp, nfOf cfg names nsp, data.map (· ++ tail cfg r nsp)⟩

/-- an unstructured input array: 1-d, or 2-d with `ncols` columns (every row has `ncols` entries) -/
inductive NpArr (V : Type)
  | d1 (xs : List V)
  | d2 (ncols : Nat) (rows : List (List V))
deriving Repr

def NpArr.size : NpArr V → Nat
  | .d1 xs => xs.length
  | .d2 c rows => rows.length * c

def NpArr.ncols : NpArr V → Nat
  | .d1 xs => xs.length
  | .d2 c _ => c

def NpArr.rows : NpArr V → List (List V)
  | .d1 xs => [xs]
  | .d2 _ rows => rows

/-- `numpy_array_to_live_points(array, names, nsp)`.
**Written in specification form**: the branch structure (size 0 / 1-d / column count / dtype errors)
follows the code, but the loop `for i, n in enumerate(names): struct_array[n] = array[..., i]` over
the array returned by `empty_structured_array` is given by its closed form (`row.take k ++ defaults`),
not re-enacted assignment by assignment.  The theorems about the success path are therefore near
unfoldings of this definition; that the real loop computes this closed form is established by the
correspondence run (exact bit comparison on generated inputs), not by a proof. -/
def numpyArrayToLivePoints (cfg : Cfg V) (r : Registry V) (a : NpArr V) (names : List String)
    (nsp : Bool) : Except Err (LP V) :=
  if a.size = 0 then emptyStructured cfg r 0 names nsp
  else
    match emptyStructured cfg r a.rows.length names nsp with
    | .error e => .error e
    | .ok s =>
      if a.ncols < names.length then .error .indexErr
      else .ok ⟨s.fields, s.nf, a.rows.map fun row => row.take names.length ++ tail cfg r nsp⟩

/-- `parameters_to_live_point(parameters, names, nsp)`.  **Specification form** as well: the single
call `np.array([(*parameters, *defaults)], dtype)` is modelled by its result (the tuple laid out
over the dtype fields, `ValueError` on a length mismatch); content is in the tie. -/
def parametersToLivePoint (cfg : Cfg V) (r : Registry V) (ps : List V) (names : List String)
    (nsp : Bool) : Except Err (LP V) :=
  if ps.isEmpty then emptyStructured cfg r 0 names nsp
  else
    match getDtype cfg r names nsp with
    | .error e => .error e
    | .ok dt =>
      let row := ps ++ tail cfg r nsp
      if row.length = dt.fields.length then .ok ⟨dt.fields, dt.nf, [row]⟩ else .error .valueErr

/-- a dictionary value: a scalar or a sequence -/
inductive DVal (V : Type)
  | scalar (v : V)
  | arr (xs : List V)
deriving Repr

def DVal.scalar? : DVal V → Option V
  | .scalar v => some v
  | .arr _ => none

/-- all present, in order -/
def allSome {α : Type} : List (Option α) → Option (List α)
  | [] => some []
  | none :: _ => none
  | some a :: rest => (allSome rest).map (a :: ·)

/-- `array[k] = v` on a field of length `N`: NumPy broadcasting -/
def DVal.column (N : Nat) : DVal V → Option (List V)
  | .scalar v => some (List.replicate N v)
  | .arr xs =>
    if xs.length = N then some xs
    else match xs with
      | [x] => some (List.replicate N x)
      | _ => none

/-- rows ↔ columns: `transpose k rows` are the `k` columns of rows of length `k`
(and `transpose n cols` are the `n` rows of columns of length `n`). -/
def transpose (k : Nat) : List (List V) → List (List V)
  | [] => List.replicate k []
  | row :: rest => List.zipWith (· :: ·) row (transpose k rest)

/-- `dict_to_live_points(d, nsp)`; `d` in insertion order (keys are distinct: it is a dict).
The scalar branch (`np.array([tuple])`) is taken only when the FIRST value has no `__len__`;
otherwise the number of points is the length of the first value.
**Specification form**: the loop `for k, v in d.items(): array[k] = v` (NumPy broadcasting per
field) is modelled by its closed form — broadcast every value to a column, transpose the columns
into records, append the defaults; the scalar branch by the result of `np.array([tuple], dtype)`.
The theorems about the success paths are near unfoldings plus the transposition lemmas; that the
real field-wise assignment computes this closed form is established by the tie. -/
def dictToLivePoints (cfg : Cfg V) (r : Registry V) (d : List (String × DVal V)) (nsp : Bool) :
    Except Err (LP V) :=
  match d with
  | [] => .error .indexErr                       -- `a[0]` on the empty tuple
  | (_, .scalar _) :: _ =>
    match getDtype cfg r (d.map Prod.fst) nsp with
    | .error e => .error e
    | .ok dt =>
      match allSome (d.map fun kv => kv.2.scalar?) with
      | none => .error .valueErr               -- "setting an array element with a sequence"
      | some vals => .ok ⟨dt.fields, dt.nf, [vals ++ tail cfg r nsp]⟩
  | (_, .arr xs) :: _ =>
    match emptyStructured cfg r xs.length (d.map Prod.fst) nsp with
    | .error e => .error e
    | .ok s =>
      match allSome (d.map fun kv => kv.2.column xs.length) with
      | none => .error .valueErr               -- "could not broadcast"
      | some cols => .ok ⟨s.fields, s.nf, (transpose xs.length cols).map (· ++ tail cfg r nsp)⟩

/-- `dataframe_to_live_points(df, nsp)`: column labels and the rows of `df.values`.
**Specification form**: `np.array([tuple(x) + extra for x in df.values], dtype)` is modelled by its
result; content is in the tie. -/
def dataframeToLivePoints (cfg : Cfg V) (r : Registry V) (cols : List String) (rows : List (List V))
    (nsp : Bool) : Except Err (LP V) :=
  match getDtype cfg r cols nsp with
  | .error e => .error e
  | .ok dt =>
    let out := rows.map (· ++ tail cfg r nsp)
    if out.all (fun row => row.length == dt.fields.length) then .ok ⟨dt.fields, dt.nf, out⟩
    else .error .valueErr

/-- column `j` of the records -/
def getCol (j : Nat) (rows : List (List V)) : List V := rows.filterMap (·[j]?)

/-- `live_points[names]`: first offending name decides (`KeyError` unknown, `ValueError` repeated) -/
def scanNames (fields : List String) : List String → List String → Option Err
  | _, [] => none
  | seen, f :: rest =>
    if !fields.contains f then some .keyErr
    else if seen.contains f then some .valueErr
    else scanNames fields (f :: seen) rest

/-- `live_points_to_array(live_points, names)`: (number of columns, rows).  `names = []` is an
empty fancy index (zero records, all fields).  An `it` column is returned as a value of `V`
unchanged (the real function casts the integer to float). -/
def livePointsToArray (lp : LP V) (names : Option (List String)) : Except Err (Nat × List (List V)) :=
  match names with
  | none => .ok (lp.fields.length, lp.rows)
  | some [] => .ok (lp.fields.length, [])
  | some nm =>
    match scanNames lp.fields [] nm with
    | some e => .error e
    | none => .ok (nm.length, lp.rows.map fun row => nm.filterMap fun f => row[lp.fields.idxOf f]?)

/-- `live_points_to_dict(live_points, names)` in key order (a repeated name is one key) -/
def livePointsToDict (lp : LP V) (names : Option (List String)) : Except Err (List (String × List V)) :=
  let nm := match names with
    | none => lp.fields
    | some l => l
  if nm.all lp.fields.contains then
    .ok (nm.eraseDups.map fun f => (f, getCol (lp.fields.idxOf f) lp.rows))
  else .error .valueErr

/-- the number of columns of `unstructured_view(x, names)`, when NumPy accepts the view:
the distinct names must be exactly the first `k` fields (in ANY order) and those must all have
the default float dtype. -/
def viewWidth (lp : LP V) (names : List String) : Except Err Nat :=
  if !names.all lp.fields.contains then .error .keyErr
  else
    let nm := names.eraseDups
    let k := nm.length
    if k ≤ lp.nf && (lp.fields.take k).all nm.contains then .ok k else .error .valueErr

/-- reading `unstructured_view(x, names)` -/
def unstructuredView (lp : LP V) (names : List String) : Except Err (List (List V)) :=
  match viewWidth lp names with
  | .error e => .error e
  | .ok k => .ok (lp.rows.map (·.take k))

/-- `unstructured_view(x, names)[i, j] = v`: the array `x` afterwards -/
def viewSet (lp : LP V) (names : List String) (i j : Nat) (v : V) : Except Err (LP V) :=
  match viewWidth lp names with
  | .error e => .error e
  | .ok k =>
    if i < lp.rows.length ∧ j < k then .ok { lp with rows := lp.rows.modify i (·.set j v) }
    else .error .indexErr

/-- `x[name][i]` -/
def getField (lp : LP V) (name : String) (i : Nat) : Option V :=
  match lp.rows[i]? with
  | none => none
  | some row => if lp.fields.contains name then row[lp.fields.idxOf name]? else none

/-- `x[name][i] = v` -/
def setField (lp : LP V) (name : String) (i : Nat) (v : V) : LP V :=
  { lp with rows := lp.rows.modify i (·.set (lp.fields.idxOf name) v) }

end NessaiVerif.LivePoint
