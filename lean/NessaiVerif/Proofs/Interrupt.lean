import NessaiVerif.Model.Interrupt
/- Lemmas for C13: one complete iteration preserves consistency; the slice program inserts the candidate. -/
namespace NessaiVerif.Interrupt
open NessaiVerif.Np

theorem ssl_cons_lt (w : Int) (rest : List Int) (v : Int) (h : w < v) :
    ssl (w :: rest) v = ssl rest v + 1 := by
  simp [ssl, List.takeWhile_cons, h]

theorem ssl_le_length (a : List Int) (v : Int) : ssl a v ≤ a.length := by
  unfold ssl
  induction a with
  | nil => simp
  | cons x xs ih => simp only [List.takeWhile_cons]; split <;> simp <;> omega

/-- the first `ssl` elements are `< v` -/
theorem take_ssl_lt (a : List Int) (v : Int) : ∀ x ∈ a.take (ssl a v), x < v := by
  unfold ssl
  induction a with
  | nil => simp
  | cons x xs ih =>
    simp only [List.takeWhile_cons]
    by_cases hx : x < v
    · simp only [hx, decide_true, if_true, List.length_cons, List.take_succ_cons, List.mem_cons]
      rintro y (rfl | hy)
      · exact hx
      · exact ih y hy
    · simp [hx]

/-- in a sorted list the elements from position `ssl` on are `≥ v` -/
theorem drop_ssl_ge (a : List Int) (v : Int) (hs : a.Pairwise (· ≤ ·)) : ∀ x ∈ a.drop (ssl a v), v ≤ x := by
  unfold ssl
  induction a with
  | nil => simp
  | cons x xs ih =>
    simp only [List.takeWhile_cons]
    have hs' := List.pairwise_cons.mp hs
    by_cases hx : x < v
    · simp only [hx, decide_true, if_true, List.length_cons, List.drop_succ_cons]
      exact ih hs'.2
    · simp only [hx, decide_false]
      intro y hy
      simp only [Bool.false_eq_true, if_false, List.length_nil, List.drop_zero, List.mem_cons] at hy
      rcases hy with hy | hy
      · omega
      · have := hs'.1 y hy; omega

/-- **the slice program of `insert_live_point` inserts the candidate**: with `m` the insertion position in the
tail, `live[:m] = live[1:m+1]; live[m] = p` turns `w :: rest` into `rest[:m] ++ p :: rest[m:]` -/
theorem insert_slice (w p : Pt) (rest : List Pt) (m : Nat) (hm : m ≤ rest.length) :
    placeLive (shiftLive (w :: rest) (m + 1)) (m + 1) p = rest.take m ++ p :: rest.drop m := by
  unfold placeLive shiftLive
  simp only [Nat.add_eq_zero_iff, Nat.one_ne_zero, and_false, if_false, Nat.add_sub_cancel]
  cases m with
  | zero => simp
  | succ k =>
    have h1 : ¬ k + 1 + 1 ≤ 1 := by omega
    simp only [h1, if_false, List.drop_succ_cons, List.drop_zero]
    have hlen : (rest.take (k + 1)).length = k + 1 := by simp; omega
    rw [List.set_append_right _ _ (by omega), hlen, Nat.sub_self]
    have hk : k < rest.length := by omega
    have : (List.drop k rest).set 0 p = p :: List.drop (k + 1) rest := by
      rw [List.drop_eq_getElem_cons hk, List.set_cons_zero]
    simpa using this

end NessaiVerif.Interrupt

namespace NessaiVerif.Interrupt
open NessaiVerif.Np

/-- a complete iteration, spelled out -/
theorem consume_eq (s : NS) (w : Pt) (rest : List Pt) (p : Pt) (hl : s.live = w :: rest) :
    consume canonicalOrder s p =
      { live := placeLive (shiftLive (w :: rest) (ssl (keys (w :: rest)) p.key)) (ssl (keys (w :: rest)) p.key) p,
        nested := s.nested ++ [w], evid := s.evid ++ [w.key],
        idx := s.idx ++ [ssl (keys (w :: rest)) p.key - 1], iter := s.iter + 1, logLmin := some w.key } := by
  simp [consume, runTags, hl, applyTags, applyTag, canonicalOrder]

/-- the Prop-level reading of `consistent` -/
structure Consistent (n : Nat) (s : NS) : Prop where
  size : s.live.length = n
  nestedLen : s.nested.length = s.iter
  evidLen : s.evid.length = s.iter
  idxLen : s.idx.length = s.iter
  nodup : ((s.live ++ s.nested).map (·.id)).Nodup
  sorted : (keys s.live).Pairwise (· ≤ ·)
  evid : s.evid = keys s.nested

theorem consistent_iff (n : Nat) (s : NS) : consistent n s = true ↔ Consistent n s := by
  unfold consistent
  simp only [Bool.and_eq_true, beq_iff_eq, decide_eq_true_eq]
  constructor
  · rintro ⟨⟨⟨⟨⟨⟨h1, h2⟩, h3⟩, h4⟩, h5⟩, h6⟩, h7⟩
    exact ⟨h1, h2, h3, h4, h5, h6, h7⟩
  · rintro ⟨h1, h2, h3, h4, h5, h6, h7⟩
    exact ⟨⟨⟨⟨⟨⟨h1, h2⟩, h3⟩, h4⟩, h5⟩, h6⟩, h7⟩

/-- **A complete, uninterrupted iteration preserves consistency** and does exactly what C01 says:
the minimum is removed and recorded once, the candidate is inserted at its sorted position. -/
theorem consume_consistent (n : Nat) (s : NS) (p : Pt) (h : Consistent n s) (hp : validCand s p = true) :
    Consistent n (consume canonicalOrder s p) ∧
    ∃ w rest m, s.live = w :: rest ∧ m ≤ rest.length ∧
      (consume canonicalOrder s p).live = rest.take m ++ p :: rest.drop m ∧
      (consume canonicalOrder s p).nested = s.nested ++ [w] := by
  unfold validCand at hp
  cases hl : s.live with
  | nil => simp [hl] at hp
  | cons w rest =>
    simp only [hl, Bool.and_eq_true, decide_eq_true_eq, Bool.not_eq_true', List.contains_eq_mem,
      decide_eq_false_iff_not] at hp
    obtain ⟨hwp, hfresh⟩ := hp
    have hkeys : keys (w :: rest) = w.key :: keys rest := rfl
    have hidx : ssl (keys (w :: rest)) p.key = ssl (keys rest) p.key + 1 := by
      rw [hkeys]; exact ssl_cons_lt _ _ _ hwp
    have hm : ssl (keys rest) p.key ≤ rest.length := by
      have := ssl_le_length (keys rest) p.key; simpa [keys] using this
    have hlive := insert_slice w p rest (ssl (keys rest) p.key) hm
    rw [consume_eq s w rest p hl, hidx, hlive]
    have hsorted : (keys (w :: rest)).Pairwise (· ≤ ·) := hl ▸ h.sorted
    have hsr : (keys rest).Pairwise (· ≤ ·) := (List.pairwise_cons.mp hsorted).2
    refine ⟨⟨?_, ?_, ?_, ?_, ?_, ?_, ?_⟩, w, rest, _, rfl, hm, rfl, rfl⟩
    · have := h.size; rw [hl] at this; simp at this ⊢; omega
    · simp [h.nestedLen]
    · simp [h.evidLen]
    · simp [h.idxLen]
    · -- ids: a permutation of p :: (old live ++ old nested)
      have hperm : ((rest.take (ssl (keys rest) p.key) ++ p :: rest.drop (ssl (keys rest) p.key)) ++ (s.nested ++ [w])).Perm
          (p :: ((w :: rest) ++ s.nested)) := by
        have h1 : (rest.take (ssl (keys rest) p.key) ++ p :: rest.drop (ssl (keys rest) p.key)).Perm (p :: rest) := by
          refine List.perm_middle.trans (List.Perm.cons p ?_)
          rw [List.take_append_drop]
        have h2 : (s.nested ++ [w]).Perm (w :: s.nested) := List.perm_append_singleton _ _
        refine (List.Perm.append h1 h2).trans ?_
        simp only [List.cons_append]
        refine List.Perm.cons p ?_
        exact List.perm_middle
      refine (hperm.map _).nodup_iff.mpr ?_
      rw [List.map_cons, List.nodup_cons]
      exact ⟨hfresh, hl ▸ h.nodup⟩
    · -- sortedness of rest[:m] ++ p :: rest[m:]
      simp only [keys, List.map_append, List.map_cons, List.map_take, List.map_drop]
      rw [List.pairwise_append]
      have hk : keys rest = rest.map (·.key) := rfl
      refine ⟨?_, ?_, ?_⟩
      · exact (hk ▸ hsr).sublist (List.take_sublist _ _)
      · rw [List.pairwise_cons]
        refine ⟨?_, (hk ▸ hsr).sublist (List.drop_sublist _ _)⟩
        intro x hx
        exact drop_ssl_ge (keys rest) p.key hsr x hx
      · intro x hx y hy
        have hxlt := take_ssl_lt (keys rest) p.key x hx
        rcases List.mem_cons.mp hy with rfl | hy
        · omega
        · have := drop_ssl_ge (keys rest) p.key hsr y hy; omega
    · simp [keys, h.evid]

end NessaiVerif.Interrupt

namespace NessaiVerif.Interrupt
open NessaiVerif.Np

/-- a complete iteration moves all four counters together (or does nothing on an empty live set) -/
theorem consume_offsets (s : NS) (p : Pt) :
    ((consume canonicalOrder s p).evid.length : Int) - (consume canonicalOrder s p).iter = s.evid.length - s.iter ∧
    ((consume canonicalOrder s p).nested.length : Int) - (consume canonicalOrder s p).iter = s.nested.length - s.iter ∧
    ((consume canonicalOrder s p).idx.length : Int) - (consume canonicalOrder s p).iter = s.idx.length - s.iter := by
  cases hl : s.live with
  | nil => simp [consume, runTags, hl]
  | cons w rest =>
    rw [consume_eq s w rest p hl]
    simp only [List.length_append, List.length_cons, List.length_nil]
    omega

/-- the counters of the state pickled by an interruption after `j` mutating statements, `2 ≤ j ≤ 6` -/
theorem interrupted_offsets (s : NS) (p : Pt) (j : Nat) (hj : 2 ≤ j ∧ j ≤ 6) (hne : s.live ≠ []) :
    let t := runTags s p (canonicalOrder.take j)
    (t.evid.length : Int) - t.iter ≠ s.evid.length - s.iter ∨
    (t.idx.length : Int) - t.iter ≠ s.idx.length - s.iter := by
  cases hl : s.live with
  | nil => exact absurd hl hne
  | cons w rest =>
    obtain rfl | rfl | rfl | rfl | rfl : j = 2 ∨ j = 3 ∨ j = 4 ∨ j = 5 ∨ j = 6 := by omega
    all_goals
      simp only [runTags, hl, canonicalOrder, List.take, applyTags, applyTag, List.length_append,
        List.length_cons, List.length_nil]
      omega

end NessaiVerif.Interrupt

namespace NessaiVerif.Interrupt
/-! ### `sortPts` sorts by likelihood and keeps every point -/

theorem insPt_length (p : Pt) (l : List Pt) : (insPt p l).length = l.length + 1 := by
  induction l with
  | nil => rfl
  | cons x xs ih => simp only [insPt]; split <;> simp [ih]

theorem sortPts_length (l : List Pt) : (sortPts l).length = l.length := by
  induction l with
  | nil => rfl
  | cons x xs ih => simp [sortPts, insPt_length, ih]

theorem insPt_mem (p q : Pt) (l : List Pt) : q ∈ insPt p l ↔ q = p ∨ q ∈ l := by
  induction l with
  | nil => simp [insPt]
  | cons x xs ih =>
    simp only [insPt]
    split
    · simp
    · simp only [List.mem_cons, ih]
      constructor
      · rintro (h | h | h)
        · exact Or.inr (Or.inl h)
        · exact Or.inl h
        · exact Or.inr (Or.inr h)
      · rintro (h | h | h)
        · exact Or.inr (Or.inl h)
        · exact Or.inl h
        · exact Or.inr (Or.inr h)

theorem insPt_sorted (p : Pt) (l : List Pt) (h : l.Pairwise (fun a b => a.key ≤ b.key)) :
    (insPt p l).Pairwise (fun a b => a.key ≤ b.key) := by
  induction l with
  | nil => simp [insPt]
  | cons x xs ih =>
    simp only [insPt]
    rw [List.pairwise_cons] at h
    split
    · rename_i hc
      refine List.pairwise_cons.mpr ⟨?_, List.pairwise_cons.mpr h⟩
      intro b hb
      have hpx : p.key ≤ x.key := by rcases hc with hc | hc <;> omega
      rcases List.mem_cons.mp hb with rfl | hb
      · exact hpx
      · exact Int.le_trans hpx (h.1 b hb)
    · rename_i hc
      refine List.pairwise_cons.mpr ⟨?_, ih h.2⟩
      intro b hb
      rcases (insPt_mem p b xs).mp hb with rfl | hb
      · have : ¬ (b.key < x.key) := fun hh => hc (Or.inl hh)
        omega
      · exact h.1 b hb

theorem sortPts_sorted (l : List Pt) : (sortPts l).Pairwise (fun a b => a.key ≤ b.key) := by
  induction l with
  | nil => simp [sortPts]
  | cons x xs ih => exact insPt_sorted x _ ih

end NessaiVerif.Interrupt
