import NessaiVerif.Model.LoopsRun
import NessaiVerif.Proofs.Loops
import Mathlib.Analysis.SpecialFunctions.Log.Basic
import Mathlib.Analysis.SpecialFunctions.Sqrt
/-
C15 — sampling stops exactly per the stopping rule; finished runs are idempotent.

The guards (`stdWhile`, `stdBot`, `stdFinaliseGuard`, `reached`, `insTop`, `insBot`, the alias table,
`configureStopping`, `cfgMinIteration`, …) are the definitions GENERATED from the Python source in
`Gen/Loops.lean`; the loop skeleton `runLoop` and the assembled `stdRun` / `insRun` are in `Model/`.
`body` is an arbitrary function: the theorems hold whatever one iteration does to the rest of the state,
as long as it leaves the configuration alone and counts the iteration (`StdBodyOk` / `InsBodyOk`).
Order theorems hold for every linear order `K` (the driver runs them at `Ext` = ℚ ∪ {±∞}); criteria
theorems for every linearly ordered field, and their logarithmic forms over ℝ.
-/
namespace NessaiVerif.C15
open NessaiVerif.Loops NessaiVerif.Gen.Loops

section order
variable {K : Type} [LinearOrder K]

/-- what one pass of the standard loop body may do as far as the stopping logic is concerned:
`consume_sample` increments `iteration` once; nothing touches tolerance, cap or the `finalised` flag -/
def StdBodyOk (body : Std K → Std K) : Prop :=
  ∀ s, (body s).iteration = s.iteration + 1 ∧ (body s).tolerance = s.tolerance ∧
       (body s).maxIteration = s.maxIteration ∧ (body s).finalised = s.finalised

/-- the stopping rule of the standard sampler after `j` iterations: the remaining-evidence estimate is
at or below the tolerance, or (only tested after an iteration) the iteration counter reached the cap -/
def StdStop (body : Std K → Std K) (s : Std K) (j : Nat) : Prop :=
  (iter body j s).condition ≤ s.tolerance ∨
    (1 ≤ j ∧ ∃ m, s.maxIteration = Cap.fin m ∧ m ≤ s.iteration + j)

omit [LinearOrder K] in
/-- after `j` bodies the iteration counter has advanced by exactly `j` and tolerance, cap and the
`finalised` flag are the ones the loop was entered with -/
theorem std_iter_inv {body : Std K → Std K} (hb : StdBodyOk body) (s : Std K) (j : Nat) :
    (iter body j s).iteration = s.iteration + j ∧ (iter body j s).tolerance = s.tolerance ∧
      (iter body j s).maxIteration = s.maxIteration ∧ (iter body j s).finalised = s.finalised := by
  induction j with
  | zero => simp [iter]
  | succ j ih =>
    rw [iter_succ]
    obtain ⟨h1, h2, h3, h4⟩ := hb (iter body j s)
    obtain ⟨i1, i2, i3, i4⟩ := ih
    refine ⟨?_, by rw [h2, i2], by rw [h3, i3], by rw [h4, i4]⟩
    rw [h1, i1]; push_cast; ring

/-- the exit test of the generated loop (`stdWhile` false, or `stdBot` true after a body) is the
stopping rule `StdStop` — this is where the generated comparison operators are pinned down -/
theorem std_stopAt_iff {body : Std K → Std K} (hb : StdBodyOk body) (s : Std K) (j : Nat) :
    stopAt stdWhile stdTop stdBot body s j = true ↔ StdStop body s j := by
  obtain ⟨i1, i2, i3, _⟩ := std_iter_inv hb s j
  unfold stopAt StdStop stdWhile stdTop stdBot
  simp only [i1, i2, i3]
  cases hm : s.maxIteration with
  | inf => simp [Cap.ge]
  | fin m => simp [Cap.ge]

/-- **The standard sampler stops exactly per its rule.**  For every body, every tolerance and cap and
every trajectory of condition values: the loop leaves after exactly `k` iterations iff `k` is the FIRST
index at which `condition ≤ tolerance` or (after at least one iteration) `iteration ≥ max_iteration` —
never earlier, never later.  (`fuel` only bounds how far we follow the loop.) -/
theorem standard_stops_first (body : Std K → Std K) (hb : StdBodyOk body) (s : Std K)
    (fuel k : Nat) (s' : Std K) :
    runLoop stdWhile stdTop stdBot body fuel s 0 = some (k, s') ↔
      (k ≤ fuel ∧ s' = iter body k s ∧ StdStop body s k ∧ ∀ j, j < k → ¬ StdStop body s j) := by
  rw [runLoop_spec]
  constructor
  · rintro ⟨j, hk, hj, hs, hstop, hmin⟩
    have : k = j := by omega
    subst this
    refine ⟨hj, hs, (std_stopAt_iff hb s k).mp hstop, ?_⟩
    intro i hi hc
    have := hmin i hi
    rw [(std_stopAt_iff hb s i).mpr hc] at this
    cases this
  · rintro ⟨hk, hs, hstop, hmin⟩
    refine ⟨k, by omega, hk, hs, (std_stopAt_iff hb s k).mpr hstop, ?_⟩
    intro i hi
    have := hmin i hi
    rw [← std_stopAt_iff hb s i] at this
    simpa using this

/-- the loop does leave: if the rule is met at some index within the fuel, the loop returns -/
theorem standard_terminates (body : Std K → Std K) (hb : StdBodyOk body) (s : Std K) (fuel : Nat)
    (h : ∃ j, j ≤ fuel ∧ StdStop body s j) :
    ∃ k s', runLoop stdWhile stdTop stdBot body fuel s 0 = some (k, s') := by
  apply runLoop_isSome
  obtain ⟨j, hj, hs⟩ := h
  exact ⟨j, hj, (std_stopAt_iff hb s j).mpr hs⟩

/-- the cap is only looked at after an iteration: a sampler entering the loop with its iteration counter
already at the cap (and the condition above the tolerance) still performs one iteration -/
theorem standard_cap_checked_after_body (body : Std K → Std K) (hb : StdBodyOk body) (s : Std K) (m : Int)
    (hcap : s.maxIteration = Cap.fin m) (hit : m ≤ s.iteration) (hc : s.tolerance < s.condition) :
    runLoop stdWhile stdTop stdBot body 1 s 0 = some (1, body s) := by
  rw [standard_stops_first body hb]
  refine ⟨Nat.le_refl _, rfl, Or.inr ⟨Nat.le_refl _, m, hcap, by omega⟩, ?_⟩
  intro j hj
  have : j = 0 := by omega
  subst this
  rintro (h | ⟨h, _⟩)
  · simp only [iter] at h; exact absurd hc (not_lt.mpr h)
  · omega

/-- `finalise` runs iff the loop was left with the condition at or below the tolerance; a run stopped
only by the iteration cap is NOT finalised (its live points stay unconsumed) -/
theorem finalise_iff (body : Std K → Std K) (hb : StdBodyOk body) (s : Std K) (fuel k : Nat) (s' : Std K)
    (hnf : s.finalised = false) (hset : finaliseSetsFlag = true)
    (h : stdRun body fuel s = some (k, s')) :
    (s'.finalised = true ↔ (iter body k s).condition ≤ s.tolerance) ∧
      ((iter body k s).condition ≤ s.tolerance → s' = stdFinalise (iter body k s)) ∧
      (¬ (iter body k s).condition ≤ s.tolerance → s' = iter body k s) := by
  unfold stdRun at h
  have he : stdEntryReturn s = false := by simpa [stdEntryReturn] using hnf
  simp only [he, Bool.false_eq_true, if_false] at h
  split at h
  · cases h
  · rename_i k1 s1 hrun
    have hk : k1 = k := by simp at h; exact h.1
    subst hk
    obtain ⟨_, hs1, _, _⟩ := (standard_stops_first body hb s fuel k1 s1).mp hrun
    obtain ⟨_, i2, _, i4⟩ := std_iter_inv hb s k1
    subst hs1
    by_cases hc : (iter body k1 s).condition ≤ s.tolerance
    · have hg : stdFinaliseGuard (iter body k1 s) = true := by
        simp [stdFinaliseGuard, i2, i4, hnf, hc]
      simp only [hg, if_true] at h
      have hs' : s' = stdFinalise (iter body k1 s) := by simp at h; exact h.symm
      refine ⟨?_, fun _ => hs', fun hn => absurd hc hn⟩
      subst hs'
      simp [stdFinalise, hset, hc]
    · have hg : stdFinaliseGuard (iter body k1 s) = false := by
        simp [stdFinaliseGuard, i2, hc]
      simp only [hg, Bool.false_eq_true, if_false] at h
      have hs' : s' = iter body k1 s := by simp at h; exact h.symm
      refine ⟨?_, fun hp => absurd hp hc, fun _ => hs'⟩
      subst hs'
      simp [i4, hnf, hc]

omit [LinearOrder K] in
/-- **`finalise` consumes every remaining live point exactly once.**  With `n` live points left
(`nlive = n`), the evidence integrator is incremented once per live point, in order, with live counts
`n, n-1, …, 1`; the live points are appended to the nested samples once, in order; the live set is
cleared and the `finalised` flag set. -/
theorem finalise_consumes_once (s : Std K) (l : List Nat) (hl : s.live = some l) (hn : s.nlive = l.length) :
    (stdFinalise s).nested = s.nested ++ l ∧
    (stdFinalise s).incs = s.incs ++ l.zipIdx.map (fun q => (q.1, (l.length : Int) - (q.2 : Int))) ∧
    (stdFinalise s).live = none ∧ (stdFinalise s).finalised = true ∧
    (∀ p, ((stdFinalise s).nested.drop s.nested.length).count p = l.count p) ∧
    (∀ q ∈ ((stdFinalise s).incs.drop s.incs.length), 1 ≤ q.2 ∧ q.2 ≤ l.length) := by
  have hnest : (stdFinalise s).nested = s.nested ++ l := by
    simp [stdFinalise, finaliseLoop_spec, hl]
  have hincs : (stdFinalise s).incs =
      s.incs ++ l.zipIdx.map (fun q => (q.1, (l.length : Int) - (q.2 : Int))) := by
    simp [stdFinalise, finaliseLoop_spec, hl, hn, finaliseNlive]
  refine ⟨hnest, hincs, by simp [stdFinalise, finaliseClearsLive], by simp [stdFinalise, finaliseSetsFlag], ?_, ?_⟩
  · intro p; rw [hnest]; simp
  · intro q hq
    rw [hincs] at hq
    simp only [List.drop_left, List.mem_map] at hq
    obtain ⟨⟨x, i⟩, hmem, rfl⟩ := hq
    have := List.mem_zipIdx hmem
    simp only
    omega

/-- **The finalised short-circuit.**  On a state whose `finalised` flag is set, `nested_sampling_loop`
(any body, any fuel) executes 0 bodies — no likelihood is evaluated — and hands back the stored state
itself: nested samples, evidence increments, live set, condition and iteration counter are the stored ones. -/
theorem finalised_entry_returns_stored (body : Std K → Std K) (fuel : Nat) (s : Std K)
    (hf : s.finalised = true) :
    stdRun body fuel s = some (0, s) := by
  simp [stdRun, stdEntryReturn, hf]

/-- **A run that stopped by its tolerance is idempotent.**  If `nested_sampling_loop`, entered unfinished,
returned after `k` iterations with `condition ≤ tolerance`, then a second call — with any body and any
fuel — performs 0 iterations and returns exactly the state the first call returned (same nested samples,
same evidence increments, no live points, same iteration counter). -/
theorem rerun_idempotent (body body' : Std K → Std K) (hb : StdBodyOk body) (s s' : Std K)
    (fuel fuel' k : Nat) (hnf : s.finalised = false) (hset : finaliseSetsFlag = true)
    (h : stdRun body fuel s = some (k, s')) (htol : (iter body k s).condition ≤ s.tolerance) :
    stdRun body' fuel' s' = some (0, s') :=
  finalised_entry_returns_stored body' fuel' s'
    ((finalise_iff body hb s fuel k s' hnf hset h).1.mpr htol)

/-- **…and a run that stopped only by `max_iteration` is not** (behaviour of the code, reported as a known
finding): if the first call returned with the condition still above the tolerance, the returned state is not
finalised and a second call, given room for one iteration, performs exactly one more iteration. -/
theorem rerun_after_cap_iterates (body body' : Std K → Std K) (hb : StdBodyOk body) (hb' : StdBodyOk body')
    (s s' : Std K) (fuel fuel' k : Nat) (hnf : s.finalised = false) (hset : finaliseSetsFlag = true)
    (h : stdRun body fuel s = some (k, s')) (hcap : ¬ (iter body k s).condition ≤ s.tolerance)
    (hfuel : 1 ≤ fuel') :
    s'.finalised = false ∧ ∃ s'', stdRun body' fuel' s' = some (1, s'') ∧ s''.iteration = s'.iteration + 1 := by
  obtain ⟨hfin, _, hsame⟩ := finalise_iff body hb s fuel k s' hnf hset h
  have hs' : s' = iter body k s := hsame hcap
  have hnf' : s'.finalised = false := by
    cases hf : s'.finalised with
    | false => rfl
    | true => exact absurd (hfin.mp hf) hcap
  refine ⟨hnf', ?_⟩
  -- the first loop was left through the cap test
  have hrun : runLoop stdWhile stdTop stdBot body fuel s 0 = some (k, iter body k s) := by
    unfold stdRun at h
    have he : stdEntryReturn s = false := by simpa [stdEntryReturn] using hnf
    simp only [he, Bool.false_eq_true, if_false] at h
    split at h
    · cases h
    · rename_i k1 s1 hr
      have hk : k1 = k := by simp at h; exact h.1
      subst hk
      obtain ⟨_, hs1, _, _⟩ := (standard_stops_first body hb s fuel k1 s1).mp hr
      rw [hr, hs1]
  obtain ⟨_, _, hstop, _⟩ := (standard_stops_first body hb s fuel k _).mp hrun
  obtain ⟨i1, i2, i3, _⟩ := std_iter_inv hb s k
  rcases hstop with hc | ⟨_, m, hm, hle⟩
  · exact absurd hc hcap
  · have e1 : s'.iteration = s.iteration + k := by rw [hs', i1]
    have e2 : s'.tolerance = s.tolerance := by rw [hs', i2]
    have e3 : s'.maxIteration = Cap.fin m := by rw [hs', i3, hm]
    have e4 : ¬ s'.condition ≤ s'.tolerance := by rw [e2, hs']; exact hcap
    have hloop : runLoop stdWhile stdTop stdBot body' fuel' s' 0 = some (1, body' s') := by
      rw [standard_stops_first body' hb']
      refine ⟨hfuel, rfl, Or.inr ⟨Nat.le_refl _, m, e3, by omega⟩, ?_⟩
      intro j hj
      have : j = 0 := by omega
      subst this
      rintro (hc | ⟨hc, _⟩)
      · exact e4 (by simpa [iter] using hc)
      · omega
    have he' : stdEntryReturn s' = false := by simpa [stdEntryReturn] using hnf'
    refine ⟨if stdFinaliseGuard (body' s') then stdFinalise (body' s') else body' s', ?_, ?_⟩
    · simp [stdRun, he', hloop]
    · have hit := (hb' s').1
      split
      · simp [stdFinalise, hit]
      · exact hit

end order

/-- the flag is needed: a standard run stopped by `max_iteration` alone is not finalised, and a second call
performs one more iteration (this is the behaviour of the code; reported as a finding) -/
theorem rerun_idempotent_fails_without :
    let s0 : Std Ext := {
      finalised := false, iteration := 0, condition := .pinf, tolerance := .fin (1/10),
      maxIteration := .fin 2, nlive := 3, live := some [1, 2, 3], nested := [], incs := [], bodies := 0,
      traj := [.fin 5, .fin 4, .fin 3, .fin 2] }
    let first := stdRun stdScriptBody 10 s0
    let second := first.bind fun r => stdRun stdScriptBody 10 r.2
    first.map (fun r => (r.1, r.2.finalised, r.2.bodies, r.2.nested)) = some (2, false, 2, [1, 2]) ∧
      second.map (fun r => (r.1, r.2.finalised, r.2.bodies, r.2.nested)) = some (1, false, 3, [1, 2, 3]) := by
  decide +kernel

section ins
variable {K : Type} [LinearOrder K]

/-- what one iteration of the importance sampler may do as far as the stopping logic is concerned -/
def InsBodyOk (body : Ins K → Ins K) : Prop :=
  ∀ s, (body s).iteration = s.iteration + 1 ∧ (body s).tolerance = s.tolerance ∧
       (body s).stopAny = s.stopAny ∧ (body s).minIteration = s.minIteration ∧
       (body s).maxIteration = s.maxIteration ∧ (body s).finalised = s.finalised

/-- SPECIFICATION of "the configured criteria meet their tolerances", written by hand and by index, with no
reference to the generated code: the k-th criterion value is compared with the k-th tolerance, the value on
the LEFT of `≤`; `any`: some index qualifies, `all`: every index does -/
def Met (stopAny : Bool) (crit tol : List K) : Prop :=
  if stopAny then ∃ i, ∃ (h1 : i < crit.length) (h2 : i < tol.length), crit[i] ≤ tol[i]
  else ∀ i, ∀ (h1 : i < crit.length) (h2 : i < tol.length), crit[i] ≤ tol[i]

/-- the GENERATED `reached_tolerance` (translated from the source: which of any/all sits in which branch,
the comparison operator and its direction, the zip order) decides exactly the hand-written specification `Met` -/
theorem reached_any_all (s : Ins K) : reached s = true ↔ Met s.stopAny s.criterion s.tolerance := by
  unfold reached Met
  cases s.stopAny
  · simp only [Bool.false_eq_true, if_false]
    rw [← zip_forall_iff_index (fun a b => a ≤ b)]
    simpa using all_zipWith_le s.criterion s.tolerance
  · simp only [if_true]
    rw [← zip_exists_iff_index (fun a b => a ≤ b)]
    simpa using any_zipWith_le s.criterion s.tolerance

/-- the stopping rule of the importance sampler after `j` iterations -/
def InsStop (body : Ins K → Ins K) (s : Ins K) (j : Nat) : Prop :=
  (Met s.stopAny (iter body j s).criterion s.tolerance ∧ s.minIteration ≤ s.iteration + j) ∨
    (1 ≤ j ∧ ∃ m, s.maxIteration = Cap.fin m ∧ m ≤ s.iteration + j)

omit [LinearOrder K] in
/-- after `j` iterations the counter has advanced by `j`; tolerances, any/all, minimum, cap and flag are unchanged -/
theorem ins_iter_inv {body : Ins K → Ins K} (hb : InsBodyOk body) (s : Ins K) (j : Nat) :
    (iter body j s).iteration = s.iteration + j ∧ (iter body j s).tolerance = s.tolerance ∧
      (iter body j s).stopAny = s.stopAny ∧ (iter body j s).minIteration = s.minIteration ∧
      (iter body j s).maxIteration = s.maxIteration ∧ (iter body j s).finalised = s.finalised := by
  induction j with
  | zero => simp [iter]
  | succ j ih =>
    rw [iter_succ]
    obtain ⟨h1, h2, h3, h4, h5, h6⟩ := hb (iter body j s)
    obtain ⟨i1, i2, i3, i4, i5, i6⟩ := ih
    refine ⟨?_, by rw [h2, i2], by rw [h3, i3], by rw [h4, i4], by rw [h5, i5], by rw [h6, i6]⟩
    rw [h1, i1]; push_cast; ring

/-- the exit test of the generated importance loop (`insTop` before the body, `insBot` after it) is the
stopping rule `InsStop` -/
theorem ins_stopAt_iff {body : Ins K → Ins K} (hb : InsBodyOk body) (s : Ins K) (j : Nat) :
    stopAt insWhile insTop insBot body s j = true ↔ InsStop body s j := by
  obtain ⟨i1, i2, i3, i4, i5, _⟩ := ins_iter_inv hb s j
  have hr := reached_any_all (iter body j s)
  rw [i2, i3] at hr
  unfold stopAt InsStop insWhile insTop insBot
  simp only [i1, i4, i5]
  cases hm : s.maxIteration with
  | inf => simp [Cap.ge, hr]
  | fin m => simp [Cap.ge, hr]

/-- **The importance sampler stops exactly per its rule.**  The loop leaves after exactly `k` iterations iff
`k` is the FIRST index at which (the criteria, combined by any/all, meet their tolerances AND
`iteration ≥ min_iteration`) or (after at least one iteration) `iteration ≥ max_iteration`.  The criteria
test sits at the top of the loop, the cap test at the bottom after `iteration += 1` — as in the source. -/
theorem ins_stops_first (body : Ins K → Ins K) (hb : InsBodyOk body) (s : Ins K)
    (fuel k : Nat) (s' : Ins K) :
    runLoop insWhile insTop insBot body fuel s 0 = some (k, s') ↔
      (k ≤ fuel ∧ s' = iter body k s ∧ InsStop body s k ∧ ∀ j, j < k → ¬ InsStop body s j) := by
  rw [runLoop_spec]
  constructor
  · rintro ⟨j, hk, hj, hs, hstop, hmin⟩
    have : k = j := by omega
    subst this
    refine ⟨hj, hs, (ins_stopAt_iff hb s k).mp hstop, ?_⟩
    intro i hi hc
    have := hmin i hi
    rw [(ins_stopAt_iff hb s i).mpr hc] at this
    cases this
  · rintro ⟨hk, hs, hstop, hmin⟩
    refine ⟨k, by omega, hk, hs, (ins_stopAt_iff hb s k).mpr hstop, ?_⟩
    intro i hi
    have := hmin i hi
    rw [← ins_stopAt_iff hb s i] at this
    simpa using this

/-- the importance loop does leave: if its rule is met at some index within the fuel, the loop returns -/
theorem ins_terminates (body : Ins K → Ins K) (hb : InsBodyOk body) (s : Ins K) (fuel : Nat)
    (h : ∃ j, j ≤ fuel ∧ InsStop body s j) :
    ∃ k s', runLoop insWhile insTop insBot body fuel s 0 = some (k, s') := by
  apply runLoop_isSome
  obtain ⟨j, hj, hs⟩ := h
  exact ⟨j, hj, (ins_stopAt_iff hb s j).mpr hs⟩

/-- with the defaults of `configure_iterations` (no minimum, no cap) the rule is the criteria alone:
`min_iteration = -1` never delays a non-negative iteration counter and `max_iteration = ∞` never fires -/
theorem ins_default_iterations (body : Ins K → Ins K) (s : Ins K) (j : Nat)
    (hmin : s.minIteration = cfgMinIteration none) (hmax : s.maxIteration = cfgMaxIteration none)
    (hit : 0 ≤ s.iteration) :
    InsStop body s j ↔ Met s.stopAny (iter body j s).criterion s.tolerance := by
  unfold InsStop
  simp only [hmin, hmax, cfgMinIteration, cfgMaxIteration]
  constructor
  · rintro (⟨h, _⟩ | ⟨_, m, hm, _⟩)
    · exact h
    · cases hm
  · intro h; exact Or.inl ⟨h, by omega⟩

/-- **The importance sampler always finalises, once.**  However the loop was left (criteria or cap), the
returned state is finalised, the remaining live points have been moved to the nested samples exactly
once (appended in order) and the live set is cleared. -/
theorem ins_finalise_consumes_once (body : Ins K → Ins K) (hb : InsBodyOk body) (s : Ins K)
    (fuel k : Nat) (s' : Ins K) (hnf : s.finalised = false) (h : insRun body fuel s = some (k, s')) :
    s'.finalised = true ∧ s'.live = none ∧
      s'.nested = (iter body k s).nested ++ (iter body k s).live.getD [] := by
  unfold insRun at h
  have he : insEntryReturn s = false := by simpa [insEntryReturn] using hnf
  simp only [he, Bool.false_eq_true, if_false] at h
  split at h
  · cases h
  · rename_i k1 s1 hrun
    have hk : k1 = k := by simp at h; exact h.1
    subst hk
    obtain ⟨_, hs1, _, _⟩ := (ins_stops_first body hb s fuel k1 s1).mp hrun
    obtain ⟨_, _, _, _, _, i6⟩ := ins_iter_inv hb s k1
    subst hs1
    simp only [insFinaliseGuard, if_true] at h
    have hs' : s' = insFinalise (iter body k1 s) := by simp at h; exact h.symm
    subst hs'
    simp [insFinalise, i6, hnf]

/-- **A finalised importance sampler is idempotent**: a further call of `nested_sampling_loop` returns the
same state with no iteration performed; `finalise` itself also returns at once on a finalised sampler. -/
theorem ins_rerun_idempotent (body body' : Ins K → Ins K) (fuel fuel' k : Nat) (s s' : Ins K)
    (hb : InsBodyOk body) (hnf : s.finalised = false) (h : insRun body fuel s = some (k, s')) :
    insRun body' fuel' s' = some (0, s') ∧ insFinalise s' = s' := by
  have hf := (ins_finalise_consumes_once body hb s fuel k s' hnf h).1
  simp [insRun, insEntryReturn, insFinalise, hf]

end ins

/-! ### configuration -/

/-- **Alias resolution is total and unambiguous**: every name in the alias table resolves to exactly one
canonical criterion — the key of the list it appears in — and every canonical name is its own alias. -/
theorem alias_resolution_total :
    (∀ e ∈ aliasTable, ∀ a ∈ e.2, resolve [a] = [e.1]) ∧
    (∀ e ∈ aliasTable, e.1 ∈ e.2) ∧ (allAliases aliasTable).Nodup := by
  decide +kernel

/-- **The k-th tolerance belongs to the k-th criterion the user named.**  For every list of known names the
resolved list is the user's list mapped through the alias table IN THE USER'S ORDER (same length, k-th entry =
canonical criterion of the k-th name), so zipping it with the user's tolerance list pairs every criterion
with the tolerance given for it.  (Breaks if the two resolution loops are nested table-first.) -/
theorem resolved_in_user_order (names : List String) (h : ∀ x ∈ names, x ∈ allAliases aliasTable) :
    (resolve names).map some = names.map (canonOf aliasTable) ∧ (resolve names).length = names.length := by
  have key : ∀ x ∈ allAliases aliasTable,
      (aliasTable.filter fun e => e.2.contains x).map (·.1) = (canonOf aliasTable x).toList ∧
        (canonOf aliasTable x).isSome = true := by decide +kernel
  have h1 : (resolve names).map some = names.map (canonOf aliasTable) :=
    resolveNames_user_order aliasTable names (fun x hx => key x (h x hx))
  refine ⟨h1, ?_⟩
  have := congrArg List.length h1
  simpa using this

/-- the order matters: resolving table-first would hand `ess` the tolerance given for `ratio` -/
theorem resolved_in_user_order_fails_without :
    resolveNamesTableMajor aliasTable ["ess", "ratio"] = ["ratio", "ess"] ∧ resolve ["ess", "ratio"] = ["ess", "ratio"] := by
  decide +kernel

/-- a single name outside the table is rejected (`ValueError: Unknown stopping criterion`), whatever
the tolerances and `check_criteria` -/
theorem unknown_rejected (x : String) (hx : x ∉ allAliases aliasTable) (nTol : Nat) (check : String) :
    configureStopping [x] nTol check = .error .unknownCriterion := by
  have : resolve [x] = [] :=
    resolveNames_unknown aliasTable [x] (by intro y hy; simp at hy; subst hy; exact hx)
  simp [configureStopping, this]

/-- a list of names is rejected when none of them is known, or when the number of RESOLVED criteria
differs from the number of tolerances; `check_criteria` must be `any` or `all` -/
theorem configure_errors (names : List String) (nTol : Nat) (check : String) :
    ((∀ x ∈ names, x ∉ allAliases aliasTable) → configureStopping names nTol check = .error .unknownCriterion) ∧
    (resolve names ≠ [] → (resolve names).length ≠ nTol →
        configureStopping names nTol check = .error .lengthMismatch) ∧
    (resolve names ≠ [] → (resolve names).length = nTol →
        check ≠ "any" → check ≠ "all" → configureStopping names nTol check = .error .badCheck) ∧
    (resolve names ≠ [] → (resolve names).length = nTol →
        (check = "any" ∨ check = "all") →
        configureStopping names nTol check = .ok (resolve names, check == "any")) := by
  refine ⟨?_, ?_, ?_, ?_⟩
  · intro h
    have : resolve names = [] := resolveNames_unknown aliasTable names h
    simp [configureStopping, this]
  · intro h1 h2
    simp [configureStopping, h1, h2]
  · intro h1 h2 h3 h4
    simp [configureStopping, h1, h2, h3, h4]
  · intro h1 h2 h3
    rcases h3 with h3 | h3 <;> simp [configureStopping, h1, h2, h3]

/-- "unknown name → error" needs the hypothesis that NO name is known: an unknown name next to a known one
is dropped silently when the tolerance count matches the resolved list (behaviour of the code) -/
theorem unknown_rejected_fails_without :
    (configureStopping ["ess", "no_such_criterion"] 1 "any").toOption = some (["ess"], true) := by
  decide +kernel

/-- the final forced checkpoint is written after the `finalised` flag is set (both samplers), so a sampler
resumed from it takes the short-circuit of `rerun_idempotent`; the INS flag is set only after both sample
stores were finalised -/
theorem final_checkpoint_holds_flag :
    stdFinaliseBeforeCheckpoint = true ∧ finaliseSetsFlag = true ∧ finaliseClearsLive = true ∧
      insFlagBeforeCheckpoint = true ∧ insFinaliseStoresFirst = true := by
  decide

/-- a re-entered finished sampler returns the same expressions as the call that finished it: the importance
sampler's short-circuit returns literally what the normal exit returns (`self.log_evidence, self.samples` —
the physical-space samples, not the unit-hypercube view), and the standard sampler returns
`np.array(self.nested_samples)` in both places (its first element is `self.log_evidence`, the property
reading `self.state.logZ`, resp. `self.state.logZ` itself) -/
theorem rerun_returns_same_expressions :
    insEntryReturnExprs = insExitReturnExprs ∧ insEntryReturnExprs.length = 2 ∧
      stdEntryReturnExprs.getLast? = stdExitReturnExprs.getLast? ∧ stdEntryReturnExprs.length = 2 ∧
      stdExitReturnExprs.length = 2 := by
  decide +kernel

/-- shape of the loop bodies: `consume_sample` is called exactly once per pass; in the importance sampler
the criterion is recomputed exactly once per pass and before the single `iteration += 1` -/
theorem body_shape :
    stdBodyCalls.count "consume_sample" = 1 ∧
      insBodyCalls.count "criterion=compute_stopping_criterion" = 1 ∧ insBodyCalls.count "iteration+=1" = 1 ∧
      insBodyCalls.idxOf "criterion=compute_stopping_criterion" < insBodyCalls.idxOf "iteration+=1" := by
  decide +kernel

/-! ### criteria in exact arithmetic -/

section crit
variable {K : Type} [Field K] [LinearOrder K] [IsStrictOrderedRing K]

/-- **ESS is Kish's effective sample size.**  The quantity compared for the `ess` criterion — computed by
the code as `1 / Σ p̂²` from the doubly normalised posterior weights — equals `(Σw)² / Σw²`. -/
theorem ess_def (ws : List K) (hs : sumK ws ≠ 0) : essCode ws = essKish ws := by
  have hne : ws ≠ [] := by rintro rfl; simp [sumK] at hs
  have hn : (ws.length : K) ≠ 0 := by
    have : ws.length ≠ 0 := by simpa using hne
    exact_mod_cast this
  have hZ : evidence ws ≠ 0 := by unfold evidence; exact div_ne_zero hs hn
  unfold essCode essKish
  simp only [List.map_map, sumK_map_div]
  have : (fun x : K => x * x) ∘ (fun x => x / (sumK ws / evidence ws)) ∘ (fun x => x / evidence ws) =
      fun w => (w * (sumK ws)⁻¹) * (w * (sumK ws)⁻¹) := by
    funext w; simp only [Function.comp]; field_simp
  rw [this, sumK_sq_scaled]
  field_simp

/-- for at least two samples (with one sample the code divides by `n − 1 = 0` and reports NaN, which is
outside the model) the squared standard error `u²` of `compute_uncertainty` is the unbiased sample variance
of the weights divided by `n`: `(Σw² − (Σw)²/n) / (n (n−1))`, and the compared relative error is `u² / Ẑ²` -/
theorem Z_err_def (ws : List K) (h2 : 2 ≤ ws.length) :
    errSq ws = (sumK (ws.map fun w => w * w) - sumK ws * sumK ws / (ws.length : K)) /
        ((ws.length : K) * ((ws.length : K) - 1)) ∧
    (ws.length : K) * ((ws.length : K) - 1) ≠ 0 ∧
    relErrSq ws = errSq ws / (evidence ws * evidence ws) := by
  have hn : (ws.length : K) ≠ 0 := by
    have : ws.length ≠ 0 := by omega
    exact_mod_cast this
  have hn1 : (ws.length : K) - 1 ≠ 0 := by
    have h1 : (1 : K) < (ws.length : K) := by exact_mod_cast (by omega : 1 < ws.length)
    exact sub_ne_zero.mpr (ne_of_gt h1)
  refine ⟨?_, mul_ne_zero hn hn1, rfl⟩
  unfold errSq
  simp only []
  rw [sumK_dev]
  unfold evidence
  congr 1
  field_simp
  ring

omit [LinearOrder K] [IsStrictOrderedRing K] in
/-- the evidence estimate is the arithmetic mean of the weights and the evidence-ratio criteria compare ratios
of MEAN weights, stated with the library sum `List.sum` (not the model's own fold): `exp(ratio) =
mean(w above threshold) / mean(w all)` — the numerator is averaged over the samples above only — and
`exp(ratio_ns) = mean(w live) / mean(w nested)` -/
theorem ratio_def (above all live nested : List K) :
    evidence all = all.sum / (all.length : K) ∧
    ratioLin above all = (above.sum / (above.length : K)) / (all.sum / (all.length : K)) ∧
    ratioNsLin live nested = (live.sum / (live.length : K)) / (nested.sum / (nested.length : K)) := by
  simp [ratioLin, ratioNsLin, evidence, sumK_eq_sum]

end crit

/-- `ratio = log Ẑ_above − log Ẑ` is the logarithm of the linear ratio (positive weights) -/
theorem ratio_log (above all : List ℝ) (ha : 0 < evidence above) (hb : 0 < evidence all) :
    Real.log (evidence above) - Real.log (evidence all) = Real.log (ratioLin above all) := by
  unfold ratioLin
  rw [Real.log_div ha.ne' hb.ne']

/-- `ratio_ns = log Ẑ_live − log Ẑ_nested` is the logarithm of the linear ratio when BOTH evidences are positive -/
theorem ratio_ns_log (live nested : List ℝ) (ha : 0 < evidence live) (hb : 0 < evidence nested) :
    Real.log (evidence live) - Real.log (evidence nested) = Real.log (ratioNsLin live nested) := by
  unfold ratioNsLin
  rw [Real.log_div ha.ne' hb.ne']

/-- … and ONLY then: when the nested evidence is zero (every discarded sample at likelihood zero — a likelihood that is `-inf` on
part of the prior) the model's quotient is the field's totalised `x / 0 = 0`, while the code's `log Ẑ_live − log 0` is `+inf`.
That point is outside the model: the correspondence decides it by the logarithms (DESIGN 11.3, the false alarm at seed 52). -/
theorem ratio_ns_outside_domain (live nested : List ℝ) (hb : evidence nested = 0) : ratioNsLin live nested = 0 := by
  unfold ratioNsLin
  rw [hb, div_zero]

/-- `log_dZ = |log Ẑ_k − log Ẑ_{k−1}|` is the logarithm of `max/min` of the two evidences, so
`log_dZ ≤ t` iff the evidences differ by a factor of at most `e^t` -/
theorem log_dZ_def (a b t : ℝ) (ha : 0 < a) (hb : 0 < b) :
    |Real.log a - Real.log b| = Real.log (max a b / min a b) ∧
      (|Real.log a - Real.log b| ≤ t ↔ max a b / min a b ≤ Real.exp t) := by
  have key : |Real.log a - Real.log b| = Real.log (max a b / min a b) := by
    rcases le_total a b with h | h
    · rw [max_eq_right h, min_eq_left h, Real.log_div hb.ne' ha.ne', abs_sub_comm]
      exact abs_of_nonneg (sub_nonneg.mpr (Real.log_le_log ha h))
    · rw [max_eq_left h, min_eq_right h, Real.log_div ha.ne' hb.ne']
      exact abs_of_nonneg (sub_nonneg.mpr (Real.log_le_log hb h))
  refine ⟨key, ?_⟩
  rw [key]
  have hpos : 0 < max a b / min a b := div_pos (lt_max_of_lt_left ha) (lt_min ha hb)
  rw [← Real.log_le_iff_le_exp hpos]

/-- `Z_err = exp(|u / Ẑ|)` with `u = √errSq`: the exponent is `√relErrSq`, the relative standard error -/
theorem Z_err_log (ws : List ℝ) (hZ : 0 < evidence ws) :
    |Real.sqrt (errSq ws) / evidence ws| = Real.sqrt (relErrSq ws) := by
  unfold relErrSq
  rw [Real.sqrt_div' _ (mul_self_nonneg _), Real.sqrt_mul_self hZ.le]
  exact abs_of_nonneg (div_nonneg (Real.sqrt_nonneg _) hZ.le)

/-! ### non-vacuity: every theorem with hypotheses is APPLIED to a concrete state -/

/-- the scripted bodies used by the driver satisfy the body hypotheses -/
theorem stdScriptBody_ok : StdBodyOk (stdScriptBody (K := Ext)) := by intro s; simp [stdScriptBody]
/-- likewise for the scripted importance-sampler iteration -/
theorem insScriptBody_ok : InsBodyOk (insScriptBody (K := Ext)) := by intro s; simp [insScriptBody]

/-- a fresh standard sampler: conditions ∞, 5, 1/2, 1/20 against tolerance 1/10, three live points -/
def demoStd (cap : Cap) : Std Ext := {
  finalised := false, iteration := 0, condition := .pinf, tolerance := .fin (1/10),
  maxIteration := cap, nlive := 3, live := some [1, 2, 3], nested := [], incs := [], bodies := 0,
  traj := [.fin 5, .fin (1/2), .fin (1/20), .fin 0] }

/-- a fresh importance sampler: two criteria combined by `all`, minimum 2, cap 9 -/
def demoIns : Ins Ext := {
  finalised := false, iteration := 0, criterion := [.pinf, .pinf],
  tolerance := [.fin 0, .fin (1/100)], stopAny := false, minIteration := 2, maxIteration := .fin 9,
  live := some [7, 8], nested := [1], bodies := 0,
  traj := [[.fin (-1), .fin 1], [.fin 1, .fin 0], [.fin (-1), .fin (1/100)], [.fin (-5), .fin 0]] }

/-- the concrete standard run stops after exactly 3 iterations; finalise consumes the three remaining live
points with counts 3, 2, 1 -/
example :
    let r := stdRun stdScriptBody 10 (demoStd .inf)
    r.map (fun r => (r.1, r.2.finalised, r.2.live)) = some (3, true, none) ∧
      r.map (fun r => r.2.nested) = some [1, 2, 3, 1000, 1001, 1002] ∧
      r.map (fun r => r.2.incs) = some [(1000, 3), (1001, 2), (1002, 1)] := by
  decide +kernel

/-- the same sampler with `max_iteration = 2` stops after 2 iterations, not finalised -/
example : (stdRun stdScriptBody 10 (demoStd (.fin 2))).map (fun r => (r.1, r.2.finalised)) = some (2, false) := by
  decide +kernel

/-- the concrete importance run stops after 3 iterations -/
example : (insRun insScriptBody 10 demoIns).map (fun r => (r.1, r.2.finalised, r.2.nested, r.2.live)) =
    some (3, true, [1, 7, 8], none) := by
  decide +kernel

-- standard sampler
example := std_iter_inv stdScriptBody_ok (demoStd .inf) 2
example := std_stopAt_iff stdScriptBody_ok (demoStd .inf) 3
example (fuel k : Nat) (s' : Std Ext) := standard_stops_first stdScriptBody stdScriptBody_ok (demoStd .inf) fuel k s'
example : ∃ k s', runLoop stdWhile stdTop stdBot stdScriptBody 10 (demoStd .inf) 0 = some (k, s') :=
  standard_terminates stdScriptBody stdScriptBody_ok (demoStd .inf) 10 ⟨3, by decide, Or.inl (by decide +kernel)⟩
example := standard_cap_checked_after_body stdScriptBody stdScriptBody_ok
  ({ demoStd (.fin 0) with condition := .fin 5 }) 0 rfl (by decide) (by decide +kernel)
example (s' : Std Ext) (h : stdRun stdScriptBody 10 (demoStd .inf) = some (3, s')) : s'.finalised = true :=
  (finalise_iff stdScriptBody stdScriptBody_ok (demoStd .inf) 10 3 s' rfl rfl h).1.mpr (by decide +kernel)
example := finalise_consumes_once (demoStd .inf) [1, 2, 3] rfl rfl
example := finalised_entry_returns_stored stdScriptBody 7 ({ demoStd .inf with finalised := true }) rfl
example (s' : Std Ext) (h : stdRun stdScriptBody 10 (demoStd .inf) = some (3, s')) :
    stdRun stdScriptBody 5 s' = some (0, s') :=
  rerun_idempotent stdScriptBody stdScriptBody stdScriptBody_ok (demoStd .inf) s' 10 5 3 rfl rfl h (by decide +kernel)
example (s' : Std Ext) (h : stdRun stdScriptBody 10 (demoStd (.fin 2)) = some (2, s')) :=
  rerun_after_cap_iterates stdScriptBody stdScriptBody stdScriptBody_ok stdScriptBody_ok (demoStd (.fin 2)) s' 10 5 2
    rfl rfl h (by decide +kernel) (by decide)

-- importance sampler
example := reached_any_all demoIns
/-- the direction of the comparison matters and is the specified one: value 1 against tolerance 2 is met,
value 2 against tolerance 1 is not -/
example : reached ({ demoIns with criterion := [.fin 1], tolerance := [.fin 2] }) = true ∧
    reached ({ demoIns with criterion := [.fin 2], tolerance := [.fin 1] }) = false := by decide +kernel
example := ins_iter_inv insScriptBody_ok demoIns 2
example := ins_stopAt_iff insScriptBody_ok demoIns 3
example (fuel k : Nat) (s' : Ins Ext) := ins_stops_first insScriptBody insScriptBody_ok demoIns fuel k s'
example : ∃ k s', runLoop insWhile insTop insBot insScriptBody 10 demoIns 0 = some (k, s') :=
  ins_terminates insScriptBody insScriptBody_ok demoIns 10
    ⟨3, by decide, Or.inl ⟨(reached_any_all (iter insScriptBody 3 demoIns)).mp (by decide +kernel), by decide⟩⟩
example := ins_default_iterations insScriptBody
  ({ demoIns with minIteration := cfgMinIteration none, maxIteration := cfgMaxIteration none }) 3 rfl rfl (by decide)
example (s' : Ins Ext) (h : insRun insScriptBody 10 demoIns = some (3, s')) :=
  ins_finalise_consumes_once insScriptBody insScriptBody_ok demoIns 10 3 s' rfl h
example (s' : Ins Ext) (h : insRun insScriptBody 10 demoIns = some (3, s')) :=
  ins_rerun_idempotent insScriptBody insScriptBody 10 5 3 demoIns s' insScriptBody_ok rfl h

-- configuration
example := resolved_in_user_order ["fractional_error", "log_evidence", "ratio_all"] (by decide +kernel)
example := unknown_rejected "no_such_criterion" (by decide +kernel) 1 "any"
example := (configure_errors ["no_such_criterion", "Ratio"] 2 "any").1 (by decide +kernel)
example := (configure_errors ["ess", "ratio"] 3 "any").2.1 (by decide +kernel) (by decide +kernel)
example : (configureStopping ["log_evidence", "ratio_all"] 2 "all").toOption = some (["log_dZ", "ratio"], false) := by
  decide +kernel

-- criteria
example : essCode [(1 : Rat), 2, 3] = essKish [(1 : Rat), 2, 3] := ess_def [(1 : Rat), 2, 3] (by norm_num [sumK])
example := Z_err_def [(1 : Rat), 2, 3] (by decide)
example := ratio_def [(2 : Rat), 3] [1, 2, 3] [3] [1, 2]
example := ratio_log [2, 3] [1, 2, 3] (by norm_num [evidence, sumK]) (by norm_num [evidence, sumK])
example := log_dZ_def 2 3 1 (by norm_num) (by norm_num)
example := Z_err_log [1, 2, 3] (by norm_num [evidence, sumK])
example : essCode [(1 : Rat), 2, 3] = 18 / 7 ∧ essKish [(1 : Rat), 2, 3] = 18 / 7 ∧
    errSq [(1 : Rat), 2, 3] = 1 / 3 ∧ relErrSq [(1 : Rat), 2, 3] = 1 / 12 := by
  refine ⟨?_, ?_, ?_, ?_⟩ <;> decide +kernel

end NessaiVerif.C15
