import NessaiVerif.Model.Np
/-
C01 — model of the live-set bookkeeping of the standard nested sampler
(`nessai/samplers/nestedsampler.py`): `yield_sample`, `insert_live_point`,
`consume_sample`, `populate_live_points`, `finalise`.

Core Lean only (linked into the driver).  The model follows the code literally:

* a live point is a record; the model keeps what the code's control flow reads
  (`logL`, `logP` class) plus an identity (`id`, the first parameter field of the
  harness points), the iteration stamp `it`, and one ghost attribute `inB`
  ("`model.in_bounds(x)`"), which no sampler code ever reads;
* likelihood keys of live points are `Int` (the harness uses integer-valued
  floats, so every comparison is exact); a *candidate* may carry `NaN` / `-inf`
  in its stored or evaluated likelihood and `-inf` / `NaN` / `+inf` in its log-prior;
  `+inf` likelihoods are outside the modelled domain (DESIGN.md appendix C);
* `consume` is one atomic step (`= beginConsume ; finishConsume`, `Proofs/LiveSetInv.consume_eq_begin_finish`):
  the theorems cover runs whose checkpoints are written at iteration boundaries (`update_state`), where
  checkpoint + resume is the identity on this state.  A checkpoint written in the middle of
  `consume_sample` pickles the `beginConsume` state; resuming restarts `consume_sample` from the top on it,
  which breaks the invariant (`Props/C01.resume_mid_consume_breaks_inv`; known findings F25/C12 and F4/C13);
* the proposal is an input: the stream of points `proposal.draw` returns, each with
  the value of `proposal.populated` after the draw.
-/
namespace NessaiVerif.LiveSet
open NessaiVerif.Np

/-- a likelihood value as a candidate may carry it -/
inductive LV where
  | nan
  | ninf
  | fin (v : Int)
deriving DecidableEq, Repr

/-- log-prior classes (`fin` = any finite float) -/
inductive PV where
  | fin
  | ninf
  | nan
  | pinf
deriving DecidableEq, Repr

/-- a stored (live or nested) point -/
structure Pt where
  id : Nat
  logL : Int
  it : Nat
  logP : PV
  inB : Bool
deriving DecidableEq, Repr

/-- a point as returned by `proposal.draw` -/
structure Cand where
  id : Nat
  /-- the `logL` field of the returned point -/
  stored : LV
  /-- what `model.evaluate_log_likelihood` returns for the point -/
  eval : LV
  logP : PV
  inB : Bool
  /-- `proposal.populated` after this draw -/
  popd : Bool
deriving DecidableEq, Repr

inductive Err where
  /-- NumPy `ValueError: could not broadcast input array` -/
  | shape
  /-- `IndexError` -/
  | index
  /-- the scripted proposal ran out of candidates -/
  | exhausted
deriving DecidableEq, Repr

/-- sampler state as far as C01 is concerned.  `logLmin`/`logLmax`: `none` = `-inf`.
`hist` is a ghost log of the accepted replacement points in order. -/
structure St where
  n : Nat
  live : List Pt
  nested : List Pt
  idx : List Int
  logLmin : Option Int
  logLmax : Option Int
  iter : Nat
  accepted : Nat
  rejected : Nat
  lastCount : Nat
  hist : List Pt
deriving DecidableEq, Repr

/-- `NestedSampler.__init__`: note `rejected = 1`. -/
def St.new (n : Nat) : St :=
  { n := n, live := [], nested := [], idx := [], logLmin := none, logLmax := none,
    iter := 0, accepted := 0, rejected := 1, lastCount := 0, hist := [] }

/-- `v > logLmin` -/
def gtMin (v : Int) : Option Int → Bool
  | none => true
  | some m => decide (m < v)

/-- `max(logLmax, v)` -/
def maxL (m : Option Int) (v : Int) : Option Int :=
  match m with
  | none => some v
  | some a => some (if a < v then v else a)

/-- the likelihood `yield_sample` works with: `if not newparam["logL"]: newparam["logL"] =
model.evaluate_log_likelihood(newparam)` — the stored value is replaced exactly when it is
falsy, i.e. `0.0`; a stored `NaN` is truthy and is kept. -/
def effL (c : Cand) : LV :=
  if c.stored = .fin 0 then c.eval else c.stored

/-- the filter of `yield_sample`: `newparam["logP"] != -inf` and `newparam["logL"] > logLmin`
(`NaN > x` and `-inf > x` are false).  Returns the accepted likelihood. -/
def accepts (m : Option Int) (c : Cand) : Option Int :=
  if c.logP = .ninf then none
  else match effL c with
    | .fin v => if gtMin v m then some v else none
    | _ => none

/-- the point stored for an accepted candidate (`proposed["it"] = iteration`) -/
def mkPt (c : Cand) (v : Int) (it : Nat) : Pt :=
  { id := c.id, logL := v, it := it, logP := c.logP, inB := c.inB }

/-- result of one `next(self.yield_sample(old))` -/
inductive YRes where
  /-- a candidate passed the filter: (draw count, candidate, its likelihood, remaining stream) -/
  | acc (count : Nat) (c : Cand) (v : Int) (rest : List Cand)
  /-- the pool ran empty on a rejected draw: `old` is handed back -/
  | empty (count : Nat) (rest : List Cand)
  | exhausted
deriving DecidableEq, Repr

/-- `yield_sample`, literally: draw until a candidate passes the filter or the proposal
reports `populated = False` after a rejected draw. -/
def yieldSample (m : Option Int) : Nat → List Cand → YRes
  | _, [] => .exhausted
  | k, c :: cs =>
    match accepts m c with
    | some v => .acc (k + 1) c v cs
    | none => if c.popd then yieldSample m (k + 1) cs else .empty (k + 1) cs

/-- `insert_live_point`, the literal slice program:
```
index = np.searchsorted(live["logL"], p["logL"])
live[: index - 1] = live[1:index]
live[index - 1] = p
return index - 1
```
`index = 0` makes the first slice `live[:-1]` (length `n-1`) against the empty `live[1:0]`:
NumPy refuses to broadcast unless `n = 1`; then `live[-1] = p`. -/
def insertLive (live : List Pt) (p : Pt) : Except Err (List Pt × Int) :=
  let n := live.length
  let index := ssl (live.map (·.logL)) p.logL
  let stop : Nat := if index = 0 then n - 1 else index - 1
  let src := (live.take index).drop 1
  if src.length ≠ stop then .error .shape
  else
    let shifted := src ++ live.drop stop
    if n = 0 then .error .index
    else .ok (shifted.set stop p, (index : Int) - 1)

/-- The two nested loops of `consume_sample` / `yield_sample` run on the candidate stream:
returns the accepted candidate, its likelihood, the total draw count, the number of times the
`else` branch (`rejected += 1; check_state()`) ran, and the rest of the stream.
(Equal to iterating `yieldSample`: `Proofs/LiveSet.consumeLoop_eq_yield`.) -/
def consumeLoop (m : Option Int) : List Cand → Nat → Nat → Option (Cand × Int × Nat × Nat × List Cand)
  | [], _, _ => none
  | c :: cs, k, r =>
    match accepts m c with
    | some v => some (c, v, k + 1, r, cs)
    | none => consumeLoop m cs (k + 1) (if c.popd then r else r + 1)

/-- `consume_sample` in the code's order: worst = live[0]; logLmin; (increment);
nested.append(worst); iteration += 1; loop { yield; if logL > logLmin: it, insert,
indices.append, accepted += 1 else rejected += 1 }. -/
def consume (s : St) (cands : List Cand) : Except Err (St × List Cand) :=
  match s.live with
  | [] => .error .index
  | worst :: _ =>
    let lmin := some worst.logL
    match consumeLoop lmin cands 0 0 with
    | none => .error .exhausted
    | some (c, v, count, rej, rest) =>
      let p := mkPt c v (s.iter + 1)
      match insertLive s.live p with
      | .error e => .error e
      | .ok (live', i) =>
        .ok ({ s with live := live', nested := s.nested ++ [worst], idx := s.idx ++ [i],
                      logLmin := lmin, logLmax := maxL s.logLmax v, iter := s.iter + 1,
                      accepted := s.accepted + 1, rejected := s.rejected + rej,
                      lastCount := count, hist := s.hist ++ [p] }, rest)

/-- The first half of `consume_sample`, up to (not including) the replacement loop: `worst =
live[0]`, `logLmin`, (evidence increment), `nested_samples.append(worst)`, `iteration += 1`.  The
live set still contains the worst point.  This is the state a checkpoint written *inside*
`consume_sample` pickles (`checkpoint_on_training=True`: consume_sample → pool empty → check_state →
train_proposal → checkpoint; or a signal handler). -/
def beginConsume (s : St) : Option St :=
  match s.live with
  | [] => none
  | worst :: _ =>
    some { s with logLmin := some worst.logL, nested := s.nested ++ [worst], iter := s.iter + 1 }

/-- The second half of `consume_sample`: the replacement loop on the state `beginConsume` left. -/
def finishConsume (m : St) (cands : List Cand) : Except Err (St × List Cand) :=
  match consumeLoop m.logLmin cands 0 0 with
  | none => .error .exhausted
  | some (c, v, count, rej, rest) =>
    let p := mkPt c v m.iter
    match insertLive m.live p with
    | .error e => .error e
    | .ok (live', i) =>
      .ok ({ m with live := live', idx := m.idx ++ [i], logLmax := maxL m.logLmax v,
                    accepted := m.accepted + 1, rejected := m.rejected + rej,
                    lastCount := count, hist := m.hist ++ [p] }, rest)

/-- what `populate_live_points` stores for one draw: the `yield_sample` filter with
`logLmin = -inf`, then `isfinite(logP) and isfinite(logL)`. -/
def storeOf (c : Cand) : Option Pt :=
  match accepts none c with
  | some v => if c.logP = .fin then some (mkPt c v 0) else none
  | none => none

/-- the draw loop of `populate_live_points` (a rejected draw, a pool that ran empty and a
non-finite prior all lead to another draw); `logLmax` is updated by every draw that passes the
`yield_sample` filter. -/
def populateLoop (n : Nat) : List Pt → Option Int → List Cand → Except Err (List Pt × Option Int × List Cand)
  | acc, lmax, [] => if n ≤ acc.length then .ok (acc, lmax, []) else .error .exhausted
  | acc, lmax, c :: cs =>
    if n ≤ acc.length then .ok (acc, lmax, c :: cs)
    else
      let lmax' := match accepts none c with
        | some v => maxL lmax v
        | none => lmax
      match storeOf c with
      | some p => populateLoop n (acc ++ [p]) lmax' cs
      | none => populateLoop n acc lmax' cs

/-- `np.sort(live_points, order="logL")`: ties are broken by the remaining fields in dtype
order; the first field of a harness point is its unique id. -/
def leKey (a b : Pt) : Bool :=
  decide (a.logL < b.logL) || (decide (a.logL = b.logL) && decide (a.id ≤ b.id))

/-- ordered insert by `(logL, id)` -/
def insKey (p : Pt) : List Pt → List Pt
  | [] => [p]
  | x :: xs => if leKey p x then p :: x :: xs else x :: insKey p xs

/-- the sort of `populate_live_points` (any sort algorithm gives this result: `leKey` is a total
order on points with distinct ids) -/
def sortKey : List Pt → List Pt
  | [] => []
  | x :: xs => insKey x (sortKey xs)

def populate (s : St) (cands : List Cand) : Except Err (St × List Cand) :=
  match populateLoop s.n [] s.logLmax cands with
  | .error e => .error e
  | .ok (pts, lmax, rest) =>
    .ok ({ s with live := sortKey pts, logLmax := lmax }, rest)

/-- `finalise`: the remaining live points are appended in order; `live_points = None`. -/
def finalise (s : St) : St :=
  { s with nested := s.nested ++ s.live, live := [] }

/-- `k` iterations of the sampling loop on one candidate stream -/
def runSteps : Nat → St → List Cand → Except Err (St × List Cand)
  | 0, s, cands => .ok (s, cands)
  | k + 1, s, cands =>
    match consume s cands with
    | .error e => .error e
    | .ok (s', rest) => runSteps k s' rest

/-! ### specification vocabulary (used by the theorems) -/

/-- ascending likelihood order -/
def SortedL (l : List Pt) : Prop := l.Pairwise (fun a b => a.logL ≤ b.logL)

/-- `p` placed in `l` before the first element whose likelihood is not below `p`'s:
everything else keeps its place and order. -/
def insSorted (p : Pt) (l : List Pt) : List Pt :=
  l.takeWhile (fun x => decide (x.logL < p.logL)) ++ p :: l.dropWhile (fun x => decide (x.logL < p.logL))

/-- number of points of `l` strictly below `p` in likelihood, counted from the front -/
def rankIn (p : Pt) (l : List Pt) : Nat :=
  (l.takeWhile (fun x => decide (x.logL < p.logL))).length

end NessaiVerif.LiveSet
