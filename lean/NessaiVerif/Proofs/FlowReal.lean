import NessaiVerif.Model.FlowAlgebra
import Mathlib.Analysis.SpecialFunctions.Log.Basic
/-
C08 — over ℝ with `lg = Real.log` (Mathlib's `Real.log x = log |x|`) the log-Jacobian a coupling / affine
layer reports, `Σ log|s i|`, is the logarithm of the absolute multiplicative volume factor `|∏ s i|`.
-/
namespace NessaiVerif.Flow

theorem log_list_prod (l : List ℝ) (h : ∀ a ∈ l, a ≠ 0) : Real.log l.prod = (l.map Real.log).sum := by
  induction l with
  | nil => simp
  | cons a l ih =>
    have ha : a ≠ 0 := h a (by simp)
    have hl : ∀ b ∈ l, b ≠ 0 := fun b hb => h b (by simp [hb])
    have hp : l.prod ≠ 0 := by
      simpa [List.prod_eq_zero_iff] using fun h0 => hl 0 h0 rfl
    simp only [List.prod_cons, List.map_cons, List.sum_cons]
    rw [Real.log_mul ha hp, ih hl]

theorem scaleLogSum_eq_log_scaleProd {n : Nat} (m : Fin n → Bool) (s : Fin n → ℝ)
    (hs : ∀ i, m i = true → s i ≠ 0) :
    scaleLogSum Real.log m s = Real.log |scaleProd m s| := by
  rw [Real.log_abs]
  unfold scaleLogSum scaleProd
  rw [log_list_prod]
  · rw [List.map_ofFn]
    congr 1
    congr 1
    funext i
    simp only [Function.comp]
    split <;> simp
  · intro a ha
    rw [List.mem_ofFn] at ha
    obtain ⟨i, rfl⟩ := ha
    split
    · exact hs i ‹_›
    · exact one_ne_zero

end NessaiVerif.Flow
