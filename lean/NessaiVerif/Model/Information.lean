import NessaiVerif.Model.Quadrature
/-
C02 / C05 — model of the INFORMATION recursion of `_NSIntegralState.increment` and of
`log_evidence_error` (`nessai/evidence.py`), which `Model/Quadrature.lean` leaves out.

    oldZ = self.logZ
    Wt = self.logw + logL + np.log1p(-np.exp(logt))
    self.logZ = np.logaddexp(self.logZ, Wt)
    if np.isfinite(oldZ) and np.isfinite(self.logZ) and np.isfinite(logL):
        prev_info = self.info[-1]
        if len(self.info) == 1 and np.isfinite(self.logLs[-1]):
            prev_info = self.logLs[-1] - oldZ      # the first point got no entry (oldZ = -inf): its information is log(L/Z)
        info = np.exp(Wt - self.logZ) * logL
             + np.exp(oldZ - self.logZ) * (prev_info + oldZ)
             - self.logZ
        self.info.append(info)
    self.logw += logt
    self.logLs.append(logL)

    log_evidence_error = np.sqrt(self.info[-1] / self.base_nlive)

Linear domain as in `Model/Quadrature.lean` (`L = exp logL`, `Z = exp logZ`, `w = exp logw`,
`t = exp logt`, `-inf ↦ 0`).  The recursion MIXES the two domains (it multiplies linear-domain ratios
with log-domain values), so the model carries the logarithm as a parameter `lg : K → K`:
  * theorems of `Props/C02.lean` about the closed form hold for EVERY function `lg` and every field;
  * theorems about the sign of the information take `K = ℝ`, `lg = Real.log`;
  * the driver runs the definitions at `K = Rat` with `lg` given as a finite table computed by the
    harness (60-digit `mpmath` logarithms of the exact rationals the model itself produced).

`np.isfinite(x)` for a log-domain value `x` that is finite or `-inf` (the harness never feeds `+inf`/NaN)
is `X ≠ 0` for its linear-domain counterpart.
-/
namespace NessaiVerif.Info

variable {K : Type} [Add K] [Sub K] [Mul K] [Div K] [OfNat K 0] [OfNat K 1] [DecidableEq K]

/-- the part of `_NSIntegralState` the information depends on: `logZ`, `logw`, `info`, `logLs[-1]` -/
structure ISt (K : Type) where
  Z : K
  w : K
  info : List K
  lastL : K
deriving Repr

/-- `__init__`: `logZ = -inf`, `logw = 0`, `info = [0.0]`, `logLs = [-inf]` -/
def ISt.init : ISt K := ⟨0, 1, [0], 0⟩

/-- one `increment(logL, nlive)` with shrinkage `t` (as a function of the live count, see Quadrature) -/
def ISt.step (lg : K → K) (s : ISt K) (L t : K) : ISt K :=
  let Wt := s.w * L * (1 - t)
  let Z' := s.Z + Wt
  let prev := if s.info.length = 1 ∧ s.lastL ≠ 0 then lg s.lastL - lg s.Z else s.info.getLastD 0
  let info' :=
    if s.Z ≠ 0 ∧ Z' ≠ 0 ∧ L ≠ 0 then
      s.info ++ [Wt / Z' * lg L + s.Z / Z' * (prev + lg s.Z) - lg Z']
    else s.info
  ⟨Z', s.w * t, info', L⟩

/-- a sequence of increments; each entry is `(L, t)` -/
def ISt.run (lg : K → K) (s : ISt K) : List (K × K) → ISt K
  | [] => s
  | (L, t) :: rest => ISt.run lg (s.step lg L t) rest

/-- `self.info[-1]` -/
def ISt.last (s : ISt K) : K := s.info.getLastD 0

/-- the rectangle terms `W_i = w_{i-1} L_i (1 - t_i)` of a run started at weight `w` -/
def terms (w : K) : List (K × K) → List K
  | [] => []
  | (L, t) :: rest => (w * L * (1 - t)) :: terms (w * t) rest

/-- `Σ W_i · lg L_i` -/
def weightedLogs (lg : K → K) (w : K) : List (K × K) → K
  | [] => 0
  | (L, t) :: rest => w * L * (1 - t) * lg L + weightedLogs lg (w * t) rest

/-- the TEXTBOOK information of a run (Skilling 2006, eq. for `H`):
`H = Σ (W_i / Z) lg L_i - lg Z`, `Z = Σ W_i` -/
def textbook (lg : K → K) (steps : List (K × K)) : K :=
  let Z := Quad.sumL (terms 1 steps)
  weightedLogs lg 1 steps / Z - lg Z

/-- what the recursion yields when the first dead point's own information is DROPPED (continuing from
`info = 0` after the first increment, as the code did before the repair `fix: start the information
estimate from the first point`): the first point then enters through `Z₁ lg Z₁` instead of `W₁ lg L₁`.
Kept to state why the repair matters (`C02.info_without_first_point_can_be_negative`). -/
def closedForm (lg : K → K) : List (K × K) → K
  | [] => 0
  | (L, t) :: rest =>
    let Z1 := 1 * L * (1 - t)
    let Z := Z1 + Quad.sumL (terms (1 * t) rest)
    (Z1 * lg Z1 + weightedLogs lg (1 * t) rest) / Z - lg Z

end NessaiVerif.Info

namespace NessaiVerif.Info
/-- `log_evidence_error ** 2 = info[-1] / base_nlive`; `np.sqrt` of a negative number is NaN (`none`) -/
def errSq {K : Type} [LT K] [DecidableLT K] [Div K] [OfNat K 0] [NatCast K] (info : K) (nlive : Nat) : Option K :=
  if info < 0 then none else some (info / (nlive : K))
end NessaiVerif.Info
