import NessaiVerif.Model.Encode
/- helper lemmas for C19 (core Lean only) -/
namespace NessaiVerif.Encode

/-- the dispatch facts the canonical form depends on (discharged by `decide` on the generated chain) -/
structure DispatchSpec (c : Chain) (fb : Fallback) : Prop where
  npInt : defaultAction c fb .npInt = some .toInt
  npFloat : defaultAction c fb .npFloat = some .toFloat
  ndarray : defaultAction c fb .ndarray = some .tolist
  npBool : defaultAction c fb .npBool = some .toStr
  opaq : defaultAction c fb .opaque = some .toStr

section json
variable {c : Chain} {fb : Fallback}

mutual
theorem jsonEncode_eq_canon (h : DispatchSpec c fb) :
    ∀ t : Tree, KeysOk t → WellShaped t → jsonEncode c fb t = .ok (canon t)
  | .dict kvs, hk, hw => by
      have := jsonEncodeKvs_eq_canon h kvs (by simpa [KeysOk] using hk) (by simpa [WellShaped] using hw)
      simp [jsonEncode, canon, this]; rfl
  | .list xs, hk, hw => by
      have := jsonEncodeList_eq_canon h xs (by simpa [KeysOk] using hk) (by simpa [WellShaped] using hw)
      simp [jsonEncode, canon, this]; rfl
  | .tuple xs, hk, hw => by
      have := jsonEncodeList_eq_canon h xs (by simpa [KeysOk] using hk) (by simpa [WellShaped] using hw)
      simp [jsonEncode, canon, this]; rfl
  | .int _, _, _ => by simp [jsonEncode, canon]
  | .float _, _, _ => by simp [jsonEncode, canon]
  | .str _, _, _ => by simp [jsonEncode, canon]
  | .none, _, _ => by simp [jsonEncode, canon]
  | .bool _, _, _ => by simp [jsonEncode, canon]
  | .npStr _, _, _ => by simp [jsonEncode, canon]
  | .ndarray _ shape flat, hk, hw => by
      have hw' : flat.length = prod shape ∧ WellShapedList flat := by simpa [WellShaped] using hw
      have := jsonEncodeList_eq_canon h flat (by simpa [KeysOk] using hk) hw'.2
      simp [jsonEncode, canon, this, h.ndarray, hw'.1]; rfl
  | .structured names nrows cells, hk, hw => by
      have hw' : cells.length = nrows * names.length ∧ WellShapedList cells := by simpa [WellShaped] using hw
      have := jsonEncodeList_eq_canon h cells (by simpa [KeysOk] using hk) hw'.2
      simp [jsonEncode, canon, this, h.ndarray, hw'.1]; rfl
  | .npInt _, _, _ => by simp [jsonEncode, canon, h.npInt, applyScalar]
  | .npFloat _ _ _, _, _ => by simp [jsonEncode, canon, h.npFloat, applyScalar]
  | .npBool _, _, _ => by simp [jsonEncode, canon, h.npBool, applyScalar]
  | .opaque _, _, _ => by simp [jsonEncode, canon, h.opaq, applyScalar]
theorem jsonEncodeList_eq_canon (h : DispatchSpec c fb) :
    ∀ xs : List Tree, KeysOkList xs → WellShapedList xs → jsonEncodeList c fb xs = .ok (canonList xs)
  | [], _, _ => by simp [jsonEncodeList, canonList]
  | x :: xs, hk, hw => by
      have hk' : KeysOk x ∧ KeysOkList xs := by simpa [KeysOkList] using hk
      have hw' : WellShaped x ∧ WellShapedList xs := by simpa [WellShapedList] using hw
      simp [jsonEncodeList, canonList, jsonEncode_eq_canon h x hk'.1 hw'.1,
        jsonEncodeList_eq_canon h xs hk'.2 hw'.2]; rfl
theorem jsonEncodeKvs_eq_canon (h : DispatchSpec c fb) :
    ∀ kvs : List (Key × Tree), KeysOkKvs kvs → WellShapedKvs kvs → jsonEncodeKvs c fb kvs = .ok (canonKvs kvs)
  | [], _, _ => by simp [jsonEncodeKvs, canonKvs]
  | (k, v) :: rest, hk, hw => by
      have hk' : k ≠ .bad ∧ KeysOk v ∧ KeysOkKvs rest := by simpa [KeysOkKvs] using hk
      have hw' : WellShaped v ∧ WellShapedKvs rest := by simpa [WellShapedKvs] using hw
      have hv := jsonEncode_eq_canon h v hk'.2.1 hw'.1
      have hr := jsonEncodeKvs_eq_canon h rest hk'.2.2 hw'.2
      cases k <;> simp_all [jsonEncodeKvs, canonKvs, jsonKey] <;> rfl
end

/-! ### membership forms -/

theorem isJsonList_iff : ∀ xs : List Tree, IsJsonList xs ↔ ∀ x ∈ xs, IsJson x
  | [] => by simp [IsJsonList]
  | x :: xs => by simp [IsJsonList, isJsonList_iff xs]

theorem leavesList_map (f : α → Tree) : ∀ ys : List α, leavesList (ys.map f) = (ys.map (fun y => leaves (f y))).flatten
  | [] => by simp [leavesList]
  | y :: ys => by simp [leavesList, leavesList_map f ys]

/-! ### chunks -/

theorem chunksN_spec {α : Type} (k : Nat) : ∀ (n : Nat) (xs : List α), xs.length = n * k →
    (chunksN n k xs).flatten = xs ∧ ∀ c ∈ chunksN n k xs, c.length = k ∧ ∀ x ∈ c, x ∈ xs
  | 0, xs, h => by
      have : xs = [] := by
        have : xs.length = 0 := by simpa using h
        exact List.eq_nil_of_length_eq_zero this
      subst this
      simp [chunksN]
  | n + 1, xs, h => by
      have hlen : (xs.drop k).length = n * k := by
        simp only [List.length_drop, h]
        rw [Nat.add_mul]; omega
      obtain ⟨hf, hc⟩ := chunksN_spec k n (xs.drop k) hlen
      refine ⟨by simp [chunksN, hf], ?_⟩
      intro c hcm
      simp only [chunksN, List.mem_cons] at hcm
      rcases hcm with rfl | hcm
      · refine ⟨?_, fun x hx => List.mem_of_mem_take hx⟩
        simp only [List.length_take, h]
        rw [Nat.add_mul]; omega
      · obtain ⟨h1, h2⟩ := hc c hcm
        exact ⟨h1, fun x hx => List.mem_of_mem_drop (h2 x hx)⟩

theorem chunksN_mem_sub {α : Type} (k : Nat) : ∀ (n : Nat) (xs : List α), ∀ c ∈ chunksN n k xs, ∀ x ∈ c, x ∈ xs
  | 0, _, c, hc => by simp [chunksN] at hc
  | n + 1, xs, c, hc => by
      simp only [chunksN, List.mem_cons] at hc
      rcases hc with rfl | hc
      · exact fun x hx => List.mem_of_mem_take hx
      · exact fun x hx => List.mem_of_mem_drop (chunksN_mem_sub k n _ c hc x hx)

/-! ### nest -/

theorem isJson_nest : ∀ (shape : List Nat) (xs : List Tree), (∀ x ∈ xs, IsJson x) → IsJson (nest shape xs)
  | [], xs, h => by
      cases xs with
      | nil => simp [nest, IsJson]
      | cons x xs => simpa [nest] using h x (by simp)
  | n :: rest, xs, h => by
      simp only [nest, IsJson]
      rw [isJsonList_iff]
      intro y hy
      simp only [List.mem_map] at hy
      obtain ⟨c, hc, rfl⟩ := hy
      exact isJson_nest rest c (fun x hx => h x (chunksN_mem_sub _ _ _ c hc x hx))

theorem leaves_of_isLeaf : ∀ t : Tree, IsLeaf t → leaves t = [t]
  | .list _, h => by simp [IsLeaf] at h
  | .dict _, _ | .tuple _, _ | .int _, _ | .float _, _ | .str _, _ | .none, _ | .bool _, _
  | .ndarray _ _ _, _ | .structured _ _ _, _ | .npInt _, _ | .npFloat _ _ _, _ | .npBool _, _
  | .npStr _, _ | .opaque _, _ => by simp [leaves]

/-- `tolist` keeps every element, in C order -/
theorem leaves_nest : ∀ (shape : List Nat) (xs : List Tree), (∀ x ∈ xs, IsLeaf x) → xs.length = prod shape →
    leaves (nest shape xs) = xs
  | [], xs, hl, hlen => by
      match xs, hlen with
      | [x], _ => simpa [nest] using leaves_of_isLeaf x (hl x (by simp))
  | n :: rest, xs, hl, hlen => by
      obtain ⟨hf, hc⟩ := chunksN_spec (prod rest) n xs (by simpa [prod] using hlen)
      simp only [nest, leaves, leavesList_map]
      have : (chunksN n (prod rest) xs).map (fun y => leaves (nest rest y)) = chunksN n (prod rest) xs := by
        conv => rhs; rw [← List.map_id (chunksN n (prod rest) xs)]
        apply List.map_congr_left
        intro c hcm
        obtain ⟨h1, h2⟩ := hc c hcm
        simpa using leaves_nest rest c (fun x hx => hl x (h2 x hx)) h1
      rw [this, hf]

/-! ### canonical form -/

mutual
theorem canon_isJson : ∀ t : Tree, KeysOk t → IsJson (canon t)
  | .dict kvs, hk => by simpa [canon, IsJson] using canonKvs_isJson kvs (by simpa [KeysOk] using hk)
  | .list xs, hk => by simpa [canon, IsJson] using canonList_isJson xs (by simpa [KeysOk] using hk)
  | .tuple xs, hk => by simpa [canon, IsJson] using canonList_isJson xs (by simpa [KeysOk] using hk)
  | .int _, _ | .float _, _ | .str _, _ | .none, _ | .bool _, _ | .npStr _, _ | .npInt _, _
  | .npFloat _ _ _, _ | .npBool _, _ | .opaque _, _ => by simp [canon, IsJson]
  | .ndarray _ shape flat, hk => by
      simp only [canon]
      exact isJson_nest _ _ ((isJsonList_iff _).1 (canonList_isJson flat (by simpa [KeysOk] using hk)))
  | .structured _ _ cells, hk => by
      simp only [canon]
      exact isJson_nest _ _ ((isJsonList_iff _).1 (canonList_isJson cells (by simpa [KeysOk] using hk)))
theorem canonList_isJson : ∀ xs : List Tree, KeysOkList xs → IsJsonList (canonList xs)
  | [], _ => by simp [canonList, IsJsonList]
  | x :: xs, hk => by
      have hk' : KeysOk x ∧ KeysOkList xs := by simpa [KeysOkList] using hk
      exact ⟨canon_isJson x hk'.1, canonList_isJson xs hk'.2⟩
theorem canonKvs_isJson : ∀ kvs : List (Key × Tree), KeysOkKvs kvs → IsJsonKvs (canonKvs kvs)
  | [], _ => by simp [canonKvs, IsJsonKvs]
  | (k, v) :: rest, hk => by
      have hk' : k ≠ .bad ∧ KeysOk v ∧ KeysOkKvs rest := by simpa [KeysOkKvs] using hk
      refine ⟨?_, canon_isJson v hk'.2.1, canonKvs_isJson rest hk'.2.2⟩
      cases k <;> simp_all [jsonKey]
end

mutual
theorem canon_of_isJson : ∀ t : Tree, IsJson t → canon t = t
  | .dict kvs, h => by simp [canon, canonKvs_of_isJson kvs (by simpa [IsJson] using h)]
  | .list xs, h => by simp [canon, canonList_of_isJson xs (by simpa [IsJson] using h)]
  | .int _, _ | .float _, _ | .str _, _ | .none, _ | .bool _, _ => by simp [canon]
  | .tuple _, h | .ndarray _ _ _, h | .structured _ _ _, h | .npInt _, h | .npFloat _ _ _, h
  | .npBool _, h | .npStr _, h | .opaque _, h => by simp [IsJson] at h
theorem canonList_of_isJson : ∀ xs : List Tree, IsJsonList xs → canonList xs = xs
  | [], _ => by simp [canonList]
  | x :: xs, h => by
      have h' : IsJson x ∧ IsJsonList xs := by simpa [IsJsonList] using h
      simp [canonList, canon_of_isJson x h'.1, canonList_of_isJson xs h'.2]
theorem canonKvs_of_isJson : ∀ kvs : List (Key × Tree), IsJsonKvs kvs → canonKvs kvs = kvs
  | [], _ => by simp [canonKvs]
  | (k, v) :: rest, h => by
      have h' : (∃ s, k = .str s) ∧ IsJson v ∧ IsJsonKvs rest := by simpa [IsJsonKvs] using h
      obtain ⟨⟨s, rfl⟩, hv, hr⟩ := h'
      simp [canonKvs, jsonKey, canon_of_isJson v hv, canonKvs_of_isJson rest hr]
end

mutual
theorem keysOk_of_isJson : ∀ t : Tree, IsJson t → KeysOk t
  | .dict kvs, h => by simpa [KeysOk] using keysOkKvs_of_isJson kvs (by simpa [IsJson] using h)
  | .list xs, h => by simpa [KeysOk] using keysOkList_of_isJson xs (by simpa [IsJson] using h)
  | .int _, _ | .float _, _ | .str _, _ | .none, _ | .bool _, _ => by simp [KeysOk]
  | .tuple _, h | .ndarray _ _ _, h | .structured _ _ _, h | .npInt _, h | .npFloat _ _ _, h
  | .npBool _, h | .npStr _, h | .opaque _, h => by simp [IsJson] at h
theorem keysOkList_of_isJson : ∀ xs : List Tree, IsJsonList xs → KeysOkList xs
  | [], _ => by simp [KeysOkList]
  | x :: xs, h => by
      have h' : IsJson x ∧ IsJsonList xs := by simpa [IsJsonList] using h
      exact ⟨keysOk_of_isJson x h'.1, keysOkList_of_isJson xs h'.2⟩
theorem keysOkKvs_of_isJson : ∀ kvs : List (Key × Tree), IsJsonKvs kvs → KeysOkKvs kvs
  | [], _ => by simp [KeysOkKvs]
  | (k, v) :: rest, h => by
      have h' : (∃ s, k = .str s) ∧ IsJson v ∧ IsJsonKvs rest := by simpa [IsJsonKvs] using h
      obtain ⟨⟨s, rfl⟩, hv, hr⟩ := h'
      exact ⟨by simp, keysOk_of_isJson v hv, keysOkKvs_of_isJson rest hr⟩
end

end json

/-! ### save_kwargs -/

theorem keysOkKvs_upsert (k : String) (v : Tree) (hv : KeysOk v) : ∀ kvs : List (Key × Tree),
    KeysOkKvs kvs → KeysOkKvs (upsert (.str k) v kvs)
  | [], _ => by simp [upsert, KeysOkKvs, hv]
  | (k', v') :: rest, h => by
      have h' : k' ≠ .bad ∧ KeysOk v' ∧ KeysOkKvs rest := by simpa [KeysOkKvs] using h
      by_cases hk : k' = .str k
      · simp [upsert, hk, KeysOkKvs, hv, h'.2.2]
      · simp [upsert, hk, KeysOkKvs, h'.1, h'.2.1, keysOkKvs_upsert k v hv rest h'.2.2]

theorem keysOkKvs_extras : ∀ (extra : List (String × Tree)) (kvs : List (Key × Tree)),
    (∀ e ∈ extra, KeysOk e.2) → KeysOkKvs kvs →
    KeysOkKvs (extra.foldl (fun d e => upsert (.str e.1) e.2 d) kvs)
  | [], kvs, _, h => by simpa using h
  | e :: extra, kvs, he, h => by
      simp only [List.foldl_cons]
      exact keysOkKvs_extras extra _ (fun x hx => he x (by simp [hx]))
        (keysOkKvs_upsert e.1 e.2 (he e (by simp)) kvs h)

theorem upsert_mem_keys (k : Key) (v : Tree) : ∀ kvs : List (Key × Tree), (k, v) ∈ upsert k v kvs
  | [] => by simp [upsert]
  | (k', v') :: rest => by
      by_cases hk : k' = k
      · simp [upsert, hk]
      · simp [upsert, hk, upsert_mem_keys k v rest]

/-! ### representation invariants, json.load -/

mutual
theorem wellShaped_of_isJson : ∀ t : Tree, IsJson t → WellShaped t
  | .dict kvs, h => by simpa [WellShaped] using wellShapedKvs_of_isJson kvs (by simpa [IsJson] using h)
  | .list xs, h => by simpa [WellShaped] using wellShapedList_of_isJson xs (by simpa [IsJson] using h)
  | .int _, _ | .float _, _ | .str _, _ | .none, _ | .bool _, _ => by simp [WellShaped]
  | .tuple _, h | .ndarray _ _ _, h | .structured _ _ _, h | .npInt _, h | .npFloat _ _ _, h
  | .npBool _, h | .npStr _, h | .opaque _, h => by simp [IsJson] at h
theorem wellShapedList_of_isJson : ∀ xs : List Tree, IsJsonList xs → WellShapedList xs
  | [], _ => by simp [WellShapedList]
  | x :: xs, h => by
      have h' : IsJson x ∧ IsJsonList xs := by simpa [IsJsonList] using h
      exact ⟨wellShaped_of_isJson x h'.1, wellShapedList_of_isJson xs h'.2⟩
theorem wellShapedKvs_of_isJson : ∀ kvs : List (Key × Tree), IsJsonKvs kvs → WellShapedKvs kvs
  | [], _ => by simp [WellShapedKvs]
  | (k, v) :: rest, h => by
      have h' : (∃ s, k = .str s) ∧ IsJson v ∧ IsJsonKvs rest := by simpa [IsJsonKvs] using h
      exact ⟨wellShaped_of_isJson v h'.2.1, wellShapedKvs_of_isJson rest h'.2.2⟩
end

theorem keysDistinctList_iff : ∀ xs : List Tree, KeysDistinctList xs ↔ ∀ x ∈ xs, KeysDistinct x
  | [] => by simp [KeysDistinctList]
  | x :: xs => by simp [KeysDistinctList, keysDistinctList_iff xs]

theorem keysDistinct_nest : ∀ (shape : List Nat) (xs : List Tree), (∀ x ∈ xs, KeysDistinct x) →
    KeysDistinct (nest shape xs)
  | [], xs, h => by
      cases xs with
      | nil => simp [nest, KeysDistinct]
      | cons x xs => simpa [nest] using h x (by simp)
  | n :: rest, xs, h => by
      simp only [nest, KeysDistinct]
      rw [keysDistinctList_iff]
      intro y hy
      simp only [List.mem_map] at hy
      obtain ⟨c, hc, rfl⟩ := hy
      exact keysDistinct_nest rest c (fun x hx => h x (chunksN_mem_sub _ _ _ c hc x hx))

theorem keysOf_canonKvs : ∀ kvs : List (Key × Tree), KeysOkKvs kvs →
    (keysOf (canonKvs kvs)).map renderKey = (keysOf kvs).map renderKey
  | [], _ => by simp [canonKvs, keysOf]
  | (k, v) :: rest, hk => by
      have hk' : k ≠ .bad ∧ KeysOk v ∧ KeysOkKvs rest := by simpa [KeysOkKvs] using hk
      have := keysOf_canonKvs rest hk'.2.2
      cases k <;> simp_all [canonKvs, keysOf, renderKey, jsonKey]

mutual
theorem canon_keysDistinct : ∀ t : Tree, KeysOk t → KeysDistinct t → KeysDistinct (canon t)
  | .dict kvs, hk, hd => by
      have hk' : KeysOkKvs kvs := by simpa [KeysOk] using hk
      have hd' : ((keysOf kvs).map renderKey).Nodup ∧ KeysDistinctKvs kvs := by simpa [KeysDistinct] using hd
      simp only [canon, KeysDistinct]
      exact ⟨by rw [keysOf_canonKvs kvs hk']; exact hd'.1, canonKvs_keysDistinct kvs hk' hd'.2⟩
  | .list xs, hk, hd => by
      simpa [canon, KeysDistinct] using canonList_keysDistinct xs (by simpa [KeysOk] using hk) (by simpa [KeysDistinct] using hd)
  | .tuple xs, hk, hd => by
      simpa [canon, KeysDistinct] using canonList_keysDistinct xs (by simpa [KeysOk] using hk) (by simpa [KeysDistinct] using hd)
  | .int _, _, _ | .float _, _, _ | .str _, _, _ | .none, _, _ | .bool _, _, _ | .npStr _, _, _ | .npInt _, _, _
  | .npFloat _ _ _, _, _ | .npBool _, _, _ | .opaque _, _, _ => by simp [canon, KeysDistinct]
  | .ndarray _ shape flat, hk, hd => by
      simp only [canon]
      exact keysDistinct_nest _ _ ((keysDistinctList_iff _).1
        (canonList_keysDistinct flat (by simpa [KeysOk] using hk) (by simpa [KeysDistinct] using hd)))
  | .structured _ _ cells, hk, hd => by
      simp only [canon]
      exact keysDistinct_nest _ _ ((keysDistinctList_iff _).1
        (canonList_keysDistinct cells (by simpa [KeysOk] using hk) (by simpa [KeysDistinct] using hd)))
theorem canonList_keysDistinct : ∀ xs : List Tree, KeysOkList xs → KeysDistinctList xs → KeysDistinctList (canonList xs)
  | [], _, _ => by simp [canonList, KeysDistinctList]
  | x :: xs, hk, hd => by
      have hk' : KeysOk x ∧ KeysOkList xs := by simpa [KeysOkList] using hk
      have hd' : KeysDistinct x ∧ KeysDistinctList xs := by simpa [KeysDistinctList] using hd
      exact ⟨canon_keysDistinct x hk'.1 hd'.1, canonList_keysDistinct xs hk'.2 hd'.2⟩
theorem canonKvs_keysDistinct : ∀ kvs : List (Key × Tree), KeysOkKvs kvs → KeysDistinctKvs kvs →
    KeysDistinctKvs (canonKvs kvs)
  | [], _, _ => by simp [canonKvs, KeysDistinctKvs]
  | (k, v) :: rest, hk, hd => by
      have hk' : k ≠ .bad ∧ KeysOk v ∧ KeysOkKvs rest := by simpa [KeysOkKvs] using hk
      have hd' : KeysDistinct v ∧ KeysDistinctKvs rest := by simpa [KeysDistinctKvs] using hd
      exact ⟨canon_keysDistinct v hk'.2.1 hd'.1, canonKvs_keysDistinct rest hk'.2.2 hd'.2⟩
end

theorem keysOf_append : ∀ a b : List (Key × Tree), keysOf (a ++ b) = keysOf a ++ keysOf b
  | [], b => by simp [keysOf]
  | (k, v) :: a, b => by simp [keysOf, keysOf_append a b]

theorem upsert_fresh (k : Key) (v : Tree) : ∀ acc : List (Key × Tree), k ∉ keysOf acc → upsert k v acc = acc ++ [(k, v)]
  | [], _ => by simp [upsert]
  | (k', v') :: acc, h => by
      have h' : k ≠ k' ∧ k ∉ keysOf acc := by simpa [keysOf] using h
      simp [upsert, Ne.symm h'.1, upsert_fresh k v acc h'.2]

theorem foldl_upsert_nodup : ∀ (kvs acc : List (Key × Tree)), (keysOf acc ++ keysOf kvs).Nodup →
    kvs.foldl (fun d e => upsert e.1 e.2 d) acc = acc ++ kvs
  | [], acc, _ => by simp
  | (k, v) :: kvs, acc, h => by
      have hk : k ∉ keysOf acc := by
        intro hm
        have := (List.nodup_append.1 h).2.2 k hm k (by simp [keysOf])
        exact this rfl
      simp only [List.foldl_cons]
      rw [upsert_fresh k v acc hk]
      have h2 : (keysOf (acc ++ [(k, v)]) ++ keysOf kvs).Nodup := by
        simpa [keysOf_append, keysOf, List.append_assoc] using h
      rw [foldl_upsert_nodup kvs _ h2]
      simp

theorem nodup_of_map_nodup {α β : Type} (f : α → β) : ∀ l : List α, (l.map f).Nodup → l.Nodup
  | [], _ => by simp
  | a :: l, h => by
      have h' : f a ∉ l.map f ∧ (l.map f).Nodup := by simpa using h
      simp only [List.nodup_cons]
      exact ⟨fun hm => h'.1 (List.mem_map.2 ⟨a, hm, rfl⟩), nodup_of_map_nodup f l h'.2⟩

theorem dedupKvs_nodup (kvs : List (Key × Tree)) (h : (keysOf kvs).Nodup) : dedupKvs kvs = kvs := by
  simpa [dedupKvs] using foldl_upsert_nodup kvs [] (by simpa [keysOf] using h)

theorem keysOf_jsonLoadKvs : ∀ kvs : List (Key × Tree), keysOf (jsonLoadKvs kvs) = keysOf kvs
  | [] => by simp [jsonLoadKvs, keysOf]
  | (k, v) :: rest => by simp [jsonLoadKvs, keysOf, keysOf_jsonLoadKvs rest]

mutual
theorem jsonLoad_id : ∀ j : Tree, KeysDistinct j → jsonLoad j = j
  | .dict kvs, hd => by
      have hd' : ((keysOf kvs).map renderKey).Nodup ∧ KeysDistinctKvs kvs := by simpa [KeysDistinct] using hd
      have hl := jsonLoadKvs_id kvs hd'.2
      simp only [jsonLoad, hl]
      rw [dedupKvs_nodup kvs (nodup_of_map_nodup _ _ hd'.1)]
  | .list xs, hd => by simp [jsonLoad, jsonLoadList_id xs (by simpa [KeysDistinct] using hd)]
  | .tuple _, _ | .int _, _ | .float _, _ | .str _, _ | .none, _ | .bool _, _ | .ndarray _ _ _, _
  | .structured _ _ _, _ | .npInt _, _ | .npFloat _ _ _, _ | .npBool _, _ | .npStr _, _ | .opaque _, _ => by
      simp [jsonLoad]
theorem jsonLoadList_id : ∀ xs : List Tree, KeysDistinctList xs → jsonLoadList xs = xs
  | [], _ => by simp [jsonLoadList]
  | x :: xs, hd => by
      have hd' : KeysDistinct x ∧ KeysDistinctList xs := by simpa [KeysDistinctList] using hd
      simp [jsonLoadList, jsonLoad_id x hd'.1, jsonLoadList_id xs hd'.2]
theorem jsonLoadKvs_id : ∀ kvs : List (Key × Tree), KeysDistinctKvs kvs → jsonLoadKvs kvs = kvs
  | [], _ => by simp [jsonLoadKvs]
  | (k, v) :: rest, hd => by
      have hd' : KeysDistinct v ∧ KeysDistinctKvs rest := by simpa [KeysDistinctKvs] using hd
      simp [jsonLoadKvs, jsonLoad_id v hd'.1, jsonLoadKvs_id rest hd'.2]
end

theorem jsonRoundTrip_eq_canon {c : Chain} {fb : Fallback} (h : DispatchSpec c fb) (t : Tree)
    (hk : KeysOk t) (hd : KeysDistinct t) (hw : WellShaped t) : jsonRoundTrip c fb t = .ok (canon t) := by
  simp [jsonRoundTrip, jsonEncode_eq_canon h t hk hw, jsonLoad_id _ (canon_keysDistinct t hk hd)]

/-! ### 1-d arrays -/

theorem chunksN_one : ∀ (n : Nat) (xs : List Tree), xs.length = n → (chunksN n 1 xs).map (nest []) = xs
  | 0, xs, h => by
      have : xs = [] := List.eq_nil_of_length_eq_zero h
      subst this
      rfl
  | n + 1, x :: xs, h => by
      have hl : xs.length = n := by simpa using h
      have ih := chunksN_one n xs hl
      show nest [] ((x :: xs).take 1) :: (chunksN n 1 ((x :: xs).drop 1)).map (nest []) = x :: xs
      have h1 : (x :: xs).take 1 = [x] := by simp
      have h2 : (x :: xs).drop 1 = xs := by simp
      rw [h1, h2, ih]
      rfl

theorem nest_1d (xs : List Tree) : nest [xs.length] xs = .list xs := by
  show Tree.list ((chunksN xs.length (prod []) xs).map (nest [])) = _
  rw [show prod [] = 1 from rfl, chunksN_one xs.length xs rfl]

/-! ### keyword-argument dictionaries -/

theorem keysOf_upsert (k : Key) (v : Tree) : ∀ kvs : List (Key × Tree),
    keysOf (upsert k v kvs) = if k ∈ keysOf kvs then keysOf kvs else keysOf kvs ++ [k]
  | [] => by simp [upsert, keysOf]
  | (k', v') :: rest => by
      by_cases hk : k' = k
      · simp [upsert, hk, keysOf]
      · have hk2 : ¬ k = k' := fun h => hk h.symm
        by_cases hm : k ∈ keysOf rest
        · simp [upsert, hk, keysOf, keysOf_upsert k v rest, hm]
        · simp [upsert, hk, hk2, keysOf, keysOf_upsert k v rest, hm]

def StrKeys (kvs : List (Key × Tree)) : Prop := ∀ k ∈ keysOf kvs, ∃ s, k = .str s

theorem strKeys_nodup_upsert (k : String) (v : Tree) (kvs : List (Key × Tree))
    (hs : StrKeys kvs) (hn : (keysOf kvs).Nodup) :
    StrKeys (upsert (.str k) v kvs) ∧ (keysOf (upsert (.str k) v kvs)).Nodup := by
  rw [keysOf_upsert]
  unfold StrKeys
  rw [keysOf_upsert]
  by_cases hm : Key.str k ∈ keysOf kvs
  · simp only [hm, if_true]; exact ⟨hs, hn⟩
  · simp only [hm, if_false]
    refine ⟨?_, ?_⟩
    · intro k' hk'
      simp only [List.mem_append, List.mem_singleton] at hk'
      rcases hk' with h | h
      · exact hs k' h
      · exact ⟨k, h⟩
    · rw [List.nodup_append]
      exact ⟨hn, by simp, by intro a ha b hb; simp at hb; subst hb; intro h; subst h; exact hm ha⟩

theorem strKeys_nodup_extras : ∀ (extra : List (String × Tree)) (kvs : List (Key × Tree)),
    StrKeys kvs → (keysOf kvs).Nodup →
    StrKeys (extra.foldl (fun d e => upsert (.str e.1) e.2 d) kvs) ∧
      (keysOf (extra.foldl (fun d e => upsert (.str e.1) e.2 d) kvs)).Nodup
  | [], kvs, hs, hn => ⟨by simpa using hs, by simpa using hn⟩
  | e :: extra, kvs, hs, hn => by
      simp only [List.foldl_cons]
      obtain ⟨h1, h2⟩ := strKeys_nodup_upsert e.1 e.2 kvs hs hn
      exact strKeys_nodup_extras extra _ h1 h2

theorem renderKey_nodup_of_str : ∀ ks : List Key, (∀ k ∈ ks, ∃ s, k = Key.str s) → ks.Nodup → (ks.map renderKey).Nodup
  | [], _, _ => by simp
  | k :: ks, hs, hn => by
      have hn' : k ∉ ks ∧ ks.Nodup := by simpa using hn
      simp only [List.map_cons, List.nodup_cons]
      refine ⟨?_, renderKey_nodup_of_str ks (fun k' hk' => hs k' (by simp [hk'])) hn'.2⟩
      intro hm
      simp only [List.mem_map] at hm
      obtain ⟨k', hk', he⟩ := hm
      obtain ⟨s, rfl⟩ := hs k (by simp)
      obtain ⟨s', rfl⟩ := hs k' (by simp [hk'])
      simp [renderKey, jsonKey] at he
      subst he
      exact hn'.1 hk'

theorem keysDistinctKvs_upsert (k : Key) (v : Tree) (hv : KeysDistinct v) : ∀ kvs : List (Key × Tree),
    KeysDistinctKvs kvs → KeysDistinctKvs (upsert k v kvs)
  | [], _ => by simp [upsert, KeysDistinctKvs, hv]
  | (k', v') :: rest, h => by
      have h' : KeysDistinct v' ∧ KeysDistinctKvs rest := by simpa [KeysDistinctKvs] using h
      by_cases hk : k' = k
      · simp [upsert, hk, KeysDistinctKvs, hv, h'.2]
      · simp [upsert, hk, KeysDistinctKvs, h'.1, keysDistinctKvs_upsert k v hv rest h'.2]

theorem wellShapedKvs_upsert (k : Key) (v : Tree) (hv : WellShaped v) : ∀ kvs : List (Key × Tree),
    WellShapedKvs kvs → WellShapedKvs (upsert k v kvs)
  | [], _ => by simp [upsert, WellShapedKvs, hv]
  | (k', v') :: rest, h => by
      have h' : WellShaped v' ∧ WellShapedKvs rest := by simpa [WellShapedKvs] using h
      by_cases hk : k' = k
      · simp [upsert, hk, WellShapedKvs, hv, h'.2]
      · simp [upsert, hk, WellShapedKvs, h'.1, wellShapedKvs_upsert k v hv rest h'.2]

theorem extras_invariants : ∀ (extra : List (String × Tree)) (kvs : List (Key × Tree)),
    (∀ e ∈ extra, KeysDistinct e.2 ∧ WellShaped e.2) → KeysDistinctKvs kvs → WellShapedKvs kvs →
    KeysDistinctKvs (extra.foldl (fun d e => upsert (.str e.1) e.2 d) kvs) ∧
      WellShapedKvs (extra.foldl (fun d e => upsert (.str e.1) e.2 d) kvs)
  | [], kvs, _, hd, hw => ⟨by simpa using hd, by simpa using hw⟩
  | e :: extra, kvs, he, hd, hw => by
      simp only [List.foldl_cons]
      exact extras_invariants extra _ (fun x hx => he x (by simp [hx]))
        (keysDistinctKvs_upsert _ _ (he e (by simp)).1 kvs hd)
        (wellShapedKvs_upsert _ _ (he e (by simp)).2 kvs hw)

end NessaiVerif.Encode
