"""Regenerates the tables of DESIGN.md section 11 (between the BEGIN/END markers) from known_findings.json,
seeded/*/meta.json and the Props files.  Run: python3 harness/design_tables.py"""
import json
import re
from pathlib import Path

V = Path(__file__).resolve().parent.parent


def esc(s):
    return str(s).replace("|", "\\|").replace("\n", " ")


def tables():
    kf = json.load(open(V / "known_findings.json"))["findings"]
    out = []
    out.append("#### Defects repaired by `fix:` commits in /repo (a fixed entry suppresses nothing: the oracle now requires the "
               "correct behaviour and reverting the fix is reported with a concrete input)\n")
    out.append("| id | commit | property | what failed |\n|----|--------|----------|-------------|")
    for f in kf:
        if f["status"] == "fixed":
            out.append(f"| {f['id']} | {f['commit']} | {f['property']} | {esc(f['what'])} |")
    out.append("\n#### Known findings (genuine, recorded rather than repaired; keyed by call site + input class)\n")
    out.append("| id | property | key | what fails |\n|----|----------|-----|------------|")
    for f in kf:
        if f["status"] == "known":
            out.append(f"| {f['id']} | {f['property']} | `{esc(f['key'])}` | {esc(f['what'])} |")
    out.append("\n#### Independently seeded changes (fresh sub-agents, property text only) and which check catches them\n")
    out.append("| seeded | property | needs, in order to manifest | result |\n|--------|----------|-----------------------------|--------|")
    for m in sorted((V / "seeded").glob("*/meta.json")):
        d = json.load(open(m))
        out.append(f"| {d['id']} | {d['property']} | {esc(d['needs_to_manifest'])} | {esc(d['result'])} |")
    out.append("\n#### Theorems per property (obligations audited on every run)\n")
    out.append("| property | theorems | lines of Props file |\n|----------|----------|---------------------|")
    for p in sorted((V / "lean" / "NessaiVerif" / "Props").glob("C*.lean")):
        t = p.read_text()
        out.append(f"| {p.stem} | {len(re.findall(r'^theorem ', t, re.M))} | {len(t.splitlines())} |")
    return "\n".join(out) + "\n"


def main():
    p = V / "DESIGN.md"
    s = p.read_text()
    b, e = "<!-- BEGIN GENERATED TABLES -->", "<!-- END GENERATED TABLES -->"
    if b not in s:
        s += f"\n### 11.5 Generated tables (harness/design_tables.py)\n\n{b}\n{e}\n"
    i, j = s.index(b) + len(b), s.index(e)
    s = s[:i] + "\n" + tables() + s[j:]
    p.write_text(s)
    print("DESIGN.md tables regenerated")


if __name__ == "__main__":
    main()
