import NessaiVerif.Model.Np
/-
`np.insert(a, idx, vals)` characterised by a merge *script* (which source each output
slot is taken from).  The same script governs the sample array and the row table, and
its true/false positions are exactly `idx + arange` and its complement.
-/
namespace NessaiVerif.Np
variable {α β : Type}

/-- which source each output slot comes from: `true` = inserted value, `false` = old element -/
def script : Nat → List Nat → Nat → List Bool
  | n, [], _ => List.replicate n false
  | 0, _ :: is, pos => true :: script 0 is pos
  | n + 1, i :: is, pos =>
      if i ≤ pos then true :: script (n + 1) is pos
      else false :: script n (i :: is) (pos + 1)
termination_by n idx _ => n + idx.length

def weave : List Bool → List α → List α → List α
  | [], _, _ => []
  | true :: t, a, v :: vs => v :: weave t a vs
  | false :: t, x :: xs, vs => x :: weave t xs vs
  | true :: _, _, [] => []
  | false :: _, [], _ => []

def truePos : List Bool → Nat → List Nat
  | [], _ => []
  | true :: t, off => off :: truePos t (off + 1)
  | false :: t, off => truePos t (off + 1)

def falsePos : List Bool → Nat → List Nat
  | [], _ => []
  | true :: t, off => falsePos t (off + 1)
  | false :: t, off => off :: falsePos t (off + 1)

theorem weave_replicate_false (a : List α) : weave (List.replicate a.length false) a ([] : List α) = a := by
  induction a with
  | nil => simp [weave]
  | cons x xs ih => simp [List.replicate_succ, weave, ih]

theorem insertMany_eq_weave (a : List α) (idx : List Nat) (vals : List α) (pos : Nat)
    (h : vals.length = idx.length) :
    insertMany a idx vals pos = weave (script a.length idx pos) a vals := by
  fun_induction insertMany a idx vals pos with
  | case1 a vals pos =>
    cases vals with
    | nil => simp [script, weave_replicate_false]
    | cons _ _ => simp at h
  | case2 a i is pos => simp at h
  | case3 i is v vs pos ih =>
    simp at h
    simp [script, weave, ih h]
  | case4 x xs i is v vs pos hle ih =>
    simp at h
    simp [script, hle, weave, ih h]
  | case5 x xs i is v vs pos hle ih =>
    simp [script, hle, weave, ih h]

theorem script_length (n : Nat) (idx : List Nat) (pos : Nat) :
    (script n idx pos).length = n + idx.length := by
  fun_induction script n idx pos with
  | case1 n pos => simp
  | case2 i is pos ih => simp [ih]
  | case3 n i is pos h ih => simp [ih]; omega
  | case4 n i is pos h ih => simp [ih]; omega

theorem weave_map (f : α → β) (t : List Bool) (a b : List α) :
    (weave t a b).map f = weave t (a.map f) (b.map f) := by
  fun_induction weave t a b <;> simp_all [weave]

end NessaiVerif.Np

namespace NessaiVerif.Np
variable {α β : Type}

theorem truePos_ge (t : List Bool) (off : Nat) : ∀ i ∈ truePos t off, off ≤ i := by
  induction t generalizing off with
  | nil => simp [truePos]
  | cons b t ih =>
    intro i hi
    cases b
    · simp [truePos] at hi
      have := ih (off + 1) i hi; omega
    · simp [truePos] at hi
      rcases hi with rfl | hi
      · omega
      · have := ih (off + 1) i hi; omega

theorem falsePos_ge (t : List Bool) (off : Nat) : ∀ i ∈ falsePos t off, off ≤ i := by
  induction t generalizing off with
  | nil => simp [falsePos]
  | cons b t ih =>
    intro i hi
    cases b
    · simp [falsePos] at hi
      rcases hi with rfl | hi
      · omega
      · have := ih (off + 1) i hi; omega
    · simp [falsePos] at hi
      have := ih (off + 1) i hi; omega

theorem truePos_replicate_false (n off : Nat) : truePos (List.replicate n false) off = [] := by
  induction n generalizing off with
  | zero => simp [truePos]
  | succ n ih => simp [List.replicate_succ, truePos, ih]

theorem truePos_succ (t : List Bool) (off : Nat) :
    truePos t (off + 1) = (truePos t off).map (· + 1) := by
  induction t generalizing off with
  | nil => simp [truePos]
  | cons b t ih => cases b <;> simp [truePos, ih]

theorem falsePos_succ (t : List Bool) (off : Nat) :
    falsePos t (off + 1) = (falsePos t off).map (· + 1) := by
  induction t generalizing off with
  | nil => simp [falsePos]
  | cons b t ih => cases b <;> simp [falsePos, ih]

theorem truePos_pairwise (t : List Bool) (off : Nat) : (truePos t off).Pairwise (· < ·) := by
  induction t generalizing off with
  | nil => simp [truePos]
  | cons b t ih =>
    cases b
    · simpa [truePos] using ih (off + 1)
    · simp only [truePos, List.pairwise_cons]
      refine ⟨?_, ih (off + 1)⟩
      intro i hi
      have := truePos_ge t (off + 1) i hi; omega

theorem falsePos_pairwise (t : List Bool) (off : Nat) : (falsePos t off).Pairwise (· < ·) := by
  induction t generalizing off with
  | nil => simp [falsePos]
  | cons b t ih =>
    cases b
    · simp only [falsePos, List.pairwise_cons]
      refine ⟨?_, ih (off + 1)⟩
      intro i hi
      have := falsePos_ge t (off + 1) i hi; omega
    · simpa [falsePos] using ih (off + 1)

/-- old and new positions together are exactly all positions -/
theorem falsePos_append_truePos_perm (t : List Bool) (off : Nat) :
    (falsePos t off ++ truePos t off).Perm (List.range' off t.length) := by
  induction t generalizing off with
  | nil => simp [falsePos, truePos]
  | cons b t ih =>
    cases b
    · simp only [falsePos, truePos, List.length_cons, List.range'_succ, List.cons_append]
      exact List.Perm.cons _ (ih (off + 1))
    · simp only [falsePos, truePos, List.length_cons, List.range'_succ]
      exact List.perm_middle.trans (List.Perm.cons _ (ih (off + 1)))

theorem falsePos_length (t : List Bool) (off : Nat) : (falsePos t off).length = t.count false := by
  induction t generalizing off with
  | nil => simp [falsePos]
  | cons b t ih => cases b <;> simp [falsePos, ih]

theorem truePos_length (t : List Bool) (off : Nat) : (truePos t off).length = t.count true := by
  induction t generalizing off with
  | nil => simp [truePos]
  | cons b t ih => cases b <;> simp [truePos, ih]

/-- `get_inverse_indices`: the ascending complement of the new positions is the old positions -/
theorem complement_truePos (t : List Bool) (off : Nat) :
    (List.range' off t.length).filter (fun i => !(truePos t off).contains i) = falsePos t off := by
  induction t generalizing off with
  | nil => simp [falsePos]
  | cons b t ih =>
    cases b
    · simp only [truePos, falsePos, List.length_cons, List.range'_succ]
      have hnot : ¬ off ∈ truePos t (off + 1) := by
        intro hc
        have := truePos_ge t (off + 1) off hc
        omega
      rw [List.filter_cons_of_pos (by simpa using hnot)]
      rw [ih (off + 1)]
    · simp only [truePos, falsePos, List.length_cons, List.range'_succ]
      rw [List.filter_cons_of_neg (by simp)]
      rw [← ih (off + 1)]
      apply List.filter_congr
      intro i hi
      have : off + 1 ≤ i := by
        have := List.mem_range'.mp hi
        omega
      have hne : ¬ i = off := by omega
      simp [hne]

theorem complement_truePos0 (t : List Bool) :
    complement t.length (truePos t 0) = falsePos t 0 := by
  unfold complement
  rw [List.range_eq_range']
  exact complement_truePos t 0

theorem count_script_false (n : Nat) (idx : List Nat) (pos : Nat) :
    (script n idx pos).count false = n := by
  fun_induction script n idx pos with
  | case1 n pos => simp
  | case2 i is pos ih => simp [ih]
  | case3 n i is pos h ih => simp [ih]
  | case4 n i is pos h ih => simp [ih]

theorem count_script_true (n : Nat) (idx : List Nat) (pos : Nat) :
    (script n idx pos).count true = idx.length := by
  fun_induction script n idx pos with
  | case1 n pos => simp [List.count_replicate]
  | case2 i is pos ih => simp [ih]
  | case3 n i is pos h ih => simp [ih]
  | case4 n i is pos h ih => simp [ih]

/-- reading the woven list at the old positions gives back the old list … -/
theorem weave_at_falsePos (d : α) (t : List Bool) (a b : List α)
    (ha : t.count false = a.length) (hb : t.count true = b.length) :
    (falsePos t 0).map (fun i => (weave t a b).getD i d) = a := by
  induction t generalizing a b with
  | nil =>
    simp at ha
    simp [falsePos, List.length_eq_zero_iff.mp ha.symm]
  | cons c t ih =>
    cases c
    · cases a with
      | nil => simp at ha
      | cons x xs =>
        simp at ha hb
        simp only [falsePos, weave, List.map_cons, List.getD_cons_zero, Nat.zero_add]
        rw [falsePos_succ, List.map_map]
        congr 1
        have := ih xs b ha hb
        simpa [Function.comp_def] using this
    · cases b with
      | nil => simp at hb
      | cons v vs =>
        simp at ha hb
        simp only [falsePos, weave, Nat.zero_add]
        rw [falsePos_succ, List.map_map]
        have := ih a vs ha hb
        simpa [Function.comp_def] using this

/-- … and at the new positions gives the inserted values -/
theorem weave_at_truePos (d : α) (t : List Bool) (a b : List α)
    (ha : t.count false = a.length) (hb : t.count true = b.length) :
    (truePos t 0).map (fun i => (weave t a b).getD i d) = b := by
  induction t generalizing a b with
  | nil =>
    simp at hb
    simp [truePos, List.length_eq_zero_iff.mp hb.symm]
  | cons c t ih =>
    cases c
    · cases a with
      | nil => simp at ha
      | cons x xs =>
        simp at ha hb
        simp only [truePos, weave, Nat.zero_add]
        rw [truePos_succ, List.map_map]
        have := ih xs b ha hb
        simpa [Function.comp_def] using this
    · cases b with
      | nil => simp at hb
      | cons v vs =>
        simp at ha hb
        simp only [truePos, weave, List.map_cons, List.getD_cons_zero, Nat.zero_add]
        rw [truePos_succ, List.map_map]
        congr 1
        have := ih a vs ha hb
        simpa [Function.comp_def] using this

theorem weave_length (t : List Bool) (a b : List α)
    (ha : t.count false = a.length) (hb : t.count true = b.length) :
    (weave t a b).length = t.length := by
  induction t generalizing a b with
  | nil => simp [weave]
  | cons c t ih =>
    cases c
    · cases a with
      | nil => simp at ha
      | cons x xs => simp at ha hb; simp [weave, ih xs b ha hb]
    · cases b with
      | nil => simp at hb
      | cons v vs => simp at ha hb; simp [weave, ih a vs ha hb]

theorem weave_perm (t : List Bool) (a b : List α)
    (ha : t.count false = a.length) (hb : t.count true = b.length) :
    (weave t a b).Perm (a ++ b) := by
  induction t generalizing a b with
  | nil =>
    simp at ha hb
    simp [weave, List.length_eq_zero_iff.mp ha.symm, List.length_eq_zero_iff.mp hb.symm]
  | cons c t ih =>
    cases c
    · cases a with
      | nil => simp at ha
      | cons x xs =>
        simp at ha hb
        simpa [weave] using ih xs b ha hb
    · cases b with
      | nil => simp at hb
      | cons v vs =>
        simp at ha hb
        simp only [weave]
        exact (List.Perm.cons v (ih a vs ha hb)).trans List.perm_middle.symm

end NessaiVerif.Np
