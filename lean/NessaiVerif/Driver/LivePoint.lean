import NessaiVerif.Model.LivePoint
import NessaiVerif.Driver.Parse
/-
Line protocol of the live-point area (token `lp`).  Values are `Int` tokens: the decimal of the
64-bit pattern of a float field, the integer itself for the `it` field.

  <cfg>  = 1 | 0            logl_dtype == default_float_dtype
  <reg>  = [op,op,…]        op = a:[names]:[defaults] | a:[names]:none | r      (history from the empty registry)
  <nsp>  = 1 | 0
  lp reg    <cfg> <reg>                              → ok [name:default,…]
  lp dtype  <cfg> <reg> <names> <nsp>                → ok fields=[…] nf=k
  lp empty  <cfg> <reg> <n> <names> <nsp>            → <LP>
  lp emptyd <cfg> <reg> <n> <fields> <nf>            → <LP>
  lp arr    <cfg> <reg> <names> <nsp> d1 [v,…]       → <LP>
  lp arr    <cfg> <reg> <names> <nsp> d2 <ncols> [[v,…],…]
  lp tup    <cfg> <reg> <names> <nsp> [v,…]          → <LP>
  lp dict   <cfg> <reg> <nsp> [k:s:v,k:a:[v,…],…]    → <LP>
  lp df     <cfg> <reg> <nsp> <cols> [[v,…],…]       → <LP>
  lp toarr  <fields> <rows> <names|none>             → ok k [[…],…]
  lp todict <fields> <rows> <names|none>             → ok [k:[…],…]
  lp view   <fields> <nf> <rows> <names>             → ok [[…],…]
  lp vset   <fields> <nf> <rows> <names> <i> <j> <v> → <LP>
  <LP> = ok fields=[…] nf=k rows=[[…],…]   |  err=value | err=index | err=key
-/
namespace NessaiVerif.Driver.LivePoint
open NessaiVerif NessaiVerif.Parse NessaiVerif.LivePoint

/-- 0x7ff8000000000000: the bit pattern of Python's `float("nan")` / `np.nan` -/
def nanTok : Int := 9221120237041090560

def cfgOf (loglFloat : Bool) : Cfg Int := { nan := nanTok, it0 := 0, loglFloat := loglFloat }

def showErr : Err → String
  | .valueErr => "err=value"
  | .indexErr => "err=index"
  | .keyErr => "err=key"

def parseName? (s : String) : Option String := if s.isEmpty then none else some s

def parseNames? (s : String) : Option (List String) := parseList? parseName? s
def parseRow? (s : String) : Option (List Int) := parseList? parseInt? s
def parseRows? (s : String) : Option (List (List Int)) := parseList? parseRow? s

def parseOp? (s : String) : Option (RegOp Int) :=
  match splitTop s ':' with
  | ["r"] => some .reset
  | ["a", ns, ds] => do
    let ns ← parseNames? ns
    let ds ← parseOpt? parseRow? ds
    some (.add ns ds)
  | _ => none

def parseReg? (loglFloat : Bool) (s : String) : Option (Registry Int) := do
  let ops ← parseList? parseOp? s
  some (applyOps (cfgOf loglFloat) ⟨[]⟩ ops)

def parseItem? (s : String) : Option (String × DVal Int) :=
  match splitTop s ':' with
  | [k, "s", v] => do
    let k ← parseName? k
    let v ← parseInt? v
    some (k, .scalar v)
  | [k, "a", xs] => do
    let k ← parseName? k
    let xs ← parseRow? xs
    some (k, .arr xs)
  | _ => none

def showRows (rows : List (List Int)) : String := showList (showList toString) rows

def showLP : Except Err (LP Int) → String
  | .error e => showErr e
  | .ok lp => s!"ok fields={showList id lp.fields} nf={lp.nf} rows={showRows lp.rows}"

def rect (c : Nat) (rows : List (List Int)) : Bool := rows.all (·.length == c)

def handle (toks : List String) : String :=
  match toks with
  | ["reg", c, reg] =>
    match parseBool? c with
    | some c =>
      match parseReg? c reg with
      | some r => "ok " ++ showList (fun (p : String × Int) => s!"{p.1}:{p.2}") r.extras
      | none => "bad-op"
    | none => "bad-op"
  | ["dtype", c, reg, names, nsp] =>
    match parseBool? c, parseNames? names, parseBool? nsp with
    | some c, some names, some nsp =>
      match parseReg? c reg with
      | some r =>
        match getDtype (cfgOf c) r names nsp with
        | .ok dt => s!"ok fields={showList id dt.fields} nf={dt.nf}"
        | .error e => showErr e
      | none => "bad-op"
    | _, _, _ => "bad-op"
  | ["empty", c, reg, n, names, nsp] =>
    match parseBool? c, parseNat? n, parseNames? names, parseBool? nsp with
    | some c, some n, some names, some nsp =>
      match parseReg? c reg with
      | some r => showLP (emptyStructured (cfgOf c) r n names nsp)
      | none => "bad-op"
    | _, _, _, _ => "bad-op"
  | ["emptyd", c, reg, n, fields, nf] =>
    match parseBool? c, parseNat? n, parseNames? fields, parseNat? nf with
    | some c, some n, some fields, some nf =>
      match parseReg? c reg with
      | some r => showLP (emptyStructuredOfDtype (cfgOf c) r n fields nf)
      | none => "bad-op"
    | _, _, _, _ => "bad-op"
  | ["arr", c, reg, names, nsp, "d1", xs] =>
    match parseBool? c, parseNames? names, parseBool? nsp, parseRow? xs with
    | some c, some names, some nsp, some xs =>
      match parseReg? c reg with
      | some r => showLP (numpyArrayToLivePoints (cfgOf c) r (.d1 xs) names nsp)
      | none => "bad-op"
    | _, _, _, _ => "bad-op"
  | ["arr", c, reg, names, nsp, "d2", nc, rows] =>
    match parseBool? c, parseNames? names, parseBool? nsp, parseNat? nc, parseRows? rows with
    | some c, some names, some nsp, some nc, some rows =>
      if !rect nc rows then "bad-op" else
      match parseReg? c reg with
      | some r => showLP (numpyArrayToLivePoints (cfgOf c) r (.d2 nc rows) names nsp)
      | none => "bad-op"
    | _, _, _, _, _ => "bad-op"
  | ["tup", c, reg, names, nsp, xs] =>
    match parseBool? c, parseNames? names, parseBool? nsp, parseRow? xs with
    | some c, some names, some nsp, some xs =>
      match parseReg? c reg with
      | some r => showLP (parametersToLivePoint (cfgOf c) r xs names nsp)
      | none => "bad-op"
    | _, _, _, _ => "bad-op"
  | ["dict", c, reg, nsp, items] =>
    match parseBool? c, parseBool? nsp, parseList? parseItem? items with
    | some c, some nsp, some items =>
      match parseReg? c reg with
      | some r => showLP (dictToLivePoints (cfgOf c) r items nsp)
      | none => "bad-op"
    | _, _, _ => "bad-op"
  | ["df", c, reg, nsp, cols, rows] =>
    match parseBool? c, parseBool? nsp, parseNames? cols, parseRows? rows with
    | some c, some nsp, some cols, some rows =>
      if !rect cols.length rows then "bad-op" else
      match parseReg? c reg with
      | some r => showLP (dataframeToLivePoints (cfgOf c) r cols rows nsp)
      | none => "bad-op"
    | _, _, _, _ => "bad-op"
  | ["toarr", fields, rows, names] =>
    match parseNames? fields, parseRows? rows, parseOpt? parseNames? names with
    | some fields, some rows, some names =>
      if !rect fields.length rows then "bad-op" else
      match livePointsToArray ⟨fields, 0, rows⟩ names with
      | .ok (k, out) => s!"ok {k} {showRows out}"
      | .error e => showErr e
    | _, _, _ => "bad-op"
  | ["todict", fields, rows, names] =>
    match parseNames? fields, parseRows? rows, parseOpt? parseNames? names with
    | some fields, some rows, some names =>
      if !rect fields.length rows then "bad-op" else
      match livePointsToDict ⟨fields, 0, rows⟩ names with
      | .ok d => "ok " ++ showList (fun (p : String × List Int) => s!"{p.1}:{showList toString p.2}") d
      | .error e => showErr e
    | _, _, _ => "bad-op"
  | ["view", fields, nf, rows, names] =>
    match parseNames? fields, parseNat? nf, parseRows? rows, parseNames? names with
    | some fields, some nf, some rows, some names =>
      if !rect fields.length rows then "bad-op" else
      match unstructuredView ⟨fields, nf, rows⟩ names with
      | .ok out => s!"ok {showRows out}"
      | .error e => showErr e
    | _, _, _, _ => "bad-op"
  | ["vset", fields, nf, rows, names, i, j, v] =>
    match parseNames? fields, parseNat? nf, parseRows? rows, parseNames? names,
        parseNat? i, parseNat? j, parseInt? v with
    | some fields, some nf, some rows, some names, some i, some j, some v =>
      if !rect fields.length rows then "bad-op" else
      showLP (viewSet ⟨fields, nf, rows⟩ names i j v)
    | _, _, _, _, _, _, _ => "bad-op"
  | _ => "bad-op"

end NessaiVerif.Driver.LivePoint
