#!/bin/bash
# run every claimed check (quick tier by default) on the unchanged tree; prints one line per check
cd "$(dirname "$(readlink -f "$0")")/.."
TIER="${1:-quick}"
for p in $(python3 -c "import json;print(' '.join(json.load(open('harness/claimed.json'))))"); do
  ./check $p --tier $TIER 2>&1 | grep -v "Drawing\|it/s\|KNOWN-FINDING" | tail -1
done
