import NessaiVerif.Model.Np
/-
C10 — model of `nessai.utils.multiprocessing.batch_evaluate_function`,
`nessai.utils.structures.array_split_chunksize` and the counter update of
`Model.batch_evaluate_log_likelihood`.

A (possibly vectorised) user function is modelled by two functions:
`F : List α → List β` (what the function returns when handed a batch) and
`f : α → β` (what it returns on one point).  `pool.map g ys` is a parameter
`pmap` (assumed to be `List.map`, see `PoolLawful`).
-/
namespace NessaiVerif.Batch
open NessaiVerif.Np

inductive Err | valueErr | typeErr
deriving Repr, DecidableEq

/-- `array_split_chunksize(x, chunksize)`: raises `ValueError` for `chunksize < 1`. -/
def arraySplitChunksize {α : Type} (xs : List α) (c : Int) : Except Err (List (List α)) :=
  if c < 1 then .error .valueErr else .ok (splitChunk c.toNat xs)

/-- `np.array_split(x, n_pool)`: `TypeError` for `n_pool = None`, `ValueError` for 0 sections -/
def splitPool {α : Type} (nPool : Option Nat) (xs : List α) : Except Err (List (List α)) :=
  match nPool with
  | some n => if n = 0 then .error .valueErr else .ok (splitN n xs)
  | none => .error .typeErr

/-- The batches the user function is called with (each inner list is one call). -/
def batchCalls {α : Type} (vectorised : Bool) (chunk : Option Int) (pool : Bool)
    (nPool : Option Nat) (xs : List α) : Except Err (List (List α)) :=
  if !pool then
    if vectorised then
      match chunk with
      | some c => if c == 0 then .ok [xs] else arraySplitChunksize xs c
      | none => .ok [xs]
    else .ok (xs.map fun x => [x])
  else
    if vectorised then
      match chunk with
      | some c =>
        if c == 0 then splitPool nPool xs
        else arraySplitChunksize xs c
      | none => splitPool nPool xs
    else .ok (xs.map fun x => [x])

/-- the batches of a call together with whether they go through `pool.map` (target of the generated dispatch tree) -/
def tagCalls {α : Type} (pooled : Bool) : Except Err (List (List α)) → Except Err (Bool × List (List α))
  | .ok cs => .ok (pooled, cs)
  | .error e => .error e

/-- `batch_evaluate_function`: the concatenated outputs. -/
def batchEval {α β : Type} (F : List α → List β) (f : α → β)
    (pmap : (List α → List β) → List (List α) → List (List β))
    (vectorised : Bool) (chunk : Option Int) (pool : Bool)
    (nPool : Option Nat) (xs : List α) : Except Err (List β) :=
  match batchCalls vectorised chunk pool nPool xs with
  | .error e => .error e
  | .ok calls =>
    let g : List α → List β := if vectorised then F else fun b => b.map f
    if pool then .ok (pmap g calls).flatten else .ok (calls.map g).flatten

/-- the likelihood-evaluation counter after `batch_evaluate_log_likelihood` -/
def counterAfter (before : Nat) (n : Nat) : Nat := before + n

end NessaiVerif.Batch
