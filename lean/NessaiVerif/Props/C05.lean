import NessaiVerif.Model.Results
import NessaiVerif.Gen.Results
import NessaiVerif.Gen.InsState
import NessaiVerif.Proofs.Results
import NessaiVerif.Proofs.ResultsQuad
import NessaiVerif.Proofs.ResultsIns
import NessaiVerif.Props.C02
import NessaiVerif.Props.C03
import NessaiVerif.Props.C04
/-
C05 — returned results are mutually consistent and faithful to the model.
Property theorems only (lemmas: Proofs/Results.lean, Proofs/ResultsQuad.lean, Proofs/ResultsIns.lean; C02/C03/C04
are re-used).

Standard sampler: `Results.NS` (Model/Results.lean) is the bookkeeping of `NestedSampler` that determines
what is returned; `Reachable n s` = "populated with n live points, then any number of `consume_sample`
calls"; `nestedSamplingLoop maxIt s below steps` = one call of `nested_sampling_loop` from that state;
`runSegments s segs` = a chain of such calls (the run resumed and run again, finished, capped or not).
Resuming enters the theorems as the identity on this state.  That is true for a checkpoint written at an
ITERATION BOUNDARY (the periodic checkpoint in `update_state`, the final one in `nested_sampling_loop`) — the
only kind the tie of harness/c05.py produces.  It is FALSE for a checkpoint written in the middle of
`consume_sample` (a signal handler firing between `state.increment(worst)` and the insertion — known finding
F4, property C13 — or `checkpoint_on_training=True` checkpointing from `train_proposal` inside
`consume_sample` — known finding F25, property C12): a run resumed from such a file records the worst point
twice.  Those histories are outside these theorems.
Importance sampler: `insZ`/`insPostW`/`insVar` are `_INSIntegralState` in the linear domain; the theorems
about them are consequences of those definitions (definitional + algebra), tied to the code by the
correspondence and the oracle of harness/c05.py, which recompute them from the returned samples of real runs.
Result tables: `sameSource` compares the SYNTAX of the translated source expressions (after inlining and
resolving conditionals), not run-time values; equality of the values is what the harness checks on real runs.
PARTIAL: the clause "stored logL/logP equal the model evaluated at the sample" speaks about the user's
function; only its bookkeeping half is a theorem (`stored_values_are_evaluated_values_partial`), the rest is
checked by the oracle on real runs.
-/
namespace NessaiVerif.C05
open NessaiVerif.Results NessaiVerif.Quad

section standard
variable {K : Type} [LinearOrder K]

/-- **Counts.**  A completed `nested_sampling_loop` returns `iterations + nlive` nested samples when it
finalised, and exactly `iterations` when it did not — and it can only end un-finalised because the
iteration cap was reached with the stopping test still false.  Any reachable start state (fresh or resumed
at an iteration boundary), any cap, any candidate streams. -/
theorem nested_count (n : Nat) (s : NS K) (hs : Reachable n s) (maxIt : Option Nat) (below : Bool)
    (steps : List (List K × Bool)) (r : NS K) (h : nestedSamplingLoop maxIt s below steps = .ok r) :
    r.nested.length = r.iteration + (if r.finalised then n else 0) ∧
      (r.finalised = false → capReached maxIt r.iteration = true) := by
  have sp := run_spec n s hs maxIt below steps r h
  exact ⟨sp.count, sp.cut⟩

/-- a concrete finalised run (3 live points, 2 iterations) … -/
example : nestedSamplingLoop (K := Int) none (populate [3, 1, 2]) false [([0, 5], false), ([1, 4], true)] =
    .ok ⟨3, none, [⟨1, 0⟩, ⟨2, 0⟩, ⟨3, 0⟩, ⟨4, 2⟩, ⟨5, 1⟩],
      [(1, none), (2, none), (3, some 3), (4, some 2), (5, some 1)], 2, true⟩ := by decide +kernel

/-- … and the theorem applied to it, and to the same run cut short by `max_iteration = 1` -/
example : ∃ r : NS Int, r.nested.length = r.iteration + (if r.finalised then 3 else 0) ∧ r.finalised = true :=
  ⟨_, (nested_count 3 (populate [3, 1, 2]) (.pop _ rfl) none false [([0, 5], false), ([1, 4], true)] _
    (by decide +kernel : nestedSamplingLoop (K := Int) none (populate [3, 1, 2]) false [([0, 5], false), ([1, 4], true)] =
      .ok ⟨3, none, [⟨1, 0⟩, ⟨2, 0⟩, ⟨3, 0⟩, ⟨4, 2⟩, ⟨5, 1⟩],
        [(1, none), (2, none), (3, some 3), (4, some 2), (5, some 1)], 2, true⟩)).1, rfl⟩

example (r : NS Int)
    (h : nestedSamplingLoop (some 1) (populate [3, 1, 2]) false [([0, 5], false), ([1, 4], true)] = .ok r)
    (hcut : r.finalised = false) : capReached (some 1) r.iteration = true :=
  (nested_count 3 _ (.pop _ rfl) (some 1) false _ r h).2 hcut

example : (nestedSamplingLoop (K := Int) (some 1) (populate [3, 1, 2]) false [([0, 5], false), ([1, 4], true)]).toOption.map
    (fun r => (r.nested.map (·.logL), r.iteration, r.finalised)) = some ([1], 1, false) := by decide +kernel

/-- **Order.**  The returned nested samples have non-decreasing log-likelihoods. -/
theorem nested_sorted (n : Nat) (s : NS K) (hs : Reachable n s) (maxIt : Option Nat) (below : Bool)
    (steps : List (List K × Bool)) (r : NS K) (h : nestedSamplingLoop maxIt s below steps = .ok r) :
    r.nested.Pairwise (fun a b => a.logL ≤ b.logL) :=
  (run_spec n s hs maxIt below steps r h).sorted

example (r : NS Int)
    (h : nestedSamplingLoop none (populate [3, 1, 2]) false [([0, 5], false), ([1, 4], true)] = .ok r) :
    r.nested.Pairwise (fun a b => a.logL ≤ b.logL) :=
  nested_sorted 3 _ (.pop _ rfl) none false _ r h

/-- The acceptance rule `logL > logLmin` is what keeps the order: a candidate at or below the current
minimum cannot even be inserted (NumPy's slice assignment in `insert_live_point` fails), and the rule never
lets one through. -/
theorem nested_sorted_fails_without :
    insertLive (K := Int) [⟨2, 0⟩, ⟨3, 0⟩] ⟨2, 1⟩ = .error .shapeErr ∧
      (consume (K := Int) (populate [2, 3]) [2, 1]).toOption = none := by decide +kernel

/-- **Birth likelihoods.**  For every returned sample `p`, `logLs[p.it]` — the entry of the integral
state's likelihood record that `birth_log_likelihoods` reads — exists and lies strictly below `p.logL`:
initial points carry `it = 0` and `logLs[0] = -inf`; a replacement inserted in iteration `it` was accepted
strictly above `logLs[it] = logLmin`. -/
theorem birth_lt (n : Nat) (s : NS K) (hs : Reachable n s) (maxIt : Option Nat) (below : Bool)
    (steps : List (List K × Bool)) (r : NS K) (h : nestedSamplingLoop maxIt s below steps = .ok r) :
    ∀ p ∈ r.nested, ∃ b, r.logLs[p.it]? = some b ∧ ltExt b p.logL :=
  (run_spec n s hs maxIt below steps r h).birth

example (r : NS Int)
    (h : nestedSamplingLoop none (populate [3, 1, 2]) false [([0, 5], false), ([1, 4], true)] = .ok r) :
    ∀ p ∈ r.nested, ∃ b, r.logLs[p.it]? = some b ∧ ltExt b p.logL :=
  birth_lt 3 _ (.pop _ rfl) none false _ r h

example : (nestedSamplingLoop (K := Int) none (populate [3, 1, 2]) false [([0, 5], false), ([1, 4], true)]).toOption.map
    (fun r => (r.nested.map (·.it), r.births)) =
      some ([0, 0, 0, 2, 1], [some none, some none, some none, some (some 2), some (some 1)]) := by decide +kernel

/-- **The integral state sees exactly the returned samples.**  After a completed loop the likelihood
record of the state is `-inf` followed by the returned nested samples' likelihoods in order, and the live
counts it was given are `n,…,n` (one per iteration) followed, when finalised, by `n, n-1, …, 1`. -/
theorem state_sees_returned_samples (n : Nat) (s : NS K) (hs : Reachable n s) (maxIt : Option Nat) (below : Bool)
    (steps : List (List K × Bool)) (r : NS K) (h : nestedSamplingLoop maxIt s below steps = .ok r) :
    r.logLs = none :: r.nested.map (fun p => some p.logL) ∧
      r.nliveSeen = if r.finalised then scheduleIncr r.iteration n else List.replicate r.iteration n := by
  have sp := run_spec n s hs maxIt below steps r h
  refine ⟨?_, sp.callsN⟩
  have := congrArg (List.map some) sp.callsL
  simp only [List.map_map] at this
  simp only [NS.logLs]
  congr 1

example (r : NS Int)
    (h : nestedSamplingLoop none (populate [3, 1, 2]) false [([0, 5], false), ([1, 4], true)] = .ok r) :
    r.logLs = none :: r.nested.map (fun p => some p.logL) :=
  (state_sees_returned_samples 3 _ (.pop _ rfl) none false _ r h).1

example : (nestedSamplingLoop (K := Int) none (populate [3, 1, 2]) false [([0, 5], false), ([1, 4], true)]).toOption.map
    (fun r => (r.logLs, r.nliveSeen)) =
      some ([none, some 1, some 2, some 3, some 4, some 5], [3, 3, 3, 2, 1]) := by decide +kernel

/-- **Evidence and weights are recomputable from the returned samples alone.**  Let `lin` map a
log-likelihood to the linear domain (`exp`; any function will do) and `shrink` be the expected shrinkage
per live count (either expectation mode).  The integral state that saw the run's `increment` calls reports
* finalised run: exactly what the one-pass `compute_weights(returned logL, nlive)` returns — the documented
  quadrature `evidence`/`weights` of the returned likelihoods on the schedule `n,…,n,n,n-1,…,1`;
* run cut short by the cap: the running rectangle sum over the returned likelihoods with constant `n`
  (`log_evidence`), and the weights of the quadrature on that schedule (`log_posterior_weights`).
Nothing but the returned likelihoods and `nlive` enters. -/
theorem evidence_recomputable {F : Type} [Field F] (shrink : Nat → F) (lin : K → F)
    (n : Nat) (hn : 1 ≤ n) (s : NS K) (hs : Reachable n s) (maxIt : Option Nat) (below : Bool)
    (steps : List (List K × Bool)) (r : NS K) (h : nestedSamplingLoop maxIt s below steps = .ok r) :
    let st := (St.init n : St F).incrMany shrink (r.calls.map fun c => (lin c.1, c.2))
    let Ls := r.nested.map fun p => lin p.logL
    (r.finalised = true →
      computeWeights shrink Ls (.int n) = .ok (st.finalise, st.postW) ∧
      st.finalise = evidence Ls ((scheduleIncr r.iteration n).map shrink) ∧
      st.postW = weights Ls ((scheduleIncr r.iteration n).map shrink)) ∧
    (r.finalised = false →
      st.Z = rectOnePass Ls (vols ((List.replicate r.iteration n).map shrink)) ∧
      st.postW = weights Ls ((List.replicate r.iteration n).map shrink)) :=
  evidence_of_spec shrink lin n hn r (run_spec n s hs maxIt below steps r h).toResult

/-- applied: likelihood codes 1..5 read as the rationals 1..5, shrinkage n/(n+1) -/
example (r : NS Int)
    (h : nestedSamplingLoop none (populate [3, 1, 2]) false [([0, 5], false), ([1, 4], true)] = .ok r)
    (hfin : r.finalised = true) :
    computeWeights (tOfN : Nat → ℚ) (r.nested.map fun p => (p.logL : ℚ)) (.int 3) =
      .ok (((St.init 3 : St ℚ).incrMany tOfN (r.calls.map fun c => ((c.1 : ℚ), c.2))).finalise,
           ((St.init 3 : St ℚ).incrMany tOfN (r.calls.map fun c => ((c.1 : ℚ), c.2))).postW) :=
  ((evidence_recomputable (tOfN : Nat → ℚ) (fun x : Int => (x : ℚ)) 3 (by decide) _ (.pop _ rfl) none false _ r h).1 hfin).1

/-- `nlive ≥ 1` is needed: with no live points a "run" that stops at once returns no samples and the
one-pass recomputation has nothing to close the integral with (`samples[-1]` fails). -/
theorem evidence_recomputable_fails_without :
    (nestedSamplingLoop (K := Int) none (populate []) true []).toOption.map (fun r => (r.finalised, r.nested.length)) =
      some (true, 0) ∧
    (computeWeights (K := Rat) tOfN [] (.int 0)).toOption = none := by decide +kernel

/-- **Runs resumed and run again.**  A chain of `nested_sampling_loop` calls — each on the state the previous
one left behind, i.e. the run resumed from a checkpoint written at an iteration boundary and run again, whether
the previous call finalised (then the state is returned unchanged: "Run has already finished!"), was cut
short by its cap (then sampling continues: one more iteration at least) or is the first — hands back a state with
the same guarantees as a single call: count `iterations + (nlive if finalised)`, non-decreasing likelihoods,
births strictly below, and an integral state that saw exactly the returned likelihoods, so evidence and weights
are those of `evidence_recomputable`. -/
theorem resumed_chain_results {F : Type} [Field F] (shrink : Nat → F) (lin : K → F)
    (n : Nat) (hn : 1 ≤ n) (s : NS K) (hs : Reachable n s)
    (segs : List (Option Nat × Bool × List (List K × Bool))) (r : NS K) (h : runSegments s segs = .ok r) :
    r.nested.length = r.iteration + (if r.finalised then n else 0) ∧
    r.nested.Pairwise (fun a b => a.logL ≤ b.logL) ∧
    (∀ p ∈ r.nested, ∃ b, r.logLs[p.it]? = some b ∧ ltExt b p.logL) ∧
    r.calls.map (·.1) = r.nested.map (·.logL) ∧
    (let st := (St.init n : St F).incrMany shrink (r.calls.map fun c => (lin c.1, c.2))
     let Ls := r.nested.map fun p => lin p.logL
     (r.finalised = true → computeWeights shrink Ls (.int n) = .ok (st.finalise, st.postW)) ∧
     (r.finalised = false → st.Z = rectOnePass Ls (vols ((List.replicate r.iteration n).map shrink)))) := by
  have sp := chain_spec n segs s hs r h
  have ev := evidence_of_spec shrink lin n hn r sp
  exact ⟨sp.count, sp.sorted, sp.birth, sp.callsL, fun hf => (ev.1 hf).1, fun hf => (ev.2 hf).1⟩

/-- a capped run (1 iteration), resumed: one more iteration under the same cap, resumed again with the cap
lifted: finishes; resumed once more: unchanged -/
example : (runSegments (K := Int) (populate [3, 1, 2])
    [(some 1, false, [([0, 5], false)]), (some 1, false, [([1, 4], false)]), (none, false, [([6], true)]),
     (none, true, [])]).toOption.map (fun r => (r.nested.map (·.logL), r.iteration, r.finalised)) =
      some ([1, 2, 3, 4, 5, 6], 3, true) := by decide +kernel

example (r : NS Int)
    (h : runSegments (populate [3, 1, 2])
      [(some 1, false, [([0, 5], false)]), (some 1, false, [([1, 4], false)]), (none, false, [([6], true)]),
       (none, true, [])] = .ok r) :
    r.nested.length = r.iteration + (if r.finalised then 3 else 0) :=
  (resumed_chain_results (tOfN : Nat → ℚ) (fun x : Int => (x : ℚ)) 3 (by decide) _ (.pop _ rfl) _ r h).1

/-- **Stored likelihoods are evaluated likelihoods** (PARTIAL — the bookkeeping half of "every returned
sample's stored log-likelihood equals the model evaluated at that sample").  No step of the sampler alters or
invents a likelihood value: every point held at the end carries the value of a point held at the start or a
candidate value handed to `consume_sample` by the proposal in one of the iterations.  GAP: that the value the
proposal attached to a candidate IS `model.log_likelihood` (and `log_prior`) at the candidate's parameters is
a statement about user code and the proposal's batched evaluation (C10); it is demanded of every returned
sample of real runs by the oracle of harness/c05.py, not proved. -/
theorem stored_values_are_evaluated_values_partial (s : NS K) (maxIt : Option Nat) (below : Bool)
    (steps : List (List K × Bool)) (r : NS K) (h : nestedSamplingLoop maxIt s below steps = .ok r) :
    ∀ p ∈ r.points, (∃ q ∈ s.points, q.logL = p.logL) ∨ ∃ st ∈ steps, p.logL ∈ st.1 := by
  unfold nestedSamplingLoop at h
  split at h
  · simp only [Except.ok.injEq] at h; subst h
    intro p hp; exact Or.inl ⟨p, hp, rfl⟩
  · cases hw : whileLoop maxIt s below steps with
    | error e => rw [hw] at h; simp at h
    | ok res =>
      obtain ⟨s', b⟩ := res
      rw [hw] at h
      simp only at h
      have ho := whileLoop_origin maxIt steps s below s' b hw
      split at h
      · rw [finalise_points s' r h]; exact ho
      · simp only [Except.ok.injEq] at h; subst h; exact ho

example (r : NS Int)
    (h : nestedSamplingLoop none (populate [3, 1, 2]) false [([0, 5], false), ([1, 4], true)] = .ok r) :
    ∀ p ∈ r.points, (∃ q ∈ (populate [3, 1, 2] : NS Int).points, q.logL = p.logL) ∨
      ∃ st ∈ [(([0, 5] : List Int), false), ([1, 4], true)], p.logL ∈ st.1 :=
  stored_values_are_evaluated_values_partial _ none false _ r h

example : (nestedSamplingLoop (K := Int) none (populate [3, 1, 2]) false [([0, 5], false), ([1, 4], true)]).toOption.map
    (fun r => r.points.map (·.logL)) = some [1, 2, 3, 4, 5] := by decide +kernel

end standard

/-! ### importance sampler -/
section ins
variable {K : Type} [Field K]

/-- **`_INSIntegralState` spelled out** (DEFINITIONAL + algebra; tied to the code by the correspondence and the
oracle, which recompute these quantities from the returned samples of real runs and on a boundary stream against
the real class).  With `w_i = L_i·W_i` the importance weights of the `N ≥ 1`
returned samples (`exp(logL + logW)`) and `Σ w ≠ 0`: the evidence is the mean weight; the posterior weight
of sample `i` is `w_i / Z = N·w_i / Σ w` (they sum to `N`, not to one — the code subtracts `logZ`, which
already contains `-log N`); and for `N ≥ 2` the square of the reported log-evidence error is
`(N·Σw² / (Σw)² − 1) / (N − 1)` = `(N / ESS − 1)/(N − 1)` with Kish's effective sample size.
All three are functions of the returned `logL + logW` alone. -/
theorem ins_evidence_def [CharZero K] (w : List K) (hN : w ≠ []) (hZ : sumL w ≠ 0) :
    insZ w * (w.length : K) = sumL w ∧
    insPostW w = w.map (fun x => x * (w.length : K) / sumL w) ∧
    sumL (insPostW w) = (w.length : K) ∧
    (2 ≤ w.length → insRelVar w =
      ((w.length : K) * sumL (w.map fun x => x * x) / (sumL w * sumL w) - 1) / ((w.length : K) - 1)) := by
  have hlen : w.length ≠ 0 := fun h => hN (List.length_eq_zero_iff.mp h)
  have hK : (w.length : K) ≠ 0 := Nat.cast_ne_zero.mpr hlen
  have hz : insZ w ≠ 0 := by unfold insZ; exact div_ne_zero hZ hK
  refine ⟨?_, ?_, ?_, ?_⟩
  · unfold insZ; field_simp
  · unfold insPostW insZ
    apply List.map_congr_left
    intro x _
    field_simp
  · unfold insPostW
    rw [sumL_map_div]
    unfold insZ
    field_simp
  · intro h2
    have hK1 : (w.length : K) - 1 ≠ 0 := by
      have : ((w.length - 1 : Nat) : K) ≠ 0 := Nat.cast_ne_zero.mpr (by omega)
      rwa [Nat.cast_sub (by omega), Nat.cast_one] at this
    unfold insRelVar insVar
    rw [sumL_sq_dev, Nat.cast_one]
    unfold insZ
    field_simp
    ring

example : ([1, 3] : List ℚ) ≠ [] ∧ sumL ([1, 3] : List ℚ) ≠ 0 ∧ insZ ([1, 3] : List ℚ) = 2 ∧
    insPostW ([1, 3] : List ℚ) = [1 / 2, 3 / 2] ∧ insRelVar ([1, 3] : List ℚ) = 1 / 4 := by decide +kernel

/-- applied to the weights 1, 3: the posterior weights sum to N = 2 -/
example : sumL (insPostW ([1, 3] : List ℚ)) = (([1, 3] : List ℚ).length : ℚ) :=
  (ins_evidence_def ([1, 3] : List ℚ) (by decide) (by decide +kernel)).2.2.1

/-- Without `Σ w ≠ 0` (every returned weight zero: all `logL + logW = -inf`) the posterior weights are
`0/0` and do not sum to `N`. -/
theorem ins_evidence_def_fails_without :
    sumL (insPostW ([0, 0] : List Rat)) ≠ (([0, 0] : List Rat).length : Rat) := by decide +kernel

/-- **The estimator depends on the returned samples as a multiset only** (a property of the definitions
`insZ`/`insVar`; that the code computes these is tied by the correspondence/oracle).  `update_evidence(nested, live)`
inside the loop and `update_evidence(samples)` at finalisation give the same evidence, variance and relative
variance whenever `samples` is a rearrangement of `nested ++ live` (C04: the two index sets partition the
store) — so the reported numbers are those of the returned samples, in whatever order they are stored. -/
theorem ins_estimator_order_free (samples nested live : List (K × K)) (h : samples.Perm (nested ++ live)) :
    insZ (insWeights samples []) = insZ (insWeights nested live) ∧
    insVar (insWeights samples []) = insVar (insWeights nested live) ∧
    insRelVar (insWeights samples []) = insRelVar (insWeights nested live) := by
  have hp : (insWeights samples []).Perm (insWeights nested live) := by
    unfold insWeights
    rw [List.append_nil]
    exact h.map _
  refine ⟨insZ_perm _ _ hp, insVar_perm _ _ hp, ?_⟩
  unfold insRelVar
  rw [insZ_perm _ _ hp, insVar_perm _ _ hp]

example : insZ (insWeights [((2 : ℚ), (1 : ℚ)), (1, 3)] []) = insZ (insWeights [((1 : ℚ), (3 : ℚ))] [(2, 1)]) :=
  (ins_estimator_order_free [((2 : ℚ), (1 : ℚ)), (1, 3)] [(1, 3)] [(2, 1)] (by decide)).1

/-- With non-negative weights, one of them positive, the evidence is positive (finite `logZ`) and every
posterior weight is non-negative (about the definitions; tied as above). -/
theorem ins_evidence_pos [LinearOrder K] [IsStrictOrderedRing K] (w : List K) (hw : ∀ x ∈ w, 0 ≤ x)
    (hex : ∃ x ∈ w, 0 < x) : 0 < insZ w ∧ ∀ p ∈ insPostW w, 0 ≤ p := by
  have hs := sumL_pos w hw hex
  have hne : w ≠ [] := by rintro rfl; simp at hex
  have hK : (0 : K) < (w.length : K) := by
    have : 0 < w.length := List.length_pos_iff.mpr hne
    exact_mod_cast this
  have hz : 0 < insZ w := by unfold insZ; exact div_pos hs hK
  refine ⟨hz, ?_⟩
  intro p hp
  unfold insPostW at hp
  obtain ⟨x, hx, rfl⟩ := List.mem_map.mp hp
  exact div_nonneg (hw x hx) (le_of_lt hz)

example : 0 < insZ ([0, 2] : List ℚ) :=
  (ins_evidence_pos ([0, 2] : List ℚ)
    (by intro x hx; simp at hx; rcases hx with rfl | rfl <;> norm_num) ⟨2, by simp, by norm_num⟩).1

/-- **Sample count.**  In every state the importance sampler's bookkeeping can reach (C03: any number of
levels, any batch sizes, with or without the independent set) the number of returned samples — the
independent set when `draw_iid_live`, else the training set — is the sum of the per-level draw counts. -/
theorem ins_n_samples [CharZero K] [DecidableEq K] (D : Nat → Nat → K) (hD0 : ∀ id, D id 0 = 1)
    (s : Meta.St K) (h : C03.Reachable D s) :
    (if s.useIid then s.iid.length else s.train.length) = s.counts.sum :=
  (C03.weights_are_fractions D hD0 s h).2.2.symm

example : (Meta.populate (K := ℚ) false [(1, 1), (2, 1)] []).counts.sum = 2 := by decide +kernel

/-- applied to the initial population of two samples (every density 1) -/
example : (if (Meta.populate (K := ℚ) false [(1, 1), (2, 1)] []).useIid
      then (Meta.populate (K := ℚ) false [(1, 1), (2, 1)] []).iid.length
      else (Meta.populate (K := ℚ) false [(1, 1), (2, 1)] []).train.length) =
    (Meta.populate (K := ℚ) false [(1, 1), (2, 1)] []).counts.sum :=
  ins_n_samples (fun _ _ => (1 : ℚ)) (fun _ => rfl) _ (.pop false [(1, 1), (2, 1)] [] (by simp) (by simp))

/-- **Order.**  The sample store of the importance sampler (C04: every history of insertions, threshold
updates, removals and finalisation that did not raise) holds its samples in non-decreasing likelihood order;
`samples`, the returned array, is that store mapped through `from_unit_hypercube`. -/
theorem ins_samples_sorted (st ra : Bool) (b : List (Ordered.Smp × Nat)) (ops : List Ordered.Op)
    (hops : ∀ op ∈ ops, C04.isInit op = false) (s : Ordered.OS)
    (hok : Ordered.run { strict := st, replAll := ra } (.init b :: ops) = .ok s) :
    ∃ smp, s.samples = some smp ∧ smp.Pairwise (fun a b => a.key ≤ b.key) := by
  obtain ⟨smp, wf, _, _⟩ := C04.store_invariant st ra b ops hops s hok
  exact ⟨smp, wf.stored, wf.sorted⟩

example : (Ordered.run { strict := false, replAll := false }
    [.init [(⟨3, 1⟩, 1), (⟨1, 2⟩, 2), (⟨2, 3⟩, 3)], .thr 2, .remove,
     .add [(⟨2, 4⟩, 4), (⟨0, 5⟩, 5), (⟨5, 6⟩, 6)], .remove, .finalise]).toOption.map
      (fun s => (s.samples.getD []).map (·.key)) = some [0, 1, 2, 2, 3, 5] := by decide +kernel

example (s : Ordered.OS)
    (hok : Ordered.run { strict := false, replAll := false }
      (.init [(⟨3, 1⟩, 1), (⟨1, 2⟩, 2), (⟨2, 3⟩, 3)] ::
        [.thr 2, .remove, .add [(⟨2, 4⟩, 4), (⟨0, 5⟩, 5), (⟨5, 6⟩, 6)], .remove, .finalise]) = .ok s) :
    ∃ smp, s.samples = some smp ∧ smp.Pairwise (fun a b => a.key ≤ b.key) :=
  ins_samples_sorted false false _ _ (by decide) s hok

end ins

/-! ### the result dictionaries (tables regenerated from the source on every run: Gen/Results.lean) -/
section tables
open NessaiVerif.Gen.Results

/-- result entry ↦ what must read the same source (standard sampler): FlowSampler's attributes after
`run`, its read-only properties, what it hands to the posterior resampling, and the sampler's own attributes -/
def stdPairs : List (String × String) :=
  [("log_evidence", "fs:logZ"), ("log_evidence", "fsprop:log_evidence"), ("log_evidence", "ns:log_evidence"),
   ("log_evidence_error", "fs:logZ_error"), ("log_evidence_error", "fsprop:log_evidence_error"),
   ("log_evidence_error", "ns:log_evidence_error"),
   ("nested_samples", "fs:_nested_samples"), ("nested_samples", "fsprop:nested_samples"),
   ("nested_samples", "fs:posterior:samples"),
   ("log_posterior_weights", "fs:posterior:log_w"), ("log_posterior_weights", "ns:state.log_posterior_weights"),
   ("logL_birth", "ns:birth_log_likelihoods"), ("insertion_indices", "ns:insertion_indices"),
   ("information", "ns:information")]

/-- the same for the importance sampler -/
def insPairs : List (String × String) :=
  [("log_evidence", "fs:logZ"), ("log_evidence", "fsprop:log_evidence"), ("log_evidence", "ns:log_evidence"),
   ("log_evidence_error", "fs:logZ_error"), ("log_evidence_error", "fsprop:log_evidence_error"),
   ("log_evidence_error", "ns:log_evidence_error"),
   ("samples", "fs:_nested_samples"), ("samples", "fsprop:nested_samples"), ("samples", "ns:samples"),
   ("log_posterior_weights", "ns:log_posterior_weights")]

/-- after `run(redraw_samples=True)` FlowSampler overwrites its evidence with the redrawn one -/
def insRedrawPairs : List (String × String) :=
  [("log_evidence", "fs:redraw:logZ"), ("log_evidence_error", "fs:redraw:logZ_error"),
   ("log_evidence", "ns:final_log_evidence"), ("log_evidence_error", "ns:final_log_evidence_error"),
   ("log_posterior_weights", "ns:final_log_posterior_weights"), ("samples", "ns:final_samples")]

/-- both entries exist, neither resolves to `None`, and they resolve to the same expression under `cfg`.
This compares SOURCE EXPRESSIONS (syntax after inlining forwarding properties and resolving the conditionals),
not run-time values: two reads of the same expression are assumed to give the same value — which is exactly what
the harness checks on real runs (repeated, re-ordered reads of every public quantity). -/
def sameSource (cfg : Cfg) (result exposed : List (String × E)) (p : String × String) : Bool :=
  match lookup result p.1, lookup exposed p.2 with
  | some a, some b => eval cfg a == eval cfg b && eval cfg a != E.none
  | _, _ => false

/-- **Result keys read the sampler's attributes** (syntactic, see `sameSource`).  In the current source, every result-bearing entry of
`NestedSampler.get_result_dictionary` (evidence, its error, nested samples, posterior weights, birth
likelihoods, insertion indices, information) reads — after inlining forwarding properties — the very
expression that `FlowSampler.run_standard_sampler` stores/exposes and the sampler object reports.  For the
importance sampler without redrawn final samples the same holds for evidence, error, samples and posterior
weights, with AND without the independent sample set (`draw_iid_live` true / false); with redrawn samples the
dictionary reads the redrawn store, which is what FlowSampler then reports as its evidence. -/
theorem result_keys_read_sampler_attributes :
    (stdPairs.all (sameSource ⟨true, false⟩ stdResult stdExposed) = true) ∧
    (insPairs.all (sameSource ⟨true, false⟩ insResult insExposed) = true) ∧
    (insPairs.all (sameSource ⟨false, false⟩ insResult insExposed) = true) ∧
    (insRedrawPairs.all (sameSource ⟨true, true⟩ insResult insExposed) = true) ∧
    (insRedrawPairs.all (sameSource ⟨false, true⟩ insResult insExposed) = true) := by
  refine ⟨?_, ?_, ?_, ?_, ?_⟩ <;> decide +kernel

example : (lookup stdResult "log_evidence").map (eval ⟨true, false⟩) =
    some (.attr (.attr .root "state") "logZ") := by decide +kernel

example : (lookup insResult "log_evidence").map (eval ⟨false, false⟩) =
    some (.attr (.attr (.attr .root "training_samples") "state") "logZ") := by decide +kernel

/-- "Without redrawn final samples" is needed: once samples have been redrawn the dictionary reports the
redrawn store while the sampler's `log_evidence` / `samples` still report the sampling-time store (by design:
FlowSampler keeps that one as `initial_logZ`). -/
theorem result_keys_fails_without :
    sameSource ⟨true, true⟩ insResult insExposed ("log_evidence", "ns:log_evidence") = false ∧
    sameSource ⟨true, true⟩ insResult insExposed ("samples", "ns:samples") = false := by
  constructor <;> decide +kernel

end tables

/-! ## The evidence state of the importance sampler: the source, regenerated on every run, IS the model

`Gen/InsState.lean` is produced by `harness/pylogvec2lean.py` from the current text of `_INSIntegralState.update_evidence`,
`.logZ`, `.log_posterior_weights` and `log_evidence_from_ins_samples` (a record array is its `logL` / `logW` columns, a
log-weight is the product `L · W`).  They are the model's `insWeights`, `insZ`, `insPostW` — so the INS clauses of this
property (and the evidence-based stopping criteria of C15) are stated about the source as it is now. -/
section insSource
variable {K : Type} [Field K]

theorem zipWith_mul_unzip (l : List (K × K)) :
    List.zipWith (· * ·) (l.map (·.1)) (l.map (·.2)) = l.map (fun s => s.1 * s.2) := by
  induction l with
  | nil => rfl
  | cons x xs ih => simp [ih]

/-- `update_evidence(nested_samples, live_points)`: the weights are `insWeights`, `_logZ` their sum, `_n` their number -/
theorem ins_update_evidence_source_eq_model (nested : List (K × K)) (live : Option (List (K × K))) :
    Gen.InsState.update_evidence (nested.map (·.1)) (nested.map (·.2)) (live.map fun l => (l.map (·.1), l.map (·.2))) =
      (insWeights nested (live.getD []), sumL (insWeights nested (live.getD [])), (insWeights nested (live.getD [])).length) := by
  cases live with
  | none => simp [Gen.InsState.update_evidence, insWeights, zipWith_mul_unzip]
  | some l => simp [Gen.InsState.update_evidence, insWeights, zipWith_mul_unzip]

/-- the `logZ` property on the state `update_evidence` leaves is the model's `insZ` (mean of the weights) -/
theorem ins_logZ_source_eq_model (w : List K) : Gen.InsState.logZ (sumL w) w.length = insZ w := rfl

/-- `log_posterior_weights` is the model's `insPostW` -/
theorem ins_post_weights_source_eq_model (w : List K) :
    Gen.InsState.log_posterior_weights w (sumL w) w.length = insPostW w := rfl

/-- `log_evidence_from_ins_samples(samples)` is `insZ` of the samples' weights -/
theorem ins_log_evidence_from_samples_source_eq_model (s : List (K × K)) :
    Gen.InsState.log_evidence_from_ins_samples (s.map (·.1)) (s.map (·.2)) = insZ (insWeights s []) := by
  simp [Gen.InsState.log_evidence_from_ins_samples, insZ, insWeights, zipWith_mul_unzip]

/-- `compute_evidence_ratio(ns_only)` on the state `update_evidence(nested, live)` leaves (`_weights_lp`, `_weights_ns`, `_logZ`,
`_n`) is the model's `insRatio`: the quantity behind the `ratio` and `ratio_ns` stopping criteria of C15 -/
theorem ins_evidence_ratio_source_eq_model (nested live : List (K × K)) (nsOnly : Bool) :
    Gen.InsState.compute_evidence_ratio (insWeights [] live) (insWeights nested [])
        (sumL (insWeights nested live)) (insWeights nested live).length nsOnly
      = insRatio nested live nsOnly := by
  cases nsOnly <;> rfl

/-- `compute_uncertainty(log_evidence)` on the state `update_evidence` leaves: the square root of the model's `insVar`
(`log_evidence=False`), or `|·/Ẑ|` of it (`True`, the reported log-evidence error) — for ANY functions standing for `np.sqrt` and
`np.abs` (they are not interpreted), and any number of samples (`n (n − 1)` is computed on counts: 0 for n ≤ 1, as in the model) -/
theorem ins_uncertainty_source_eq_model (sqrtOf absOf : K → K) (w : List K) (logEvidence : Bool) :
    Gen.InsState.compute_uncertainty w w.length sqrtOf absOf (sumL w) logEvidence
      = if logEvidence then absOf (sqrtOf (insVar w) / insZ w) else sqrtOf (insVar w) := by
  have hc : (((w.length * (w.length - 1) : Nat)) : K) = (w.length : K) * ((w.length : K) - ((1 : Nat) : K)) := by
    cases h : w.length with
    | zero => simp
    | succ n => push_cast; simp
  have hv : sumL ((w.map (fun x => x - insZ w)).map (fun x => x * x)) / (((w.length * (w.length - 1) : Nat)) : K) = insVar w := by
    rw [hc, List.map_map]; rfl
  unfold Gen.InsState.compute_uncertainty
  simp only [show Gen.InsState.logZ (sumL w) w.length = insZ w from rfl, hv]

example : Gen.InsState.update_evidence [(2 : ℚ), 4] [1 / 2, 1 / 4] (some ([3], [1 / 3])) = ([1, 1, 1], 3, 3) := by
  norm_num [Gen.InsState.update_evidence, sumL]

end insSource
end NessaiVerif.C05
