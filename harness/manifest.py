"""Regenerates MANIFEST.json from the table below (run: /venv/bin/python -m harness.manifest)."""
import json
from pathlib import Path

VERIF = Path(__file__).resolve().parent.parent
BASE_NOTE = ("Trusted: Lean 4.33 kernel, axioms propext/Classical.choice/Quot.sound only (audited each run), "
             "the hand-written model and the correspondence harness (generators, canonicalisation). ")

def load_checks(props):
    """Each harness/cXX.py carries its own MANIFEST dict(text, note, technique, ref)."""
    import importlib
    out = {}
    claimed = json.loads((VERIF / "harness" / "claimed.json").read_text())
    for pid in props:
        if pid not in claimed or not (VERIF / "harness" / f"{pid.lower()}.py").exists():
            continue
        m = importlib.import_module(f"harness.{pid.lower()}")
        if getattr(m, "MANIFEST", None):
            out[pid] = m.MANIFEST
    return out


NOT_BUILT = "check not built yet in this commit (planned, see DESIGN.md section 5)"
NA = {
    "C06": "statistical calibration over seeds of a stochastic program with a trained neural proposal: no theorem about an "
           "executable model can be tied to it by a deterministic correspondence (DESIGN.md 5/C06)",
}


def main():
    props = [json.loads(l)["id"] for l in open(VERIF / "properties.jsonl")]
    CHECKS = load_checks(props)
    checks = []
    for pid in props:
        if pid not in CHECKS:
            continue
        c = CHECKS[pid]
        checks.append({
            "property_id": pid,
            "quick_cmd": f"./check {pid} --tier quick",
            "thorough_cmd": f"./check {pid} --tier thorough",
            "evidence_file": f"evidence/{pid}.json",
            "replay_cmd_template": f"./check {pid} --replay {{path}}",
            "engine": "lean4-model+correspondence",
            "level_claimed": {"category": "proof", "text": c["text"], "design_ref": "DESIGN.md section " + c["ref"]},
            "level_note": BASE_NOTE + c["note"],
            "technique": c["technique"],
        })
    na = [{"property_id": p, "reason": NA.get(p, NOT_BUILT)} for p in props if p not in CHECKS]
    man = {
        "version": 1,
        "setup_cmd": "cd lean && lake build",
        "hooks": {
            "guard": "NESSAI_VERIF",
            "enable": "no source hooks: fault injection, RNG scripting and tracing are done from the harness process "
                      "(unittest.mock / sys.settrace); the checks export NESSAI_VERIF=1 but nessai does not read it",
            "baseline_off_cmd": "cd /repo && /venv/bin/python -m pytest -ra -q -p no:cacheprovider --timeout=900 --continue-on-collection-errors",
            "source_commits": [],
            "add_only": True,
        },
        "engines": [{
            "name": "lean4-model+correspondence",
            "path": "lean/ (lake project NessaiVerif, driver nessai_model) + harness/ (Python, /venv/bin/python)",
            "serves_properties": [c["property_id"] for c in checks],
            "kind_free_text": "Lean 4 theorems about executable models; models tied to /repo on every run by a source translator "
                              "(harness/py2lean.py -> lean/NessaiVerif/Gen) and/or a differential correspondence against the real code",
        }],
        "checks": checks,
        "notes": "Single entry point ./check Cxx [--tier quick|thorough] [--replay F]; VERIF_SEED seeds every generator. "
                 "Genuine defects: known_findings.json (fix: commits in /repo are listed there as fixed).",
        "not_applicable": na,
    }
    (VERIF / "MANIFEST.json").write_text(json.dumps(man, indent=1) + "\n")
    print("claimed:", [c["property_id"] for c in checks])


if __name__ == "__main__":
    main()
