"""C14 — seeded runs are reproducible and independent of the parallelisation settings (PARTIAL)."""
import itertools
import json
import os

import numpy as np

from . import core
from . import c14_tables as tables
from . import c14_runs as runs

PROPS_MODULE = "NessaiVerif.Props.C14"
MANIFEST = dict(
    text="PARTIAL. Lean theorems decided over whole-package tables that a translator (Python ast over every nessai/*.py) "
         "regenerates on every run and that are judged against hand-written allow-lists in the Lean model: (1) every read of "
         "pool / n_pool / likelihood_chunksize / parallelise_prior / allow_vectorised lies in the batch-evaluation layer or in a "
         "constructor that only forwards it, and the pool is used only through the order-preserving map; with C10's "
         "batchEval_eq_map the values the layer returns are the same for every chunk size / pool size / pool presence "
         "(values_independent_of_pool_settings_partial, with counter-examples for each hypothesis); (2) every random-number site "
         "(numpy.random, torch, scipy rvs, .sample of flows, generator constructions, stdlib random, OS entropy) draws from a "
         "generator that configure_random_seed seeds (rng_sites_seeded), and the decision logic of configure_random_seed itself is "
         "translated: the seed is replaced by a random one exactly when it is None (seed_replaced_iff_none — seed 0 is kept) and "
         "both generators are seeded unconditionally with the stored value (seeding_unconditional_with_stored_seed), and in the "
         "constructor chain FlowSampler -> sampler -> BaseNestedSampler (calls extracted in execution order) seeding happens once "
         "and before every drawing call except model.verify_model(), whose draws are discarded (seeded_before_first_draw_partial); (3) the only draw whose execution depends on a "
         "parallelisation setting is the vectorisation probe, and a model of configure_pool + probe proves that it consumes the "
         "same random numbers for every pool setting with a known pool size and shows the two ways it does not (an unknown-size "
         "user pool: the known finding; a cached probe on a re-used Model instance: outside the property's domain, noted only). "
         "Tie: the generated tables (re-proved by lake build), a dynamic cross-check that every numpy/torch RNG call and every "
         "setting read observed while tracing real runs is a row of the static tables, and a correspondence of the probe model "
         "with the real Model.configure_pool / batch_evaluate_log_likelihood on a full grid. Failing-input search = complete "
         "seeded runs of both samplers (random seeds and the edge seeds 0, 1, 2^32-2), every run with a freshly built Model instance "
         "and starting from a different scrambled ambient NumPy/torch generator state, in separate processes (fork children, twice "
         "in one process, and fresh interpreters with different hash seeds) "
         "compared by sha256 of nested samples, evidence, posterior weights and evaluation counts across pool sizes, user pools, "
         "chunk sizes and parallel prior evaluation.",
    note="No Lean object represents a whole run: the composition 'settings confined to the batch layer' + 'batch layer values "
         "independent of the settings' + 'all randomness seeded' => 'same run' is informal and only observed by the digest runs. "
         "Call order is shown for the constructor chain only (by callee name; resume branch and the order inside run() not shown); "
         "that verify_model leaves nothing behind from its pre-seed draws is observed (scrambled ambient state per run), not proved. "
         "Not shown: bit-determinism of NumPy/PyTorch kernels and of process scheduling (observed by the digest runs only); that "
         "third-party .sample methods use the default torch generator; Pool.map order (multiprocessing contract). The draw-guard "
         "table uses a name-based call graph. Likelihoods of the runs use exactly rounded operations only.",
    technique="Lean 4 table theorems (decide over translator output) + corollary of C10 + digest comparison of real runs",
    ref="5/C14")

GEN = {"tables": None, "error": None}
EDGE_SEEDS = (0, 1, 2 ** 32 - 2)
KNOWN_SIZELESS = "Model.configure_pool:user-pool-of-unknown-size:vectorisation-probe-consumes-seeded-rng"


# ================================================================================================ translator
def gen(ctx):
    try:
        t = tables.scan(core.REPO)
    except tables.ScanError as e:
        GEN["error"] = str(e)
        ctx.broken(f"translator: tables could not be regenerated: {e}",
                   "the theorems were checked against the previously generated tables only")
        return
    GEN["tables"] = t
    text = tables.render(t)
    rewritten = tables.write_if_changed(core.LEAN / "NessaiVerif" / "Gen" / "Tables.lean", text)
    ctx.extra["generated"] = dict(files=t["n_files"], sha256=t["sha256"], pool_reads=len(t["reads"]), pool_calls=len(t["calls"]),
                                  rng_sites=len(t["sites"]), guarded_draws=len(t["guarded"]), seeded=t["seeded"],
                                  chain_steps={k: len(v) for k, v in t["chains"].items()},
                                  pre_seed_draws={k: [c["call"] for c in v[:next(i for i, c in enumerate(v) if c["seeds"])]
                                                      if c["draws"]] if any(c["seeds"] for c in v) else None
                                                  for k, v in t["chains"].items()},
                                  seed_guard=t["seedfn"]["guard_src"], seed_guard_lean=t["seedfn"]["guard_lean"],
                                  rewritten=rewritten)


# ================================================================================================ tables through the model
def classify_tables(ctx, t):
    """every generated row is put to the compiled Lean allow-lists; returns the rejected rows"""
    lines, rows = [], []
    for r in t["reads"]:
        lines.append(f"tab read {r['file']} {r['func']} {r['kind']}")
        rows.append(("pool_settings_confined", r))
    for r in t["calls"]:
        lines.append(f"tab call {r['file']} {r['func']} {r['method']}")
        rows.append(("pool_calls_order_preserving", r))
    seeded = "[" + ",".join(t["seeded"]) + "]"
    for r in t["sites"]:
        lines.append(f"tab rng {seeded} {r['source']} {r['file']} {r['func']} {r['call']}")
        rows.append(("rng_sites_seeded", r))
    for r in t["guarded"]:
        lines.append(f"tab guarded {r['file']} {r['func']} {r['setting']}")
        rows.append(("guarded_draws_only_probe_partial", r))
    # control rows that the allow-lists must reject / admit
    controls = [
        ("tab read nessai/samplers/nestedsampler.py NestedSampler.populate_live_points test", "0"),
        ("tab read nessai/samplers/nestedsampler.py NestedSampler.__init__ use", "0"),
        ("tab read nessai/samplers/nestedsampler.py NestedSampler.__init__ forward", "1"),
        ("tab read nessai/flowsampler.py FlowSampler.__init__ guard", "1"),
        ("tab read nessai/proposal/flowproposal.py FlowProposal.populate forward", "0"),
        ("tab call nessai/utils/multiprocessing.py batch_evaluate_function imap_unordered", "0"),
        ("tab call nessai/utils/multiprocessing.py batch_evaluate_function map", "1"),
        ("tab rng [numpyGlobal,torchGlobal] freshUnseeded nessai/model.py Model.new_point numpy.random.default_rng", "0"),
        ("tab rng [numpyGlobal,torchGlobal] stdlibRandom nessai/model.py Model.new_point random.random", "0"),
        ("tab rng [numpyGlobal] torchGlobal nessai/flowmodel/base.py FlowModel._train torch.randperm", "0"),
        ("tab rng [numpyGlobal] delegated nessai/flowmodel/base.py FlowModel.sample self.model.sample", "0"),
        ("tab rng [numpyGlobal,torchGlobal] numpyGlobal nessai/model.py Model.new_point numpy.random.uniform", "1"),
        ("tab guarded nessai/samplers/nestedsampler.py NestedSampler.initialise n_pool", "0"),
        ("tab guarded nessai/model.py Model.vectorised_likelihood allow_vectorised", "1"),
    ]
    outs = ctx.model(lines + [c for c, _ in controls])
    rejected = []
    for (thm, r), line, o in zip(rows, lines, outs):
        if o == "0":
            rejected.append(dict(theorem=thm, row=r))
        elif o != "1":
            ctx.disagree("driver could not classify a generated table row", {"line": line, "model": o})
        ctx.case(("row", line), True, None, kind="table-row:" + thm)
    for (c, want), o in zip(controls, outs[len(lines):]):
        if o != want:
            ctx.disagree("allow-list control row classified wrongly", {"line": c, "model": o, "want": want})
        ctx.case(("control", c), True, None, kind="table-control")
    ctx.extra["rejected_rows"] = rejected[:40]
    if rejected:
        thms = sorted({r["theorem"] for r in rejected})
        for thm in thms:
            name = "NessaiVerif.C14." + thm
            if not any(name in b["name"] for b in ctx.brokens):
                ctx.broken(f"theorem {name} no longer checks",
                           "rows rejected by the compiled allow-list: " + json.dumps([r["row"] for r in rejected if r["theorem"] == thm][:8]))
    return rejected


# ================================================================================================ probe correspondence
class _FakePool:
    def __init__(self, n=None, *a, **k):
        processes = k.get("processes", n)
        if processes is not None:
            self._processes = processes

    def map(self, f, it):
        return [f(v) for v in it]

    def close(self): pass
    def join(self): pass
    def terminate(self): pass


class _Sizeless(_FakePool):
    def __init__(self):
        pass


def _opt(v):
    return "none" if v is None else str(int(v))


def probe_real(allow0, user_pool, detected, n_pool_arg, cached, is_vec):
    """real Model.configure_pool + first batch_evaluate_log_likelihood; returns the canonical line"""
    from unittest import mock
    import nessai.model as nm
    from nessai.livepoint import numpy_array_to_live_points
    from nessai.utils.multiprocessing import initialise_pool_variables
    m = runs.make_model("vec" if is_vec else "scalar")
    m.allow_vectorised = allow0
    m._vectorised_likelihood = cached
    pool = None
    if user_pool:
        pool = _Sizeless() if detected is None else _FakePool(detected)
    points = [0]
    orig_new_point = type(m).new_point

    def counting_new_point(self_, *a, **k):
        points[0] += 1
        return orig_new_point(self_, *a, **k)

    seen = {}
    real_bef = nm.batch_evaluate_function

    def spy(func, x, vectorised, **kw):
        seen["vec"] = bool(vectorised)
        seen["pool"] = kw.get("pool") is not None
        seen["n_pool"] = kw.get("n_pool")
        try:
            return real_bef(func, x, vectorised, **kw)
        except Exception:  # noqa  (e.g. a pool of size 0: outside the probe's concern)
            return np.zeros(len(x))

    import multiprocessing
    with mock.patch.object(multiprocessing, "Pool", _FakePool), mock.patch.object(nm, "batch_evaluate_function", spy), \
            mock.patch.object(type(m), "new_point", counting_new_point):
        initialise_pool_variables(m)
        m.configure_pool(pool=pool, n_pool=n_pool_arg)
        allow = bool(m.allow_vectorised)
        x = numpy_array_to_live_points(np.array([[0.5, 0.25], [-1.0, 2.0], [3.0, -3.5]]), m.names)
        np.random.seed(12345)
        st0 = np.random.get_state()[1].copy(), np.random.get_state()[2]
        m.batch_evaluate_log_likelihood(x)
        st1 = np.random.get_state()[1].copy(), np.random.get_state()[2]
    consumed = not (np.array_equal(st0[0], st1[0]) and st0[1] == st1[1])
    c = m._vectorised_likelihood
    line = (f"allow={int(allow)} npool={_opt(seen['n_pool'])} pool={int(seen['pool'])} points={points[0]} "
            f"vec={int(seen['vec'])} cached={'none' if c is None else int(bool(c))}")
    return line, consumed, points[0]


def probe_correspondence(ctx):
    lines, impls, cases = [], [], []
    opts = [None, 0, 1, 2, 4]
    for allow0, user_pool, cached, is_vec in itertools.product([True, False], [False, True], [None, False, True], [True, False]):
        for detected in (opts if user_pool else [None]):
            for n_pool_arg in opts:
                case = dict(layer="probe", allow0=allow0, user_pool=user_pool, detected=detected, n_pool=n_pool_arg,
                            cached=cached, is_vec=is_vec)
                try:
                    line, consumed, pts = probe_real(allow0, user_pool, detected, n_pool_arg, cached, is_vec)
                except Exception as e:  # noqa
                    line, consumed, pts = "err=" + type(e).__name__, False, 0
                if (pts > 0) != consumed:
                    ctx.disagree("probe: the seeded NumPy generator advanced although no prior point was drawn (or vice versa)",
                                 {**case, "impl": line, "rng_advanced": consumed})
                lines.append(f"tab probe {int(allow0)} {int(user_pool)} {_opt(detected)} {_opt(n_pool_arg)} "
                             f"{'none' if cached is None else int(cached)} {int(is_vec)}")
                impls.append(line)
                cases.append(case)
                ctx.case(("probe", repr(case)), True, case, kind="probe:" + ("drawn" if pts else "skipped"))
    ctx.diff_model(lines, impls, cases, what="probe model != Model.configure_pool / batch_evaluate_log_likelihood")


# ================================================================================================ configure_random_seed
def seed_correspondence(ctx):
    """real BaseNestedSampler.configure_random_seed on edge seeds under two different ambient generator states:
    oracle (an integer seed is kept and fully determines both generators) + tie of the generated guard"""
    import types
    import torch
    from nessai.samplers.base import BaseNestedSampler
    seeds = [None, 0, 1, 2, 2 ** 31 - 1, 2 ** 31, 2 ** 32 - 2] + [ctx.rng.randrange(3, 2 ** 32 - 2) for _ in range(5)]
    lines, impls, cases = [], [], []
    for seed in seeds:
        obs = []
        for _ in range(2):
            amb = ctx.rng.getrandbits(31)
            np.random.seed(amb)
            torch.manual_seed(amb)
            stub = types.SimpleNamespace()
            try:
                BaseNestedSampler.configure_random_seed(stub, seed)
            except Exception as e:  # noqa
                obs.append(("err", type(e).__name__, "", amb))
                continue
            obs.append((stub.seed, np.random.get_state()[1].tobytes() + bytes([np.random.get_state()[2] % 256]),
                        torch.get_rng_state().numpy().tobytes(), amb))
        case = dict(layer="configure_random_seed", seed=seed, ambient=[o[3] for o in obs])
        replaced = seed is None or any(o[0] != seed for o in obs)
        if seed is not None:
            key = f"BaseNestedSampler.configure_random_seed.seed={seed if seed in (0, 1, 2 ** 32 - 2) else 'int'}"
            if any(o[0] == "err" for o in obs):
                ctx.oracle_fail(key, f"configure_random_seed({seed}) raised {obs}", case)
            elif any(o[0] != seed for o in obs):
                ctx.oracle_fail(key, f"configure_random_seed({seed}) did not keep the user's seed: self.seed = {[o[0] for o in obs]} "
                                "(drawn from the ambient generator state) — two runs with this seed are not reproducible", case)
            else:
                np.random.seed(seed)
                torch.manual_seed(seed)
                want = (np.random.get_state()[1].tobytes() + bytes([np.random.get_state()[2] % 256]),
                        torch.get_rng_state().numpy().tobytes())
                for o in obs:
                    if (o[1], o[2]) != want:
                        which = [n for n, a, b in (("numpy", o[1], want[0]), ("torch", o[2], want[1])) if a != b]
                        ctx.oracle_fail(key, f"after configure_random_seed({seed}) the {which} global generator is not in the state "
                                        "determined by the seed (depends on the ambient state)", case)
                        break
        lines.append(f"tab seedguard {'none' if seed is None else seed}")
        impls.append("1" if replaced else "0")
        cases.append(case)
        ctx.case(("seed", seed), True, case, kind="configure_random_seed:" + ("None" if seed is None else "int"))
    ctx.diff_model(lines, impls, cases, what="generated seed guard != real configure_random_seed")


# ================================================================================================ digest runs (oracle)
def group_tag(base):
    tag = base["sampler"] + ("" if base.get("flows", "fake") == "fake" else "-realflows") + ":" + base["model"]
    if "poolsize" in base:
        tag += f".poolsize={base['poolsize']}"
    if base.get("latent_prior"):
        tag += "." + base["latent_prior"]
    if base.get("name"):
        tag += "." + base["name"]
    if base.get("edge"):
        tag += f".seed={base['seed']}"
    return tag


def differs(a, b):
    return [f for f in runs.FIELDS if a.get(f) != b.get(f)]


def setting_name(over):
    names = []
    p = over.get("pool", "none")
    if p == "n_pool":
        names.append("n_pool")
    elif p != "none":
        names.append("user-pool")
    if over.get("chunk") is not None:
        names.append("likelihood_chunksize")
    if over.get("parallelise_prior"):
        names.append("parallelise_prior")
    return "+".join(names) or "none"


def variants(level, rng):
    """settings that must not change anything; level: quick | thorough"""
    if level == "quick":
        return [
            dict(pool="n_pool", n_pool=2),
            dict(pool="user", n_pool=2),
            dict(chunk=1),
            dict(chunk=7),
            dict(chunk=10 ** 6),
            dict(pool="n_pool", n_pool=3, parallelise_prior=True),
            dict(pool="user", n_pool=rng.choice([3, 4]), chunk=rng.choice([1, 7, 33]), parallelise_prior=rng.random() < 0.5),
            dict(pool="user_sizeless_npool", n_pool=2),
            dict(pool="n_pool", n_pool=1, chunk=10 ** 6),
        ]
    out = [dict(chunk=c) for c in (1, 7, 50, 10 ** 6)]
    for n in (1, 2, 3, 4):
        for kind in ("n_pool", "user"):
            for chunk in (None, 1, 7, 50, 10 ** 6):
                for pp in (False, True):
                    out.append(dict(pool=kind, n_pool=n, chunk=chunk, parallelise_prior=pp))
        out.append(dict(pool="user_sizeless_npool", n_pool=n))
    return out


def base_cfgs(level, ctx):
    seeds = [ctx.rng.randrange(1, 2 ** 31) for _ in range(1 if level == "quick" else 3)]
    cfgs = []
    for seed in seeds:
        cfgs.append(dict(sampler="ns", model="vec", seed=seed))
        cfgs.append(dict(sampler="ins", model="vec", seed=seed, flows="fake"))
    cfgs.append(dict(sampler="ns", model="scalar", seed=seeds[0], max_iteration=120))
    # reparameterisations declared on the model (per parameter); the same configuration objects serve every run of a process
    cfgs.append(dict(sampler="ns", model="vecr", seed=seeds[0], max_iteration=120, edge=True, flowcfg="odd", name="odd-blocks"))
    cfgs.append(dict(sampler="ns", model="vec", seed=seeds[0], max_iteration=120, edge=True, flowcfg="old", name="old-style-config"))
    cfgs.append(dict(sampler="ins", model="vec", seed=seeds[-1], flows="real"))
    if level != "quick":
        cfgs.append(dict(sampler="ins", model="scalar", seed=seeds[0], flows="fake"))
        # algorithmic defaults that must not be derived from a parallelisation setting (pool size left to the sampler: seeded
        # change C14-fC) and the latent priors with their own sampling routines (n-ball: seeded change C14-fB)
        cfgs.append(dict(sampler="ns", model="vec", seed=seeds[0], poolsize=None, max_iteration=150))
        cfgs.append(dict(sampler="ns", model="vec", seed=seeds[-1], latent_prior="uniform_nball", max_iteration=150))
        cfgs.append(dict(sampler="ns", model="vec", seed=seeds[0], max_iteration=150, name="augmented-marginalised",
                         extra=dict(flow_proposal_class="AugmentedFlowProposal", marginalise_augment=True)))
    # edge seeds: every integer is a legal seed, 0 included (a falsy value!), up to the largest NumPy accepts
    for seed in EDGE_SEEDS:
        cfgs.append(dict(sampler="ns", model="vec", seed=seed, max_iteration=120, edge=True))
        cfgs.append(dict(sampler="ins", model="vec", seed=seed, flows="fake", edge=True))
    return cfgs


def digest_matrix(ctx, level, t):
    jobs = []      # (group index, role, cfg)
    bases = base_cfgs(level, ctx)
    fresh = []
    def amb(cfg):
        # a different ambient generator state for every compared run (what separate processes have)
        return {**cfg, "ambient": ctx.rng.getrandbits(31)}

    for gi, base in enumerate(bases):
        light = base["model"] == "scalar" or base.get("flows") == "real"
        edge = base.get("edge", False)
        jobs.append((gi, "base", amb(base)))
        jobs.append((gi, "again", amb(base)))
        jobs.append((gi, "twice-fresh-model", amb({**base, "repeat": 2})))
        if gi in (0, 1):
            other = dict(sampler="ins", model="vec", seed=base["seed"] + 1, flows="fake") if base["sampler"] == "ns" else \
                dict(sampler="ns", model="vec", seed=base["seed"] + 1, max_iteration=120)
            jobs.append((gi, "after-another-run", amb({**base, "prelude": other})))
        if edge:
            if base["seed"] == 0:
                fresh.append((gi, 7, runs.start_fresh_interpreter(amb(base), 7)))
            continue
        if gi == 0:
            # OUTSIDE the property's domain (the property compares equal model definitions, i.e. fresh instances, as a
            # second process necessarily has): one Model *instance* reused for a second in-process run.  Observed and
            # recorded in the evidence only; never routed to the oracle.
            jobs.append((gi, "observe-reused-instance", amb({**base, "repeat": 2, "reuse_model": True})))
        jobs.append((gi, "unknown-size-pool", amb({**base, "pool": "user_sizeless", "n_pool": 2})))
        if not light or level != "quick":
            jobs.append((gi, "traced", amb({**base, "trace": True, "pool": "n_pool", "n_pool": 2})))
        vs = variants(level, ctx.rng)
        if light:
            vs = ctx.rng.sample(vs, 3 if level == "quick" else 12)
        for v in vs:
            jobs.append((gi, "variant", amb({**base, **v})))
        if (level == "quick" and gi < 2) or (level != "quick" and gi < 4):
            for hs in (1, 4242):
                fresh.append((gi, hs, runs.start_fresh_interpreter(amb(base), hs)))
    res = runs.run_many([j[2] for j in jobs], jobs=min(6, max(2, (os.cpu_count() or 2) // 2)))
    by_group = {}
    for (gi, role, cfg), r in zip(jobs, res):
        by_group.setdefault(gi, []).append((role, cfg, r))
    static_rng_keys = {(s["file"], s["func"], s["line"], s["call"].split(".")[-1]) for s in t["sites"]} if t else set()
    static_reads = {(r["file"], r["func"], r["line"], r["setting"]) for r in t["reads"]} if t else set()
    for gi, base in enumerate(bases):
        tag = group_tag(base)
        entries = by_group[gi]
        b = entries[0][2]
        if b[0] != "ok":
            # a seeded run of a supported configuration that raises: nothing to compare, and not a harness problem
            ctx.oracle_fail(f"seeded-run.raised.{tag}", f"the base run of this configuration raised: {str(b[1])[-400:]}", dict(base=base))
            continue
        b = b[1]
        ctx.traces += 1
        for role, cfg, r in entries[1:]:
            case = dict(base=base, run=cfg, role=role, base_digest=b)
            if r[0] != "ok":
                if role in ("unknown-size-pool", "observe-reused-instance"):
                    ctx.case(("run", tag, role, "err"), True, None, kind="run-error:" + role)
                    continue
                if role in ("again", "twice-fresh-model", "after-another-run"):
                    ctx.oracle_fail(f"seeded-run.same-config.{role}.raised.{tag}",
                                    "a repeat of the base run (same seed, same model definition, the same configuration objects) "
                                    f"raised: {r[1][:300]}", case)
                    continue
                ctx.oracle_fail(f"run-fails.{role}.{setting_name(cfg)}.{tag}",
                                f"run raised with a supported parallelisation setting: {r[1][:300]}", case)
                continue
            d = r[1]
            if role == "again":
                df = differs(b, d)
                if df:
                    ctx.oracle_fail(f"seeded-run.same-config.two-processes.{tag}",
                                    f"two runs with identical seed/model/configuration in two processes differ in {df}",
                                    {**case, "digest": d})
            elif role == "after-another-run":
                df = differs(b, d)
                if df:
                    ctx.oracle_fail(f"seeded-run.same-config.after-another-run.{tag}",
                                    f"the same seeded run differs in {df} when another run (the other sampler) was made before it in "
                                    "the same process", {**case, "digest": d})
            elif role == "twice-fresh-model":
                for k, dd in enumerate(d["seq"]):
                    df = differs(b, dd)
                    if df:
                        ctx.oracle_fail(f"seeded-run.same-config.same-process.{tag}",
                                        f"run {k + 1} of two same-seed runs in one process (fresh Model instance each) differs from "
                                        f"the run in another process in {df}", {**case, "digest": dd})
            elif role == "observe-reused-instance":
                d1, d2 = d["seq"]
                ctx.extra["observed_outside_domain"] = dict(
                    what="second same-seed run re-using ONE Model instance (cached vectorisation-probe flags skip their seeded "
                         "draws; Model.likelihood_evaluations is cumulative) — not quantified over by the property, not an oracle",
                    sampler=tag, seed=base["seed"], second_run_differs_in=differs(d1, d2),
                    evaluations=[d1["likelihood_evaluations"], d2["likelihood_evaluations"]])
                continue
            elif role == "unknown-size-pool":
                df = differs(b, d)
                if df:
                    ctx.oracle_fail(KNOWN_SIZELESS, f"a user pool whose size nessai cannot determine changes {df} "
                                    "(configure_pool disables vectorisation, the probe's ten prior points are not drawn)",
                                    {**case, "digest": d})
            elif role == "traced":
                df = differs(b, d)
                if df:
                    ctx.oracle_fail(f"pool-settings.{setting_name(cfg)}.{tag}",
                                    f"changing only the parallelisation settings changed {df}", {**case, "digest": d})
                if t:
                    for file, func, line, name in d["rng_calls"]:
                        if (file, func, line, name.split(".")[-1]) not in static_rng_keys:
                            ctx.disagree("translator: RNG call observed at run time is not a row of the generated table",
                                         dict(file=file, func=func, line=line, call=name, run=cfg))
                    for file, func, line, name in d["setting_reads"]:
                        if (file, func, line, name) not in static_reads:
                            ctx.disagree("translator: read of a parallelisation setting observed at run time is not a row of the "
                                         "generated table", dict(file=file, func=func, line=line, setting=name, run=cfg))
                    # call order: whatever draws before the sampler seeds must be an admitted pre-seed step of the chain table
                    chain = t["chains"]["standard" if base["sampler"] == "ns" else "importance"]
                    pre = []
                    for st in chain:
                        if st["seeds"]:
                            break
                        if st["draws"]:
                            pre.append(st["call"].split(".")[-1])
                    seen_seed = False
                    for file, func, name in d.get("rng_order", []):
                        if name in ("numpy.random.seed", "torch.manual_seed") and func.endswith("configure_random_seed"):
                            seen_seed = True
                            break
                        if func.split(".")[-1] not in pre:
                            ctx.disagree("translator: a random draw observed BEFORE configure_random_seed is not a pre-seed drawing "
                                         "step of the constructor-chain table", dict(file=file, func=func, call=name, table=pre, run=cfg))
                    if not seen_seed:
                        ctx.disagree("tracer never saw configure_random_seed seed the generators", dict(run=cfg))
                    ctx.extra.setdefault("dynamic_sites", {})[tag] = dict(rng=len(d["rng_calls"]), reads=len(d["setting_reads"]))
            else:
                df = differs(b, d)
                if df:
                    ctx.oracle_fail(f"pool-settings.{setting_name(cfg)}.{tag}",
                                    f"changing only the parallelisation settings changed {df}", {**case, "digest": d})
            key = ("run", tag, base["seed"], role, json.dumps({k: v for k, v in cfg.items() if k not in base and k != "ambient"}, sort_keys=True))
            ctx.case(key, True, dict(sampler=tag, seed=base["seed"], role=role,
                                     settings={k: v for k, v in cfg.items() if k not in base and k != "ambient"},
                                     nested_samples=b["n"], evaluations=b["likelihood_evaluations"]),
                     kind=f"run:{tag}:{role if role != 'variant' else setting_name(cfg)}")
    for gi, hs, proc in fresh:
        base = bases[gi]
        tag = group_tag(base)
        r = runs.finish_fresh_interpreter(proc)
        b = by_group[gi][0][2][1]
        case = dict(base=base, role="fresh-interpreter", PYTHONHASHSEED=hs, base_digest=b)
        if r[0] != "ok":
            ctx.oracle_fail(f"seeded-run.raised.fresh-interpreter.{tag}", f"the run in a fresh interpreter raised: {str(r[1])[-400:]}", case)
            continue
        df = differs(b, r[1])
        if df:
            ctx.oracle_fail(f"seeded-run.same-config.fresh-interpreter.{tag}",
                            f"the same seeded run in a new interpreter (PYTHONHASHSEED={hs}) differs in {df}", {**case, "digest": r[1]})
        ctx.case(("fresh", tag, base["seed"], hs), True, None, kind=f"run:{tag}:fresh-interpreter")


# ================================================================================================ entry points
def correspond(ctx):
    import torch
    torch.set_num_threads(1)
    import nessai.flowsampler  # noqa  (imported before forking: children start warm)
    from nessai.samplers.importancesampler import ImportanceNestedSampler  # noqa
    ctx.rule = ("(a) every row of the regenerated tables classified by the compiled allow-lists + control rows; (b) full grid "
                "allow_vectorised x user pool x detected size {none,0,1,2,4} x n_pool {none,0,1,2,4} x cache {none,F,T} x "
                "{vectorised, pointwise likelihood} on the real Model.configure_pool + batch_evaluate_log_likelihood vs the probe "
                "model; (c) complete seeded runs of FlowSampler (standard sampler with a real flow; importance sampler with exact "
                "tilt flows and with real flows) each in its own process, compared by sha256 digests: same configuration twice "
                "(two fork children, same process twice, fresh interpreters with different PYTHONHASHSEED), and parallelisation "
                "settings n_pool 1..4 / user fork pools / chunk sizes 1..10^6 / parallel prior; non-trivial = distinct row, grid "
                "point or (sampler, seed, settings) run")
    ctx.assume("Pool.map preserves order (multiprocessing contract; the table theorem shows no other pool API is used)",
               "likelihood/prior of the runs are built from exactly rounded operations (batch == pointwise bit for bit)",
               "third-party `.sample…` methods draw from the default torch generator",
               "one torch thread; fork start method; every run starts from its own scrambled ambient generator state")
    ctx.trust("translator harness/c14_tables.py (Python ast) — cross-checked against call sites observed while tracing real runs",
              "hand-written allow-lists and probe model in Model/Tables.lean; digests: sha256 over the raw bytes of every field")
    t = GEN["tables"]
    if t:
        classify_tables(ctx, t)
    probe_correspondence(ctx)
    seed_correspondence(ctx)
    level = "quick" if ctx.quick else "thorough"
    digest_matrix(ctx, level, t)
    ctx.extra["digest_matrix"] = level


def search(ctx):
    """a table theorem or the tie broke and the tier's own runs found no failing input: run the full matrix"""
    if ctx.extra.get("digest_matrix") == "thorough":
        return
    digest_matrix(ctx, "thorough", GEN["tables"])
    ctx.extra["digest_matrix"] = "thorough (search)"


def replay(ctx, obj):
    import torch
    torch.set_num_threads(1)
    import nessai.flowsampler  # noqa
    c = obj["case"]
    if "base" not in c or "run" not in c and c.get("role") != "fresh-interpreter":
        correspond(ctx)
        return
    base = c["base"]
    b = runs.run_forked(base)
    if b[0] != "ok":
        raise core.Infra("replay: base run failed: " + b[1])
    if c.get("role") == "fresh-interpreter":
        r = runs.finish_fresh_interpreter(runs.start_fresh_interpreter(base, c.get("PYTHONHASHSEED", 1)))
    else:
        r = runs.run_forked(c["run"])
    if r[0] != "ok":
        ctx.oracle_fail(obj["key"], "run raised: " + r[1][:300], c)
    else:
        d = r[1]
        seq = d.get("seq")
        if seq:
            pairs = [(b[1], seq[0]), (seq[0], seq[1])]
        else:
            pairs = [(b[1], d)]
        for x, y in pairs:
            df = differs(x, y)
            if df:
                ctx.oracle_fail(obj["key"], f"runs differ in {df}", {**c, "replayed": [x, y]})
    ctx.case(repr(c)[:200], True, c)
