import NessaiVerif.Model.Np
/-
C16 — model of `nessai.posterior.draw_posterior_samples`,
`nessai.utils.stats.effective_sample_size` and
`_BaseNSIntegralState.effective_n_posterior_samples`.

The code works with log-weights in float64; the model works with the weights
themselves (`w = exp(log_w)`, so `-inf ↦ 0`) in an exact field `K`
(`Rat` in the driver, any linearly ordered field in the theorems):

  code                                               model
  `log_w - np.max(log_w) > np.log(u)`                `u < w / lmax w`           (strict; `u = 0`: kept iff `w > 0`)
  `np.exp(log_w - logsumexp(log_w))`                 `probs w = w.map (· / Σw)`
  `RandomState.choice(N, size=n, p=p)`               `cdf = cumsum p; cdf /= cdf[-1];`
                                                     `cdf.searchsorted(random_sample(n), 'right')`
  `np.exp(-logsumexp(2 * (log_w - logsumexp(log_w))))`   `1 / Σ pᵢ²`
  `int(ess)`                                         `Rat.floor` (the ESS is positive)

External randomness is an input: `u` are the uniform draws (`np.random.rand`
for rejection sampling, `random_sample` inside `choice` for multinomial
resampling).
-/
namespace NessaiVerif.Resample
open NessaiVerif.Np

variable {K : Type} {α : Type}

/-- `np.sum` -/
def lsum [Add K] [OfNat K 0] : List K → K
  | [] => 0
  | x :: xs => x + lsum xs

/-- `np.max` of the weights in the linear domain.  The identity of `max` over
log-weights is `-inf`, i.e. the weight `0` (weights are never negative). -/
def lmax [LT K] [DecidableLT K] [OfNat K 0] : List K → K
  | [] => 0
  | x :: xs => let m := lmax xs; if x < m then m else x

/-- one acceptance test of rejection sampling: `log_w[i] - max(log_w) > log(u[i])` -/
def keep [LT K] [DecidableLT K] [Div K] (wm wi ui : K) : Bool := decide (ui < wi / wm)

/-- `np.where(log_w - max > log_u)[0]` with the position counter explicit -/
def rejGo [LT K] [DecidableLT K] [Div K] (wm : K) : Nat → List K → List K → List Nat
  | _, [], _ => []
  | _, _ :: _, [] => []
  | k, w :: ws, u :: us =>
    if keep wm w u then k :: rejGo wm (k + 1) ws us else rejGo wm (k + 1) ws us

/-- indices accepted by rejection sampling (ascending, as `np.where` returns them) -/
def rejectionIndices [LT K] [DecidableLT K] [Div K] [OfNat K 0] (w u : List K) : List Nat :=
  rejGo (lmax w) 0 w u

/-- the nested samples filtered by the acceptance mask (no indices involved) -/
def rejMask [LT K] [DecidableLT K] [Div K] (wm : K) : List K → List K → List α → List α
  | w :: ws, u :: us, x :: xs =>
    if keep wm w u then x :: rejMask wm ws us xs else rejMask wm ws us xs
  | _, _, _ => []

/-- fancy indexing `nested_samples[indices]` (all indices in range; NumPy raises otherwise) -/
def takeIdx (xs : List α) (idx : List Nat) : List α :=
  let a := xs.toArray
  idx.filterMap (fun i => a[i]?)

/-- `np.exp(log_w - logsumexp(log_w))` -/
def probs [Add K] [Div K] [OfNat K 0] (w : List K) : List K :=
  let s := lsum w
  w.map (fun x => x / s)

/-- what legacy `RandomState.choice(p=p)` searches in: `cdf = p.cumsum(); cdf /= cdf[-1]` -/
def cdfOfProbs [Add K] [Div K] [OfNat K 0] (p : List K) : List K :=
  let c := cumsum p 0
  let t := c.getLastD 0
  c.map (fun x => x / t)

def cdf [Add K] [Div K] [OfNat K 0] (w : List K) : List K := cdfOfProbs (probs w)

/-- one multinomial draw: `cdf.searchsorted(u, side='right')` -/
def multIndex [Add K] [Div K] [OfNat K 0] [LE K] [DecidableLE K] (w : List K) (u : K) : Nat :=
  ssr (cdf w) u

/-- `np.random.choice(N, size=n, p=probs, replace=True)` fed the uniforms `us` -/
def multinomialIndices [Add K] [Div K] [OfNat K 0] [LE K] [DecidableLE K]
    (w : List K) (n : Nat) (us : List K) : List Nat :=
  let c := cdf w
  (us.take n).map (fun u => ssr c u)

/-- `np.where(a > b)[0]` for two arrays (position counter explicit): targets of the definitions GENERATED from the source
(`Gen/ResampleTx.lean`, harness/pylogvec2lean.py) -/
def whereGtGo [LT K] [DecidableLT K] : Nat → List K → List K → List Nat
  | _, [], _ => []
  | _, _ :: _, [] => []
  | k, a :: as, b :: bs => if b < a then k :: whereGtGo (k + 1) as bs else whereGtGo (k + 1) as bs

def whereGt [LT K] [DecidableLT K] (a b : List K) : List Nat := whereGtGo 0 a b

/-- `np.random.choice(N, size=n, p=p, replace=True)` fed the uniforms `us` (legacy `RandomState.choice`) -/
def choiceIdx [Add K] [Div K] [OfNat K 0] [LE K] [DecidableLE K] (p : List K) (n : Nat) (us : List K) : List Nat :=
  let c := cdfOfProbs p
  (us.take n).map (fun u => ssr c u)

/-- `effective_sample_size`: `exp(-logsumexp(2 * (log_w - logsumexp(log_w))))` = `1 / Σ pᵢ²` -/
def ess [Add K] [Mul K] [Div K] [OfNat K 0] [OfNat K 1] (w : List K) : K :=
  1 / lsum ((probs w).map (fun p => p * p))

/-- `_BaseNSIntegralState.effective_n_posterior_samples`: 0 for no weights, else the same formula -/
def effectiveN [Add K] [Mul K] [Div K] [OfNat K 0] [OfNat K 1] (w : List K) : K :=
  if w.isEmpty then 0 else ess w

/-- the default number of multinomial draws, `int(ess)` -/
def defaultN (w : List Rat) : Nat := (ess w).floor.toNat

inductive Method | rejection | multinomial
deriving Repr, DecidableEq

/-- the `method` strings `draw_posterior_samples` accepts -/
def methodOf (s : String) : Option Method :=
  if s == "rejection_sampling" then some .rejection
  else if s == "importance_sampling" || s == "multinomial_resampling" then some .multinomial
  else none

inductive Err | valueErr
deriving Repr, DecidableEq

/-- `draw_posterior_samples(nested, log_w=…, n=…, method=…, return_indices=True)`.
Domain of the model: `len(log_w) == nested.size` (anything else is reported as an error;
NumPy broadcasting of length-1 arrays is not modelled).  An empty input and all-zero
weights with multinomial resampling raise in the code (`np.max` of an empty array,
`int(nan)`, NaN probabilities).  `n` is ignored by rejection sampling. -/
def drawPosterior (method : String) (n : Option Nat) (nested : List α) (w u : List Rat) :
    Except Err (List Nat × List α) :=
  match methodOf method with
  | none => .error .valueErr
  | some m =>
    if nested.length = 0 ∨ w.length ≠ nested.length then .error .valueErr
    else match m with
      | .rejection =>
        if u.length < nested.length then .error .valueErr
        else
          let idx := rejectionIndices w u
          .ok (idx, takeIdx nested idx)
      | .multinomial =>
        if lsum w = 0 then .error .valueErr
        else
          let k := n.getD (defaultN w)
          if u.length < k then .error .valueErr
          else
            let idx := multinomialIndices w k u
            .ok (idx, takeIdx nested idx)

end NessaiVerif.Resample
