import NessaiVerif.Model.Np
/-
Python / NumPy indexing semantics for one-dimensional arrays (lists), used by the definitions that
`harness/pyarr2lean.py` GENERATES from the nessai sources (`Gen/LiveSetTx.lean`, …).  Core Lean only.
Validated against NumPy itself on every run (`harness/np_prims.py`, protocol area `pyslice`).

  `a[i]`            `getItem`   negative indices count from the end; out of range → IndexError
  `a[i] = x`        `setItem`
  `a[s:e]`          `getSlice`  bounds: `None` ↦ default, negative += len, then clipped to [0, len]
  `a[s:e] = v`      `setSlice`  NumPy array semantics: `len v` must equal the slice length, or be 1
                                (broadcast); anything else → ValueError("could not broadcast")
-/
namespace NessaiVerif.Py

inductive Err where
  | index      -- IndexError
  | value      -- ValueError (shape mismatch in a slice assignment)
  | type       -- TypeError
deriving DecidableEq, Repr

variable {α : Type}

/-- a slice bound `b` for a sequence of length `n`: negative bounds are taken from the end, then clipped -/
def normBound (n : Nat) (b : Int) : Nat :=
  if b < 0 then (b + (n : Int)).toNat else min b.toNat n

/-- `(start, stop)` positions of `[s:e]` on a sequence of length `n` (step 1); empty when `stop ≤ start` -/
def sliceRange (n : Nat) (s e : Option Int) : Nat × Nat :=
  let a := match s with
    | none => 0
    | some b => normBound n b
  let b := match e with
    | none => n
    | some b => normBound n b
  (a, max a b)

/-- `a[s:e]` -/
def getSlice (l : List α) (s e : Option Int) : List α :=
  let r := sliceRange l.length s e
  (l.take r.2).drop r.1

/-- `a[s:e] = v` (NumPy array, not Python list: the length never changes) -/
def setSlice (l : List α) (s e : Option Int) (v : List α) : Except Err (List α) :=
  let r := sliceRange l.length s e
  let k := r.2 - r.1
  if v.length = k then .ok (l.take r.1 ++ v ++ l.drop r.2)
  else match v with
    | [x] => .ok (l.take r.1 ++ List.replicate k x ++ l.drop r.2)
    | _ => .error .value

/-- position of index `i` in a sequence of length `n` -/
def normIndex (n : Nat) (i : Int) : Option Nat :=
  if 0 ≤ i then (if i.toNat < n then some i.toNat else none)
  else if 0 ≤ i + (n : Int) then some (i + (n : Int)).toNat else none

/-- `a[i]` -/
def getItem (l : List α) (i : Int) : Except Err α :=
  match normIndex l.length i with
  | none => .error .index
  | some k => match l[k]? with
    | some x => .ok x
    | none => .error .index

/-- `a[i] = x` -/
def setItem (l : List α) (i : Int) (x : α) : Except Err (List α) :=
  match normIndex l.length i with
  | none => .error .index
  | some k => .ok (l.set k x)

end NessaiVerif.Py
