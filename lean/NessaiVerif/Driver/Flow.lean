import NessaiVerif.Model.FlowAlgebra
import NessaiVerif.Driver.Parse
/-
Line protocol of the flow area (C08).  The primitives read from the real torch / numpy objects at ONE point
(base log-density, transform log|det|, rescaling log-Jacobian, alternative latent log-density) arrive as exact
rationals of the float64 values; the answer is what the wrapper of `Model/FlowAlgebra.lean` returns, as an exact
rational.  Points themselves are abstract (`Unit`; for `fm_slp` the latent type is `Bool`: `false` = the noise the
flow draws itself, `true` = the supplied `z`).

  flow nflow_lp  b ld                      NFlow.log_prob
  flow nflow_flp b ld                      NFlow.forward_and_log_prob (log-density)
  flow nflow_slp b ldi                     NFlow.sample_and_log_prob  (log-density)
  flow fm_slp <hasz> <alt|none> bNoise bZ ldiNoise ldiZ      FlowModel.sample_and_log_prob
  flow fp_fwd <rescale> b ld jr            FlowProposal.forward_pass
  flow fp_bwd <rescale> <alt|none> b ldi jri                 FlowProposal.backward_pass
  flow ifp_row j [b:ld,…]                  ImportanceFlowProposal.compute_meta_proposal_samples (log_q row)
  flow ifp_upd level j [b:ld,…] [q,…]      ImportanceFlowProposal.update_log_q
  flow ifp_draw i jcheck [b:ld,…]          ImportanceFlowProposal.draw (log_q row)
-/
namespace NessaiVerif.Driver.Flow
open NessaiVerif NessaiVerif.Parse NessaiVerif.Flow

/-- a flow at one abstract point: forward gives log|det| `ld`, inverse gives `ldi`, base density `b` -/
def pointFlow (b ld ldi : Rat) : NFlowM Unit Unit Rat :=
  ⟨⟨fun _ => ((), ld), fun _ => ((), ldi)⟩, fun _ => b⟩

def pointR (jr jri : Rat) : Transform Unit Unit Rat := ⟨fun _ => ((), jr), fun _ => ((), jri)⟩

def parsePair? (s : String) : Option (Rat × Rat) :=
  match s.splitOn ":" with
  | [a, b] => do
      let a ← parseRat? a
      let b ← parseRat? b
      some (a, b)
  | _ => none

def flowsOf (ps : List (Rat × Rat)) : List (NFlowM Unit Unit Rat) := ps.map fun p => pointFlow p.1 p.2 0

def handle (toks : List String) : String :=
  match toks with
  | ["nflow_lp", b, ld] =>
    match parseRat? b, parseRat? ld with
    | some b, some ld => showRat ((pointFlow b ld 0).logProb ())
    | _, _ => "bad-op"
  | ["nflow_flp", b, ld] =>
    match parseRat? b, parseRat? ld with
    | some b, some ld => showRat ((pointFlow b ld 0).forwardAndLogProb ()).2
    | _, _ => "bad-op"
  | ["nflow_slp", b, ldi] =>
    match parseRat? b, parseRat? ldi with
    | some b, some ldi => showRat ((pointFlow b 0 ldi).sampleAndLogProb ()).2
    | _, _ => "bad-op"
  | ["fm_slp", hz, alt, bn, bz, ln, lz] =>
    match parseBool? hz, parseOpt? parseRat? alt, parseRat? bn, parseRat? bz, parseRat? ln, parseRat? lz with
    | some hz, some alt, some bn, some bz, some ln, some lz =>
      let f : NFlowM Unit Bool Rat :=
        ⟨⟨fun _ => (false, 0), fun z => ((), if z then lz else ln)⟩, fun z => if z then bz else bn⟩
      showRat (fmSampleAndLogProb f false (if hz then some true else none) (alt.map fun a => fun _ => a)).2
    | _, _, _, _, _, _ => "bad-op"
  | ["fp_fwd", rs, b, ld, jr] =>
    match parseBool? rs, parseRat? b, parseRat? ld, parseRat? jr with
    | some rs, some b, some ld, some jr => showRat (fpForwardPass (pointFlow b ld 0) (pointR jr 0) rs ()).2
    | _, _, _, _ => "bad-op"
  | ["fp_bwd", rs, alt, b, ldi, jri] =>
    match parseBool? rs, parseOpt? parseRat? alt, parseRat? b, parseRat? ldi, parseRat? jri with
    | some rs, some alt, some b, some ldi, some jri =>
      showRat (fpBackwardPass (pointFlow b 0 ldi) (pointR 0 jri) (alt.map fun a => fun _ => a) rs ()).2
    | _, _, _, _, _ => "bad-op"
  | ["ifp_row", j, ps] =>
    match parseRat? j, parseList? parsePair? ps with
    | some j, some ps => showList showRat (ifpMetaRow (flowsOf ps) (pointR j 0) ())
    | _, _ => "bad-op"
  | ["ifp_upd", level, j, ps, q] =>
    match parseNat? level, parseRat? j, parseList? parsePair? ps, parseList? parseRat? q with
    | some level, some j, some ps, some q =>
      showOpt (showList showRat) (ifpUpdateLogQ (flowsOf ps) (pointR j 0) level () q)
    | _, _, _, _ => "bad-op"
  | ["ifp_draw", i, j, ps] =>
    match parseNat? i, parseRat? j, parseList? parsePair? ps with
    | some i, some j, some ps =>
      showOpt (fun p => showList showRat p.2) (ifpDraw (flowsOf ps) (pointR j 0) id i ())
    | _, _, _ => "bad-op"
  | _ => "bad-op"

end NessaiVerif.Driver.Flow
