"""C17 — INS level thresholds honour min_samples, min_remove and max_samples."""
import contextlib
import json
import logging
import math
import tempfile
import time
import types
from fractions import Fraction
from pathlib import Path
from unittest import mock

import numpy as np

from . import core
from . import py2lean
from .py2lean import Spec, TranslationError

PROPS_MODULE = "NessaiVerif.Props.C17"
MANIFEST = dict(
    text="Lean theorems about the clamp section of ImportanceNestedSampler.determine_log_likelihood_threshold and the "
         "n_train expression of add_new_proposal, both TRANSLATED from the current nessai source into Lean on every run "
         "(harness/py2lean.py -> Gen/Threshold.lean), for all sizes, raw indices and parameter values with min_samples, "
         "min_remove >= 1: the index is a valid position (needs min_remove < size and nlive < max_samples, which the code "
         "does not enforce: counter-examples proved), the threshold is a live sample, exactly min_samples positions are kept "
         "when the method's choice would leave fewer, otherwise the index is >= min_remove, constant draws + cap give next "
         "level <= max_samples, the training slice has >= min_samples elements; index -> count of removed samples on sorted "
         "lists with distinct likelihoods at the cut; the weighted quantile (Harrell-Davis) is a convex combination of the "
         "data, within the data range, and monotone in q under stochastic monotonicity of the Beta family. The translated "
         "definitions, the hand model of the two raw-index methods, of remove_samples' count and of the quantile sum are run "
         "against the real methods (stand-in sampler object + real OrderedSamples, and real INS runs) on generated live sets. "
         "Tied likelihoods at the cut defeat the count guarantees in the real code (proved counter-example, known finding F5). "
         "The training floor needs min_samples <= size of the training set; n_initial < min_samples is accepted by "
         "check_configuration and then the first proposal is trained on fewer samples (reproduced in a real run, known finding).",
    note="Partial: 'reduces to the ordinary quantile for equal weights' is not shown (Harrell-Davis only approximates it; the "
         "measured deviation is reported). Assumed: SciPy betainc is a CDF, decreasing in q at fixed x; NumPy argmax/cumsum; "
         "float rounding (exact comparison is restricted to integer-valued weights and dyadic q).",
    technique="Lean 4 proof over source-translated definitions + differential correspondence with the real methods",
    ref="5/C17")

SRC = "nessai/samplers/importancesampler.py"
KEY = "determine_log_likelihood_threshold"
TIE_KEY = KEY + ":tied-likelihoods-at-cut"
TRAIN_KEY = "add_new_proposal:train-floor"
NINIT_KEY = "add_new_proposal:n_initial<min_samples:trained-on-fewer-than-min_samples"
WQ_KEY = "weighted_quantile"

CLAMP = Spec(
    source=SRC, cls="ImportanceNestedSampler", func="determine_log_likelihood_threshold", name="clampIndex",
    start="if n == 0:", stop="threshold = samples[n]",
    expect_after=["threshold = samples[n]['logL'].copy()", "return threshold"],
    sig=[("n", "n0", "Int"), ("samples.size", "size", "Int"), ("self.min_samples", "minSamples", "Int"),
         ("self.min_remove", "minRemove", "Int"), ("self.nlive", "nlive", "Int"),
         ("self.max_samples", "maxSamples", "Option Int"), ("self.draw_constant", "drawConstant", "Bool")],
    results=["n"], result_type="Clamp", ret_ctor="Clamp.early", fall_ctor="Clamp.index",
    doc="clamp section of `determine_log_likelihood_threshold`: from the method's own index `n0` to the index used in "
        "`samples[n][\"logL\"]` (or the early integer return)")
NTRAIN = Spec(
    source=SRC, cls="ImportanceNestedSampler", func="add_new_proposal", name="nTrain",
    start="n_train = ",
    expect_after=["self.current_training_samples = self.training_samples.samples[n_train:].copy()",
                  "self.current_training_log_q = self.training_samples.log_q[n_train:, :].copy()"],
    sig=[("self.training_samples.samples.size", "size", "Int"), ("self.min_samples", "minSamples", "Int")],
    opaque_calls={"np.argmax": ("k", "Int")},
    results=["n_train"], result_type="Int",
    doc="`n_train` of `add_new_proposal`; `k` stands for `np.argmax(training logL >= threshold)`")
TXSPEC = Spec(
    source="harness/c17_txcases.py", func="tx_self_test", name="txSelfTest",
    start="r = a", stop="return ('end', k)", expect_after=["return ('end', k)"],
    sig=[("a", "a", "Int"), ("b", "b", "Int"), ("c", "c", "Option Int"), ("flag", "flag", "Bool")],
    results=["k"], result_type="Clamp", ret_ctor="Clamp.early", fall_ctor="Clamp.index",
    doc="translator self-test (harness/c17_txcases.py), compared with the Python function itself")

GEN_OK = {"nessai": True}


# ================================================================================================ gen
def gen(ctx):
    """regenerate Gen/Threshold.lean from core.REPO and Gen/ThresholdTx.lean from the self-test source"""
    items, info = [], {}
    for spec in (CLAMP, NTRAIN):
        try:
            t = py2lean.translate(core.REPO, spec)
            items.append(t)
            info[spec.name] = dict(source=spec.source, lines=[t.first_line, t.last_line], sha256=t.sha256)
        except TranslationError as e:
            GEN_OK["nessai"] = False
            ctx.broken(f"translator: {spec.func} -> {spec.name}: {e}",
                       "the Lean definition could not be regenerated from the current source; the theorems were checked "
                       "against the previously generated definition only")
    gen_dir = core.LEAN / "NessaiVerif" / "Gen"
    if len(items) == 2:
        text = py2lean.render_file("NessaiVerif.Gen.Threshold", ["NessaiVerif.Model.Threshold"], ["NessaiVerif.Threshold"],
                                   items, banner="C17: decision logic of nessai/samplers/importancesampler.py")
        info["rewritten"] = py2lean.write_if_changed(gen_dir / "Threshold.lean", text)
    try:
        t = py2lean.translate(core.VERIF, TXSPEC)
        text = py2lean.render_file("NessaiVerif.Gen.ThresholdTx", ["NessaiVerif.Model.Threshold"], ["NessaiVerif.Threshold"],
                                   [t], banner="C17: translator self-test")
        py2lean.write_if_changed(gen_dir / "ThresholdTx.lean", text)
    except TranslationError as e:
        ctx.broken(f"translator: self-test source no longer translates: {e}")
    ctx.extra["generated"] = info


# ================================================================================================ real code drivers
def _ins():
    from nessai.samplers.importancesampler import ImportanceNestedSampler
    return ImportanceNestedSampler


class _Quiet(contextlib.AbstractContextManager):
    def __enter__(self):
        self.prev = logging.root.manager.disable
        logging.disable(logging.CRITICAL)
        self.np = np.errstate(all="ignore")
        self.np.__enter__()

    def __exit__(self, *a):
        self.np.__exit__(*a)
        logging.disable(self.prev)


def make_stub(cfg, stub_n=None):
    """stand-in sampler carrying exactly what determine_log_likelihood_threshold / add_new_proposal read;
    the two method-specific functions are the REAL ones unless `stub_n` scripts the raw index"""
    INS = _ins()
    s = types.SimpleNamespace(
        plot=False, _plot_level_cdf=False, min_samples=cfg["min_samples"], min_remove=cfg["min_remove"],
        max_samples=cfg["max_samples"], draw_constant=cfg["draw_constant"], nlive=cfg["nlive"])
    if stub_n is None:
        s.determine_threshold_quantile = types.MethodType(INS.determine_threshold_quantile, s)
        s.determine_threshold_entropy = types.MethodType(INS.determine_threshold_entropy, s)
    else:
        s.determine_threshold_quantile = lambda samples, **kw: stub_n
        s.determine_threshold_entropy = lambda samples, **kw: stub_n
    return s


def make_ordered(logL, logW, rng_perm=None):
    """real OrderedSamples holding nessai live points (extra INS fields registered by the caller)"""
    from nessai.livepoint import empty_structured_array
    from nessai.samplers.importancesampler import OrderedSamples
    n = len(logL)
    x = empty_structured_array(n, names=["id", "y"])
    order = np.arange(n) if rng_perm is None else rng_perm
    x["id"] = np.arange(n, dtype=float)
    x["y"] = 0.5
    x["logL"] = np.asarray(logL, dtype=float)[order] if n else np.zeros(0)
    x["logW"] = np.asarray(logW, dtype=float)[order] if n else np.zeros(0)
    x["logQ"] = -x["logW"]
    osamp = OrderedSamples(strict_threshold=False, replace_all=False)
    osamp.add_initial_samples(x, np.zeros((n, 1)))
    return osamp


def classify_exc(e):
    if isinstance(e, IndexError):
        return "err=index"
    if isinstance(e, (RuntimeError, ValueError)):
        return "err=rejected:" + type(e).__name__
    return "err=" + type(e).__name__


def run_determine(case):
    """REAL determine_log_likelihood_threshold on a live set held by a real OrderedSamples.
    -> dict(logL sorted, logW sorted, kind, value, n_raw | raw_exc, removed, kept)"""
    INS = _ins()
    cfg = case["cfg"]
    perm = np.asarray(case["perm"], dtype=int) if case.get("perm") is not None else None
    osamp = make_ordered(case["logL"], case["logW"], perm)
    live = osamp.live_points
    out = dict(logL=np.array(live["logL"], dtype=float), logW=np.array(live["logW"], dtype=float))
    stub = make_stub(cfg, case.get("stub_n"))
    stub.training_samples = osamp
    kw = dict(case.get("kwargs") or {})
    with _Quiet():
        # the method's own choice, observed separately (deterministic)
        if case.get("stub_n") is not None:
            out["n_raw"] = case["stub_n"]
        else:
            try:
                f = INS.determine_threshold_quantile if case["method"] == "quantile" else INS.determine_threshold_entropy
                out["n_raw"] = int(f(stub, live, **kw))
            except Exception as e:  # noqa
                out["n_raw"] = None
                out["raw_exc"] = classify_exc(e)
        try:
            r = INS.determine_log_likelihood_threshold(stub, live, method=case["method"], **kw)
        except Exception as e:  # noqa
            out["kind"] = classify_exc(e)
            out["exc"] = repr(e)[:200]
            return out
        if isinstance(r, (int, np.integer)) and not isinstance(r, (np.floating, float)):
            out["kind"], out["value"] = "early", int(r)
            return out
        out["kind"], out["value"] = "thr", float(r)
        # what the sampler does next with it: the real remove_samples of the real OrderedSamples
        osamp.update_log_likelihood_threshold(r)
        try:
            out["removed"] = int(osamp.remove_samples())
            out["kept"] = int(len(osamp.live_points))
        except Exception as e:  # noqa
            out["removed"], out["kept"] = None, None
            out["remove_exc"] = repr(e)[:200]
    return out


def dense_ranks(values, extra=()):
    """order-preserving integers for floats incl. +-inf (the model only compares likelihoods)"""
    allv = sorted(set(float(v) for v in values) | set(float(v) for v in extra))
    rank = {v: i for i, v in enumerate(allv)}
    return [rank[float(v)] for v in values], [rank[float(v)] for v in extra]


def frac(x):
    f = Fraction(float(x))
    return f"{f.numerator}/{f.denominator}" if f.denominator != 1 else str(f.numerator)


def lst(xs):
    return "[" + ",".join(str(x) for x in xs) + "]"


def cfg_tokens(cfg):
    mx = cfg["max_samples"]
    return f"{cfg['min_samples']} {cfg['min_remove']} {cfg['nlive']} {'none' if mx is None else mx} {int(bool(cfg['draw_constant']))}"


def guards(cfg, size):
    """None when the configuration is inside the domain of the property theorems, else the reason"""
    if cfg["min_samples"] < 1 or cfg["min_remove"] < 1:
        return "outside:min_samples/min_remove<1"
    if size < 1:
        return "outside:empty"
    if cfg["min_remove"] >= size:
        return "outside:min_remove>=size"
    if cfg["draw_constant"] and cfg["max_samples"] and not cfg["nlive"] < cfg["max_samples"]:
        return "outside:max_samples<=nlive"
    return None


# ================================================================================================ oracle
def oracle_determine(ctx, case, res):
    """exactly the property, on the REAL outputs; returns a label for the histogram"""
    cfg = case["cfg"]
    logL = res["logL"]
    size = len(logL)
    g = guards(cfg, size)
    if g:
        return g
    if res.get("raw_exc"):
        # the method refuses (nothing is chosen): acceptable only for degenerate inputs — a likelihood of -inf makes the
        # Harrell–Davis cutoff non-finite, weights that are all zero have no effective sample size
        kw = dict(case.get("kwargs") or {})
        lw = res["logW"] + logL if kw.get("include_likelihood") else res["logW"]
        usable = np.all(np.isfinite(logL)) and np.any(np.isfinite(lw)) and not np.any(np.isnan(lw)) and not np.any(lw == np.inf)
        if case["method"] == "entropy" or usable:
            ctx.oracle_fail(KEY + ":rejects-valid-input", f"{case['method']} method raised {res['raw_exc']} on finite likelihoods "
                            "and usable weights: no threshold is chosen", case)
            return "FAIL"
        return "method-rejected-degenerate-input"
    ms, mr, mx, nl = cfg["min_samples"], cfg["min_remove"], cfg["max_samples"], cfg["nlive"]
    cap = bool(cfg["draw_constant"] and mx)
    if res["kind"].startswith("err"):
        ctx.oracle_fail(KEY + ":raises", f"raised {res.get('exc')} for a configuration inside the guards "
                        f"(size={size}, min_samples={ms}, min_remove={mr}, max_samples={mx}, nlive={nl})", case)
        return "FAIL"
    if res["kind"] == "early":
        ctx.oracle_fail(KEY + ":not-a-threshold", f"returned the integer {res['value']} instead of a live likelihood", case)
        return "FAIL"
    thr = res["value"]
    if not np.any(logL == thr):
        ctx.oracle_fail(KEY + ":threshold-not-live-sample", f"threshold {thr} is not the likelihood of a live sample", case)
        return "FAIL"
    first = int(np.count_nonzero(logL < thr))
    last = size - int(np.count_nonzero(logL > thr)) - 1
    removed, kept = res["removed"], res["kept"]
    if removed is None:
        ctx.oracle_fail("remove_samples:raises", f"remove_samples raised {res.get('remove_exc')}", case)
        return "FAIL"
    n_raw = res["n_raw"]
    n1 = 1 if n_raw == 0 else n_raw
    label = "ok"
    if size - n1 < ms:
        label = "ok:min_samples-branch"
        if size >= ms and (not cap or ms + nl <= mx):
            if kept != ms:
                want = size - ms
                if first <= want <= last and last > first:
                    ctx.oracle_fail(TIE_KEY, f"kept {kept} != min_samples={ms}: threshold {thr} is tied over positions {first}..{last}", case)
                    label = "TIE"
                else:
                    ctx.oracle_fail(KEY + ":keeps-min-samples", f"method's choice {n_raw} leaves {size - n1} < min_samples={ms} "
                                    f"but {kept} samples are kept (threshold {thr}, positions {first}..{last})", case)
                    return "FAIL"
        else:
            label = "ok:min_samples-branch-not-applicable"
    else:
        if removed < mr:
            if last >= mr and last > first:
                ctx.oracle_fail(TIE_KEY, f"removed {removed} < min_remove={mr}: threshold {thr} is tied over positions {first}..{last}", case)
                label = "TIE"
            else:
                ctx.oracle_fail(KEY + ":removes-min-remove", f"removed {removed} < min_remove={mr} (threshold {thr} at position {first})", case)
                return "FAIL"
    if cap and kept + nl > mx:
        if size - last + nl <= mx and last > first:
            ctx.oracle_fail(TIE_KEY, f"next level {kept}+{nl} > max_samples={mx}: threshold {thr} is tied over positions {first}..{last}", case)
            label = "TIE"
        else:
            ctx.oracle_fail(KEY + ":respects-max-samples", f"next level {kept}+{nl} > max_samples={mx} with constant draws", case)
            return "FAIL"
    return label


def impl_line_full(res):
    """canonical string of the real outcome in rank space"""
    if res["kind"] == "early":
        return f"early {res['value']}"
    if res["kind"] != "thr":
        return "err=index" if res["kind"] == "err=index" else res["kind"]
    ranks, (tr,) = dense_ranks(res["logL"], [res["value"]])
    return f"thr {tr} removed={res['removed']} kept={res['kept']}"


def model_line_full(res, cfg):
    ranks, extra = dense_ranks(res["logL"], [res["value"]] if res.get("kind") == "thr" else [])
    return f"thr full {lst(ranks)} {res['n_raw']} {cfg_tokens(cfg)}"


# ================================================================================================ generators
QS = [Fraction(k, 64) for k in (0, 1, 8, 16, 24, 32, 40, 48, 51, 56, 63, 64)]


def gen_logL(rng, n, kind):
    if kind == "distinct":
        return [float(v) for v in rng.sample(range(-3 * n - 5, 3 * n + 5), n)]
    if kind == "ties":
        k = rng.randint(1, max(1, n // 2))
        return [float(rng.randint(0, k)) for _ in range(n)]
    if kind == "all-equal":
        return [float(rng.randint(-3, 3))] * n
    if kind == "neginf":
        v = [float(v) for v in rng.sample(range(-3 * n - 5, 3 * n + 5), n)]
        for i in rng.sample(range(n), rng.randint(1, max(1, n // 3))):
            v[i] = -math.inf
        return v
    return [rng.gauss(0, 3) - (20 if rng.random() < 0.1 else 0) for _ in range(n)]       # floats


def gen_logW(rng, n, kind):
    if kind == "equal":
        c = float(rng.choice([0, 0, -3, 2]))
        return [c] * n
    if kind == "ints":
        return [float(rng.randint(-12, 3)) for _ in range(n)]
    if kind == "dominant":
        w = [float(rng.randint(-5, 0)) for _ in range(n)]
        w[rng.randrange(n)] = float(rng.choice([40, 800]))
        return w
    if kind == "neginf-some":
        w = [float(rng.randint(-6, 0)) for _ in range(n)]
        for i in rng.sample(range(n), rng.randint(1, max(1, n - 1)) if n > 1 else 1):
            w[i] = -math.inf
        return w
    if kind == "neginf-all":
        return [-math.inf] * n
    return [rng.gauss(-2, 2) for _ in range(n)]     # floats


def gen_cfg(rng, size, valid=True):
    nl = rng.choice([1, 2, 5, 10, max(1, size // 2), size])
    if valid:
        ms = rng.choice([1, 2, 3, max(1, size // 3), max(1, size - 1), size, size + 2])
        mr = rng.randint(1, max(1, size - 1)) if rng.random() < 0.6 else rng.choice([1, 1, 2, 3])
        c = rng.random()
        if c < 0.45:
            mx = None
        elif c < 0.8:
            mx = nl + rng.randint(1, max(2, size))
        else:
            mx = ms + nl + rng.randint(0, 5)
        dc = rng.random() < 0.8
    else:
        ms = rng.randint(-1, size + 3)
        mr = rng.randint(-1, size + 3)
        mx = rng.choice([None, 0, rng.randint(-2, size + 12)])
        dc = rng.random() < 0.7
    return dict(min_samples=ms, min_remove=mr, max_samples=mx, draw_constant=dc, nlive=nl)


def gen_case(rng, max_size, valid=True):
    n = rng.randint(1, max_size) if rng.random() < 0.97 else 0
    lk = rng.choice(["distinct", "distinct", "ties", "ties", "all-equal", "neginf", "floats"])
    wk = rng.choice(["equal", "ints", "ints", "dominant", "neginf-some", "neginf-all", "floats"])
    if rng.random() < 0.1:
        wk = "neginf-all"
    if n == 0:
        logL, logW = [], []
    else:
        logL, logW = gen_logL(rng, n, lk), gen_logW(rng, n, wk)
    method = rng.choice(["entropy", "quantile"])
    q = rng.choice(QS)
    kw = dict(q=float(q))
    if rng.random() < 0.3:
        kw["include_likelihood"] = True
    if method == "entropy" and rng.random() < 0.35:
        kw["use_log_weights"] = False
    if rng.random() < 0.15:
        kw = {} if rng.random() < 0.5 else kw
    perm = list(range(n))
    rng.shuffle(perm)
    return dict(layer="determine", logL=logL, logW=logW, perm=perm, method=method, kwargs=kw,
                cfg=gen_cfg(rng, n, valid), lkind=lk, wkind=wk)


# ================================================================================================ layers
def raw_index_lines(case, res):
    """model lines for the method's own choice (entropy: exact on integer-valued vectors; quantile: argmax given
    the real cutoff); -> [(line, impl)]"""
    out = []
    if res.get("n_raw") is None or case.get("stub_n") is not None or len(res["logL"]) == 0:
        return out
    kw = dict(case.get("kwargs") or {})
    logL, logW = res["logL"], res["logW"]
    if case["method"] == "entropy":
        q = Fraction(kw.get("q", 0.5))
        lw = logW + logL if kw.get("include_likelihood") else logW
        if not np.all(np.isfinite(lw)):
            return out
        if kw.get("use_log_weights", True):
            if not np.all(lw == np.round(lw)) or q.denominator > 1024:
                return out
            p = [Fraction(float(v)) for v in lw]
        else:
            with np.errstate(all="ignore"):
                pf = np.exp(lw)
            if not np.all(np.isfinite(pf)) or float(np.sum(pf)) == 0.0:
                return out
            p = [Fraction(float(v)) for v in pf]
            # inexact path: compare only with a margin between q and every exact cumulative ratio
            tot = sum(p)
            acc = Fraction(0)
            for v in p:
                acc += v
                if tot == 0 or abs(acc / tot - q) < Fraction(1, 10 ** 9):
                    return out
        out.append((f"thr entropy {q.numerator}/{q.denominator} {lst(f'{v.numerator}/{v.denominator}' for v in p)}",
                    f"n {res['n_raw']}"))
    else:
        from nessai.utils.stats import weighted_quantile
        if not np.all(np.isfinite(logL)):
            return out
        lw = logW + logL if kw.get("include_likelihood") else logW
        with _Quiet():
            try:
                cutoff = float(weighted_quantile(logL, kw.get("q", 0.8), log_weights=lw.copy(), values_sorted=True)[0])
            except Exception:  # noqa
                return out
        if not np.isfinite(cutoff):
            return out
        out.append((f"thr qidx {frac(cutoff)} {lst(frac(v) for v in logL)}", f"n {res['n_raw']}"))
    return out


def do_determine(ctx, case, lines, impls, cases, sample=False):
    res = run_determine(case)
    label = oracle_determine(ctx, case, res)
    size = len(res["logL"])
    nontrivial = size >= 2 and res["kind"] == "thr"
    ctx.case(("det", tuple(case["logL"]), tuple(case["logW"]), case["method"], tuple(sorted((case.get("kwargs") or {}).items())),
              tuple(sorted(case["cfg"].items(), key=str)), case.get("stub_n")), nontrivial,
             sample=_jsonable(case) if sample else None,
             kind=f"{case['method']}:{label}" + ("" if not res["kind"].startswith("err") else "+" + res["kind"]))
    if res.get("n_raw") is not None:
        lines.append(model_line_full(res, case["cfg"]))
        impls.append(impl_line_full(res) if not res["kind"].startswith("err=rejected") else res["kind"])
        cases.append(case)
    for ln, im in raw_index_lines(case, res):
        ctx.hist["raw-index-model:" + ln.split()[1]] += 1
        lines.append(ln)
        impls.append(im)
        cases.append(case)
    return res, label


def _jsonable(case):
    def f(v):
        if isinstance(v, float) and not math.isfinite(v):
            return str(v)
        if isinstance(v, (list, tuple)):
            return [f(x) for x in v]
        if isinstance(v, dict):
            return {k: f(x) for k, x in v.items()}
        return v
    return f(case)


def _unjson(case):
    def f(v):
        if isinstance(v, str) and v in ("inf", "-inf", "nan"):
            return float(v)
        if isinstance(v, list):
            return [f(x) for x in v]
        if isinstance(v, dict):
            return {k: f(x) for k, x in v.items()}
        return v
    return f(case)


# ---- layer A: translated clamp vs the real method with a scripted raw index --------------------------
_PLAIN = {}


def run_clamp_real(n0, size, cfg):
    """real determine_log_likelihood_threshold, raw index scripted, logL[i] = i -> 'early v' | 'pos p' | 'err=index'"""
    INS = _ins()
    if size not in _PLAIN:
        a = np.zeros(size, dtype=[("x", "f8"), ("logL", "f8"), ("logW", "f8")])
        a["logL"] = np.arange(size, dtype=float)
        _PLAIN[size] = a
    stub = make_stub(cfg, n0)
    try:
        r = INS.determine_log_likelihood_threshold(stub, _PLAIN[size], method="entropy")
    except IndexError:
        return "err=index"
    except Exception as e:  # noqa
        return "err=" + type(e).__name__
    if isinstance(r, (int, np.integer)):
        return f"early {int(r)}"
    return f"pos {int(r)}"


def oracle_clamp(ctx, case, impl):
    """the index-level property on distinct likelihoods (position == count)"""
    cfg, size, n0 = case["cfg"], case["size"], case["n0"]
    g = guards(cfg, size)
    if g:
        return g
    if not (0 <= n0 < size):
        return "outside:raw-index-not-an-argmax"
    ms, mr, mx, nl = cfg["min_samples"], cfg["min_remove"], cfg["max_samples"], cfg["nlive"]
    cap = bool(cfg["draw_constant"] and mx)
    if not impl.startswith("pos "):
        ctx.oracle_fail(KEY + (":raises" if impl.startswith("err") else ":not-a-threshold"),
                        f"outcome {impl} for a configuration inside the guards", case)
        return "FAIL"
    p = int(impl.split()[1])
    n1 = 1 if n0 == 0 else n0
    if size - n1 < ms:
        if size >= ms and (not cap or ms + nl <= mx) and size - p != ms:
            ctx.oracle_fail(KEY + ":keeps-min-samples", f"method's choice {n0} leaves {size - n1} < min_samples={ms} but {size - p} are kept", case)
            return "FAIL"
    elif p < mr:
        ctx.oracle_fail(KEY + ":removes-min-remove", f"removed {p} < min_remove={mr}", case)
        return "FAIL"
    if cap and size - p + nl > mx:
        ctx.oracle_fail(KEY + ":respects-max-samples", f"next level {size - p}+{nl} > max_samples={mx} with constant draws", case)
        return "FAIL"
    return "ok"


def model_clamp_line(n0, size, cfg):
    return f"thr clamp {n0} {size} {cfg_tokens(cfg)}"


def layer_clamp(ctx, lines, impls, cases, budget_random):
    caps = [(True, None, 3), (False, 5, 3), (True, 0, 3), (True, 4, 2), (True, 7, 3), (True, 2, 3), (True, 3, 3)]
    S = ctx.scale(8, 11)
    with _Quiet():
        for size in range(0, S + 1):
            for n0 in range(-1, size + 2):
                for ms in range(0, size + 2):
                    for mr in range(0, size + 2):
                        for dc, mx, nl in caps:
                            cfg = dict(min_samples=ms, min_remove=mr, max_samples=mx, draw_constant=dc, nlive=nl)
                            case = dict(layer="clamp", n0=n0, size=size, cfg=cfg)
                            impl = run_clamp_real(n0, size, cfg)
                            lab = oracle_clamp(ctx, case, impl)
                            lines.append(model_clamp_line(n0, size, cfg))
                            impls.append(impl)
                            cases.append(case)
                            ctx.case(("clamp", n0, size, ms, mr, dc, mx, nl), size >= 1,
                                     sample=case if (size == 5 and n0 == 2 and ms == 2 and mr == 3) else None,
                                     kind="clamp-grid:" + (lab if lab.startswith("outside") or lab == "FAIL" else impl.split()[0]))
        for _ in range(budget_random):
            size = ctx.rng.randint(1, 60)
            valid = ctx.rng.random() < 0.7
            cfg = gen_cfg(ctx.rng, size, valid)
            n0 = ctx.rng.randint(0, size - 1) if ctx.rng.random() < 0.9 else ctx.rng.randint(-3, size + 3)
            case = dict(layer="clamp", n0=n0, size=size, cfg=cfg)
            impl = run_clamp_real(n0, size, cfg)
            lab = oracle_clamp(ctx, case, impl)
            lines.append(model_clamp_line(n0, size, cfg))
            impls.append(impl)
            cases.append(case)
            ctx.case(("clamp", n0, size, tuple(sorted(cfg.items(), key=str))), True, kind="clamp-random:" +
                     (lab if lab.startswith("outside") or lab == "FAIL" else impl.split()[0]))


# ---- layer B: translated n_train vs the real add_new_proposal -----------------------------------------
def run_train_real(case):
    """real add_new_proposal on a stand-in sampler; -> (start position, size of the training set, total)"""
    INS = _ins()
    import datetime
    osamp = make_ordered(case["logL"], [0.0] * len(case["logL"]), None)
    n = len(case["logL"])
    osamp.log_q = np.zeros((n, 2))
    got = {}
    stub = types.SimpleNamespace(
        training_samples=osamp, log_likelihood_threshold=case["thr"], min_samples=case["min_samples"],
        replace_all=False, weighted_kl=False, plot_training_data=False, training_time=datetime.timedelta(),
        proposal=types.SimpleNamespace(train=lambda x, plot=False, weights=None: got.update(n=len(x))))
    with _Quiet():
        try:
            INS.add_new_proposal(stub)
        except Exception as e:  # noqa
            return "err=" + type(e).__name__, None
    cur = stub.current_training_samples
    ids = [int(v) for v in cur["id"]]
    all_ids = [int(v) for v in osamp.samples["id"]]
    start = all_ids.index(ids[0]) if ids else len(all_ids)
    ok_suffix = ids == all_ids[start:]
    lq = stub.current_training_log_q.shape[0]
    return f"start {start} len {len(cur)}" if (ok_suffix and lq == len(cur) and got.get("n") == len(cur)) else \
        f"not-a-suffix ids={ids} log_q_rows={lq} trained_on={got.get('n')}", len(cur)


def layer_train(ctx, lines, impls, cases, budget):
    rng = ctx.rng
    for i in range(budget):
        n = rng.randint(0, 7) if i < budget // 3 else rng.randint(1, 60)
        logL = sorted(gen_logL(rng, n, rng.choice(["distinct", "ties", "all-equal", "neginf"]))) if n else []
        c = rng.random()
        if n and c < 0.6:
            thr = rng.choice(logL)
        elif n and c < 0.8:
            thr = (max(v for v in logL) + 1.0) if rng.random() < 0.5 else (min(v for v in logL if math.isfinite(v)) - 1.0 if any(math.isfinite(v) for v in logL) else 0.0)
        else:
            thr = float(rng.randint(-5, 5)) + 0.5
        ms = rng.choice([0, 1, 2, max(1, n // 2), n, n + 2]) if rng.random() < 0.8 else rng.randint(-1, n + 3)
        case = dict(layer="train", logL=logL, thr=thr, min_samples=ms)
        do_train(ctx, case, lines, impls, cases)


def do_train(ctx, case, lines, impls, cases):
    impl, ntrained = run_train_real(case)
    n, ms = len(case["logL"]), case["min_samples"]
    # a training set smaller than min_samples cannot yield min_samples samples whatever add_new_proposal does: at this
    # level the case is only compared with the model (train_len_when_fewer_than_min_samples); that such a set is REACHABLE
    # (n_initial < min_samples passes check_configuration) is judged on the real runs of layer (G) under NINIT_KEY
    if ntrained is not None and ms >= 1 and n >= ms and ntrained < ms:
        ctx.oracle_fail(TRAIN_KEY, f"proposal trained on {ntrained} < min_samples={ms} samples ({n} available)", case)
    ranks, (tr,) = dense_ranks(case["logL"], [case["thr"]])
    lines.append(f"thr train {tr} {lst(ranks)} {ms}")
    impls.append(impl)
    cases.append(case)
    ctx.case(("train", tuple(case["logL"]), case["thr"], ms), n >= 2, sample=_jsonable(case) if n == 5 else None,
             kind="train:" + ("floor-applies" if (ms >= 1 and n >= ms) else "model-only:size<min_samples-or-min_samples<1"))


# ---- layer C: translator self-test ----------------------------------------------------------------------
def layer_tx(ctx, lines, impls, cases, budget):
    from .c17_txcases import tx_self_test
    rng = ctx.rng
    for i in range(budget):
        a, b = rng.randint(-9, 9), rng.randint(-9, 9)
        c = rng.choice([None, 0, rng.randint(-9, 9)])
        flag = rng.random() < 0.5
        r = tx_self_test(a, b, c, flag)
        impl = f"index {r[1]}" if isinstance(r, tuple) else f"early {r}"
        lines.append(f"thr tx {a} {b} {'none' if c is None else c} {int(flag)}")
        impls.append(impl)
        cases.append(dict(layer="tx", a=a, b=b, c=c, flag=flag))
        ctx.case(("tx", a, b, c, flag), True, kind="translator-selftest:" + impl.split()[0])


# ---- layer F: weighted_quantile ---------------------------------------------------------------------------
def run_wq(ctx, case, pending):
    """real weighted_quantile over a grid of q with scipy's betainc observed in place (the end points and the table the
    real code used): oracle (range, monotone in q) on the results; the table goes to the Lean model sum"""
    import nessai.utils.stats as st
    vals = np.asarray(case["vals"], dtype=float)
    lw = np.asarray(case["logW"], dtype=float)
    qs = case["qs"]
    rs, tables = [], []
    orig = st.betainc
    for q in qs:
        rec = []

        def spy(a, b, x, _rec=rec):
            r = orig(a, b, x)
            _rec.append((np.array(x, dtype=float).ravel(), np.array(r, dtype=float).ravel(), float(a), float(b)))
            return r
        with _Quiet(), mock.patch.object(st, "betainc", spy):
            try:
                rs.append(float(st.weighted_quantile(vals, q, log_weights=lw.copy(), values_sorted=True)[0]))
            except Exception as e:  # noqa
                rs.append(classify_exc(e))
        tables.append(rec)
    valid = bool(len(vals)) and bool(np.all(np.isfinite(vals))) and bool(np.any(np.isfinite(lw))) \
        and not np.any(lw == np.inf) and not np.any(np.isnan(lw))
    kind = "wq:" + case["wkind"]
    if valid:
        scale = 1.0 + float(np.max(np.abs(vals)))
        tol = 1e-9 * scale
        prev = None
        for q, r in zip(qs, rs):
            if isinstance(r, str) or not math.isfinite(r):
                ctx.oracle_fail(WQ_KEY + ":not-finite", f"weighted_quantile(q={q}) gave {r} on finite values and usable weights", case)
                kind = "wq:FAIL"
                break
            if r < vals.min() - tol or r > vals.max() + tol:
                ctx.oracle_fail(WQ_KEY + ":out-of-range", f"weighted_quantile(q={q}) = {r} outside the data range [{vals.min()}, {vals.max()}]", case)
                kind = "wq:FAIL"
                break
            if prev is not None and r < prev - tol:
                ctx.oracle_fail(WQ_KEY + ":not-monotone", f"weighted_quantile decreases in q: {prev} -> {r} at q={q}", case)
                kind = "wq:FAIL"
                break
            prev = r
        pending.append((case, qs, rs, tables, vals, lw, tol))
    else:
        kind = "wq:outside:" + ("empty" if not len(vals) else "non-finite-values-or-all-zero-weights")
    ctx.case(("wq", tuple(case["vals"]), tuple(case["logW"]), tuple(qs)), valid and len(vals) >= 2,
             sample=_jsonable(case) if len(vals) == 4 else None, kind=kind)
    return rs


def _dis(ctx, what, case):
    if len(ctx.disagreements) < 20:
        ctx.disagree(what, case)


def wq_model_check(ctx, pending):
    """(1) the end points the real code handed to betainc vs the model's `endPoints` of the normalised weights;
    (2) the real result vs the model sum over the very table betainc returned; (3) that table is a CDF table
    (hypothesis of quantile_convex, assumed of SciPy)"""
    from scipy.special import logsumexp
    if not pending:
        return
    lines, meta = [], []
    for case, qs, rs, tables, vals, lw, tol in pending:
        with np.errstate(all="ignore"):
            w = np.exp(lw - logsumexp(lw))
        lines.append(f"thr ends {lst(frac(v) for v in w)}")
        meta.append(("ends", case, None, None, tables, tol))
        for q, r, rec in zip(qs, rs, tables):
            if isinstance(r, str) or len(rec) != 2:
                if not isinstance(r, str):
                    _dis(ctx, f"weighted_quantile(q={q}) called betainc {len(rec)} times, the model expects the two calls "
                                 "betainc(a,b,end_points[:-1]) and betainc(a,b,end_points[1:])", _jsonable(case))
                continue
            (x0, t0, a0, b0), (x1, t1, a1, b1) = rec
            with np.errstate(all="ignore"):
                neff = 1.0 / float(np.sum(w * w))
            want_a, want_b = q * (neff + 1), (1 - q) * (neff + 1)
            if (a0, b0) != (a1, b1) or abs(a0 - want_a) > 1e-9 * (1 + want_a) or abs(b0 - want_b) > 1e-9 * (1 + want_b):
                _dis(ctx, f"weighted_quantile(q={q}): betainc parameters ({a0}, {b0}) are not the Harrell-Davis "
                             f"q(neff+1), (1-q)(neff+1) = ({want_a}, {want_b})", _jsonable(case))
                continue
            if len(t0) != len(vals) or len(t1) != len(vals) or not np.array_equal(t0[1:], t1[:-1]):
                _dis(ctx, f"weighted_quantile(q={q}): the two betainc tables are not the shifted end-point tables", _jsonable(case))
                continue
            tbl = list(t0) + [t1[-1]]
            if tbl[0] != 0.0 or tbl[-1] != 1.0 or any(tbl[i] > tbl[i + 1] for i in range(len(tbl) - 1)):
                ctx.broken("assumption: betainc table is not a CDF table (monotone, 0 .. 1): hypothesis of quantile_convex does not hold "
                           "for the real computation", json.dumps(dict(q=q, table=tbl[:8], case=_jsonable(case)))[:1500])
                continue
            lines.append(f"thr wq {lst(frac(t) for t in tbl)} {lst(frac(v) for v in vals)}")
            meta.append(("wq", case, q, r, None, tol))
    outs = ctx.model(lines)
    worst = 0.0
    for (what, case, q, r, tables, tol), o in zip(meta, outs):
        if len(ctx.disagreements) >= 20:
            break
        if what == "ends":
            try:
                pts = [float(Fraction(t)) for t in o.strip("[]").split(",")]
            except Exception:  # noqa
                _dis(ctx, "model end points unparsable", {"case": _jsonable(case), "model": o})
                continue
            for rec in tables:
                if len(rec) == 2:
                    real_pts = list(rec[0][0]) + [rec[1][0][-1]]
                    if len(real_pts) != len(pts) or max(abs(a - b) for a, b in zip(real_pts, pts)) > 1e-12:
                        _dis(ctx, "end points handed to betainc differ from [0] ++ cumsum(w)/sum(w) of the model",
                                     {"case": _jsonable(case), "real": real_pts[:10], "model": pts[:10]})
                    break
            continue
        try:
            m = float(Fraction(o))
        except Exception:  # noqa
            _dis(ctx, "model quantile unparsable", {"case": _jsonable(case), "model": o})
            continue
        worst = max(worst, abs(m - r) / (tol / 1e-9))
        if abs(m - r) > tol:
            _dis(ctx, f"weighted_quantile(q={q}) = {r} but the model sum over the betainc table the code used gives {m} (tol {tol})",
                         _jsonable(case))
    ctx.extra["wq_model_max_rel_dev"] = worst


def layer_wq(ctx, budget):
    rng = ctx.rng
    pending = []
    qgrid = [0.0, 0.01, 0.1, 0.25, 0.5, 0.7, 0.8, 0.95, 1.0]
    for i in range(budget):
        n = rng.randint(1, 8) if i < budget // 3 else rng.randint(1, 60)
        vk = rng.choice(["distinct", "ties", "all-equal", "floats"])
        wk = rng.choice(["equal", "ints", "dominant", "neginf-some", "neginf-all", "floats"])
        vals = sorted(gen_logL(rng, n, vk))
        case = dict(layer="wq", vals=vals, logW=gen_logW(rng, n, wk), qs=qgrid, wkind=wk, vkind=vk)
        run_wq(ctx, case, pending)
    wq_model_check(ctx, pending)
    # equal weights vs the ordinary quantile: reported, not demanded (Harrell–Davis only approximates it)
    from nessai.utils.stats import weighted_quantile
    dev = {}
    g = np.random.default_rng(ctx.rng.getrandbits(64))
    for n in (5, 20, 100, 1000):
        x = np.sort(g.normal(size=n))
        d = max(abs(float(weighted_quantile(x, q, values_sorted=True)[0]) - float(np.quantile(x, q))) for q in np.linspace(0.05, 0.95, 19))
        dev[str(n)] = round(d / float(x.max() - x.min()), 5)
    ctx.extra["equal_weights_vs_np_quantile_max_dev_over_range"] = dev
    ctx.extra["equal_weights_note"] = ("weighted_quantile with equal weights equals np.quantile only at q=0, 0.5 (symmetric data) and 1; "
                                       "elsewhere it deviates by the listed fraction of the data range — NOT SHOWN, by design of the estimator")


# ---- layer G: real INS runs -------------------------------------------------------------------------------
def real_runs(ctx, lines, impls, cases, configs):
    INS = _ins()
    from nessai.model import Model
    from nessai.livepoint import reset_extra_live_points_parameters

    class Gauss(Model):
        def __init__(self):
            self.names = ["x", "y"]
            self.bounds = {"x": [-5.0, 5.0], "y": [-5.0, 5.0]}

        def log_prior(self, x):
            return np.log(self.in_bounds(x), dtype="float") - 2 * np.log(10.0)

        def log_likelihood(self, x):
            return -0.5 * (x["x"] ** 2 + x["y"] ** 2)

        def to_unit_hypercube(self, x):
            y = x.copy()
            for n in self.names:
                y[n] = (x[n] + 5.0) / 10.0
            return y

        def from_unit_hypercube(self, x):
            y = x.copy()
            for n in self.names:
                y[n] = x[n] * 10.0 - 5.0
            return y

    orig_det = INS.determine_log_likelihood_threshold
    orig_add = INS.add_new_proposal
    rec_det, rec_train = [], []

    def det(self, samples, method="entropy", **kw):
        item = dict(samples=samples.copy(), method=method, kwargs=dict(kw), self=self)
        try:
            r = orig_det(self, samples, method=method, **kw)
            item["result"] = r
            return r
        except Exception as e:
            item["exc"] = e
            raise
        finally:
            rec_det.append(item)

    def add(self):
        orig_add(self)
        rec_train.append((len(self.current_training_samples), int(self.training_samples.samples.size), int(self.min_samples),
                          int(self.n_initial)))

    for conf in configs:
        reset_extra_live_points_parameters()
        rec_det.clear()
        rec_train.clear()
        seed = ctx.rng.getrandbits(31)
        crashed = None
        with tempfile.TemporaryDirectory(prefix="c17-") as d, _Quiet(), \
                mock.patch.object(INS, "determine_log_likelihood_threshold", det), \
                mock.patch.object(INS, "add_new_proposal", add):
            np.random.seed(seed)
            try:
                import torch
                torch.manual_seed(seed)
            except Exception:  # noqa
                pass
            try:
                s = INS(Gauss(), output=d, plot=False, checkpointing=False, seed=seed,
                        flow_config=dict(n_blocks=2, n_neurons=8), training_config=dict(max_epochs=15, patience=5), **conf)
                s.nested_sampling_loop()
            except Exception as e:  # noqa
                crashed = e
        ctx.traces += 1
        case0 = dict(layer="real-run", conf=conf, seed=seed)
        if crashed is not None:
            ctx.extra.setdefault("real_run_errors", []).append(f"{conf}: {crashed!r}"[:300])
            if not any(it.get("exc") is crashed for it in rec_det):
                # not a failure of the threshold choice itself (those are judged by the oracle below): the trace is unusable
                ctx.broken(f"real-run: ImportanceNestedSampler run crashed ({type(crashed).__name__}); its live sets could not all be checked",
                           f"{conf}: {crashed!r}")
        for ntr, tot, ms, ninit in rec_train:
            # "in real runs every proposal is trained on at least min_samples samples" — demanded of EVERY training
            kind = "real-run:add_new_proposal"
            if ntr < ms:
                if tot < ms and ninit < ms:
                    # the whole training set is smaller than min_samples, which only an accepted n_initial < min_samples produces
                    ctx.oracle_fail(NINIT_KEY, f"real run with n_initial={ninit} < min_samples={ms} (accepted by check_configuration, which "
                                    f"compares min_samples with nlive only): proposal trained on {ntr} samples ({tot} available)", case0)
                    kind += ":n_initial<min_samples"
                else:
                    ctx.oracle_fail(TRAIN_KEY, f"real run: proposal trained on {ntr} < min_samples={ms} samples ({tot} available)", case0)
            ctx.case(("run-train", seed, ntr, tot), True, kind=kind)
        for it in rec_det:
            smp = it["samples"]
            slf = it["self"]
            cfg = dict(min_samples=int(slf.min_samples), min_remove=int(slf.min_remove),
                       max_samples=None if slf.max_samples is None else int(slf.max_samples),
                       draw_constant=bool(slf.draw_constant), nlive=int(slf.nlive))
            case = dict(layer="determine", logL=[float(v) for v in smp["logL"]], logW=[float(v) for v in smp["logW"]],
                        perm=None, method=it["method"], kwargs=it["kwargs"], cfg=cfg, lkind="real-run", wkind="real-run")
            # the recorded call must be what the stand-alone replay of the same inputs gives (ties the stub to the sampler)
            res, label = do_determine(ctx, case, lines, impls, cases)
            if "result" in it:
                if res["kind"] != "thr" or res["value"] != float(it["result"]):
                    ctx.disagree("stand-in sampler object and real sampler disagree on the same live set",
                                 dict(conf=conf, seed=seed, real=float(it["result"]), standin=res.get("value"), kind=res["kind"]))
            elif not res["kind"].startswith("err"):
                ctx.disagree("real sampler raised but the stand-in did not", dict(conf=conf, seed=seed, exc=repr(it.get("exc"))))
        reset_extra_live_points_parameters()


# ================================================================================================ correspond
CORPUS = Path(core.VERIF) / "corpus" / "C17"


def correspond(ctx):
    from nessai.livepoint import add_extra_parameters_to_live_points, reset_extra_live_points_parameters
    ctx.rule = ("(A) translated clamp vs the real determine_log_likelihood_threshold with a scripted raw index: full grid size<=S x "
                "n0 x min_samples x min_remove x 7 cap settings (incl. values outside the guards) + random sizes 1..60; "
                "(B) translated n_train vs the real add_new_proposal on a stand-in sampler with a real OrderedSamples; "
                "(C) translator self-test function vs its Lean translation; (D) real method end-to-end (real entropy / quantile raw "
                "index, real OrderedSamples.remove_samples) on generated live sets: likelihoods distinct/tied/all-equal/-inf/float, "
                "weights equal/integer/one-dominant/-inf/all -inf/float, both methods, q in k/64, include_likelihood, "
                "use_log_weights, sizes 0..60, valid and out-of-guard configurations; model fed the method's own index, plus exact "
                "raw-index models; (F) weighted_quantile vs the model sum, range + monotonicity oracle; (G) real INS runs. "
                "non-trivial = size >= 2 and a threshold was returned (A: size >= 1)")
    ctx.assume("scipy.special.betainc(a,b,.) is a CDF on [0,1] (monotone, 0 at 0, 1 at 1) and decreasing in q at fixed x for "
               "a=q(n+1), b=(1-q)(n+1) (stochastic monotonicity of the Beta family): hypothesis of quantile_convex / quantile_monotone",
               "np.argmax of a boolean array = first True, 0 when none; np.cumsum exact on small integers",
               "live likelihoods contain no NaN; count guarantees are demanded only inside the guards min_samples,min_remove>=1, "
               "min_remove<size, nlive<max_samples when the cap is active; keeps-min_samples additionally needs size>=min_samples "
               "and min_samples+nlive<=max_samples",
               "'equal weights reduce to the ordinary quantile' is NOT shown (approximate only); deviation reported in the evidence")
    ctx.trust("harness/py2lean.py (Python ast -> Lean translator), exercised on every run against the real functions and by its self-test",
              "hand model Model/Threshold.lean (pyIndex, slices, countBelow, entropyIndex, quantileIndex, wq); tie = this correspondence",
              "SciPy betainc / logsumexp used by the harness to build the table fed to the model sum")
    add_extra_parameters_to_live_points(["logW", "logQ", "logU"])
    lines, impls, cases = [], [], []
    try:
        # corpus first (F5 and the boundary cases)
        for f in sorted(CORPUS.glob("*.json")):
            for case in json.loads(f.read_text())["cases"]:
                case = _unjson(case)
                if case["layer"] == "determine":
                    do_determine(ctx, case, lines, impls, cases, sample=True)
                elif case["layer"] == "train":
                    do_train(ctx, case, lines, impls, cases)
        t = time.time()
        layer_clamp(ctx, lines, impls, cases, ctx.scale(3000, 40000))
        ctx.extra["t_clamp_s"] = round(time.time() - t, 1)
        layer_train(ctx, lines, impls, cases, ctx.scale(600, 6000))
        layer_tx(ctx, lines, impls, cases, ctx.scale(2000, 20000))
        t = time.time()
        n_det = ctx.scale(8000, 80000)
        for i in range(n_det):
            case = gen_case(ctx.rng, 12 if i < n_det // 3 else 60, valid=ctx.rng.random() < 0.8)
            do_determine(ctx, case, lines, impls, cases, sample=(i % 97 == 0))
        ctx.extra["t_determine_s"] = round(time.time() - t, 1)
        ctx.diff_model(lines, impls, cases)
        layer_wq(ctx, ctx.scale(300, 3000))
    finally:
        reset_extra_live_points_parameters()
    lines, impls, cases = [], [], []
    t = time.time()
    confs = [dict(nlive=150, min_samples=40, min_remove=3, max_iteration=3),
             dict(nlive=150, min_samples=40, min_remove=5, max_iteration=3, threshold_method="quantile",
                  threshold_kwargs=dict(q=0.7), draw_iid_live=False, max_samples=400)]
    # n_initial < min_samples is accepted by check_configuration: the first proposal cannot get min_samples samples
    confs += [dict(nlive=50, n_initial=10, min_samples=30, min_remove=1, max_iteration=2, draw_iid_live=False)]
    if not ctx.quick:
        confs += [dict(nlive=50, n_initial=10, min_samples=30, min_remove=1, max_iteration=2),
                  dict(nlive=200, min_samples=150, min_remove=1, max_iteration=5, strict_threshold=True),
                  dict(nlive=120, min_samples=20, min_remove=60, max_iteration=4, draw_iid_live=False, draw_constant=False),
                  dict(nlive=200, min_samples=50, min_remove=10, max_iteration=4, threshold_kwargs=dict(q=0.9, include_likelihood=True)),
                  dict(nlive=100, min_samples=100, min_remove=1, max_iteration=3, threshold_method="quantile", max_samples=250)]
    real_runs(ctx, lines, impls, cases, confs)
    add_extra_parameters_to_live_points(["logW", "logQ", "logU"])
    try:
        ctx.diff_model(lines, impls, cases, what="model != implementation (real-run live sets)")
    finally:
        reset_extra_live_points_parameters()
    ctx.extra["t_real_runs_s"] = round(time.time() - t, 1)


# ================================================================================================ search / replay
def search(ctx):
    """enlarged failing-input search on the real code (oracle only): more random live sets with fresh seeds and an
    exhaustive small clamp grid with larger bounds, time-boxed"""
    from nessai.livepoint import add_extra_parameters_to_live_points, reset_extra_live_points_parameters
    add_extra_parameters_to_live_points(["logW", "logQ", "logU"])
    deadline = time.time() + ctx.scale(60, 600)
    try:
        caps = [(True, None, 3), (True, 4, 2), (True, 9, 3), (True, 12, 5), (False, 5, 3)]
        with _Quiet():
            for size in range(1, 13):
                for n0 in range(0, size):
                    for ms in range(1, size + 2):
                        for mr in range(1, size):
                            for dc, mx, nl in caps:
                                cfg = dict(min_samples=ms, min_remove=mr, max_samples=mx, draw_constant=dc, nlive=nl)
                                case = dict(layer="clamp", n0=n0, size=size, cfg=cfg)
                                oracle_clamp(ctx, case, run_clamp_real(n0, size, cfg))
                if ctx.fails or time.time() > deadline:
                    break
        while not ctx.fails and time.time() < deadline:
            for _ in range(500):
                case = gen_case(ctx.rng, 40, valid=True)
                res = run_determine(case)
                oracle_determine(ctx, case, res)
                ctx.case(("search", repr(case)), False, kind="search")
            for _ in range(200):
                n = ctx.rng.randint(1, 30)
                logL = sorted(gen_logL(ctx.rng, n, "ties"))
                case = dict(layer="train", logL=logL, thr=ctx.rng.choice(logL), min_samples=ctx.rng.randint(1, n))
                _, ntrained = run_train_real(case)
                if ntrained is not None and ntrained < case["min_samples"]:
                    ctx.oracle_fail(TRAIN_KEY, f"proposal trained on {ntrained} < min_samples={case['min_samples']}", case)
    finally:
        reset_extra_live_points_parameters()


def replay(ctx, obj):
    from nessai.livepoint import add_extra_parameters_to_live_points, reset_extra_live_points_parameters
    case = _unjson(obj.get("case") or {})
    if isinstance(case, dict) and "case" in case and "line" in case:      # a recorded disagreement
        case = _unjson(case["case"])
    layer = case.get("layer") if isinstance(case, dict) else None
    add_extra_parameters_to_live_points(["logW", "logQ", "logU"])
    lines, impls, cases = [], [], []
    try:
        if layer == "determine":
            res, label = do_determine(ctx, case, lines, impls, cases, sample=True)
            ctx.extra["replayed"] = dict(outcome=res["kind"], value=res.get("value"), n_raw=res.get("n_raw"),
                                         removed=res.get("removed"), kept=res.get("kept"), oracle=label)
        elif layer == "clamp":
            impl = run_clamp_real(case["n0"], case["size"], case["cfg"])
            ctx.extra["replayed"] = dict(outcome=impl, oracle=oracle_clamp(ctx, case, impl))
            lines.append(model_clamp_line(case["n0"], case["size"], case["cfg"]))
            impls.append(impl)
            cases.append(case)
            ctx.case(repr(case), True, case, kind="replay")
        elif layer == "train":
            do_train(ctx, case, lines, impls, cases)
        elif layer == "wq":
            pend = []
            run_wq(ctx, case, pend)
            wq_model_check(ctx, pend)
        else:
            reset_extra_live_points_parameters()
            correspond(ctx)
            return
        ctx.diff_model(lines, impls, cases)
    finally:
        reset_extra_live_points_parameters()
