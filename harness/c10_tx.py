"""C10 translator — the DISPATCH TREE of `nessai.utils.multiprocessing.batch_evaluate_function`, regenerated from the
current source on every run as a Lean definition (`Gen/BatchTx.lean`) that `C10.batch_calls_source_eq_model` proves equal
to the hand-written `Batch.batchCalls` for every input.

The function is a tree of `if`s over three conditions whose leaves all have the shape `out = <how the user function is
called>`.  The translator maps

    conditions   `pool is None`   ↦ `poolIsNone = true`
                 `vectorised`     ↦ `vectorised = true`
                 `chunksize`      ↦ truthiness of an `Option Int` (`some c` with `c ≠ 0`), binding `c` in the then-arm
    leaves (by the exact `ast.unparse` text of the right-hand side)
                 func(x)                                                        ↦ direct, one call with everything
                 np.concatenate(list(map(func, array_split_chunksize(x, chunksize))))      ↦ direct, chunks of c
                 np.array([func(xx) for xx in x]).flatten()                     ↦ direct, one call per point
                 np.concatenate(pool.map(func_wrapper, array_split_chunksize(x, chunksize))) ↦ pooled, chunks of c
                 np.concatenate(pool.map(func_wrapper, np.array_split(x, n_pool)))           ↦ pooled, n_pool parts
                 np.array(pool.map(func_wrapper, x)).flatten()                  ↦ pooled, one call per point
    `if func_wrapper is None: func_wrapper = func` is the identity on the model's `g` (accepted only in exactly this form).

Anything else — another condition, another leaf text, a statement between the tree and `return out` — raises
`TranslationError` (tie downgrade): the translator never guesses.
"""
import ast
import hashlib
from pathlib import Path

from .py2lean import TranslationError, find_function

LEAVES = {
    "func(x)": ("false", ".ok [xs]"),
    "np.concatenate(list(map(func, array_split_chunksize(x, chunksize))))": ("false", "arraySplitChunksize xs c"),
    "np.array([func(xx) for xx in x]).flatten()": ("false", ".ok (xs.map fun x => [x])"),
    "np.concatenate(pool.map(func_wrapper, array_split_chunksize(x, chunksize)))": ("true", "arraySplitChunksize xs c"),
    "np.concatenate(pool.map(func_wrapper, np.array_split(x, n_pool)))":
        ("true", "(splitPool nPool xs)"),
    "np.array(pool.map(func_wrapper, x)).flatten()": ("true", ".ok (xs.map fun x => [x])"),
}
NEEDS_C = {"arraySplitChunksize xs c"}
SIG = ["func", "x", "vectorised", "chunksize", "pool", "n_pool", "func_wrapper"]


def _leaf(stmts, c_bound, where):
    body = [s for s in stmts if not (isinstance(s, ast.Expr) and isinstance(s.value, ast.Constant))]
    if len(body) == 1 and isinstance(body[0], ast.If):
        return _tree(body[0], c_bound, where)
    if len(body) != 1 or not isinstance(body[0], ast.Assign) or ast.unparse(body[0].targets[0]) != "out":
        raise TranslationError(f"batch_evaluate_function: {where}: expected `out = …` or a nested if, got "
                               f"{[ast.unparse(s)[:60] for s in body]}")
    text = ast.unparse(body[0].value)
    if text not in LEAVES:
        raise TranslationError(f"batch_evaluate_function: {where}: unknown way of calling the function: {text!r}")
    pooled, term = LEAVES[text]
    if term in NEEDS_C and not c_bound:
        raise TranslationError(f"batch_evaluate_function: {where}: chunked call outside `if chunksize:`")
    return f"(tagCalls {pooled} {term if term.startswith('(') else '(' + term + ')'})"


def _tree(node: ast.If, c_bound, where):
    cond = ast.unparse(node.test)
    if not node.orelse:
        raise TranslationError(f"batch_evaluate_function: {where}: `if {cond}` without else")
    if cond == "chunksize":
        a = _leaf(node.body, True, where + "/chunksize")
        b = _leaf(node.orelse, c_bound, where + "/not chunksize")
        return f"(match chunksize with | some c => (if c ≠ 0 then {a} else {b}) | none => {b})"
    table = {"pool is None": "poolIsNone = true", "vectorised": "vectorised = true"}
    if cond not in table:
        raise TranslationError(f"batch_evaluate_function: {where}: unknown condition {cond!r}")
    body, orelse = list(node.body), list(node.orelse)
    # the wrapper default, only as the first statement of the pooled arm
    def strip(stmts):
        if stmts and ast.unparse(stmts[0]) == "if func_wrapper is None:\n    func_wrapper = func":
            return stmts[1:]
        return stmts
    a = _leaf(strip(body), c_bound, where + "/" + cond)
    b = _leaf(strip(orelse), c_bound, where + "/not " + cond)
    return f"(if {table[cond]} then {a} else {b})"


def translate(repo):
    src_path = "nessai/utils/multiprocessing.py"
    text = (Path(repo) / src_path).read_text()
    fn = find_function(ast.parse(text), "batch_evaluate_function", None)
    if fn is None:
        raise TranslationError("batch_evaluate_function not found")
    got = [a.arg for a in fn.args.args]
    if got != SIG:
        raise TranslationError(f"batch_evaluate_function: signature {got} differs from the modelled one {SIG}")
    defaults = [ast.unparse(d) for d in fn.args.defaults]
    if defaults != ["None"] * 4:
        raise TranslationError(f"batch_evaluate_function: defaults {defaults} differ from the modelled ones")
    body = [s for s in fn.body if not (isinstance(s, ast.Expr) and isinstance(s.value, ast.Constant))]
    if len(body) != 2 or not isinstance(body[0], ast.If) or ast.unparse(body[1]) != "return out":
        raise TranslationError("batch_evaluate_function: body is not `if …: … else: …; return out`")
    term = _tree(body[0], False, "top")
    seg = ast.get_source_segment(text, fn) or ""
    sha = hashlib.sha256(seg.encode()).hexdigest()[:16]
    lean = (f"/-- GENERATED by harness/c10_tx.py from `{src_path}`, `batch_evaluate_function` (lines {fn.lineno}–{fn.end_lineno}, "
            f"sha256 {sha}): which batches the user function is called with, and whether through `pool.map`. -/\n"
            "def batchCallsTx {α : Type} (vectorised : Bool) (chunksize : Option Int) (poolIsNone : Bool) (nPool : Option Nat)\n"
            "    (xs : List α) : Except Err (Bool × List (List α)) :=\n  " + term + "\n")
    return lean, dict(source=src_path, lines=[fn.lineno, fn.end_lineno], sha256=sha)


def gen(ctx):
    from . import core, py2lean
    try:
        lean, info = translate(core.REPO)
    except TranslationError as e:
        ctx.broken(f"translator: {e}", "Gen/BatchTx.lean was left as it was (the theorem is about the last translatable source)")
        return
    except (OSError, SyntaxError) as e:
        ctx.broken(f"translator: cannot read/parse the source: {e}")
        return
    text = ("import NessaiVerif.Model.Batch\n"
            "/-\nGENERATED by harness/c10_tx.py from the CURRENT nessai source — do not edit.\n"
            "C10: dispatch tree of batch_evaluate_function.\n-/\n"
            "namespace NessaiVerif.Gen.BatchTx\nopen NessaiVerif NessaiVerif.Np NessaiVerif.Batch\n\n" + lean
            + "\nend NessaiVerif.Gen.BatchTx\n")
    info["rewritten"] = py2lean.write_if_changed(core.LEAN / "NessaiVerif" / "Gen" / "BatchTx.lean", text)
    ctx.extra["generated"] = {"batch_evaluate_function": info}
