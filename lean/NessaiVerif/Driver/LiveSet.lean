import NessaiVerif.Model.LiveSet
import NessaiVerif.Driver.Parse
/-
Line protocol of the live-set model (token `ls`).  The driver is stateless: every line carries
its whole input.

  ls run <n> <cands> <ops>      ops ∈ {p,c,f,m}*  (populate / consume / finalise / m = only the first half of
                                consume_sample: a kill inside it, followed by a restart) run from `St.new n` on one
                                candidate stream; answer: one dump per op joined by " | ", then " || " and the
                                full nested / idx / hist lists.  An op that fails prints `err=<e>` and ends the run.
  ls step <n> <iter> <live> <cands>   one `consume` from the given live set
  ls insert <live> <pt>               `insert_live_point` alone (including the failing `index = 0` case)

  cand = id:stored:eval:logP:inB:popd    stored/eval ∈ {nan,-inf,<int>}   logP ∈ {f,-inf,nan,inf}
  pt   = id:logL:it:logP:inB
-/
namespace NessaiVerif.Driver.LiveSet
open NessaiVerif NessaiVerif.Parse NessaiVerif.LiveSet

def parseLV? (s : String) : Option LV :=
  if s == "nan" then some .nan
  else if s == "-inf" then some .ninf
  else (parseInt? s).map .fin

def parsePV? (s : String) : Option PV :=
  if s == "f" then some .fin
  else if s == "-inf" then some .ninf
  else if s == "nan" then some .nan
  else if s == "inf" then some .pinf
  else none

def showPV : PV → String
  | .fin => "f"
  | .ninf => "-inf"
  | .nan => "nan"
  | .pinf => "inf"

def parseCand? (s : String) : Option Cand :=
  match s.splitOn ":" with
  | [i, st, ev, lp, b, pd] => do
    let i ← parseNat? i
    let st ← parseLV? st
    let ev ← parseLV? ev
    let lp ← parsePV? lp
    let b ← parseBool? b
    let pd ← parseBool? pd
    some { id := i, stored := st, eval := ev, logP := lp, inB := b, popd := pd }
  | _ => none

def parsePt? (s : String) : Option Pt :=
  match s.splitOn ":" with
  | [i, l, it, lp, b] => do
    let i ← parseNat? i
    let l ← parseInt? l
    let it ← parseNat? it
    let lp ← parsePV? lp
    let b ← parseBool? b
    some { id := i, logL := l, it := it, logP := lp, inB := b }
  | _ => none

def showPt (p : Pt) : String :=
  s!"{p.id}:{p.logL}:{p.it}:{showPV p.logP}:{showBool p.inB}"

def showErr : Err → String
  | .shape => "err=shape"
  | .index => "err=index"
  | .exhausted => "err=exhausted"

def showOI : Option Int → String
  | none => "-inf"
  | some v => toString v

def dump (s : St) (left : Nat) : String :=
  let nlast := match s.nested.getLast? with
    | some p => toString p.id
    | none => "none"
  let ilast := match s.idx.getLast? with
    | some i => toString i
    | none => "none"
  s!"live={showList showPt s.live} nlen={s.nested.length} nlast={nlast} ilen={s.idx.length} ilast={ilast} " ++
  s!"min={showOI s.logLmin} max={showOI s.logLmax} it={s.iter} acc={s.accepted} rej={s.rejected} " ++
  s!"cnt={s.lastCount} left={left}"

def final (s : St) : String :=
  s!"nested={showList showPt s.nested} idx={showList toString s.idx} hist={showList (fun p => toString p.id) s.hist}"

def runOps : List Char → St → List Cand → List String → String
  | [], s, _, acc => " | ".intercalate acc.reverse ++ " || " ++ final s
  | op :: ops, s, cands, acc =>
    let r : Option (Except Err (St × List Cand)) :=
      if op == 'p' then some (populate s cands)
      else if op == 'c' then some (consume s cands)
      else if op == 'f' then some (.ok (finalise s, cands))
      else if op == 'm' then some (match beginConsume s with
        | some m => .ok (m, cands)
        | none => .error .index)
      else none
    match r with
    | none => "bad-op"
    | some (.error e) => " | ".intercalate ((showErr e) :: acc).reverse ++ " || " ++ final s
    | some (.ok (s', rest)) => runOps ops s' rest (dump s' rest.length :: acc)

def handle (toks : List String) : String :=
  match toks with
  | ["run", n, cands, ops] =>
    match parseNat? n, parseList? parseCand? cands with
    | some n, some cands => runOps ops.toList (St.new n) cands []
    | _, _ => "bad-op"
  | ["step", n, it, live, cands] =>
    match parseNat? n, parseNat? it, parseList? parsePt? live, parseList? parseCand? cands with
    | some n, some it, some live, some cands =>
      match consume { St.new n with live := live, iter := it } cands with
      | .error e => showErr e
      | .ok (s, rest) =>
        let i := match s.idx.getLast? with
          | some i => toString i
          | none => "none"
        s!"live={showList showPt s.live} i={i} cnt={s.lastCount} rej={s.rejected - 1} min={showOI s.logLmin} left={rest.length}"
    | _, _, _, _ => "bad-op"
  | ["insert", live, p] =>
    match parseList? parsePt? live, parsePt? p with
    | some live, some p =>
      match insertLive live p with
      | .error e => showErr e
      | .ok (l, i) => s!"ok {showList (fun q => toString q.id) l} {i}"
    | _, _ => "bad-op"
  | _ => "bad-op"

end NessaiVerif.Driver.LiveSet
