import NessaiVerif.Model.Quadrature
import NessaiVerif.Proofs.Quadrature
import NessaiVerif.Proofs.InformationReal
import NessaiVerif.Proofs.QuadBracket
import NessaiVerif.Gen.Increment
import NessaiVerif.Gen.Trapezoid
import Mathlib.Analysis.SpecialFunctions.Log.Basic
/-
C02 — evidence and posterior weights equal the documented nested-sampling quadrature.
Property theorems only (helper lemmas live in Proofs/Quadrature.lean).

The model (Model/Quadrature.lean) is the code of `_NSIntegralState`, `NestedSampler.finalise`'s
hand-over loop and `compute_weights` in the linear domain (`L = exp logL`, `X = exp log_vol`,
`t = exp logt`); `evidence`/`weights` are the documented quadrature.  All theorems hold for every
linearly ordered field `K` (ℚ: what the driver runs; ℝ: what the floats approximate), every length,
every live-point schedule and every shrinkage function `shrink : Nat → K` (both expectation modes).

SCOPE — what is proved here and what is NOT.
* Proved (exact arithmetic): the algebraic content of the property — which volumes, which rectangle
  weights, which trapezoid with which opening/closing points, incremental = one-pass = documented
  quadrature for every schedule, start at 1 / strict decrease of the volumes, scaling (= shift in log
  space) of the evidence with unchanged weights, positivity.
* NOT proved, checked by the harness only (harness/c02.py, on generated inputs, against the exact `Rat`
  execution of these very definitions and a 60-digit mpmath evaluation):
    - "agree to floating-point accuracy" (|Δ| ≤ 1e-9·max(1,|v|) between float64 results and exact values),
    - "without overflow or underflow for magnitudes up to at least 1e5",
    - "adding c shifts the float log-evidence by exactly c" (to a few ulps of |c|).
  The Lean model is the linear-domain READING of the log-space code: the float operations `logaddexp`,
  `logsubexp`, `log1p`, `exp`, `logsumexp`, `cumsum` are replaced by `+`, `-`, `1 - t`, `*`, `Σ`, cumulative
  product; their rounding, overflow and underflow behaviour is not modelled.
* Domain: live counts `n ≥ 1` (for `nlive = 0` the code divides by zero / produces NaN whereas a field has
  `1/0 = 0`), and statements about weights assume `evidence ≠ 0` (Python gives NaN at `Z = 0` where a field
  gives `x/0 = 0`).  Theorems quantifying over schedules therefore carry `1 ≤ n` hypotheses, also where the
  algebra does not need them.
-/
namespace NessaiVerif.C02
open NessaiVerif.Quad

variable {K : Type} [Field K]

/-- Prior volumes start at `X = 1` (log-volume 0), whatever the shrinkages. -/
theorem vols_head (ts : List K) : (vols ts).head? = some 1 := rfl

/-- If every shrinkage factor lies strictly between 0 and 1, the prior volumes are strictly
decreasing (every earlier volume exceeds every later one) and stay in `(0, 1]`;
appending the closing point `X = 0` keeps the sequence strictly decreasing. -/
theorem vols_strictAnti [LinearOrder K] [IsStrictOrderedRing K] (ts : List K) (h : Unit01 ts) :
    (vols ts).Pairwise (fun a b => b < a) ∧ (∀ x ∈ vols ts, 0 < x ∧ x ≤ 1) ∧
      (closedX ts).Pairwise (fun a b => b < a) := by
  refine ⟨volsFrom_pairwise 1 one_pos ts h, ?_, closed_vols_pairwise ts h⟩
  intro x hx
  simp only [vols, volsFrom, List.mem_cons] at hx
  rcases hx with rfl | hx
  · exact ⟨one_pos, le_refl _⟩
  · exact ⟨(cumprodFrom_bounds 1 one_pos ts h x hx).1, le_of_lt (cumprodFrom_bounds 1 one_pos ts h x hx).2⟩

example := vols_strictAnti [(1 : ℚ) / 2, 2 / 3] unit01_example

/-- The hypothesis `t < 1` is needed: with `t = 1` two consecutive volumes are equal. -/
theorem vols_strictAnti_fails_without :
    ¬ (vols [(1 : Rat)]).Pairwise (fun a b => b < a) := by decide +kernel

/-- expectation = "t": for every `n ≥ 1` the shrinkage `1/(1 + 1/n)` equals `n/(n+1)` and lies in (0,1). -/
theorem t_mode_in_unit [LinearOrder K] [IsStrictOrderedRing K] (n : Nat) (hn : 1 ≤ n) :
    (tOfN n : K) = (n : K) / ((n : K) + 1) ∧ 0 < (tOfN n : K) ∧ (tOfN n : K) < 1 := by
  have hpos : (0 : K) < n := by exact_mod_cast hn
  have e : (tOfN n : K) = (n : K) / ((n : K) + 1) := by
    unfold tOfN; field_simp
  refine ⟨e, ?_, ?_⟩
  · rw [e]; positivity
  · rw [e, div_lt_one (by positivity)]; linarith

example := t_mode_in_unit (K := ℚ) 5 (by decide)

/-- expectation = "logt": for every `n ≥ 1` the shrinkage `exp(-1/n)` lies in (0,1), and its
logarithm is the documented `-1/n`. -/
theorem logt_mode_in_unit (n : Nat) (hn : 1 ≤ n) :
    0 < Real.exp (-1 / (n : ℝ)) ∧ Real.exp (-1 / (n : ℝ)) < 1 ∧
      Real.log (Real.exp (-1 / (n : ℝ))) = -1 / (n : ℝ) := by
  have hpos : (0 : ℝ) < n := by exact_mod_cast hn
  refine ⟨Real.exp_pos _, ?_, Real.log_exp _⟩
  rw [Real.exp_lt_one_iff]
  have : (0 : ℝ) < 1 / n := by positivity
  have e : -1 / (n : ℝ) = -(1 / n) := by ring
  linarith

example := logt_mode_in_unit 5 (by decide)

/-- expectation = "t" in log space: `log t = -log(1 + 1/n)`, the documented `-log1p(1/n)`. -/
theorem t_mode_log (n : Nat) :
    Real.log (tOfN n : ℝ) = -Real.log (1 + 1 / (n : ℝ)) := by
  unfold tOfN
  rw [one_div, Real.log_inv]

/-- Log space ↔ linear domain: the logarithms of the model's volumes are `0` followed by the
cumulative sums of the log-shrinkages — exactly `log_vols = [0.0]; logw += logt; log_vols.append(logw)`. -/
theorem log_vols_eq_cumsum (ts : List ℝ) (h : ∀ t ∈ ts, 0 < t) :
    (vols ts).map Real.log = 0 :: cumsumFrom 0 (ts.map Real.log) := by
  have key : ∀ (w : ℝ), 0 < w → ∀ ts : List ℝ, (∀ t ∈ ts, 0 < t) →
      (cumprodFrom w ts).map Real.log = cumsumFrom (Real.log w) (ts.map Real.log) := by
    intro w hw ts
    induction ts generalizing w with
    | nil => intro _; rfl
    | cons t ts ih =>
      intro h
      have ht := h t (by simp)
      simp only [cumprodFrom, List.map_cons, cumsumFrom]
      rw [Real.log_mul (ne_of_gt hw) (ne_of_gt ht)]
      congr 1
      rw [ih (w * t) (mul_pos hw ht) (fun u hu => h u (by simp [hu])),
        Real.log_mul (ne_of_gt hw) (ne_of_gt ht)]
  simp only [vols, volsFrom, List.map_cons, Real.log_one]
  rw [key 1 one_pos ts h, Real.log_one]

example := log_vols_eq_cumsum [Real.exp (-1 / 2), Real.exp (-1)]
  (by intro t ht; simp at ht; rcases ht with rfl | rfl <;> exact Real.exp_pos _)

/-- The live counts seen by the integral state (k dead points, then `NestedSampler.finalise`
handing over n live points with `nlive - i`) are exactly what `compute_weights` builds by
overwriting the last n entries of a constant schedule — for every k and n ≥ 1. -/
theorem schedule_eq (len k n : Nat) (hn : 1 ≤ n) (h : len = k + n) :
    scheduleOnePass len n = .ok (scheduleIncr k n) := by
  subst h
  rw [scheduleOnePass_of_le _ _ hn (by omega)]
  simp [scheduleIncr]

example := schedule_eq 5 3 2 (by decide) (by decide)

/-- `compute_weights` needs at least `nlive` samples: with fewer (and nlive ≥ 2) NumPy's slice
assignment fails, so the property's quantifier "length ≥ nlive" cannot be dropped. -/
theorem schedule_eq_fails_without (shrink : Nat → K) (a b : K) :
    computeWeights shrink [a, b] (.int 3) = .error .valueErr := rfl

/-- **Incremental = one pass.**  After ANY sequence of `increment(L, nlive)` calls the state holds:
the recorded live counts, the likelihoods behind the opening `L = 0`, the volumes `1, t₁, t₁t₂, …`,
and a running evidence equal to the rectangle rule `Σ Lᵢ (Xᵢ₋₁ - Xᵢ)` evaluated in one pass. -/
theorem incr_eq_rectOnePass (shrink : Nat → K) (base : Nat) (args : List (K × Option Nat))
    (_hpos : ∀ m ∈ resolved base args, 1 ≤ m) :
    let s := (St.init base : St K).incrMany shrink args
    let ls := args.map (·.1)
    let ts := (resolved base args).map shrink
    s.ns = resolved base args ∧ s.Ls = 0 :: ls ∧ s.Xs = vols ts ∧ s.Z = rectOnePass ls (vols ts) := by
  obtain ⟨_, _, h3, h4, h5, h6⟩ := state_closed shrink base args
  exact ⟨h5, h6, h3, h4⟩

example := incr_eq_rectOnePass (K := ℚ) tOfN 2 [(1, none), (3, some 5)] (by decide)
example : ((St.init 2 : St Rat).incrMany tOfN [(1, none), (3, some 5)]).Z
    = rectOnePass [1, 3] (vols [tOfN 2, tOfN 5]) := by decide +kernel

/-- The sampler's state (dead points consumed with the base live count, then the live points handed
over by `NestedSampler.finalise`) has the schedule `n,…,n,n,n-1,…,1`, volumes that are the products
of its shrinkages, and the one-pass rectangle evidence. -/
theorem sampler_spec (shrink : Nat → K) (n : Nat) (_hn : 1 ≤ n) (dead live : List K)
    (hlive : live.length = n) :
    let s := sampler shrink n dead live
    let ts := (scheduleIncr dead.length n).map shrink
    s.ns = scheduleIncr dead.length n ∧ s.Ls = 0 :: (dead ++ live) ∧ s.Xs = vols ts ∧
      s.Z = rectOnePass (dead ++ live) (vols ts) ∧
      s.finalise = evidence (dead ++ live) ts ∧ s.postW = weights (dead ++ live) ts := by
  have hr : resolved n ((dead.map fun L => ((L, none) : K × Option Nat)) ++
      (live.zipIdx.map fun p => (p.1, some (n - (0 + p.2))))) = scheduleIncr dead.length n := by
    rw [resolved_append, loop_counts n 0 n live (by omega), hlive]
    have := consume_eq (St.init n : St K) dead
    simp only [St.init] at this
    rw [this]; rfl
  have hl : ((dead.map fun L => ((L, none) : K × Option Nat)) ++
      (live.zipIdx.map fun p => (p.1, some (n - (0 + p.2))))).map (·.1) = dead ++ live := by
    rw [List.map_append, loop_vals, List.map_map]
    simp [Function.comp_def]
  have h := state_closed shrink n ((dead.map fun L => ((L, none) : K × Option Nat)) ++
      (live.zipIdx.map fun p => (p.1, some (n - (0 + p.2)))))
  simp only [hr, hl, ← sampler_eq_incrMany] at h
  obtain ⟨h1, h2, h3, h4, h5, h6⟩ := h
  exact ⟨h5, h6, h3, h4, h1, h2⟩

example := sampler_spec (K := ℚ) tOfN 2 (by decide) [1] [2, 4] rfl

/-- **Incremental state = one-pass `compute_weights`** (integer `nlive`): for every number of dead
points and every `n ≥ 1`, `finalise()` and `log_posterior_weights` of the sampler's state are exactly
the evidence and weights `compute_weights` returns for the stored samples — both are the documented
quadrature `evidence`/`weights` on the schedule `n,…,n,n,n-1,…,1`. -/
theorem state_eq_compute_weights (shrink : Nat → K) (n : Nat) (hn : 1 ≤ n) (dead live : List K)
    (hlive : live.length = n) :
    computeWeights shrink (dead ++ live) (.int n) =
      .ok ((sampler shrink n dead live).finalise, (sampler shrink n dead live).postW) ∧
    (sampler shrink n dead live).finalise =
      evidence (dead ++ live) ((scheduleIncr dead.length n).map shrink) := by
  obtain ⟨_, _, _, _, hf, hw⟩ := sampler_spec shrink n hn dead live hlive
  refine ⟨?_, hf⟩
  rw [hf, hw]
  have hne : dead ++ live ≠ [] := by
    intro h
    have : (dead ++ live).length = 0 := by rw [h]; rfl
    rw [List.length_append] at this; omega
  obtain ⟨last, hlast⟩ : ∃ last, (dead ++ live).getLast? = some last := by
    cases h : (dead ++ live).getLast? with
    | none => exact absurd (List.getLast?_eq_none_iff.mp h) hne
    | some x => exact ⟨x, rfl⟩
  have hD : (dead ++ live).getLastD 0 = last := by
    rw [List.getLastD_eq_getLast?, hlast]; rfl
  unfold computeWeights
  simp only [schedule_eq (dead ++ live).length dead.length n hn (by simp [hlive]), hlast]
  simp only [evidence, weights, closedL, closedX, vols, volsFrom, hD]
  rfl

example := state_eq_compute_weights (K := ℚ) tOfN 2 (by decide) [1] [2, 4] rfl
example : (computeWeights tOfN [(1 : Rat), 2, 4] (.int 2)).toOption =
    some ((sampler tOfN 2 [1] [2, 4]).finalise, (sampler tOfN 2 [1] [2, 4]).postW) := by decide +kernel

/-- The hand-over must cover exactly `n` live points: a state finalised with fewer live points
than `nlive` does not agree with `compute_weights`. -/
theorem state_eq_compute_weights_fails_without :
    (computeWeights tOfN [(1 : Rat), 2] (.int 2)).toOption ≠
      some ((sampler tOfN 2 [1] [2]).finalise, (sampler tOfN 2 [1] [2]).postW) := by decide +kernel

/-- **Incremental state = one-pass `compute_weights`** (array-valued `nlive`): for ANY per-iteration
schedule of live counts, feeding `increment(Lᵢ, nlive=nᵢ)` and finalising gives exactly what
`compute_weights(samples, nlive=array)` returns. -/
theorem state_eq_compute_weights_array (shrink : Nat → K) (base : Nat) (Ls : List K) (ns : List Nat)
    (hlen : ns.length = Ls.length) (hne : Ls ≠ []) (_hpos : ∀ m ∈ ns, 1 ≤ m) :
    let s := (St.init base : St K).incrMany shrink (Ls.zip (ns.map some))
    computeWeights shrink Ls (.arr ns) = .ok (s.finalise, s.postW) ∧
      s.finalise = evidence Ls (ns.map shrink) ∧ s.postW = weights Ls (ns.map shrink) ∧
      s.Xs = vols (ns.map shrink) := by
  obtain ⟨hr, hl⟩ := resolved_zip_some base Ls ns hlen
  have h := state_closed shrink base (Ls.zip (ns.map some))
  simp only [hr, hl] at h
  obtain ⟨h1, h2, h3, _, _, _⟩ := h
  refine ⟨?_, h1, h2, h3⟩
  rw [h1, h2]
  obtain ⟨last, hlast⟩ : ∃ last, Ls.getLast? = some last := by
    cases h : Ls.getLast? with
    | none => exact absurd (List.getLast?_eq_none_iff.mp h) hne
    | some x => exact ⟨x, rfl⟩
  have hD : Ls.getLastD 0 = last := by
    rw [List.getLastD_eq_getLast?, hlast]; rfl
  unfold computeWeights
  simp only [hlen, hlast]
  simp only [evidence, weights, closedL, closedX, vols, volsFrom, hD]
  simp

example := state_eq_compute_weights_array (K := ℚ) tOfN 4 [1, 2] [3, 7] rfl (by simp) (by decide)

/-- `get_logx_live_points(n)`, evaluated after the dead points, predicts exactly the volumes that the
hand-over of the `n` live points then appends to `log_vols`. -/
theorem logx_live_points_eq (shrink : Nat → K) (n : Nat) (_hn : 1 ≤ n) (dead live : List K)
    (hlive : live.length = n) :
    (sampler shrink n dead live).Xs =
      (consume shrink (St.init n) dead).Xs ++ (consume shrink (St.init n : St K) dead).logxLive shrink n := by
  have hloop := incrMany_spec shrink (consume shrink (St.init n : St K) dead)
    (live.zipIdx.map fun p => (p.1, some (n - (0 + p.2))))
  have hbase : (consume shrink (St.init n : St K) dead).base = n :=
    (incrMany_spec shrink (St.init n : St K) (dead.map fun L => (L, none))).1
  obtain ⟨_, _, _, h4, _, _⟩ := hloop
  unfold sampler
  rw [finaliseLoopFrom_eq, h4, hbase, loop_counts n 0 n live (by omega), hlive]
  rfl

example := logx_live_points_eq (K := ℚ) tOfN 2 (by decide) [1] [2, 4] rfl
example : (sampler tOfN 2 [(1 : Rat)] [2, 4]).Xs = [1, 2 / 3, 4 / 9, 2 / 9] := by decide +kernel

/-- **Shift property, linear form.**  Multiplying every likelihood by `c ≠ 0` (adding `log c` to every
log-likelihood) multiplies the evidence by `c` and leaves every posterior weight unchanged — for the
documented quadrature, for `compute_weights` (any `nlive` argument, errors preserved) and for the
incremental state after any sequence of increments. -/
theorem scale_invariance (shrink : Nat → K) (c : K) (hc : c ≠ 0) :
    (∀ ls ts : List K, evidence (ls.map (c * ·)) ts = c * evidence ls ts ∧
        weights (ls.map (c * ·)) ts = weights ls ts) ∧
    (∀ (samples : List K) (nl : NLive), computeWeights shrink (samples.map (c * ·)) nl =
        (computeWeights shrink samples nl).map fun r => (c * r.1, r.2)) ∧
    (∀ (base : Nat) (args : List (K × Option Nat)), (∀ m ∈ resolved base args, 1 ≤ m) →
        let s := (St.init base : St K).incrMany shrink args
        let s' := (St.init base : St K).incrMany shrink (args.map fun a => (c * a.1, a.2))
        s'.finalise = c * s.finalise ∧ s'.postW = s.postW ∧ s'.Xs = s.Xs ∧ s'.Z = c * s.Z) := by
  refine ⟨fun ls ts => ⟨evidence_map_mul c ls ts, weights_map_mul c hc ls ts⟩, ?_, ?_⟩
  · intro samples nl
    unfold computeWeights
    simp only [List.length_map]
    split
    · simp [Except.map]
    · simp only [List.getLast?_map]
      cases hl : samples.getLast? with
      | none => simp [Except.map]
      | some last =>
        have hD : samples.getLast?.getD 0 = last := by rw [hl]; rfl
        have e1 : [0] ++ List.map (fun x => c * x) samples ++ [c * last] =
            (closedL samples).map (c * ·) := by simp [closedL, hD]
        have e2 : [0] ++ samples ++ [last] = closedL samples := by simp [closedL, hD]
        simp only [Option.map_some, Except.map, e1, e2, trap_map_mul, postWeights_map_mul c hc]
  · intro base args _
    have h := state_closed shrink base args
    have h' := state_closed shrink base (args.map fun a => (c * a.1, a.2))
    have hres : resolved base (args.map fun a => ((c * a.1, a.2) : K × Option Nat)) = resolved base args := by
      simp [resolved]
    have hls : (args.map fun a => ((c * a.1, a.2) : K × Option Nat)).map (·.1) =
        (args.map (·.1)).map (c * ·) := by simp
    simp only [hres, hls] at h'
    obtain ⟨a1, a2, a3, a4, _, _⟩ := h
    obtain ⟨b1, b2, b3, b4, _, _⟩ := h'
    refine ⟨?_, ?_, ?_, ?_⟩
    · rw [b1, a1, evidence_map_mul]
    · rw [b2, a2, weights_map_mul c hc]
    · rw [b3, a3]
    · rw [b4, a4]; exact dot_map_mul_left c _ _

example := scale_invariance (K := ℚ) tOfN 2 (by norm_num)

/-- Without `c ≠ 0` the weights are not preserved (everything collapses to zero). -/
theorem scale_invariance_fails_without :
    weights ([(1 : Rat), 2].map ((0 : Rat) * ·)) [1 / 2, 1 / 2] ≠ weights [(1 : Rat), 2] [1 / 2, 1 / 2] := by
  decide +kernel

/-- **Shift property, log form** (ℝ): adding a constant `a` to every log-likelihood shifts the
log-evidence by exactly `a` and leaves the posterior weights unchanged, whenever the evidence is positive. -/
theorem log_evidence_shift (a : ℝ) (ls ts : List ℝ) (hpos : 0 < evidence ls ts) :
    Real.log (evidence (ls.map (Real.exp a * ·)) ts) = a + Real.log (evidence ls ts) ∧
      weights (ls.map (Real.exp a * ·)) ts = weights ls ts := by
  refine ⟨?_, weights_map_mul _ (ne_of_gt (Real.exp_pos a)) ls ts⟩
  rw [evidence_map_mul, Real.log_mul (ne_of_gt (Real.exp_pos a)) (ne_of_gt hpos), Real.log_exp]

example := log_evidence_shift 3 [1, 2] [Real.exp (-1 / 2), Real.exp (-1)] (by
  simp [evidence, closedL, closedX, vols, volsFrom, cumprodFrom, trap, avgs, diffs, dot]
  have h1 := Real.exp_pos (-1 / 2); have h2 := Real.exp_pos (-1 : ℝ)
  have h3 : Real.exp (-1 / 2) < 1 := by rw [Real.exp_lt_one_iff]; norm_num
  have h4 : Real.exp (-1 : ℝ) < 1 := by rw [Real.exp_lt_one_iff]; norm_num
  nlinarith [mul_pos h1 h2, mul_pos h1 (sub_pos.mpr h4)])

/-- With non-negative likelihoods, at least one of them positive, and shrinkages in (0,1) the evidence
is strictly positive — the log-evidence is finite in exact arithmetic (leading `-inf` log-likelihoods
are harmless). -/
theorem evidence_pos [LinearOrder K] [IsStrictOrderedRing K] (ls ts : List K) (hL : ∀ l ∈ ls, 0 ≤ l) (ht : Unit01 ts)
    (hlen : ls.length = ts.length) (hex : ∃ l ∈ ls, 0 < l) : 0 < evidence ls ts :=
  Quad.evidence_pos ls ts hL ht (le_of_eq hlen) hex

example := evidence_pos [(0 : ℚ), 3] [1 / 2, 2 / 3] nonneg_example unit01_example rfl ⟨3, by simp, by norm_num⟩

/-- If every likelihood is zero (every log-likelihood `-inf`) the evidence is zero: positivity needs a
positive likelihood. -/
theorem evidence_pos_fails_without : evidence [(0 : Rat), 0] [1 / 2, 1 / 2] = 0 := by decide +kernel

/-- Posterior weights are non-negative (log-weights are real or `-inf`, never undefined) whenever the
evidence is positive.  The hypothesis `0 < evidence` (supplied by `evidence_pos`) is a domain guard: at
`Z = 0` the Python code returns NaN weights, whereas a field has `x / 0 = 0`. -/
theorem postW_nonneg [LinearOrder K] [IsStrictOrderedRing K] (ls ts : List K) (hL : ∀ l ∈ ls, 0 ≤ l)
    (ht : Unit01 ts) (_hZ : 0 < evidence ls ts) :
    ∀ w ∈ weights ls ts, 0 ≤ w :=
  weights_nonneg ls ts hL ht

example := postW_nonneg [(0 : ℚ), 3] [1 / 2, 2 / 3] nonneg_example unit01_example
  (evidence_pos _ _ nonneg_example unit01_example rfl ⟨3, by simp, by norm_num⟩)

/-- The posterior weights are the rectangle terms `Lᵢ (Xᵢ₋₁ - Xᵢ)` over the trapezoidal evidence;
hence (evidence ≠ 0) they sum to (rectangle evidence)/(trapezoidal evidence) — close to, but not exactly, one. -/
theorem sum_postW_eq_rect_div_trap (ls ts : List K) (hZ : evidence ls ts ≠ 0) :
    weights ls ts = List.zipWith (fun l d => l * d / evidence ls ts) ls (diffs (vols ts)) ∧
      sumL (weights ls ts) * evidence ls ts = rectOnePass ls (vols ts) := by
  refine ⟨weights_eq ls ts, ?_⟩
  rw [weights_eq, sumL_zipWith_div, div_mul_cancel₀ _ hZ]
  rfl

example := sum_postW_eq_rect_div_trap [(0 : ℚ), 3] [1 / 2, 2 / 3]
  (ne_of_gt (evidence_pos _ _ nonneg_example unit01_example rfl ⟨3, by simp, by norm_num⟩))

/-- **Volumes start at 1 and strictly decrease — any schedule.**  After ANY sequence of `increment` calls
whose live counts are all ≥ 1, with a shrinkage in (0,1) for every live count ≥ 1, `log_vols` has one entry
per call plus the initial one, starts at `X = 1` (log-volume 0), is strictly decreasing and stays in (0,1]. -/
theorem state_vols_start_decrease [LinearOrder K] [IsStrictOrderedRing K] (shrink : Nat → K)
    (hs : ∀ m, 1 ≤ m → 0 < shrink m ∧ shrink m < 1) (base : Nat) (args : List (K × Option Nat))
    (hpos : ∀ m ∈ resolved base args, 1 ≤ m) :
    let s := (St.init base : St K).incrMany shrink args
    s.Xs.head? = some 1 ∧ s.Xs.length = args.length + 1 ∧ s.Xs.Pairwise (fun a b => b < a) ∧
      ∀ x ∈ s.Xs, 0 < x ∧ x ≤ 1 := by
  obtain ⟨_, _, h3, _, _, _⟩ := state_closed shrink base args
  have hu := unit01_of_sched shrink hs _ hpos
  obtain ⟨h1, h2, _⟩ := vols_strictAnti _ hu
  simp only [h3]
  refine ⟨rfl, ?_, h1, h2⟩
  simp [length_vols, resolved]

example := state_vols_start_decrease (K := ℚ) tOfN (fun m hm => (t_mode_in_unit m hm).2) 2
  [(1, none), (3, some 5)] (by decide)

/-- **Volumes start at 1 and strictly decrease — the sampler's schedule.**  For the schedule the sampler
produces (k dead points consumed with `n` live points, then the `n ≥ 1` live points handed over with
`n, n-1, …, 1`), the stored volumes start at `X = 1` (log-volume 0), are strictly decreasing, stay in (0,1],
and there is one per sample plus the initial one — for any shrinkage that lies in (0,1) on live counts ≥ 1. -/
theorem sampler_vols_start_decrease [LinearOrder K] [IsStrictOrderedRing K] (shrink : Nat → K)
    (hs : ∀ m, 1 ≤ m → 0 < shrink m ∧ shrink m < 1) (n : Nat) (hn : 1 ≤ n) (dead live : List K)
    (hlive : live.length = n) :
    let s := sampler shrink n dead live
    s.Xs.head? = some 1 ∧ s.Xs.length = dead.length + n + 1 ∧ s.Xs.Pairwise (fun a b => b < a) ∧
      ∀ x ∈ s.Xs, 0 < x ∧ x ≤ 1 := by
  obtain ⟨_, _, h3, _, _, _⟩ := sampler_spec shrink n hn dead live hlive
  have hu := unit01_of_sched shrink hs _ (scheduleIncr_pos dead.length n hn)
  obtain ⟨h1, h2, _⟩ := vols_strictAnti _ hu
  simp only [h3]
  refine ⟨rfl, ?_, h1, h2⟩
  simp [length_vols, length_scheduleIncr]

example := sampler_vols_start_decrease (K := ℚ) tOfN (fun m hm => (t_mode_in_unit m hm).2) 2 (by decide)
  [1] [2, 4] rfl

/-- **…in both expectation modes.**  The property's clause "log prior volumes start at 0 and strictly
decrease" for the sampler's schedule with expectation = "t" (`t = 1/(1+1/n)`, any ordered field) and with
expectation = "logt" (`t = exp(-1/n)`, ℝ). -/
theorem sampler_vols_start_decrease_both_modes [LinearOrder K] [IsStrictOrderedRing K] (n : Nat) (hn : 1 ≤ n) :
    (∀ (dead live : List K), live.length = n →
      let s := sampler (tOfN : Nat → K) n dead live
      s.Xs.head? = some 1 ∧ s.Xs.Pairwise (fun a b => b < a)) ∧
    (∀ (dead live : List ℝ), live.length = n →
      let s := sampler (fun m : Nat => Real.exp (-1 / (m : ℝ))) n dead live
      s.Xs.head? = some 1 ∧ s.Xs.Pairwise (fun a b => b < a)) := by
  refine ⟨fun dead live hl => ?_, fun dead live hl => ?_⟩
  · obtain ⟨a, _, b, _⟩ := sampler_vols_start_decrease (K := K) tOfN
      (fun m hm => (t_mode_in_unit m hm).2) n hn dead live hl
    exact ⟨a, b⟩
  · obtain ⟨a, _, b, _⟩ := sampler_vols_start_decrease (K := ℝ) (fun m : Nat => Real.exp (-1 / (m : ℝ)))
      (fun m hm => ⟨(logt_mode_in_unit m hm).1, (logt_mode_in_unit m hm).2.1⟩) n hn dead live hl
    exact ⟨a, b⟩

example := sampler_vols_start_decrease_both_modes (K := ℚ) 3 (by decide)

/-- The documented quadrature written out for two samples: opening point `(L=0, X=1)`,
trapezoids between consecutive points, closing point `(L=L₂, X=0)`; rectangle posterior weights. -/
example (L₁ L₂ t₁ t₂ : K) :
    evidence [L₁, L₂] [t₁, t₂] =
      (0 + L₁) / 2 * (1 - t₁) + (L₁ + L₂) / 2 * (t₁ - t₁ * t₂) + (L₂ + L₂) / 2 * (t₁ * t₂ - 0) ∧
    weights [L₁, L₂] [t₁, t₂] =
      [L₁ * (1 - t₁) / evidence [L₁, L₂] [t₁, t₂], L₂ * (t₁ - t₁ * t₂) / evidence [L₁, L₂] [t₁, t₂]] := by
  constructor
  · simp [evidence, closedL, closedX, vols, volsFrom, cumprodFrom, trap, avgs, diffs, dot]
    ring
  · simp [weights_eq, vols, volsFrom, cumprodFrom, diffs]

/-! ## Discretisation error of the quadrature -/

/-- **The evidence is bracketed by the Riemann sums, with an explicit width.**  For non-decreasing likelihoods
`0 ≤ L₁ ≤ … ≤ L_N` and shrinkages in (0,1) (any schedule, both expectation modes), the documented trapezoid evidence is
the mean of the lower sum `Σ L_{i-1} ΔX_i` and the upper sum `Σ L_i ΔX_i` over the volume intervals (closing interval
`[0, X_N]` included) — so it lies between them — and the two differ by at most `D · L_N`, where `D` is any bound on the
interval widths: the exact-arithmetic discretisation error of the estimate is at most half of that.  (The rectangle sum
accumulated during sampling is the upper sum without the closing interval.) -/
theorem evidence_bracket [LinearOrder K] [IsStrictOrderedRing K] (ls ts : List K) (hlen : ls.length = ts.length)
    (hL : NonDecr ([0] ++ ls)) (ht : Unit01 ts) (D : K)
    (hD : ∀ d ∈ diffs (closedX ts), d ≤ D) :
    let lo := lowerSum (closedL ls) (diffs (closedX ts))
    let up := upperSum (closedL ls) (diffs (closedX ts))
    evidence ls ts = (lo + up) / 2 ∧ lo ≤ evidence ls ts ∧ evidence ls ts ≤ up ∧
      up - lo ≤ D * ls.getLastD 0 := by
  have hpw := closed_vols_pairwise ts ht
  have hpos := diffs_pos_of_pairwise (closedX ts) hpw
  have hdl : (diffs (closedX ts)).length + 1 = (closedL ls).length := by
    rw [diffs_length]
    simp [closedX, closedL, length_vols, hlen]
  have hnd : NonDecr (closedL ls) := by
    have := nonDecr_append_last ([0] ++ ls) hL
    cases ls with
    | nil => simpa [closedL] using this
    | cons a rest => simpa [closedL, List.getLastD] using this
  have hD0 : 0 ≤ D := by
    have hne : diffs (closedX ts) ≠ [] := by
      intro h0; rw [h0] at hdl; simp [closedL] at hdl
    obtain ⟨d, hd⟩ := List.exists_mem_of_ne_nil _ hne
    exact le_trans (le_of_lt (hpos d hd)) (hD d hd)
  have avg := dot_avgs (closedL ls) (diffs (closedX ts)) hdl
  have br := upper_sub_lower_le D hD0 (closedL ls) (diffs (closedX ts)) hdl hnd
    (fun x hx => ⟨le_of_lt (hpos x hx), hD x hx⟩)
  have hhead : (closedL ls).headD 0 = 0 := by simp [closedL]
  have hlast : (closedL ls).getLastD 0 = ls.getLastD 0 := by
    cases ls with
    | nil => simp [closedL]
    | cons a rest => simp [closedL, List.getLastD]
  simp only [hhead, hlast, sub_zero] at br
  have e : evidence ls ts = (lowerSum (closedL ls) (diffs (closedX ts)) + upperSum (closedL ls) (diffs (closedX ts))) / 2 := by
    unfold evidence trap; exact avg
  refine ⟨e, ?_, ?_, br.2.1⟩
  · rw [e]; linarith [br.1]
  · rw [e]; linarith [br.1]

/-- applied: two dead points `1 ≤ 3` with shrinkage 1/2: widths 1/2, 1/4, 1/4 ≤ 1/2, the evidence 11/8 lies between the
lower sum 1/2 and the upper sum 9/4… and within `D · L_N / 2 = 3/4` of both -/
example := evidence_bracket (K := ℚ) [1, 3] [1 / 2, 1 / 2] rfl (by simp [NonDecr])
  (by intro t h; simp at h; subst h; norm_num) (1 / 2)
  (by intro d hd; simp [closedX, vols, volsFrom, cumprodFrom, diffs] at hd; rcases hd with rfl | rfl | rfl <;> norm_num)

/-! ## The information `H` and the reported uncertainty `sqrt(H / nlive)`

`Model/Information.lean` is the recursion of `_NSIntegralState.increment` for `info`, with the logarithm as a
parameter `lg`.  Pos = every likelihood positive (finite log-likelihood), every shrinkage in (0,1). -/
section information
open NessaiVerif.Info

/-- **The code's information recursion computes the textbook information** `H = Σ (W_i/Z) lg L_i - lg Z`
(Skilling), for every logarithm function `lg`, every ordered field and every number of increments ≥ 2: one value
is appended per increment except the first (`oldZ = -inf`; the second increment starts from the first point's own
information `lg L₁ - lg Z₁`), and the accumulated `Z` is the rectangle sum. -/
theorem info_eq_textbook [LinearOrder K] [IsStrictOrderedRing K] (lg : K → K) (p q : K × K)
    (rest : List (K × K)) (h : Pos (p :: q :: rest)) :
    let s := (ISt.init : ISt K).run lg (p :: q :: rest)
    s.last = textbook lg (p :: q :: rest) ∧ s.info.length = 2 + rest.length ∧
      s.Z = sumL (terms 1 (p :: q :: rest)) := by
  obtain ⟨L1, t1⟩ := p
  obtain ⟨L, t⟩ := q
  have hp := h.head
  have hq := h.tail.head
  simp only at hp hq
  simp only [ISt.run, first_step]
  rw [second_step lg L1 t1 L t hp.1 hp.2.2 hq.1 hq.2.2 hp.2.1]
  have hZ1 : (0 : K) < 1 * L1 * (1 - t1) := mul_pos (mul_pos one_pos hp.1) (by linarith [hp.2.2])
  have hW : (0 : K) < 1 * t1 * L * (1 - t) := mul_pos (mul_pos (mul_pos one_pos hp.2.1) hq.1) (by linarith [hq.2.2])
  have hZ2 : (0 : K) < 0 + 1 * L1 * (1 - t1) + 1 * t1 * L * (1 - t) := by linarith
  have r := run_from lg
    (⟨0 + 1 * L1 * (1 - t1) + 1 * t1 * L * (1 - t), 1 * t1 * t,
      [0, ((1 * L1 * (1 - t1)) * lg L1 + (1 * t1 * L * (1 - t)) * lg L) / (0 + 1 * L1 * (1 - t1) + 1 * t1 * L * (1 - t))
          - lg (0 + 1 * L1 * (1 - t1) + 1 * t1 * L * (1 - t))], L⟩ : ISt K)
    ((1 * L1 * (1 - t1)) * lg L1 + (1 * t1 * L * (1 - t)) * lg L) hZ2
    (mul_pos (mul_pos one_pos hp.2.1) hq.2.1) (by simp)
    (by simp [ISt.last]) rest h.tail.tail
  simp only at r
  refine ⟨?_, ?_, ?_⟩
  · rw [r.1]; simp only [textbook, terms, sumL, weightedLogs, zero_add]
    congr 1
    · congr 1 <;> ring
    · congr 1; ring
  · rw [r.2.2]; simp
  · rw [r.2.1]; simp only [terms, sumL, zero_add]; ring

example := info_eq_textbook (K := ℚ) (fun x => x) (1, 1 / 2) (2, 1 / 2) [(3, 1 / 2)] (by
  intro p hp; simp at hp; rcases hp with rfl | rfl | rfl <;> norm_num)

/-- the model run on two increments (at `lg = id`, exact rationals): `info = [0, 1/2]`, i.e.
`(W₁·1 + W₂·2)/Z - Z = (1/2 + 1)/1 - 1` -/
example : ((ISt.init : ISt ℚ).run (fun x => x) [(1, 1 / 2), (2, 1 / 2)]).info = [0, 1 / 2] := by
  norm_num [ISt.run, ISt.step, ISt.init]

/-- **The textbook information is non-negative** (Gibbs' inequality; ℝ, real logarithm, any run of ≥ 1
increments with positive likelihoods and shrinkages in (0,1)): `H ≥ -log(1 - X_N) ≥ 0`, where
`Σ π_i = 1 - X_N` is the prior mass already integrated.  With it `sqrt(H / nlive)` is a real number. -/
theorem textbook_info_nonneg (steps : List (ℝ × ℝ)) (h : Pos steps) (hne : steps ≠ []) (nlive : Nat) :
    0 ≤ textbook Real.log steps ∧ errSq (textbook Real.log steps) nlive ≠ none := by
  have := textbook_ge steps h hne
  have h0 : 0 ≤ textbook Real.log steps := by linarith [this.1, this.2]
  refine ⟨h0, ?_⟩
  simp [errSq, not_lt.mpr h0]

example := textbook_info_nonneg [(1, 1 / 2), (1, 1 / 2)]
  (by intro p hp; simp at hp; rcases hp with rfl | rfl <;> norm_num) (by simp) 10

/-- **The reported uncertainty is never NaN**: over ℝ with the real logarithm, after ≥ 2 increments with positive
likelihoods and shrinkages in (0,1) — ties and flat likelihoods included — the information accumulated by the code is
non-negative, so `log_evidence_error = sqrt(info / nlive)` is a real number. -/
theorem code_info_nonneg (p q : ℝ × ℝ) (rest : List (ℝ × ℝ)) (h : Pos (p :: q :: rest)) (nlive : Nat) :
    0 ≤ ((ISt.init : ISt ℝ).run Real.log (p :: q :: rest)).last ∧
      errSq ((ISt.init : ISt ℝ).run Real.log (p :: q :: rest)).last nlive ≠ none := by
  have e := (info_eq_textbook Real.log p q rest h).1
  rw [e]
  exact textbook_info_nonneg _ h (by simp) nlive

example := code_info_nonneg (1, 1 / 2) (1, 1 / 2) [] (by
  intro p hp; simp at hp; rcases hp with rfl | rfl <;> norm_num) 10

/-- **Why the first point matters** (the defect repaired by `fix: start the information estimate from the first
point`): `closedForm` is the value of the recursion when the first dead point's own information is dropped
(continuing from `info = 0`, as the code did); it differs from the textbook value by `(W₁/Z)(lg W₁ - lg L₁)` — over ℝ
`p₁ · log(1 - t₁) < 0` — … -/
theorem info_without_first_point (lg : K → K) (L t : K) (rest : List (K × K)) :
    closedForm lg ((L, t) :: rest) =
      textbook lg ((L, t) :: rest) +
        (1 * L * (1 - t)) * (lg (1 * L * (1 - t)) - lg L) / sumL (terms 1 ((L, t) :: rest)) := by
  simp only [closedForm, textbook, terms, sumL, weightedLogs]
  ring

/-- … and it can be negative, which made the reported uncertainty NaN: two dead points of equal likelihood with
shrinkage 1/2 give `(2/3) log(1/2) - log(3/4) < 0` (reproduced on the real `_NSIntegralState` before the repair:
`nlive = 1000`, 8000 equal likelihoods, `info = -0.0066`, `log_evidence_error = nan`). -/
theorem info_without_first_point_can_be_negative :
    closedForm Real.log [((1 : ℝ), 1 / 2), (1, 1 / 2)] < 0 ∧
      errSq (closedForm Real.log [((1 : ℝ), 1 / 2), (1, 1 / 2)]) 10 = none := by
  have key : closedForm Real.log [((1 : ℝ), 1 / 2), (1, 1 / 2)] < 0 := by
    have h1 : Real.log ((1 / 2 : ℝ) ^ 2) < Real.log ((3 / 4 : ℝ) ^ 3) :=
      Real.log_lt_log (by norm_num) (by norm_num)
    rw [Real.log_pow, Real.log_pow] at h1
    have e : closedForm Real.log [((1 : ℝ), 1 / 2), (1, 1 / 2)]
        = (2 / 3) * Real.log (1 / 2) - Real.log (3 / 4) := by
      simp only [closedForm, terms, sumL, weightedLogs]
      norm_num
      ring
    rw [e]
    push_cast at h1
    linarith
  exact ⟨key, by unfold errSq; rw [if_pos key]⟩

/-- the information state and the quadrature state of `Model/Quadrature.lean` accumulate the same evidence
when fed the same `increment` calls (the two models describe one object) -/
theorem info_state_Z_eq_quadrature_Z [DecidableEq K] (lg : K → K) (shrink : Nat → K) (n : Nat)
    (calls : List (K × Option Nat)) :
    ((ISt.init : ISt K).run lg (calls.map fun c => (c.1, shrink (c.2.getD n)))).Z =
      ((St.init n).incrMany shrink calls).Z := by
  rw [(run_Z lg _ _).1, (quad_Z shrink _ _).1]
  rfl

example := info_state_Z_eq_quadrature_Z (K := ℚ) (fun x => x) tOfN 2 [(1, none), (2, some 1)]

end information

/-! ## The source of `_NSIntegralState.increment`, regenerated on every run, IS the model

`Gen/Increment.lean` is produced by `harness/pylog2lean.py` from the current text of `_NSIntegralState.increment`
(log space ↦ linear domain, statement by statement, `lg`/`ex` uninterpreted).  The two theorems below say that the generated
definition, projected onto the fields each hand-written model keeps, is that model's step — for every field, every
`lg`/`ex`, both expectations, every state, likelihood and optional live count.  All C02 theorems about `St.increment`
(evidence = rectangle rule, volumes, weights) and `ISt.step` (information = textbook `H`) are thereby theorems about the
source as it is now; an edit of `increment` that changes its meaning makes one of these two proofs fail. -/
section source
open NessaiVerif.Incr NessaiVerif.Info
variable {K : Type} [Field K] [DecidableEq K]

theorem increment_source_eq_quadrature_model (lg ex : K → K) (isLogt : Bool) (s : NSt K) (L : K) (nl : Option Nat) :
    (Gen.Increment.increment lg ex isLogt s L nl).toSt = s.toSt.increment (shrinkOf ex isLogt) L nl := by
  simp only [Gen.Increment.increment, NSt.toSt, St.increment, shrinkOf]
  cases isLogt <;> simp [sub_eq_add_neg]

theorem increment_source_eq_information_model (lg ex : K → K) (isLogt : Bool) (s : NSt K) (L : K) (nl : Option Nat) :
    (Gen.Increment.increment lg ex isLogt s L nl).toISt =
      s.toISt.step lg L (shrinkOf ex isLogt (nl.getD s.base)) := by
  simp only [Gen.Increment.increment, NSt.toISt, ISt.step, shrinkOf]
  cases isLogt <;> simp [sub_eq_add_neg]

/-- applied (non-vacuity): two increments of a fresh state with expectation "t", through the GENERATED definition,
give the evidence `L₁ (1 - t) + t L₂ (1 - t)` with `t = 2/3` (nlive = 2), at `K = ℚ` -/
example :
    ((Gen.Increment.increment (fun x => x) (fun x => x) false
        (Gen.Increment.increment (fun x => x) (fun x => x) false (NSt.init 2 : NSt ℚ) 1 none) 3 none).Z) = 1 := by
  norm_num [Gen.Increment.increment, NSt.init]

/-! ### the trapezoid, `finalise` and the posterior weights -/

theorem avgs_eq_zipWith (f : List K) :
    avgs f = (List.zipWith (· + ·) f.dropLast f.tail).map (fun x => x / (1 + 1)) := by
  induction f with
  | nil => rfl
  | cons a t ih =>
    cases t with
    | nil => rfl
    | cons b u => simp only [avgs, List.dropLast_cons₂, List.tail_cons, List.zipWith_cons_cons, List.map_cons, ih]

theorem diffs_eq_zipWith (X : List K) : diffs X = List.zipWith (· - ·) X.dropLast X.tail := by
  induction X with
  | nil => rfl
  | cons a t ih =>
    cases t with
    | nil => rfl
    | cons b u => simp only [diffs, List.dropLast_cons₂, List.tail_cons, List.zipWith_cons_cons, ih]

theorem dot_eq_sumL_zipWith (a b : List K) : dot a b = sumL (List.zipWith (· * ·) a b) := by
  induction a generalizing b with
  | nil => cases b <;> rfl
  | cons x xs ih =>
    cases b with
    | nil => rfl
    | cons y ys => simp only [dot, List.zipWith_cons_cons, sumL, ih]

/-- `Gen/Trapezoid.lean` is produced by `harness/pylogvec2lean.py` from the current text of `log_integrate_log_trap`
(`logaddexp` of neighbours minus `log 2`, `logsubexp` of neighbouring volumes, `logsumexp` of their sum): it is the model's
trapezoid `trap`, for every pair of vectors -/
theorem trapezoid_source_eq_model (f X : List K) : Gen.Trapezoid.log_integrate_log_trap f X = trap f X := by
  simp only [Gen.Trapezoid.log_integrate_log_trap, trap, avgs_eq_zipWith, diffs_eq_zipWith, dot_eq_sumL_zipWith]

/-- `_NSIntegralState.finalise` of the source (closing point: last likelihood repeated, volume 0) is the model's -/
theorem finalise_source_eq_model (s : St K) : Gen.Trapezoid.finalise s.Ls s.Xs = s.finalise := by
  simp only [Gen.Trapezoid.finalise, St.finalise, trapezoid_source_eq_model]

/-- `_NSIntegralState.log_posterior_weights` of the source is the model's `postW` -/
theorem posterior_weights_source_eq_model (s : St K) : Gen.Trapezoid.log_posterior_weights s.Ls s.Xs = s.postW := by
  simp only [Gen.Trapezoid.log_posterior_weights, St.postW, postWeights, trapezoid_source_eq_model, diffs_eq_zipWith,
    List.map_zipWith]

/-- `_NSIntegralState.get_logx_live_points` of the source (volumes of the remaining live points, both expectations) is the
model's `logxLive` with the shrinkage the source computes (`shrinkOf`); any other value of the lower-cased option leaves
`logt` unbound (`none`) -/
theorem logx_live_source_eq_model (ex : K → K) (s : St K) (n : Nat) (isLogt : Bool) :
    Gen.Trapezoid.get_logx_live_points ex s.w (if isLogt = true then "logt" else "t") n =
      some (s.logxLive (shrinkOf ex isLogt) n) := by
  cases isLogt
  · have h : ("t" : String) ≠ "logt" := by decide
    have e : (fun (k : Nat) => (1 : K) / (1 + 1 / (k : K))) = shrinkOf ex false := by
      funext k; simp [shrinkOf]
    simp only [Gen.Trapezoid.get_logx_live_points, St.logxLive, h, Bool.false_eq_true, if_false, if_true, e]
  · have e : (fun (k : Nat) => ex (-1 / (k : K))) = shrinkOf ex true := by
      funext k; simp [shrinkOf]
    simp only [Gen.Trapezoid.get_logx_live_points, St.logxLive, if_true, e]

/-- the volumes `compute_weights` builds: `np.zeros(n + 2)`, inner slice := cumulative sums, last := `-inf` -/
theorem one_pass_vols (cp : List K) (n : Nat) (h : cp.length = n) :
    (setInner (List.replicate (n + 2) (1 : K)) cp).dropLast ++ [0] = [1] ++ cp ++ [0] := by
  have h1 : (List.replicate (n + 2) (1 : K)).take 1 = [1] := by simp [List.replicate_succ]
  have h2 : (List.replicate (n + 2) (1 : K)).drop ((List.replicate (n + 2) (1 : K)).length - 1) = [1] := by
    simp [List.drop_replicate]
  simp only [setInner, h1, h2]
  rw [List.dropLast_concat]

/-- **`posterior.compute_weights` of the source is the model's `computeWeights`** for a per-iteration live-count array of the right
length and at least one sample (an empty sample array raises `IndexError` at `samples[-1]`: the model's `indexErr`), for both
spellings of the expectation; the schedule statement is the model's `scheduleOnePass` (pinned, tied by the correspondence) -/
theorem compute_weights_source_eq_model (ex : K → K) (samples : List K) (sched : List Nat) (isLogt : Bool)
    (hne : samples ≠ []) (hlen : sched.length = samples.length) :
    Gen.Trapezoid.compute_weights ex sched samples (if isLogt = true then "logt" else "t")
      = computeWeights (shrinkOf ex isLogt) samples (.arr sched) := by
  obtain ⟨last, hlast⟩ : ∃ l, samples.getLast? = some l := by
    cases h : samples.getLast? with
    | none => exact absurd (List.getLast?_eq_none_iff.mp h) hne
    | some l => exact ⟨l, rfl⟩
  have hgl : samples.getLastD 0 = last := by
    rw [List.getLastD_eq_getLast?, hlast]; rfl
  have hne' : ¬ (sched.length ≠ samples.length) := by simpa using hlen
  have hcp : ∀ ts : List K, ts.length = sched.length → (cumprodFrom (1 : K) ts).length = samples.length := by
    intro ts h
    have : ∀ (w : K) (l : List K), (cumprodFrom w l).length = l.length := by
      intro w l; induction l generalizing w with
      | nil => rfl
      | cons a t ih => simp [cumprodFrom, ih]
    rw [this, h, hlen]
  cases isLogt
  · have h : ("t" : String) ≠ "logt" := by decide
    have e : (fun (k : Nat) => (1 : K) / (1 + 1 / (k : K))) = shrinkOf ex false := by
      funext k; simp [shrinkOf]
    have hv := one_pass_vols (cumprodFrom 1 (sched.map (shrinkOf ex false))) samples.length (hcp _ (by simp))
    simp only [Gen.Trapezoid.compute_weights, computeWeights, h, Bool.false_eq_true, if_false, if_true, e, hne', hlast, hgl,
      hv, trapezoid_source_eq_model, postWeights, diffs_eq_zipWith, List.map_zipWith]
  · have e : (fun (k : Nat) => ex (-1 / (k : K))) = shrinkOf ex true := by
      funext k; simp [shrinkOf]
    have hv := one_pass_vols (cumprodFrom 1 (sched.map (shrinkOf ex true))) samples.length (hcp _ (by simp))
    simp only [Gen.Trapezoid.compute_weights, computeWeights, if_true, e, hne', hlast, hgl, if_false,
      hv, trapezoid_source_eq_model, postWeights, diffs_eq_zipWith, List.map_zipWith]

/-- the schedule statement of `compute_weights`, read with NumPy's tail-slice assignment, is the model's `scheduleOnePass`
(integer `nlive`: all four cases — `nlive = 0`, `nlive ≤ len`, the broadcast of a single entry, and the `ValueError`s) -/
theorem compute_weights_schedule_source_eq_model (len : Nat) (nl : NLive) :
    Gen.Trapezoid.compute_weights_schedule len nl =
      (match nl with
       | .int n => scheduleOnePass len n
       | .arr ns => if ns.length ≠ len then .error .valueErr else .ok ns) := by
  cases nl with
  | arr ns => rfl
  | int n =>
    have hcd : ∀ m, (countdown m).length = m := by
      intro m; induction m with
      | zero => rfl
      | succ m ih => simp [countdown, ih]
    simp only [Gen.Trapezoid.compute_weights_schedule, npAssignTail, scheduleOnePass, List.length_replicate, hcd]
    by_cases h0 : n = 0
    · subst h0
      by_cases hl : len = 0
      · subst hl; simp [countdown]
      · have : ¬ (0 = len) := fun h => hl h.symm
        simp [hl, this, countdown]
    · by_cases hle : n ≤ len
      · have hk : (if n = 0 ∨ len < n then len else n) = n := if_neg (by omega)
        rw [hk]
        simp [h0, hle]
      · have hk : (if n = 0 ∨ len < n then len else n) = len := if_pos (by omega)
        have h2 : ¬ (n = len) := by omega
        rw [hk, if_neg h2, if_neg h0, if_neg hle]
        by_cases hn1 : n = 1
        · subst hn1
          have : len = 0 := by omega
          subst this
          simp [countdown]
        · obtain ⟨m, rfl⟩ : ∃ m, n = m + 2 := ⟨n - 2, by omega⟩
          simp [countdown, hn1]

theorem finalise_loop_from {α : Type} (shrink : Nat → K) (n : Nat) (live : List (α × K)) (k : Nat) (s : St K) (nested : List α) :
    (live.zipIdx k).foldl (fun (acc : St K × List α) (ip : (α × K) × Nat) =>
        ((acc.1.increment shrink ip.1.2 (some (n - ip.2))), (acc.2 ++ [ip.1.1]))) (s, nested)
      = (finaliseLoopFrom shrink n k s (live.map (·.2)), nested ++ live.map (·.1)) := by
  induction live generalizing k s nested with
  | nil => simp [finaliseLoopFrom]
  | cons p ps ih =>
    simp only [List.zipIdx_cons, List.foldl_cons, List.map_cons, finaliseLoopFrom]
    rw [ih (k + 1)]
    simp [List.append_assoc]

/-- **the hand-over loop of `NestedSampler.finalise`, generated from the source, is the model's `finaliseLoopFrom`**: the integral
state sees the live points' likelihoods in order with live counts `nlive, nlive − 1, …`, and the points are appended to the nested
samples in that order (the loop C05's count and order theorems and `state_eq_compute_weights` are about) -/
theorem finalise_loop_source_eq_model {α : Type} (shrink : Nat → K) (n : Nat) (s : St K) (nested : List α) (live : List (α × K)) :
    Gen.Trapezoid.finalise_loop shrink n s nested live
      = (finaliseLoopFrom shrink n 0 s (live.map (·.2)), nested ++ live.map (·.1)) := by
  unfold Gen.Trapezoid.finalise_loop
  exact finalise_loop_from shrink n live 0 s nested

/-- composed with the theorems above: the source's hand-over loop, run on the state that consumed the dead points, yields exactly the
`sampler` state whose `finalise` / `postW` are what the source's one-pass `compute_weights` returns (`state_eq_compute_weights`) -/
theorem finalise_loop_source_is_sampler {α : Type} (shrink : Nat → K) (n : Nat) (dead : List K) (nested : List α) (live : List (α × K)) :
    (Gen.Trapezoid.finalise_loop shrink n (consume shrink (St.init n) dead) nested live).1 = sampler shrink n dead (live.map (·.2)) ∧
    (Gen.Trapezoid.finalise_loop shrink n (consume shrink (St.init n) dead) nested live).2 = nested ++ live.map (·.1) := by
  rw [finalise_loop_source_eq_model]
  exact ⟨rfl, rfl⟩

example : Gen.Trapezoid.get_logx_live_points (fun x => x) (1 : ℚ) "T" 3 = none := by
  simp [Gen.Trapezoid.get_logx_live_points]

example : Gen.Trapezoid.log_integrate_log_trap [(0 : ℚ), 2, 2] [1, 1 / 2, 0] = 3 / 2 := by
  norm_num [Gen.Trapezoid.log_integrate_log_trap, sumL]

end source

end NessaiVerif.C02
