"""C01 — the live set of the standard nested sampler evolves only by likelihood-constrained replacement."""
import contextlib
import io
import logging
import math
import os
import shutil
import signal
import tempfile
import time

PROPS_MODULE = "NessaiVerif.Props.C01"
MANIFEST = dict(
    text="TRANSLATION TIE: NestedSampler.insert_live_point is translated statement by statement from the current source (harness/pyarr2lean.py -> Gen/LiveSetTx.lean, Python/NumPy indexing semantics of Model/PySlice.lean validated against NumPy on every run) and theorem insert_live_point_source_eq_model proves the generated definition equal to the model's slice program for every live set and point (same result or same exception). "
         "Lean theorems over a literal model of NestedSampler.populate_live_points / yield_sample / insert_live_point "
         "(the searchsorted + slice-shift program, including its failure at index 0) / consume_sample / finalise, for every "
         "nlive >= 1, every initial draw stream, every candidate stream and every number of iterations (invariant + induction "
         "over steps): exactly n live points in ascending likelihood order; the removed point is the head and a minimum; the "
         "replacement is the first candidate passing `logP != -inf and logL > logLmin` and is strictly above the removed "
         "likelihood; live' = sorted-insert of it into the tail (every other point untouched, order kept); the recorded "
         "insertion index is the position it occupies (first among equals, in [0,n)); discarded likelihoods non-decreasing; "
         "nested ++ live is a permutation of initial ++ accepted (each discarded point recorded once, none lost); finalise "
         "appends the remaining points in order; finite prior / in-bounds carried from the candidate under the proposal "
         "contract (counter-example without it proved). The model is tied to the code on every run by (a) driving the REAL "
         "NestedSampler with a scripted proposal over generated candidate streams (ties with logLmin and with live points, "
         "-inf priors, NaN/-inf likelihoods, the falsy-0.0 re-evaluation quirk, pool-empty breaks) and diffing live set, "
         "nested record, indices, logLmin/logLmax, counters against the Lean model after every call, (b) the real "
         "insert_live_point alone including the index-0 failure, (c) complete real FlowSampler runs (rejection, analytic and "
         "flow proposals, checkpoint + kill + resume) whose every consume_sample is replayed through the Lean model; the "
         "property's predicates are also evaluated directly on every real step (oracle). Checkpoint/resume scope: the "
         "theorems treat consume_sample as one atomic step, so they cover checkpoints written at iteration boundaries "
         "(update_state, training at the top of the loop, end of run) — resumes from those are exercised and must pass, also "
         "with checkpoint_on_training=True. A checkpoint written INSIDE consume_sample is not covered and does break the "
         "property: machine-checked counter-example resume_mid_consume_breaks_inv on the model (whose beginConsume/consume are "
         "tied to the real code by kill-inside-consume scenarios), reproduced on the real code by a run killed right after a "
         "checkpoint_on_training checkpoint written from consume_sample -> check_state -> train_proposal and resumed from it "
         "(worst point recorded twice, one insertion index missing) = known finding "
         "NestedSampler.train_proposal:checkpoint_on_training:checkpoint-inside-consume_sample (F25; the signal-handler variant "
         "is F4 under C13).",
    note="Assumed: likelihoods are finite, -inf or NaN (no +inf); proposals return log-priors that are finite or -inf and finite "
         "only inside the bounds (the sampler itself only tests logP != -inf: run_prior_finite_fails_without); np.searchsorted on "
         "a sorted array = count of smaller elements; checkpoint/resume restores the pickled state (C12); the invariant is claimed "
         "only across checkpoints written at iteration boundaries — mid-iteration checkpoints (checkpoint_on_training inside "
         "consume_sample: F25, reproduced here as a known finding; signal handler inside consume_sample: F4/C13) are "
         "counter-examples, not exclusions.",
    technique="Lean 4 proof (loop invariant, induction over iterations) + source-to-Lean translation of insert_live_point re-proved equal to the model on every run + differential correspondence with the real sampler + trace replay",
    ref="5/C01")

from .core import in_box as core_in_box  # noqa: E402

_T = {}
KILL = object()
MID_KEY = "NestedSampler.train_proposal:checkpoint_on_training:checkpoint-inside-consume_sample"


def _nessai():
    """import the heavy modules once"""
    if _T:
        return _T
    os.environ.setdefault("TQDM_DISABLE", "1")
    import numpy as np
    import torch
    torch.set_num_threads(1)
    from nessai.livepoint import empty_structured_array
    from nessai.model import Model
    from nessai.proposal.base import Proposal
    from nessai.samplers.nestedsampler import NestedSampler
    logging.disable(logging.CRITICAL)

    class ScriptExhausted(Exception):
        pass

    class ScriptKill(Exception):
        """raised by the scripted proposal on its first draw: consume_sample is abandoned after the worst point was
        recorded and the iteration counted, before any replacement (what a mid-iteration checkpoint pickles)"""

    class ScriptModel(Model):
        """likelihood = the parameter `l`; in bounds <=> 0 <= b <= 1 (and id, l in their wide bounds)"""

        def __init__(self):
            self.names = ["id", "l", "b"]
            self.bounds = {"id": [0.0, 1e9], "l": [-1e6, 1e6], "b": [0.0, 1.0]}

        def new_point(self, N=1):
            x = empty_structured_array(N, names=self.names)
            x["id"] = np.random.uniform(0, 1e6, N)
            x["l"] = np.random.uniform(-1e3, 1e3, N)
            x["b"] = np.random.uniform(0, 1, N)
            return x

        def new_point_log_prob(self, x):
            return np.zeros(x.size)

        def log_prior(self, x):
            return np.log(self.in_bounds(x).astype(float))

        def log_likelihood(self, x):
            return x["l"]

    class Scripted(Proposal):
        """proposal.draw pops the next scripted record"""

        def __init__(self, model, queue=None):
            super().__init__(model)
            self.queue = queue if queue is not None else []
            self.populated = True
            self.populating = False
            self.draws = 0

        def draw(self, old):
            if not self.queue:
                raise ScriptExhausted()
            if self.queue[0] is KILL:
                self.queue.pop(0)
                raise ScriptKill()
            rec, popd = self.queue.pop(0)
            self.draws += 1
            self.populated = popd
            out = rec.copy()
            # a user proposal that writes its draw into the `old` it was handed (seeded change C01-hB)
            try:
                if isinstance(old, (np.ndarray, np.void)) and old.dtype == np.asarray(out).dtype:
                    for nm in old.dtype.names:
                        old[nm] = out[nm]
            except (ValueError, TypeError):
                pass
            return out

    class Gauss(Model):
        """deliberately ASYMMETRIC: every parameter has its own, disjoint prior range and its own likelihood width, so that
        a point whose parameter values end up in the wrong fields (seeded change C01-c: structured arrays are assigned by
        POSITION, not by name) is out of bounds and has a different likelihood"""

        def __init__(self, dims=2, bound=5.0):
            self.names = [f"x{i}" for i in range(dims)]
            self.centres = {n: 15.0 * i for i, n in enumerate(self.names)}
            self.widths = {n: 1.0 + 0.5 * i for i, n in enumerate(self.names)}
            # the dictionary is written in the REVERSE of the order of `names` (legal: it is keyed by name), with unequal,
            # overlapping-free intervals — a bounds test that pairs columns with dict values by position is then wrong
            # (seeded change C01-eA)
            self.bounds = {n: [self.centres[n] - bound - 0.25 * i, self.centres[n] + bound + 0.5 * i]
                           for i, n in reversed(list(enumerate(self.names)))}

        def log_prior(self, x):
            lp = np.log(self.in_bounds(x).astype(float))
            for n in self.names:
                lp = lp - np.log(self.bounds[n][1] - self.bounds[n][0])
            return lp

        def log_likelihood(self, x):
            ll = np.zeros(x.size) if x.ndim else 0.0
            for n in self.names:
                ll = ll - 0.5 * ((x[n] - self.centres[n]) / self.widths[n]) ** 2
            return ll

    _T.update(np=np, torch=torch, empty=empty_structured_array, NestedSampler=NestedSampler, Proposal=Proposal,
              ScriptModel=ScriptModel, Scripted=Scripted, ScriptExhausted=ScriptExhausted, ScriptKill=ScriptKill,
              Gauss=Gauss)
    return _T


# ---------------------------------------------------------------------------------------------- tokens
def lv(x):
    if math.isnan(x):
        return "nan"
    if x == -math.inf:
        return "-inf"
    assert x == int(x), x
    return str(int(x))


def pv(x):
    if math.isnan(x):
        return "nan"
    if x == -math.inf:
        return "-inf"
    if x == math.inf:
        return "inf"
    return "f"


def oi(x):
    return "-inf" if x == -math.inf else str(int(x))


class Script:
    """builds records/tokens for scripted candidates; a candidate is (id, stored, ev, logP, b, popd)"""

    def __init__(self):
        T = _nessai()
        self.model = T["ScriptModel"]()
        self.T = T

    def record(self, c):
        id_, stored, ev, logp, b, popd = c
        x = self.T["empty"](1, names=self.model.names)
        x["id"] = id_
        x["l"] = ev
        x["b"] = b
        x["logP"] = logp
        x["logL"] = stored
        return x[0]

    def token(self, c):
        rec = self.record(c)
        inb = bool(self.model.in_bounds(rec))
        return f"{c[0]}:{lv(c[1])}:{lv(c[2])}:{pv(c[3])}:{int(inb)}:{int(c[5])}"

    def pt_token(self, p):
        return (f"{int(p['id'])}:{int(p['logL'])}:{int(p['it'])}:{pv(float(p['logP']))}:"
                f"{int(bool(self.model.in_bounds(p)))}")


def _exc(T, e):
    if isinstance(e, T["ScriptExhausted"]):
        return "err=exhausted"
    if isinstance(e, ValueError):
        return "err=shape"
    if isinstance(e, IndexError):
        return "err=index"
    return "err=" + type(e).__name__


def new_sampler(T, model, nlive, out, queue):
    np = T["np"]
    ns = T["NestedSampler"](model, nlive=nlive, output=out, plot=False, checkpointing=False, resume_file=None,
                            uninformed_proposal=T["Scripted"], uninformed_proposal_kwargs=dict(queue=queue),
                            maximum_uninformed=np.inf, uninformed_acceptance_threshold=0.0, seed=1234)
    return ns


# ---------------------------------------------------------------------------------------------- oracle
def same(a, b):
    """bitwise equality of two structured records / arrays"""
    return a.dtype == b.dtype and a.shape == b.shape and a.tobytes() == b.tobytes()


def oracle_step(ctx, np, model, snap, ns, case, prior_ok=True, bounds_ok=True, tag="consume_sample"):
    """The property's predicates on one real consume_sample.  `snap` = state before the call.
    Returns the position of the new point (or None)."""
    live0, nn0, it0, ni0 = snap["live"], snap["nnested"], snap["iter"], snap["nidx"]
    live1 = ns.live_points
    n = ns.nlive
    ok = True

    def fail(sub, what):
        nonlocal ok
        ok = False
        ctx.oracle_fail(f"{tag}:{sub}", what, case)

    if live1 is None or live1.shape != (n,):
        fail("size", f"live set has shape {None if live1 is None else live1.shape}, nlive={n}")
        return None
    l1 = live1["logL"]
    if np.any(np.isnan(l1)) or np.any(np.diff(l1) < 0):
        fail("sorted", f"live set not in ascending likelihood order: {l1.tolist()}")
    if ns.iteration != it0 + 1:
        fail("iteration", f"iteration went {it0} -> {ns.iteration}")
    if len(ns.nested_samples) != nn0 + 1:
        fail("recorded-once", f"nested samples grew by {len(ns.nested_samples) - nn0} in one iteration")
        return None
    worst = ns.nested_samples[-1]
    if not same(np.asarray(worst), np.asarray(live0[0])):
        fail("removed-is-head", "the recorded discarded point is not the previous live_points[0]")
    if not (live0["logL"][0] <= live0["logL"]).all():
        fail("removed-is-minimum", "the removed point was not the minimum of the live set")
    if float(ns.logLmin) != float(live0["logL"][0]):
        fail("logLmin", f"logLmin={ns.logLmin} but removed logL={live0['logL'][0]}")
    if len(ns.insertion_indices) != ni0 + 1:
        fail("index-recorded-once", f"insertion indices grew by {len(ns.insertion_indices) - ni0}")
        return None
    idx = int(ns.insertion_indices[-1])
    if not (0 <= idx < n):
        fail("index-range", f"insertion index {idx} outside [0,{n})")
        return None
    new = live1[idx]
    rest = np.delete(live1, idx)
    if not same(rest, live0[1:]):
        fail("untouched", f"apart from the point at the recorded index {idx} the live set is not the previous one minus its "
                          f"head: before={live0['logL'].tolist()} after={l1.tolist()}")
    if any(same(np.asarray(new), np.asarray(p)) for p in live0):
        fail("index-position", f"the point at the recorded index {idx} is an old live point, not the replacement")
    if not (float(new["logL"]) > float(live0["logL"][0])):
        fail("strict", f"replacement logL {float(new['logL'])} is not strictly greater than the removed {float(live0['logL'][0])}")
    if prior_ok and not np.isfinite(float(new["logP"])):
        fail("prior-finite", f"replacement has log-prior {float(new['logP'])}")
    if bounds_ok and not (bool(core_in_box(model, new)) and bool(model.in_bounds(new))):
        fail("in-bounds", "replacement lies outside the prior bounds")
    if tag.endswith("(run)") and bounds_ok and np.isfinite(float(new["logL"])):
        # "a likelihood strictly greater than the removed one": the likelihood OF THE STORED POINT, not merely the number
        # stored next to it (the two differ when parameter values land in the wrong fields)
        with np.errstate(all="ignore"):
            true_l = float(np.asarray(model.log_likelihood(new)).reshape(-1)[0])
        if not (abs(true_l - float(new["logL"])) <= 1e-9 * max(1.0, abs(true_l))):
            fail("likelihood-of-stored-point", f"the stored replacement has logL={float(new['logL'])!r} recorded but the model's "
                                                f"likelihood at its stored parameters is {true_l!r}")
    if nn0 and ns.nested_samples[-2] is not None and float(ns.nested_samples[-2]["logL"]) > float(worst["logL"]):
        fail("nested-monotone", "discarded likelihoods decreased")
    return idx


# ---------------------------------------------------------------------------------------------- (a) scripted
class Gen:
    """adaptive generator of candidate streams from a small integer alphabet"""

    def __init__(self, rng, boundary):
        self.rng = rng
        self.boundary = boundary
        self.next_id = 1

    def nid(self):
        self.next_id += 1
        return self.next_id - 1

    def cand(self, stored, ev=None, logp=None, b=0.5, popd=True):
        if ev is None:
            ev = stored
        if logp is None:
            logp = self.rng.choice([0.0, -1.5, -3.25])
        return (self.nid(), float(stored), float(ev), float(logp), b, popd)

    def rejected(self, m, hi):
        """a candidate the filter must refuse when logLmin = m (m may be -inf)"""
        r = self.rng
        finite = m != -math.inf
        kinds = ["prior-inf"] * 3
        if finite:
            kinds += ["tie-min"] * 5 + ["below"] * 2 + ["quirk0-low"]
        if self.boundary:
            kinds += ["nan", "ninf", "quirk0-nan", "quirk0-ninf"]
        k = r.choice(kinds)
        popd = r.random() > 0.25
        above = (int(m) if finite else -6) + r.randint(1, 4)
        if k == "prior-inf":
            return k, self.cand(above, logp=-math.inf, b=r.choice([0.5, 2.0]), popd=popd)
        if k == "tie-min":
            if m == 0:  # stored 0.0 is re-evaluated
                return k, self.cand(0, ev=0, popd=popd)
            return k, self.cand(m, popd=popd)
        if k == "below":
            v = int(m) - r.randint(1, 3)
            return k, self.cand(v, ev=v, popd=popd)
        if k == "quirk0-low":
            # stored 0.0 is falsy: the code re-evaluates, and the evaluation is not above logLmin
            return k, self.cand(0, ev=int(m) - r.randint(0, 2), popd=popd)
        if k == "nan":
            return k, self.cand(math.nan, ev=above, popd=popd)
        if k == "ninf":
            return k, self.cand(-math.inf, ev=above, popd=popd)
        if k == "quirk0-nan":
            return k, self.cand(0, ev=math.nan, popd=popd)
        return k, self.cand(0, ev=-math.inf, popd=popd)

    def accepted(self, m, live_vals, lo, hi):
        """a candidate the filter must accept when logLmin = m"""
        r = self.rng
        finite = m != -math.inf
        if finite:
            kinds = ["min+1"] * 3 + ["rand"] * 3 + ["max+1"]
            ties = sorted(set(v for v in live_vals if v > m))
            if ties:
                kinds += ["tie-live"] * 4
            k = r.choice(kinds)
            if k == "min+1":
                v = int(m) + 1
            elif k == "tie-live":
                v = int(r.choice(ties))
            elif k == "max+1":
                v = int(max(live_vals)) + 1
            else:
                v = int(m) + r.randint(1, max(2, int(max(live_vals)) - int(m) + 2))
        else:
            k = "init"
            v = r.randint(lo, hi)
        popd = r.random() > 0.1
        q = r.random()
        if self.boundary and q < 0.08:
            return k + "/prior-nan", self.cand(v if v != 0 else 1, logp=r.choice([math.nan, math.inf]), popd=popd), False
        if self.boundary and q < 0.16:
            return k + "/out-of-bounds", self.cand(v if v != 0 else 1, b=2.0, popd=popd), False
        if q < 0.3 and v != 0:
            return k + "/quirk0", self.cand(0, ev=v, popd=popd), True
        return k, self.cand(v, ev=v, popd=popd), True


def run_scripted(ctx, sc, n, ops, gen=None, fixed=None, boundary=False, label="scripted"):
    """Drive the real sampler through `ops`; candidates from the adaptive generator `gen` or the recorded list `fixed`.
    Returns the case dict."""
    T = sc.T
    np = T["np"]
    out = tempfile.mkdtemp(prefix="c01-")
    queue = []
    kinds = []
    stream = []  # every candidate handed to the sampler, in order
    try:
        ns = new_sampler(T, sc.model, n, out, queue)
        _init_cheap(ns)
        prop = ns.proposal
        if fixed is not None:
            for c in fixed:
                c = tuple(c)
                stream.append(c)
                queue.append((sc.record(c), bool(c[5])))
        impl_dumps = []
        hist = []
        cnt = 0
        contract = True
        case = dict(layer=label, n=n, ops=ops, boundary=boundary, cands=stream)
        lo = ctx.rng.randint(-6, 0) if gen else 0
        hi = lo + (ctx.rng.choice([1, 2, 3, 6, 12]) if gen else 0)

        def final():
            nested = ",".join(sc.pt_token(p) for p in ns.nested_samples)
            idx = ",".join(str(int(i)) for i in ns.insertion_indices)
            return f"nested=[{nested}] idx=[{idx}] hist=[{','.join(str(h) for h in hist)}]"

        def dump():
            live = "" if ns.live_points is None else ",".join(sc.pt_token(p) for p in ns.live_points)
            nlast = "none" if not ns.nested_samples else str(int(ns.nested_samples[-1]["id"]))
            ilast = "none" if not ns.insertion_indices else str(int(ns.insertion_indices[-1]))
            return (f"live=[{live}] nlen={len(ns.nested_samples)} nlast={nlast} ilen={len(ns.insertion_indices)} "
                    f"ilast={ilast} min={oi(float(ns.logLmin))} max={oi(float(ns.logLmax))} it={ns.iteration} "
                    f"acc={ns.accepted} rej={ns.rejected} cnt={cnt} left=@{len(stream) - len(queue)}@")

        fin = final()
        done_ops = ""
        for op in ops:
            fin = final()
            step_kinds = []
            if gen is not None:
                new = []
                if op == "p":
                    stored = 0
                    while stored < n:
                        if gen.rng.random() < (0.3 if boundary else 0.15):
                            k, c = gen.rejected(-math.inf, hi)
                            new.append(c)
                            step_kinds.append("populate:" + k)
                        else:
                            k, c, okc = gen.accepted(-math.inf, [], lo, hi)
                            new.append(c)
                            step_kinds.append("populate:" + k)
                            if math.isfinite(c[3]):
                                stored += 1
                elif op == "c":
                    m = float(ns.live_points["logL"][0])
                    vals = [float(v) for v in ns.live_points["logL"]]
                    nrej = gen.rng.choice([0, 0, 0, 1, 1, 2, 3, 7])
                    for _ in range(nrej):
                        k, c = gen.rejected(m, hi)
                        new.append(c)
                        step_kinds.append("consume:rej:" + k)
                    k, c, okc = gen.accepted(m, vals, lo, hi)
                    new.append(c)
                    step_kinds.append("consume:acc:" + k)
                for c in new:
                    stream.append(c)
                    queue.append((sc.record(c), bool(c[5])))
            snap = None
            if op == "c" and ns.live_points is not None:
                snap = dict(live=ns.live_points.copy(), nnested=len(ns.nested_samples), iter=ns.iteration,
                            nidx=len(ns.insertion_indices), nested=[np.asarray(p).copy() for p in ns.nested_samples])
            d0 = prop.draws
            try:
                with contextlib.redirect_stderr(io.StringIO()):
                    if op == "p":
                        ns.populate_live_points()
                        cnt = 0
                    elif op == "c":
                        ns.consume_sample()
                    elif op == "m":
                        # kill inside consume_sample (before the first draw returns), then carry on with the same state:
                        # pickling + resuming is the identity, so this is "resume from a mid-iteration checkpoint"
                        queue.insert(0, KILL)
                        try:
                            ns.consume_sample()
                        except T["ScriptKill"]:
                            pass
                    elif op == "f":
                        before_live = ns.live_points.copy()
                        before_nested = [np.asarray(p).copy() for p in ns.nested_samples]
                        ns.finalise()
                    else:
                        raise AssertionError(op)
            except Exception as e:  # noqa
                err = _exc(T, e)
                impl_dumps.append(err)
                done_ops += op
                if err != "err=exhausted":
                    ctx.oracle_fail({"p": "populate_live_points", "c": "consume_sample", "f": "finalise"}[op] + ":raised",
                                    f"{type(e).__name__}: {e} on a stream the property covers",
                                    dict(case, ops=done_ops, cands=list(stream)))
                # (a refused acceptable candidate — `exhausted` — is not a C01 violation by itself: it shows up as a
                #  model/implementation disagreement)
                break
            done_ops += op
            cdict = dict(case, ops=done_ops, cands=list(stream))
            if op == "c":
                draws = prop.draws - d0
                cnt = round(1.0 / ns.acceptance_history[-1]) if len(ns.acceptance_history) else draws
                last = stream[len(stream) - len(queue) - 1]
                # the proposal contract (log-prior finite or -inf; finite only inside the bounds) is broken on purpose by
                # some boundary candidates: the prior / bounds predicates are not demanded of those
                prior_ok = not (math.isnan(last[3]) or last[3] == math.inf)
                bounds_ok = prior_ok and not (math.isfinite(last[3]) and last[4] != 0.5)
                idx = oracle_step(ctx, np, sc.model, snap, ns, cdict, prior_ok=prior_ok, bounds_ok=bounds_ok)
                for a, b in zip(snap["nested"], ns.nested_samples[:-1]):
                    if not same(a, np.asarray(b)):
                        ctx.oracle_fail("consume_sample:recorded-once", "an earlier nested sample was modified", cdict)
                        break
                if idx is not None:
                    new = ns.live_points[idx]
                    hist.append(int(new["id"]))
                    drawn = [c for c in stream[len(stream) - len(queue) - draws: len(stream) - len(queue)]]
                    match = [c for c in drawn if c[0] == int(new["id"])]
                    if not match:
                        ctx.oracle_fail("consume_sample:replacement-not-proposed",
                                        "the inserted point is none of the candidates drawn in this iteration", cdict)
                    else:
                        c = match[0]
                        if float(new["b"]) != c[4] or not (float(new["logP"]) == c[3] or (math.isnan(c[3]) and math.isnan(float(new["logP"])))):
                            ctx.oracle_fail("consume_sample:replacement-modified",
                                            "the inserted point differs from the proposed candidate", cdict)
            elif op == "p":
                lp = ns.live_points
                if lp is None or lp.shape != (n,):
                    ctx.oracle_fail("populate_live_points:size", "wrong number of live points", cdict)
                else:
                    if np.any(np.diff(lp["logL"]) < 0) or not np.all(np.isfinite(lp["logL"])):
                        ctx.oracle_fail("populate_live_points:sorted", f"initial live set not sorted/finite: {lp['logL'].tolist()}", cdict)
                    if not np.all(np.isfinite(lp["logP"])):
                        ctx.oracle_fail("populate_live_points:prior-finite", "initial live point with non-finite prior", cdict)
                    if len(set(lp["id"].tolist())) != n:
                        ctx.oracle_fail("populate_live_points:distinct", "a draw was stored twice", cdict)
            elif op == "f":
                ns_n = ns.nested_samples
                want = before_nested + [np.asarray(p) for p in before_live]
                if len(ns_n) != len(want) or any(not same(np.asarray(a), np.asarray(b)) for a, b in zip(ns_n, want)):
                    ctx.oracle_fail("finalise:record", "nested samples after finalise are not the previous record followed by "
                                                       "the live points in order", cdict)
                ll = np.array([float(p["logL"]) for p in ns_n])
                if np.any(np.diff(ll) < 0):
                    ctx.oracle_fail("finalise:nested-monotone", "final nested likelihoods decrease somewhere", cdict)
                ids = [int(p["id"]) for p in ns_n]
                if len(set(ids)) != len(ids):
                    ctx.oracle_fail("finalise:recorded-once", "a point is recorded twice in the final nested samples", cdict)
                if len(ids) != ns.iteration + n:
                    ctx.oracle_fail("finalise:recorded-once", f"{len(ids)} nested samples after {ns.iteration} iterations with nlive={n}", cdict)
            impl_dumps.append(dump())
            for k in step_kinds:
                kinds.append(k)
            fin = final()
        case["ops"] = done_ops
        # `left` = candidates of the whole stream not yet drawn (the stream is generated adaptively, op by op)
        import re
        impl_dumps = [re.sub(r"left=@(\d+)@", lambda m: f"left={len(stream) - int(m.group(1))}", d) for d in impl_dumps]
        impl = " | ".join(impl_dumps) + " || " + fin
        line = f"ls run {n} [{','.join(sc.token(c) for c in stream)}] {done_ops}"
        return case, line, impl, kinds
    finally:
        shutil.rmtree(out, ignore_errors=True)


def _init_cheap(ns):
    """the real `NestedSampler.initialise(live_points=False)` (initialises both proposals, selects the uninformed
    one); 1.7 s the first time in a process, 10 ms afterwards"""
    with contextlib.redirect_stderr(io.StringIO()):
        ns.initialise(live_points=False)


def diff_run(ctx, line, impl, case):
    out = ctx.model([line])[0]
    if out == impl:
        return True
    mo, io_ = out.split(" | "), impl.split(" | ")
    k = next((i for i, (a, b) in enumerate(zip(mo, io_)) if a != b), min(len(mo), len(io_)))
    ctx.disagree(f"model != real NestedSampler at op #{k} of '{case['ops']}'",
                 {"line": line if len(line) < 4000 else line[:4000] + "...", "model": mo[k] if k < len(mo) else None,
                  "impl": io_[k] if k < len(io_) else None, "case": case if len(case["cands"]) < 400 else dict(case, cands="(long)")})
    return False


def scripted(ctx, budget_steps, oracle_only=False):
    sc = Script()
    ns_quick = [1, 2, 3, 5, 10, 10, 11, 13, 20, 30]
    total = 0
    lines, impls, cases = [], [], []
    while total < budget_steps:
        n = ctx.rng.choice(ns_quick if ctx.quick else ns_quick + [50, 100])
        boundary = ctx.rng.random() < 0.3
        k = ctx.rng.randint(0, 4 * n + 5)
        ops = "p" + "c" * k + ("f" if n >= 10 else "")
        gen = Gen(ctx.rng, boundary)
        case, line, impl, kinds = run_scripted(ctx, sc, n, ops, gen=gen, boundary=boundary,
                                               label="scripted-boundary" if boundary else "scripted")
        total += k + 1
        for kd in kinds:
            ctx.hist[kd] += 1
        # one case per call of the real code
        nd = len(impl.split(" || ")[0].split(" | "))
        small = dict(case, cands=case["cands"][:40]) if len(case["cands"]) > 40 else case
        for j in range(nd):
            ctx.case((line, j), j >= 1 or n >= 2, small if j == 0 and k <= 6 else None,
                     kind=("boundary:" if boundary else "valid:") + {"p": "populate", "c": "consume", "f": "finalise"}[case["ops"][j]])
        if not oracle_only:
            lines.append(line)
            impls.append(impl)
            cases.append(case)
    if not oracle_only:
        outs = ctx.model(lines)
        for line, out, impl, case in zip(lines, outs, impls, cases):
            if out != impl:
                diff_run(ctx, line, impl, case)
    return total


def scripted_mid(ctx):
    """`consume_sample` abandoned after its first half (op m) and restarted on the same state — what resuming from a
    checkpoint written inside consume_sample does.  Only the model tie is demanded here (the model's beginConsume /
    consume reproduce the real state, duplicate record included); the property itself is known to fail on such histories
    (Props/C01.resume_mid_consume_breaks_inv, known findings F25/F4)."""
    sc = Script()
    lines, impls, cases = [], [], []
    reproduced = 0
    for t in range(ctx.scale(25, 250)):
        n = ctx.rng.choice([2, 3, 5, 10, 13])
        pre, post = ctx.rng.randint(0, 2 * n), ctx.rng.randint(1, n + 2)
        ops = "p" + "c" * pre + "m" + "c" * post
        if ctx.rng.random() < 0.3:
            ops += "m" + "c" * ctx.rng.randint(1, 3)
        gen = Gen(ctx.rng, False)
        case, line, impl, kinds = run_scripted(ctx, sc, n, ops, gen=gen, label="scripted-mid-consume")
        lines.append(line)
        impls.append(impl)
        cases.append(case)
        fin = impl.split(" || ")[1]
        ids = [tok.split(":")[0] for tok in fin.split(" ")[0][len("nested=["):-1].split(",") if tok]
        nidx = len([x for x in fin.split(" ")[1][len("idx=["):-1].split(",") if x])
        if len(set(ids)) < len(ids) and nidx == len(ids) - ops.count("m"):
            reproduced += 1
        for j in range(len(case["ops"])):
            ctx.case((line, j), True, None, kind="mid-consume:" + {"p": "populate", "c": "consume", "m": "kill-inside-consume"}[case["ops"][j]])
    outs = ctx.model(lines)
    for line, out, impl, case in zip(lines, outs, impls, cases):
        if out != impl:
            diff_run(ctx, line, impl, case)
    ctx.extra["mid_consume_scripted"] = dict(scenarios=len(lines), double_record_reproduced_on_real_code=reproduced)


# ---------------------------------------------------------------------------------------------- (b) insert_live_point alone
def insert_alone(ctx):
    """the real insert_live_point on crafted sorted live sets, including points not above the minimum (index 0)"""
    sc = Script()
    T = sc.T
    np = T["np"]
    out = tempfile.mkdtemp(prefix="c01-")
    try:
        ns = new_sampler(T, sc.model, 10, out, [])
        lines, impls, cases = [], [], []
        N = ctx.scale(150, 1500)
        for t in range(N):
            n = ctx.rng.choice([1, 1, 2, 2, 3, 4, 6, 9])
            vals = sorted(ctx.rng.randint(-3, 3) for _ in range(n))
            live = T["empty"](n, names=sc.model.names)
            for i, v in enumerate(vals):
                live[i] = sc.record((i + 1, v, v, 0.0, 0.5, True))
                live[i]["it"] = 0
            v = ctx.rng.randint(-4, 4)
            p = sc.record((99, v, v, 0.0, 0.5, True))
            p["it"] = 7
            ns.live_points = live.copy()
            case = dict(layer="insert_live_point", live=vals, v=v)
            try:
                i = ns.insert_live_point(p)
                impl = "ok [" + ",".join(str(int(q["id"])) for q in ns.live_points) + f"] {int(i)}"
                if v > vals[0]:
                    after = ns.live_points
                    if not (0 <= i < n) or int(after[i]["id"]) != 99 or not same(np.delete(after, i), live[1:]):
                        ctx.oracle_fail("insert_live_point:position", "returned index is not where the point is / others moved", case)
                    if np.any(np.diff(after["logL"]) < 0):
                        ctx.oracle_fail("insert_live_point:sorted", "live set unsorted after insertion", case)
            except Exception as e:  # noqa
                impl = _exc(T, e)
                if v > vals[0]:
                    ctx.oracle_fail("insert_live_point:raised", f"{type(e).__name__} for a point above the minimum", case)
            lines.append("ls insert [" + ",".join(sc.pt_token(q) for q in live) + "] " + sc.pt_token(p))
            impls.append(impl)
            cases.append(case)
            ctx.case(("ins", tuple(vals), v), True, case if t < 2 else None,
                     kind="insert:" + ("index0-n1" if v <= vals[0] and n == 1 else "index0" if v <= vals[0] else "tie" if v in vals else "plain"))
        ctx.diff_model(lines, impls, cases, what="model insertLive != real insert_live_point")
    finally:
        shutil.rmtree(out, ignore_errors=True)


# ---------------------------------------------------------------------------------------------- (c) traces of real runs
class Recorder:
    """class-level wrappers around consume_sample and the proposals' draw (removed afterwards)"""

    def __init__(self, T):
        self.T = T
        self.steps = []
        self.draws = []
        self.stop_at = None
        self.patched = []
        self.in_consume = False
        self.in_training = False
        self.kill_after_dump = None   # None | "mid" | "boundary": kill right after a training-triggered checkpoint
        self.dumps = []               # (iteration, inside consume_sample, inside train_proposal)
        self.killed_at = None

    class Stop(Exception):
        pass

    def install(self):
        from nessai.proposal.analytic import AnalyticProposal
        from nessai.proposal.flowproposal import FlowProposal
        NS = self.T["NestedSampler"]
        np = self.T["np"]
        rec = self

        def wrap_draw(cls):
            orig = cls.draw

            def draw(self, *a, **k):
                x = orig(self, *a, **k)
                rec.draws.append((np.asarray(x).copy(), bool(self.populated), type(self).__name__))
                # a user-defined proposal may write into the `old_sample` it is handed (it is documented as an input, and the
                # sampler hands over a copy): the sampler's own record of the discarded point must not change with it
                # (seeded change C01-hB dropped the copy)
                if a and isinstance(a[0], (np.ndarray, np.void)) and a[0].dtype == np.asarray(x).dtype:
                    try:
                        for nm in a[0].dtype.names:
                            a[0][nm] = x[nm]
                    except (ValueError, TypeError):
                        pass
                return x
            cls.draw = draw
            rec.patched.append((cls, "draw", orig))

        wrap_draw(AnalyticProposal)
        wrap_draw(FlowProposal)
        orig_consume = NS.consume_sample

        def consume_sample(self):
            if rec.stop_at is not None and self.iteration >= rec.stop_at:
                raise Recorder.Stop()
            snap = dict(live=self.live_points.copy(), nnested=len(self.nested_samples), iter=self.iteration,
                        nidx=len(self.insertion_indices), rejected=self.rejected)
            rec.draws = []
            rec.in_consume = True
            try:
                orig_consume(self)
            finally:
                rec.in_consume = False
            rec.steps.append(dict(snap=snap, after=self.live_points.copy(), idx=int(self.insertion_indices[-1]),
                                  draws=rec.draws, rejected=self.rejected - snap["rejected"],
                                  count=(1.0 / self.acceptance_history[-1]) if len(self.acceptance_history) else None,
                                  logLmin=float(self.logLmin), proposal=type(self.proposal).__name__,
                                  iter_after=self.iteration, nnested_after=len(self.nested_samples),
                                  nidx_after=len(self.insertion_indices),
                                  worst=np.asarray(self.nested_samples[-1]).copy(),
                                  prev_worst=(np.asarray(self.nested_samples[-2]).copy()
                                              if len(self.nested_samples) >= 2 else None)))
            rec.draws = []
        NS.consume_sample = consume_sample
        self.patched.append((NS, "consume_sample", orig_consume))
        # a user-defined flow proposal may reorder / rescale the training array it is handed IN PLACE: the live set must not
        # change with it (seeded change C01-hA passed the live points themselves)
        orig_fp_train = FlowProposal.train

        def fp_train(self, x, *a, **k):
            out = orig_fp_train(self, x, *a, **k)
            if isinstance(x, np.ndarray) and x.size > 1:
                x[...] = x[::-1].copy()
            return out
        FlowProposal.train = fp_train
        self.patched.append((FlowProposal, "train", orig_fp_train))
        orig_train = NS.train_proposal

        def train_proposal(self, *a, **k):
            rec.in_training = True
            try:
                return orig_train(self, *a, **k)
            finally:
                rec.in_training = False
        NS.train_proposal = train_proposal
        self.patched.append((NS, "train_proposal", orig_train))
        import nessai.samplers.base as sb
        orig_dump = sb.safe_file_dump

        def safe_file_dump(obj, filename, *a, **k):
            orig_dump(obj, filename, *a, **k)
            it = getattr(obj, "iteration", None)
            rec.dumps.append((it, rec.in_consume, rec.in_training))
            want = rec.kill_after_dump
            if want and rec.in_training and it is not None and it > obj.nlive and (
                    (want == "mid") == rec.in_consume):
                rec.killed_at = (it, rec.in_consume)
                rec.kill_after_dump = None
                raise Recorder.Stop()   # the process dies right after this checkpoint reached the disk
        sb.safe_file_dump = safe_file_dump
        self.patched.append((sb, "safe_file_dump", orig_dump))

    def remove(self):
        for cls, name, orig in reversed(self.patched):
            setattr(cls, name, orig)
        self.patched = []


TRACE_KINDS = ["rejection", "analytic", "flow", "flow-resume", "rejection-resume", "flow-nball", "analytic-resume",
               "flow-memory", "flow-trainckpt-boundary-resume", "flow-trainckpt-mid-resume", "flow-reorder"]
TRACE_KINDS_THOROUGH = TRACE_KINDS + ["flow-truncgauss", "flow-reparam", "flow-novolume", "flow-nball-resume"]


def trace_config(kind, seed, nlive):
    T = _nessai()
    np = T["np"]
    kw = dict(nlive=nlive, plot=False, seed=seed, flow_config=dict(n_blocks=2, n_neurons=8),
              training_config=dict(max_epochs=20, patience=5), signal_handling=False, checkpointing=False)
    if kind.startswith("rejection"):
        kw.update(maximum_uninformed=np.inf, uninformed_acceptance_threshold=0.0)
    elif kind.startswith("analytic"):
        kw.update(analytic_priors=True, maximum_uninformed=np.inf, uninformed_acceptance_threshold=0.0)
    else:
        kw.update(maximum_uninformed=nlive, poolsize=2 * nlive)
        if "nball" in kind:
            kw.update(latent_prior="uniform_nball", constant_volume_mode=False)
        if "truncgauss" in kind:
            kw.update(latent_prior="truncated_gaussian", constant_volume_mode=False, expansion_fraction=1.0)
        if "reparam" in kind:
            kw.update(reparameterisations={"x0": "default"})
        if "reorder" in kind:
            # a reparameterisation dictionary that names the LAST parameter only: the proposal's internal parameter order
            # (named ones first, the rest appended) then differs from model.names
            kw.update(reparameterisations={"x1": "z-score"})
        if "novolume" in kind:
            kw.update(constant_volume_mode=False)
        if "memory" in kind:
            kw.update(memory=10, reset_weights=1, training_frequency=30, cooldown=10)
    if "trainckpt" in kind:
        # checkpoint_on_training=True: train_proposal checkpoints (subject to the interval); poolsize = nlive so that the
        # pool often runs empty on a refused draw INSIDE consume_sample (-> check_state -> train_proposal -> checkpoint)
        kw.update(checkpointing=True, checkpoint_on_iteration=True, checkpoint_interval=1, checkpoint_on_training=True,
                  poolsize=nlive, training_frequency=None, cooldown=10)
        if "boundary" in kind:
            # large pool + frequent scheduled training: train_proposal is reached from check_state at the top of the loop,
            # i.e. the training-triggered checkpoint is written at an iteration boundary
            # (time-based interval 0: with an iteration-based interval the checkpoint requested by a training at the top of
            #  the loop is skipped, update_state having checkpointed the same iteration already)
            kw.update(poolsize=4 * nlive, training_frequency=15, cooldown=5, checkpoint_on_iteration=False,
                      checkpoint_interval=0)
    elif kind.endswith("resume"):
        kw.update(checkpointing=True, checkpoint_on_iteration=True, checkpoint_interval=max(7, nlive // 3))
    return kw


def run_trace(ctx, kind, seed, nlive, dims=2):
    """one complete real run; every consume_sample checked by the oracle and replayed through the Lean model"""
    T = _nessai()
    np = T["np"]
    from nessai.flowsampler import FlowSampler
    out = tempfile.mkdtemp(prefix="c01-run-")
    rec = Recorder(T)
    case = dict(layer="trace", kind=kind, seed=seed, nlive=nlive, dims=dims)
    model = T["Gauss"](dims)
    rec.install()
    segments = []
    timed_out = None

    def on_alarm(signum, frame):
        raise TimeoutError("real run exceeded 180 s")
    old_handler = signal.signal(signal.SIGALRM, on_alarm)
    signal.alarm(180)
    try:
        kw = trace_config(kind, seed, nlive)
        with contextlib.redirect_stderr(io.StringIO()):
            if kind.endswith("resume"):
                if "trainckpt-mid" in kind:
                    rec.kill_after_dump = "mid"
                elif "trainckpt-boundary" in kind:
                    rec.kill_after_dump = "boundary"
                else:
                    rec.stop_at = nlive + 5 + (seed % 17)
                fs = FlowSampler(model, output=out, resume=True, **kw)
                try:
                    fs.run(plot=False, save=False)
                except Recorder.Stop:
                    pass
                segments.append(rec.steps)
                rec.steps = []
                rec.stop_at = None
                rec.kill_after_dump = None
                case["killed_at"] = rec.killed_at
                model = T["Gauss"](dims)
                fs = FlowSampler(model, output=out, resume=True, **kw)
                if fs.ns.finalised:
                    case["note"] = "the first run finished before the kill condition occurred"
                fs.run(plot=False, save=False)
                segments.append(rec.steps)
            else:
                fs = FlowSampler(model, output=out, resume=False, **kw)
                fs.run(plot=False, save=False)
                segments.append(rec.steps)
    except TimeoutError as e:
        # the steps recorded so far are still judged by the oracle (a run that spins usually broke the property earlier)
        timed_out = str(e)
        if rec.steps and (not segments or segments[-1] is not rec.steps):
            segments.append(rec.steps)
    except Exception as e:  # noqa
        ctx.oracle_fail("run:raised", f"real run raised {type(e).__name__}: {e}", case)
        return
    finally:
        signal.alarm(0)
        signal.signal(signal.SIGALRM, old_handler)
        rec.remove()
        shutil.rmtree(out, ignore_errors=True)
    fails_before = len(ctx.fails)
    ns = fs.ns
    # resumed from a checkpoint written INSIDE consume_sample (observed by the dump hook, not inferred from the outcome):
    # the known defect F25 — the failures it causes are reported under its own key
    mid = bool(rec.killed_at and rec.killed_at[1])
    real_fail = ctx.oracle_fail

    class Routed:
        """ctx with oracle_fail re-keyed for the predicates the mid-iteration checkpoint is known to break"""

        def __getattr__(self, name):
            return getattr(ctx, name)

        def oracle_fail(self, key, what, c):
            if mid and key in ("resume:untouched", "run:recorded-once", "run:index-recorded-once"):
                hits["n"] += 1
                real_fail(MID_KEY, f"[{key}] {what}", c)
            else:
                real_fail(key, what, c)
    hits = {"n": 0}
    octx = Routed()
    lines, impls, cases = [], [], []
    after_by_iter = {}
    nsteps = 0
    for si, steps in enumerate(segments):
        prev_after = None
        for st in steps:
            nsteps += 1
            snap = st["snap"]
            it0 = snap["iter"]
            cdict = dict(case, segment=si, iteration=it0 + 1)

            oracle_step(octx, np, model, snap, View(st, nlive), cdict, tag="consume_sample(run)")
            # continuity: nothing touches the live set between iterations, nor does checkpoint + resume
            if prev_after is not None and not same(prev_after, snap["live"]):
                octx.oracle_fail("between-iterations:untouched", "live set changed between two consume_sample calls", cdict)
            if si > 0 and prev_after is None:
                ref = after_by_iter.get(it0)
                if it0 == 0:
                    pass
                elif ref is None or not same(ref, snap["live"]):
                    octx.oracle_fail("resume:untouched", "live set after resume differs from the checkpointed iteration", cdict)
            prev_after = st["after"]
            if si == 0:
                after_by_iter[it0 + 1] = st["after"]
            line, impl = step_line(np, model, st, nlive)
            lines.append(line)
            impls.append(impl)
            cases.append(cdict)
            ctx.case((kind, seed, nlive, si, it0), True, None, kind=f"trace:{st['proposal']}" + (":resumed" if si else ""))
    # the final record of the run
    nested = np.array(ns.nested_samples)
    if timed_out:
        if len(ctx.fails) == fails_before:
            ctx.broken("trace: " + timed_out, repr(case))
    elif ns.finalised:
        ll = nested["logL"]
        if np.any(np.diff(ll) < 0):
            octx.oracle_fail("run:nested-monotone", "nested likelihoods of the finished run decrease somewhere", case)
        if len(nested) != ns.iteration + nlive:
            octx.oracle_fail("run:recorded-once", f"{len(nested)} nested samples after {ns.iteration} iterations, nlive={nlive}", case)
        from numpy.lib.recfunctions import structured_to_unstructured
        coords = structured_to_unstructured(nested[list(model.names)])
        if len(np.unique(coords, axis=0)) != len(nested):
            octx.oracle_fail("run:recorded-once", "a point appears twice in the nested samples of the finished run", case)
        if len(ns.insertion_indices) != ns.iteration:
            octx.oracle_fail("run:index-recorded-once", f"{len(ns.insertion_indices)} indices for {ns.iteration} iterations", case)
        # every recorded removal is in the record at its iteration
        allsteps = {}
        for steps in segments:
            for st in steps:
                allsteps[st["snap"]["iter"]] = st
        for it0, st in allsteps.items():
            if not same(np.asarray(nested[it0]), np.asarray(st["snap"]["live"][0])):
                octx.oracle_fail("run:recorded-once", f"nested sample #{it0} is not the point removed at that iteration", case)
                break
            if it0 >= len(ns.insertion_indices) or int(ns.insertion_indices[it0]) != st["idx"]:
                octx.oracle_fail("run:index-recorded-once", f"insertion index #{it0} changed after it was recorded", case)
                break
    else:
        octx.oracle_fail("run:unfinished", "the real run did not finish", case)
    ctx.diff_model(lines, impls, cases, what="model consume != recorded step of a real run")
    ctx.traces += 1
    if "trainckpt" in kind:
        d = ctx.extra.setdefault("checkpoint_on_training", dict(mid_consume_resumes=0, mid_consume_resumes_violating=0,
                                                                boundary_resumes=0, not_triggered=0))
        if rec.killed_at is None:
            d["not_triggered"] += 1
        elif mid:
            d["mid_consume_resumes"] += 1
            d["mid_consume_resumes_violating"] += int(hits["n"] > 0)
        else:
            d["boundary_resumes"] += 1
    ctx.extra["trace_steps"] = ctx.extra.get("trace_steps", 0) + nsteps
    return nsteps


class View:
    """the sampler state right after one recorded consume_sample of a real run, as oracle_step reads it"""

    def __init__(self, st, nlive):
        snap = st["snap"]
        self.live_points, self.nlive, self.iteration = st["after"], nlive, st["iter_after"]
        self.nested_samples = [None] * (st["nnested_after"] - 1) + [st["worst"]]
        if st["prev_worst"] is not None and len(self.nested_samples) >= 2:
            self.nested_samples[-2] = st["prev_worst"]
        self.insertion_indices = [None] * (st["nidx_after"] - 1) + [st["idx"]]
        self.logLmin = st["logLmin"]
        del snap


def step_line(np, model, st, nlive):
    """protocol line + implementation answer for one recorded consume_sample of a real run"""
    live0 = st["snap"]["live"]
    draws = st["draws"]
    vals = sorted(set([float(x) for x in live0["logL"]] + [float(d[0]["logL"]) for d in draws if not math.isnan(float(d[0]["logL"]))]
                      + [float(x) for x in st["after"]["logL"]]))
    finite = [x for x in vals if math.isfinite(x)]
    rank = {x: i + 1 for i, x in enumerate(finite)}  # order-preserving, never 0

    def rk(x):
        x = float(x)
        if math.isnan(x):
            return "nan"
        if x == -math.inf:
            return "-inf"
        return str(rank[x])

    def pt(p, i, ll=None):
        return f"{i}:{rk(p['logL'] if ll is None else ll)}:{int(p['it'])}:{pv(float(p['logP']))}:{int(bool(model.in_bounds(p)))}"

    live_tok = ",".join(pt(p, i) for i, p in enumerate(live0))
    cands = []
    for j, (x, popd, _) in enumerate(draws):
        # the wrapper sees the point after yield_sample finished with it: its logL is the evaluated one;
        # a stored value of exactly 0.0 would have been re-evaluated by the code (to the same value)
        r = rk(x["logL"])
        stored = "0" if float(x["logL"]) == 0.0 else r
        cands.append(f"{nlive + j}:{stored}:{r}:{pv(float(x['logP']))}:{int(bool(model.in_bounds(x)))}:{int(popd)}")
    line = f"ls step {nlive} {st['snap']['iter']} [{live_tok}] [{','.join(cands)}]"
    idx = st["idx"]
    ids = list(range(1, nlive))
    ids.insert(idx, nlive + len(draws) - 1)
    after = st["after"]
    toks = []
    for pos, i in enumerate(ids):
        toks.append(pt(after[pos], i))
    cnt = len(draws) if st["count"] is None else round(st["count"])
    impl = (f"live=[{','.join(toks)}] i={idx} cnt={cnt} rej={st['rejected']} "
            f"min={rk(st['logLmin'])} left=0")
    return line, impl


def traces(ctx):
    n = ctx.scale(11, 48)
    kinds = TRACE_KINDS if ctx.quick else TRACE_KINDS_THOROUGH
    t0 = time.time()
    for t in range(n):
        kind = kinds[t % len(kinds)]
        seed = ctx.rng.randint(1, 10 ** 6)
        nlive = ctx.rng.choice([50, 60, 80, 100])
        dims = 2 if ctx.quick else ctx.rng.choice([2, 2, 3])
        mid_before = ctx.extra.get("checkpoint_on_training", {}).get("mid_consume_resumes", 0)
        run_trace(ctx, kind, seed, nlive, dims)
        ctx.hist["run:" + kind] += 1
        if "trainckpt-mid" in kind:
            # whether a training is triggered inside consume_sample depends on the seed: retry a few seeds so that every
            # run of the check exercises a resume from a mid-iteration checkpoint
            for _ in range(4):
                if ctx.extra.get("checkpoint_on_training", {}).get("mid_consume_resumes", 0) > mid_before:
                    break
                run_trace(ctx, kind, ctx.rng.randint(1, 10 ** 6), nlive, dims)
                ctx.hist["run:" + kind] += 1
    ctx.extra["trace_wall_s"] = round(time.time() - t0, 1)


def reopen_finished_run(ctx):
    """a converged, finalised run whose tolerance is tightened afterwards and which is run again on the same object: it may
    refuse, or carry on consistently — it must not draw a second live set into the same record (seeded change C01-eB: the
    'not finalised' reset moved before the populate guard of initialise, so a whole new live set was drawn)"""
    T = _nessai()
    np = T["np"]
    from nessai.flowsampler import FlowSampler
    out = tempfile.mkdtemp(prefix="c01-reopen-")
    case = dict(layer="reopen", nlive=50, seed=77)
    try:
        with contextlib.redirect_stderr(io.StringIO()):
            model = T["Gauss"](2)
            fs = FlowSampler(model, output=out, resume=False, nlive=50, plot=False, seed=77, maximum_uninformed=np.inf,
                             uninformed_acceptance_threshold=0.0, signal_handling=False, checkpointing=False, stopping=0.5)
            fs.run(plot=False, save=False)
            ns = fs.ns
            n0, it0 = len(ns.nested_samples), int(ns.iteration)
            rec0 = np.array(ns.nested_samples)["logL"].copy()
            ns.tolerance = ns.tolerance / 50.0
            refused = None
            try:
                fs.run(plot=False, save=False)
            except Exception as e:  # noqa: refusing to reopen a finalised run is fine
                refused = type(e).__name__
        rec1 = np.array(ns.nested_samples)["logL"]
        if not np.array_equal(rec1[:n0], rec0):
            ctx.oracle_fail("NestedSampler:reopen-finalised:record-rewritten", "the record of discarded points changed", case)
        if np.any(np.diff(rec1) < 0):
            i = int(np.argmax(np.diff(rec1) < 0))
            ctx.oracle_fail("NestedSampler:reopen-finalised:nested-monotone",
                            f"after tightening the tolerance of a finalised run and running again ({'refused: ' + refused if refused else 'accepted'}) "
                            f"the discarded likelihoods decrease at record {i + 1}: {float(rec1[i])!r} -> {float(rec1[i + 1])!r} "
                            f"({len(rec1)} records for {int(ns.iteration)} iterations, nlive 50: a second live set was drawn)", case)
        elif len(rec1) not in (n0, int(ns.iteration) + 50, int(ns.iteration)):
            ctx.oracle_fail("NestedSampler:reopen-finalised:recorded-once",
                            f"{len(rec1)} records for {int(ns.iteration)} iterations and 50 live points (was {n0} for {it0})", case)
        ctx.case(("reopen", 77), True, dict(case, refused=refused, records=[n0, len(rec1)]), kind="reopen-finalised")
    except Exception as e:  # noqa
        ctx.oracle_fail("run:raised", f"real run raised {type(e).__name__}: {e}", case)
    finally:
        shutil.rmtree(out, ignore_errors=True)


# ---------------------------------------------------------------------------------------------- translation tie
def gen(ctx):
    """regenerate Gen/LiveSetTx.lean: `NestedSampler.insert_live_point` translated statement by statement by
    harness/pyarr2lean.py into the Python/NumPy indexing semantics of Model/PySlice.lean.  The theorem
    C01.insert_live_point_source_eq_model (generated definition = hand-written slice program `insertLive`, for every live set
    and point) is then re-proved against what the source says now."""
    from . import core, pyarr2lean, py2lean
    spec = pyarr2lean.ArrSpec(
        source="nessai/samplers/nestedsampler.py", func="insert_live_point", cls="NestedSampler", name="insert_live_point",
        params=[("self.live_points", "self_live_points", "arr"), ("live_point", "live_point", "rec")],
        outputs=["self.live_points"], doc="`NestedSampler.insert_live_point` (returns the new live set and the reported index)")
    try:
        t = pyarr2lean.translate_arr(core.REPO, spec)
    except py2lean.TranslationError as e:
        ctx.broken(f"translator: NestedSampler.insert_live_point: {e}",
                   "Gen/LiveSetTx.lean was left as it was (the theorem is about the last translatable source)")
        return
    except (OSError, SyntaxError) as e:
        ctx.broken(f"translator: cannot read/parse the source: {e}")
        return
    text = ("import NessaiVerif.Model.PySlice\nimport NessaiVerif.Model.LiveSet\n"
            "/-\nGENERATED by harness/pyarr2lean.py (harness/c01.py gen) from the CURRENT nessai source — do not edit.\n"
            "C01: array code of the standard sampler's live-set update, in the Python/NumPy indexing semantics of Model/PySlice.lean.\n-/\n"
            "namespace NessaiVerif.Gen.LiveSetTx\nopen NessaiVerif NessaiVerif.LiveSet\n\n" + t.lean + "\nend NessaiVerif.Gen.LiveSetTx\n")
    changed = py2lean.write_if_changed(core.LEAN / "NessaiVerif" / "Gen" / "LiveSetTx.lean", text)
    ctx.extra["generated"] = {"insert_live_point": dict(source=spec.source, lines=[t.first_line, t.last_line], sha256=t.sha256,
                                                        rewritten=changed)}


# ---------------------------------------------------------------------------------------------- entry points
def corpus(ctx):
    """minimised past cases: corpus/C01/*.ops — one `n ops cand,cand,...` per line"""
    from .core import VERIF
    d = VERIF / "corpus" / "C01"
    if not d.exists():
        return
    sc = Script()
    for f in sorted(d.glob("*.ops")):
        for ln in f.read_text().splitlines():
            ln = ln.strip()
            if not ln or ln.startswith("#"):
                continue
            n, ops, cs = ln.split(" ", 2)
            fixed = []
            for tok in cs.split(","):
                i, st, ev, lp, b, pd = tok.split(":")
                fixed.append((int(i), float(st), float(ev), float(lp), float(b), bool(int(pd))))
            case, line, impl, _ = run_scripted(ctx, sc, int(n), ops, fixed=fixed, boundary=True, label="corpus")
            diff_run(ctx, line, impl, case)
            ctx.case(("corpus", ln), True, None, kind="corpus")


def correspond(ctx):
    from . import np_prims
    np_prims.validate(ctx, ctx.scale(60, 600))     # NumPy primitives + Python/NumPy indexing semantics (Model/PySlice.lean)
    ctx.rule = ("(a) every call of the real populate_live_points / consume_sample / finalise in generated scripted scenarios "
                "(nlive in {1,2,3,5,10,11,13,20,30[,50,100]}, 0..4n+5 iterations, integer likelihood alphabet with ties; 30% of "
                "scenarios add NaN/-inf likelihoods, NaN/+inf priors, out-of-bounds points) compared with the Lean model after "
                "every call; (b) the real insert_live_point alone incl. index 0; (c) every consume_sample of complete real "
                "FlowSampler runs replayed through the model; non-trivial = distinct (scenario, call) with a non-empty stream")
    ctx.assume("likelihoods are finite, -inf or NaN, never +inf (DESIGN appendix C)",
               "proposals return log-priors that are finite or -inf; finite only inside the bounds (checked on every accepted "
               "candidate of the real runs by the oracle)",
               "checkpoint + resume restores the pickled sampler state (C12); the property is claimed across checkpoints written "
               "at iteration boundaries only: a checkpoint written inside consume_sample (checkpoint_on_training -> F25, "
               "reproduced here; signal handler -> F4/C13) breaks it (Props/C01.resume_mid_consume_breaks_inv)")
    ctx.trust("hand-written model Model/LiveSet.lean (+ Np.ssl); tie = this correspondence",
              "numpy searchsorted / slice assignment / sort(order=) as exercised by the correspondence itself")
    corpus(ctx)
    t0 = time.time()
    steps = scripted(ctx, ctx.scale(6000, 60000))
    ctx.extra["scripted_calls"] = steps
    ctx.extra["scripted_wall_s"] = round(time.time() - t0, 1)
    scripted_mid(ctx)
    insert_alone(ctx)
    traces(ctx)
    reopen_finished_run(ctx)


def search(ctx):
    """enlarged failing-input search: the scripted generator with the oracle only, time-boxed"""
    t0 = time.time()
    box = ctx.scale(60, 600)
    while time.time() - t0 < box and not ctx.fails:
        scripted(ctx, 3000, oracle_only=True)


def replay(ctx, obj):
    c = obj["case"]
    layer = c.get("layer", "")
    if layer.startswith("scripted") or layer == "corpus":
        sc = Script()
        fixed = [tuple(x) for x in c["cands"]]
        case, line, impl, _ = run_scripted(ctx, sc, c["n"], c["ops"], fixed=fixed, boundary=True, label=layer)
        diff_run(ctx, line, impl, case)
        ctx.case(repr(c)[:200], True, None)
    elif layer == "trace":
        run_trace(ctx, c["kind"], c["seed"], c["nlive"], c.get("dims", 2))
    elif layer == "insert_live_point":
        insert_alone(ctx)
    else:
        correspond(ctx)
