"""C14 known finding — minimal stand-alone reproducer on the unchanged nessai tree.

    /venv/bin/python corpus/C14/repro_findings.py

A user pool whose size nessai cannot determine (no `_processes` / `_actor_pool`, `n_pool` not given) makes
`Model.configure_pool` set `allow_vectorised = False`; `batch_evaluate_log_likelihood` then never evaluates
`Model.vectorised_likelihood`, whose probe draws ten prior points from the *seeded* global NumPy generator on the first
likelihood batch.  The run with that pool therefore consumes 10*dims fewer random numbers than the run without a pool:
same seed, different results.  Every model below is a fresh instance.
"""
import multiprocessing
import numpy as np
from nessai.model import Model
from nessai.livepoint import numpy_array_to_live_points


class M(Model):
    names = ["x", "y"]
    bounds = {"x": [-4.0, 4.0], "y": [-4.0, 4.0]}

    def log_prior(self, x):
        return np.log(self.in_bounds(x), dtype="float") - np.log(64.0)

    def log_likelihood(self, x):
        return -(x["x"] * x["x"] * 0.5 + x["y"] * x["y"] * 2.0)


class SizelessPool:
    """any pool-like object without `_processes`, e.g. an MPI / schwimmbad / custom executor wrapper"""

    def __init__(self):
        self._p = multiprocessing.get_context("fork").Pool(2)

    def map(self, f, it):
        return self._p.map(f, it)

    def close(self): self._p.close()
    def join(self): self._p.join()
    def terminate(self): self._p.terminate()


def next_uniform_after_first_batch(model, pool=None):
    from nessai.utils.multiprocessing import initialise_pool_variables
    initialise_pool_variables(model)
    model.configure_pool(pool=pool)
    np.random.seed(1234)                      # what configure_random_seed does
    x = numpy_array_to_live_points(np.array([[0.5, 0.25], [-1.0, 2.0]]), model.names)
    model.batch_evaluate_log_likelihood(x)    # first likelihood batch of the run
    u = np.random.rand()                      # the next number the sampler would see
    model.close_pool()
    return u


if __name__ == "__main__":
    a = next_uniform_after_first_batch(M())
    b = next_uniform_after_first_batch(M(), SizelessPool())
    print("next seeded uniform, no pool           :", a)
    print("next seeded uniform, unknown-size pool:", b, "  <-- differs" if a != b else "")
    c = next_uniform_after_first_batch(M(), multiprocessing.get_context("fork").Pool(2))
    print("next seeded uniform, ordinary Pool(2)  :", c, "  (same as no pool)" if a == c else "  <-- differs")
