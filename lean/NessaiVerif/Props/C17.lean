import NessaiVerif.Gen.Threshold
import NessaiVerif.Proofs.Threshold
/-
C17 — INS level thresholds honour min_samples, min_remove and max_samples.

The clamp theorems are about `Gen.Threshold.clampIndex` and `Gen.Threshold.nTrain`, the definitions
that `harness/py2lean.py` regenerates from `nessai/samplers/importancesampler.py` on every run: a
change of the clamp logic in the source changes the definitions and these theorems are re-checked
against it.  `n0` is the method's own choice (`determine_threshold_entropy / _quantile`), `size`
the number of live samples.  Property theorems only (helper lemmas live in Proofs/Threshold.lean).
-/
namespace NessaiVerif.C17
open NessaiVerif.Threshold NessaiVerif.Gen.Threshold

/-- the method's own choice after the `n == 0 → 1` adjustment (`min_remove ≥ 1`) -/
def firstCut (n0 : Int) : Int := if n0 = 0 then 1 else n0

/-- the cap `max_samples` is used (`draw_constant and max_samples`) only with room for one new level:
`nlive < max_samples`.  NOT enforced by `check_configuration`. -/
def CapGuard (nlive : Int) (maxSamples : Option Int) (drawConstant : Bool) : Prop :=
  drawConstant = true → ∀ m, maxSamples = some m → m ≠ 0 → nlive < m

/-- the cap leaves room for `min_samples` survivors plus one new level: `min_samples + nlive ≤ max_samples` -/
def CapRoom (minSamples nlive : Int) (maxSamples : Option Int) (drawConstant : Bool) : Prop :=
  drawConstant = true → ∀ m, maxSamples = some m → m ≠ 0 → minSamples + nlive ≤ m

/-- **The index used for the threshold is a valid position**, whatever the method chose (`n0` is
arbitrary), for every size and parameter value with `min_samples, min_remove ≥ 1`, provided
`min_remove < size` and the cap leaves room for a level (`CapGuard`).  Neither guard is enforced by
the code (`check_configuration` only demands `min_remove ≤ nlive`, `min_samples ≤ nlive`). -/
theorem index_in_range (n0 size minSamples minRemove nlive : Int) (maxSamples : Option Int)
    (drawConstant : Bool) (hs : 1 ≤ minSamples) (hr : 1 ≤ minRemove) (hrs : minRemove < size)
    (hc : CapGuard nlive maxSamples drawConstant) :
    ∃ n, clampIndex n0 size minSamples minRemove nlive maxSamples drawConstant = Clamp.index n
      ∧ 0 ≤ n ∧ n < size := by
  unfold CapGuard at hc
  cases maxSamples with
  | none => unfold clampIndex; simp [truthyOpt]; grind
  | some m => unfold clampIndex; simp [truthyOpt, optGet] at *; grind

/-- the theorem applied: 20 live samples, `min_samples = 5`, `min_remove = 3`, cap 25 with `nlive = 10` -/
example : ∃ n, clampIndex 2 20 5 3 10 (some 25) true = Clamp.index n ∧ 0 ≤ n ∧ n < 20 :=
  index_in_range 2 20 5 3 10 (some 25) true (by decide) (by decide) (by decide)
    (by intro _ m hm _; cases hm; decide)

example : clampIndex 2 20 5 3 10 (some 25) true = Clamp.index 5 := by decide

/-- without `min_remove < size` the index runs past the array: 3 live samples, `min_remove = 3`
(allowed by `check_configuration` when `nlive = 3`) gives index 3 → `IndexError` in the real code. -/
theorem index_in_range_fails_without_min_remove_lt_size :
    clampIndex 1 3 1 3 3 none true = Clamp.index 3 ∧
      finish [10, 20, 30] (clampIndex 1 3 1 3 3 none true) = (Outcome.indexError : Outcome Int) := by
  decide

/-- without `nlive < max_samples` the cap pushes the index past the array
(20 live samples, `nlive = 10`, `max_samples = 5` → index 25). -/
theorem index_in_range_fails_without_cap_guard :
    clampIndex 2 20 1 1 10 (some 5) true = Clamp.index 25 ∧ ¬ CapGuard 10 (some 5) true := by
  refine ⟨by decide, ?_⟩
  intro h
  have := h rfl 5 rfl (by decide)
  omega

/-- **The threshold is the likelihood of one of the live samples**: under the guards of
`index_in_range` the method returns `logL[p]` for a position `p` of the live set. -/
theorem threshold_is_live_sample {α : Type} (logL : List α) (n0 minSamples minRemove nlive : Int)
    (maxSamples : Option Int) (drawConstant : Bool) (hs : 1 ≤ minSamples) (hr : 1 ≤ minRemove)
    (hrs : minRemove < (logL.length : Int)) (hc : CapGuard nlive maxSamples drawConstant) :
    ∃ (p : Nat) (hp : p < logL.length),
      finish logL (clampIndex n0 logL.length minSamples minRemove nlive maxSamples drawConstant)
        = Outcome.threshold p logL[p] ∧ logL[p] ∈ logL := by
  obtain ⟨n, hn, h0, h1⟩ :=
    index_in_range n0 logL.length minSamples minRemove nlive maxSamples drawConstant hs hr hrs hc
  refine ⟨n.toNat, by omega, ?_, List.getElem_mem _⟩
  rw [hn]
  exact finish_index logL n h0 h1

example : ∃ (p : Nat) (hp : p < ([10, 20, 30, 40] : List Int).length),
    finish ([10, 20, 30, 40] : List Int) (clampIndex 0 ([10, 20, 30, 40] : List Int).length 1 2 10 none true)
      = Outcome.threshold p ([10, 20, 30, 40] : List Int)[p] ∧
      ([10, 20, 30, 40] : List Int)[p] ∈ ([10, 20, 30, 40] : List Int) :=
  threshold_is_live_sample ([10, 20, 30, 40] : List Int) 0 1 2 10 none true (by decide) (by decide) (by decide)
    (by intro _ m hm; cases hm)

example : finish [10, 20, 30, 40] (clampIndex 0 4 1 2 10 none true)
    = (Outcome.threshold 2 30 : Outcome Int) := by decide

/-- **If the method's own choice would leave fewer than `min_samples`, exactly `min_samples`
positions are kept**: the index is `size - min_samples` (needs `min_samples ≤ size`, and a cap that
leaves room: `min_samples + nlive ≤ max_samples` when it is active). -/
theorem keeps_min_samples (n0 size minSamples minRemove nlive : Int) (maxSamples : Option Int)
    (drawConstant : Bool) (hr : 1 ≤ minRemove) (hsz : minSamples ≤ size)
    (hc : CapRoom minSamples nlive maxSamples drawConstant)
    (hfew : size - firstCut n0 < minSamples) :
    clampIndex n0 size minSamples minRemove nlive maxSamples drawConstant
      = Clamp.index (size - minSamples) := by
  unfold CapRoom at hc; unfold firstCut at hfew
  cases maxSamples with
  | none => unfold clampIndex; simp [truthyOpt]; grind
  | some m => unfold clampIndex; simp [truthyOpt, optGet] at *; grind

example : clampIndex 18 20 5 1 10 none true = Clamp.index (20 - 5) :=
  keeps_min_samples 18 20 5 1 10 none true (by decide) (by decide) (by intro _ m hm; cases hm) (by decide)

example : (20 : Int) - firstCut 18 < 5 ∧ clampIndex 18 20 5 1 10 none true = Clamp.index 15 := by decide

/-- with fewer live samples than `min_samples` nothing is removed and fewer than `min_samples` remain -/
theorem keeps_min_samples_fails_without_size :
    (3 : Int) - firstCut 2 < 5 ∧ clampIndex 2 3 5 1 10 none true = Clamp.index 0 ∧
      clampIndex 2 3 5 1 10 none true ≠ Clamp.index (3 - 5) := by decide

/-- an active cap without room (`max_samples < min_samples + nlive`) overrides `min_samples`:
20 samples, `min_samples = 8`, `nlive = 10`, `max_samples = 12` keeps 2, not 8. -/
theorem keeps_min_samples_fails_without_cap_room :
    (20 : Int) - firstCut 15 < 8 ∧ clampIndex 15 20 8 1 10 (some 12) true = Clamp.index 18 := by decide

/-- **Otherwise at least `min_remove` positions are removed**: the index is `≥ min_remove`
(no other hypothesis: any cap only increases the index).  In this branch `min_samples` is NOT
re-checked after the index has been raised to `min_remove`: see `min_remove_overrides_min_samples`.
That is what the property states ("…, otherwise at least min_remove are removed"), so it is not a
violation of the property, but `min_samples` is not a floor on the next level when
`min_remove > size - min_samples`. -/
theorem removes_min_remove (n0 size minSamples minRemove nlive : Int) (maxSamples : Option Int)
    (drawConstant : Bool) (hr : 1 ≤ minRemove) (hfew : ¬ size - firstCut n0 < minSamples) :
    ∃ n, clampIndex n0 size minSamples minRemove nlive maxSamples drawConstant = Clamp.index n
      ∧ minRemove ≤ n := by
  have hr' : ¬ minRemove < 1 := by omega
  unfold firstCut at hfew
  unfold clampIndex
  by_cases h0 : n0 = 0 <;> cases maxSamples <;>
    simp [h0, hr', truthyOpt, optGet] at hfew ⊢ <;> grind

example : ∃ n, clampIndex 2 20 5 4 10 none true = Clamp.index n ∧ 4 ≤ n :=
  removes_min_remove 2 20 5 4 10 none true (by decide) (by decide)

example : ¬ ((20 : Int) - firstCut 2 < 5) ∧ clampIndex 2 20 5 4 10 none true = Clamp.index 4 := by decide

/-- `min_remove` overrides `min_samples`: 10 live samples, `min_samples = 8`, `min_remove = 5`, the
method chooses 1 (which would leave 9 ≥ 8, so the `min_samples` branch does not fire); the index is
raised to `min_remove = 5` and only 5 < `min_samples` samples survive.  Consistent with the
property's wording (the "otherwise" clause), documented here because `min_samples` reads like a floor. -/
theorem min_remove_overrides_min_samples :
    ¬ ((10 : Int) - firstCut 1 < 8) ∧ clampIndex 1 10 8 5 10 none true = Clamp.index 5 ∧
      (10 : Int) - 5 < 8 := by decide

/-- with `min_remove < 1` and a method that chose 0 the code returns the integer 0, not a threshold -/
theorem removes_min_remove_fails_without :
    clampIndex 0 20 5 0 10 none true = Clamp.early 0 := by decide

/-- **With constant draws and a cap the next level does not exceed `max_samples`**: the index `n`
used is a valid position (`0 ≤ n < size`, under the guards of `index_in_range`, here `nlive < m`)
and `(size - n) + nlive ≤ max_samples`. -/
theorem respects_max_samples (n0 size minSamples minRemove nlive m : Int)
    (hs : 1 ≤ minSamples) (hr : 1 ≤ minRemove) (hrs : minRemove < size) (hm : m ≠ 0)
    (hc : nlive < m) :
    ∃ n, clampIndex n0 size minSamples minRemove nlive (some m) true = Clamp.index n
      ∧ 0 ≤ n ∧ n < size ∧ (size - n) + nlive ≤ m := by
  have hr' : ¬ minRemove < 1 := by omega
  unfold clampIndex
  by_cases h0 : n0 = 0 <;> simp [h0, hr', hm, truthyOpt, optGet] <;> grind

example : ∃ n, clampIndex 2 20 1 1 10 (some 15) true = Clamp.index n ∧ 0 ≤ n ∧ n < 20 ∧ (20 - n) + 10 ≤ 15 :=
  respects_max_samples 2 20 1 1 10 15 (by decide) (by decide) (by decide) (by decide) (by decide)

example : clampIndex 2 20 1 1 10 (some 15) true = Clamp.index 15 ∧ ((20 : Int) - 15) + 10 ≤ 15 := by decide

/-- without the range guard `nlive < max_samples` the inequality still holds but for an index that
is not a position of the live set (`IndexError` in the code): 20 samples, `nlive = 10`, cap 5. -/
theorem respects_max_samples_fails_without :
    clampIndex 2 20 1 1 10 (some 5) true = Clamp.index 25 ∧ ((20 : Int) - 25) + 10 ≤ 5 ∧ ¬ ((25 : Int) < 20) := by
  decide

/-- **Every proposal is trained on at least `min_samples` samples**: the slice
`training_samples[n_train:]` has at least `min_samples` elements, whatever `np.argmax` returned
(`k ≥ 0`), as soon as the training set holds `min_samples` samples. -/
theorem train_floor (size : Nat) (minSamples k : Int) (hk : 0 ≤ k) (hsz : minSamples ≤ size) :
    minSamples ≤ pySliceLen size (nTrain size minSamples k) ∧ 0 ≤ nTrain size minSamples k := by
  unfold pySliceLen pySliceStart nTrain; simp; grind

example : (5 : Int) ≤ pySliceLen 20 (nTrain 20 5 17) ∧ 0 ≤ nTrain 20 5 17 :=
  train_floor 20 5 17 (by decide) (by decide)

example : nTrain 20 5 17 = 15 ∧ pySliceLen 20 (nTrain 20 5 17) = 5 := by decide

/-- with fewer than `min_samples` training samples `n_train` is negative and the Python slice
`x[-2:]` silently trains on the last 2 of 3 samples.  REACHABLE in real runs: `check_configuration`
compares `min_samples` with `nlive` only, not with `n_initial`, and the first proposal is trained on
the `n_initial` initial samples (known finding `add_new_proposal:n_initial<min_samples:…`). -/
theorem train_floor_fails_without :
    nTrain 3 5 0 = -2 ∧ pySliceLen 3 (nTrain 3 5 0) = 2 := by decide

/-- what the code does when the training set is smaller than `min_samples`: it trains on
`min(size, min_samples - size)` samples — all of them only if `min_samples ≥ 2·size`, and e.g. on a
single sample for `size = 29`, `min_samples = 30` (`x[-1:]`). -/
theorem train_len_when_fewer_than_min_samples (size : Nat) (minSamples k : Int) (hk : 0 ≤ k)
    (hsz : (size : Int) < minSamples) :
    (pySliceLen size (nTrain size minSamples k) : Int) = min (size : Int) (minSamples - size) := by
  unfold pySliceLen pySliceStart nTrain; simp; grind

example : (pySliceLen 29 (nTrain 29 30 0) : Int) = min (29 : Int) (30 - 29) :=
  train_len_when_fewer_than_min_samples 29 30 0 (by decide) (by decide)

example : pySliceLen 29 (nTrain 29 30 0) = 1 ∧ pySliceLen 10 (nTrain 10 30 4) = 10 := by decide

/-- **From index to count.**  On a sorted live set, if the likelihoods at the cut are distinct
(everything before position `p` is strictly below `logL[p]`), the threshold `logL[p]` removes exactly
`p` samples (`remove_samples` counts `logL < threshold`) and keeps `size - p`. -/
theorem count_eq_index_of_distinct_cut {α : Type} [LinearOrder α] (logL : List α) (p : Nat)
    (hp : p < logL.length) (hsorted : logL.Pairwise (· ≤ ·))
    (hcut : ∀ i (hi : i < p), logL[i]'(by omega) < logL[p]) :
    countBelow logL[p] logL = p ∧ countKept logL[p] logL = logL.length - p := by
  have h := countBelow_eq_index logL p hp hsorted hcut
  have h2 := countKept_eq logL[p] logL
  omega

example : countBelow ([1, 2, 3, 3, 4] : List Int)[2] [1, 2, 3, 3, 4] = 2 ∧
    countKept ([1, 2, 3, 3, 4] : List Int)[2] [1, 2, 3, 3, 4] = 5 - 2 :=
  count_eq_index_of_distinct_cut ([1, 2, 3, 3, 4] : List Int) 2 (by decide) (by decide) (by decide)

example : countBelow (3 : Int) [1, 2, 3, 3, 4] = 2 := by decide

/-- **At least `min_remove` samples are removed** (count, not index) when the likelihoods at the
cut are distinct. -/
theorem removes_min_remove_count (logL : List Int) (n0 minSamples minRemove nlive : Int)
    (maxSamples : Option Int) (drawConstant : Bool) (hs : 1 ≤ minSamples) (hr : 1 ≤ minRemove)
    (hrs : minRemove < (logL.length : Int)) (hc : CapGuard nlive maxSamples drawConstant)
    (hfew : ¬ (logL.length : Int) - firstCut n0 < minSamples)
    (hsorted : logL.Pairwise (· ≤ ·)) :
    ∃ (p : Nat) (hp : p < logL.length),
      finish logL (clampIndex n0 logL.length minSamples minRemove nlive maxSamples drawConstant)
        = Outcome.threshold p logL[p] ∧
      ((∀ i (hi : i < p), logL[i]'(by omega) < logL[p]) → minRemove ≤ countBelow logL[p] logL) := by
  obtain ⟨n, hn, h0, h1⟩ :=
    index_in_range n0 logL.length minSamples minRemove nlive maxSamples drawConstant hs hr hrs hc
  obtain ⟨n', hn', hge⟩ :=
    removes_min_remove n0 logL.length minSamples minRemove nlive maxSamples drawConstant hr hfew
  have : n' = n := by rw [hn] at hn'; cases hn'; rfl
  subst this
  refine ⟨n'.toNat, by omega, ?_, ?_⟩
  · rw [hn]; exact finish_index logL n' h0 h1
  · intro hcut
    have := countBelow_eq_index logL n'.toNat (by omega) hsorted hcut
    omega

example : ∃ (p : Nat) (hp : p < ([1, 2, 3, 4, 5, 6] : List Int).length),
    finish ([1, 2, 3, 4, 5, 6] : List Int)
      (clampIndex 1 ([1, 2, 3, 4, 5, 6] : List Int).length 2 3 10 none true)
        = Outcome.threshold p ([1, 2, 3, 4, 5, 6] : List Int)[p] ∧
    ((∀ i (hi : i < p), ([1, 2, 3, 4, 5, 6] : List Int)[i]'(by omega) < ([1, 2, 3, 4, 5, 6] : List Int)[p]) →
      (3 : Int) ≤ countBelow ([1, 2, 3, 4, 5, 6] : List Int)[p] [1, 2, 3, 4, 5, 6]) :=
  removes_min_remove_count [1, 2, 3, 4, 5, 6] 1 2 3 10 none true (by decide) (by decide) (by decide)
    (by intro _ m hm; cases hm) (by decide) (by decide)

/-- **Exactly `min_samples` samples are kept** (count) when the method's own choice would leave
fewer and the likelihoods at the cut are distinct. -/
theorem keeps_min_samples_count (logL : List Int) (n0 minSamples minRemove nlive : Int)
    (maxSamples : Option Int) (drawConstant : Bool) (hs : 1 ≤ minSamples) (hr : 1 ≤ minRemove)
    (hsz : minSamples ≤ (logL.length : Int))
    (hc : CapRoom minSamples nlive maxSamples drawConstant)
    (hfew : (logL.length : Int) - firstCut n0 < minSamples)
    (hsorted : logL.Pairwise (· ≤ ·)) :
    ∃ (p : Nat) (hp : p < logL.length),
      finish logL (clampIndex n0 logL.length minSamples minRemove nlive maxSamples drawConstant)
        = Outcome.threshold p logL[p] ∧
      ((∀ i (hi : i < p), logL[i]'(by omega) < logL[p]) →
        (countKept logL[p] logL : Int) = minSamples) := by
  have hk := keeps_min_samples n0 logL.length minSamples minRemove nlive maxSamples drawConstant
    hr hsz hc hfew
  refine ⟨((logL.length : Int) - minSamples).toNat, by omega, ?_, ?_⟩
  · rw [hk]; exact finish_index logL _ (by omega) (by omega)
  · intro hcut
    have h := countBelow_eq_index logL _ (by omega) hsorted hcut
    have h2 := countKept_eq logL[((logL.length : Int) - minSamples).toNat] logL
    omega

example : ∃ (p : Nat) (hp : p < ([1, 2, 3, 4, 5, 6] : List Int).length),
    finish ([1, 2, 3, 4, 5, 6] : List Int)
      (clampIndex 5 ([1, 2, 3, 4, 5, 6] : List Int).length 2 1 10 none true)
        = Outcome.threshold p ([1, 2, 3, 4, 5, 6] : List Int)[p] ∧
    ((∀ i (hi : i < p), ([1, 2, 3, 4, 5, 6] : List Int)[i]'(by omega) < ([1, 2, 3, 4, 5, 6] : List Int)[p]) →
      (countKept ([1, 2, 3, 4, 5, 6] : List Int)[p] [1, 2, 3, 4, 5, 6] : Int) = 2) :=
  keeps_min_samples_count [1, 2, 3, 4, 5, 6] 5 2 1 10 none true (by decide) (by decide) (by decide)
    (by intro _ m hm; cases hm) (by decide) (by decide)

/-- **F5 — tied likelihoods defeat `min_remove`.**  `logL = [1,1,1,2]`, `min_remove = 2`: the
clamp chooses index 2 (as it must), the threshold is `logL[2] = 1`, and `remove_samples` removes
`count(logL < 1) = 0` samples instead of at least 2.  The index guarantee holds, the count does not. -/
theorem ties_break_min_remove :
    clampIndex 1 4 1 2 10 none true = Clamp.index 2 ∧
    finish [1, 1, 1, 2] (clampIndex 1 4 1 2 10 none true) = (Outcome.threshold 2 1 : Outcome Int) ∧
    countBelow (1 : Int) [1, 1, 1, 2] = 0 ∧ ¬ (2 ≤ countBelow (1 : Int) [1, 1, 1, 2]) := by decide

/-- the same defect on the `min_samples` side: `logL = [1,2,2,2]`, `min_samples = 2`, a method that
wants to remove 3: index 2, threshold 2, and 3 samples are kept instead of exactly 2. -/
theorem ties_break_min_samples :
    clampIndex 3 4 2 1 10 none true = Clamp.index 2 ∧
    finish [1, 2, 2, 2] (clampIndex 3 4 2 1 10 none true) = (Outcome.threshold 2 2 : Outcome Int) ∧
    countKept (2 : Int) [1, 2, 2, 2] = 3 := by decide

section Quantile
variable {K : Type} [Field K] [LinearOrder K] [IsStrictOrderedRing K]

/-- **The weighted quantile is a convex combination of the data.**  For any non-decreasing table
`tbl` (the regularised incomplete beta function at the cumulative end points) that starts at
`I(0) = 0` and ends at `I(1) = 1`, the Harrell–Davis weights `tbl[i+1] - tbl[i]` are non-negative,
sum to one, and the estimate is their dot product with the data. -/
theorem quantile_is_convex_combination (t0 : K) (ts vals : List K)
    (hmono : (t0 :: ts).Pairwise (· ≤ ·)) (h0 : t0 = 0) (h1 : (t0 :: ts).getLastD 0 = 1) :
    (∀ w ∈ wqWeights (t0 :: ts), 0 ≤ w) ∧ (wqWeights (t0 :: ts)).sum = 1 ∧
      wq (t0 :: ts) vals = (List.zipWith (· * ·) (wqWeights (t0 :: ts)) vals).sum := by
  refine ⟨wqWeights_nonneg _ hmono, ?_, wq_eq_dot _ _⟩
  rw [wqWeights_sum, h1, h0]; ring

/-- **The weighted quantile lies within the data range** (any bounds `lo ≤ vᵢ ≤ hi` of the data
bound the estimate), for every monotone table with `I(0)=0`, `I(1)=1` — in particular for every
weight vector and every `q`. -/
theorem quantile_convex (lo hi t0 : K) (ts vals : List K)
    (hmono : (t0 :: ts).Pairwise (· ≤ ·)) (h0 : t0 = 0) (h1 : (t0 :: ts).getLastD 0 = 1)
    (hlen : ts.length = vals.length) (hv : ∀ v ∈ vals, lo ≤ v ∧ v ≤ hi) :
    lo ≤ wq (t0 :: ts) vals ∧ wq (t0 :: ts) vals ≤ hi := by
  subst h0
  have h := wq_bounds lo hi 0 ts vals hmono hlen hv
  rw [h1] at h
  constructor
  · linarith [h.1]
  · linarith [h.2]

example : (2 : ℚ) ≤ wq [(0 : ℚ), 1/4, 1] [2, 6] ∧ wq [(0 : ℚ), 1/4, 1] [2, 6] ≤ 6 :=
  quantile_convex 2 6 0 [1/4, 1] [2, 6] (by simp; norm_num) rfl (by simp) rfl
    (by intro v hv; simp at hv; rcases hv with rfl | rfl <;> norm_num)

example : (∀ w ∈ wqWeights [(0 : ℚ), 1/4, 1], 0 ≤ w) ∧ (wqWeights [(0 : ℚ), 1/4, 1]).sum = 1 ∧
    wq [(0 : ℚ), 1/4, 1] [2, 6] = (List.zipWith (· * ·) (wqWeights [(0 : ℚ), 1/4, 1]) [2, 6]).sum :=
  quantile_is_convex_combination 0 [1/4, 1] [2, 6] (by simp; norm_num) rfl (by simp)

example : wq [(0 : Rat), 1/4, 1] [2, 6] = 5 ∧ (2 : Rat) ≤ 5 ∧ (5 : Rat) ≤ 6 := by decide +kernel

/-- **Monotone in the quantile**, under the stated stochastic-monotonicity hypothesis: if the table
for `q'` lies pointwise below the table for `q` (for `q ≤ q'` the Beta distribution
`B(q(n+1), (1-q)(n+1))` moves to the right, so its CDF decreases at every end point — assumed of
SciPy's `betainc`, not proved), with equal first and last entries, and the data are sorted, then the
estimate for `q'` is not smaller. -/
theorem quantile_monotone (t0 s0 : K) (ts ss vals : List K)
    (hdom : List.Forall₂ (· ≤ ·) (s0 :: ss) (t0 :: ts)) (hlen : ts.length = vals.length)
    (hsorted : vals.Pairwise (· ≤ ·)) (hfirst : t0 = s0)
    (hlast : (t0 :: ts).getLastD 0 = (s0 :: ss).getLastD 0) :
    wq (t0 :: ts) vals ≤ wq (s0 :: ss) vals := by
  have h := wq_diff_le t0 s0 ts ss vals hdom hlen hsorted hlast
  rw [hfirst] at h
  simp at h
  rw [hfirst]
  linarith

example : wq [(0 : ℚ), 1/2, 1] [2, 6] ≤ wq [(0 : ℚ), 1/4, 1] [2, 6] :=
  quantile_monotone 0 0 [1/2, 1] [1/4, 1] [2, 6]
    (by refine .cons (by norm_num) (.cons (by norm_num) (.cons (by norm_num) .nil)))
    rfl (by norm_num) rfl (by simp)

example : wq [(0 : Rat), 1/2, 1] [2, 6] = 4 ∧ wq [(0 : Rat), 1/4, 1] [2, 6] = 5 := by decide +kernel

end Quantile
end NessaiVerif.C17
