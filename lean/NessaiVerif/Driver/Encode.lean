import NessaiVerif.Model.Encode
import NessaiVerif.Model.EncodeLeaf
import NessaiVerif.Gen.Encode
import NessaiVerif.Driver.Parse
/-
`enc` protocol (C19).  Value trees are written in prefix form, one token per node header:
  D n (key tree)*   keys: ks:<cps> | ki:<int> | kb:0|1 | kn | kx        dict (insertion order)
  L n tree* | T n tree*                                                 list | tuple
  i:<int> | f:<bits> | s:<cps> | N | b:0|1                              int, float (binary64 pattern), str, None, bool
  A <dt> <ndim> <dim>* <n> tree*      dt ∈ i f b u o                     ndarray (items in C order)
  S <nf> (s:<cps>)* <nrows> <ncells> tree*                              structured array (row-major cells)
  ni:<int> | nf:<k>:<bits>[:<exact>] | nb:0|1 | ns:<cps> | o:<cps>      numpy scalars, opaque object (str(obj))
<cps> = decimal code points joined by '.', <exact> = exact-value token `<odd mantissa>e<exp2>`.
Commands:
  enc json <tree>                       -> ok <tree> | err=type          (what json.load returns)
  enc kwargs <n> <tree>*n <tree>        values of the n keys save_kwargs adds, then the kwargs dict
  enc h5 <tree>                         -> ok <h5 tree> | err=…          (read back, keys sorted, numbers by value)
  enc results <extension> <tree>        -> json …|hdf5 … | err=runtime   (save_results after the name logic)
  enc ext <fileExt|-> <extension|-|none> -> json|hdf5 <append 0/1> | err=runtime   (`-` = empty string)
  enc chain                             -> the generated dispatch
-/
namespace NessaiVerif.Driver.Encode
open NessaiVerif NessaiVerif.Parse NessaiVerif.Encode

def decodeCps (s : String) : Option String :=
  if s == "" then some "" else
    ((s.splitOn ".").mapM (fun (t : String) => t.toNat?.map Char.ofNat)).map String.ofList

def parseKey? (tok : String) : Option Key :=
  match tok.splitOn ":" with
  | ["ks", c] => (decodeCps c).map Key.str
  | ["ki", i] => i.toInt?.map Key.int
  | ["kb", b] => (parseBool? b).map Key.bool
  | ["kn"] => some .none
  | ["kx"] => some .bad
  | _ => none

def parseDT? : String → Option DT
  | "i" => some .int | "f" => some .float | "b" => some .bool | "u" => some .ustr | "o" => some .obj
  | _ => none

def parseFKind? : String → Option FKind
  | "e" => some .f16 | "f" => some .f32 | "d" => some .f64 | "g" => some .f128
  | _ => none

def pNats : Nat → List String → Option (List Nat × List String)
  | 0, r => some ([], r)
  | n + 1, t :: r => do
    let a ← t.toNat?
    let (as, r') ← pNats n r
    some (a :: as, r')
  | _, [] => none

def pNames : Nat → List String → Option (List String × List String)
  | 0, r => some ([], r)
  | n + 1, t :: r =>
    match t.splitOn ":" with
    | ["s", c] => do
      let a ← decodeCps c
      let (as, r') ← pNames n r
      some (a :: as, r')
    | _ => none
  | _, [] => none

mutual
def pTree : Nat → List String → Option (Tree × List String)
  | 0, _ => none
  | _, [] => none
  | fuel + 1, tok :: rest =>
    match tok.splitOn ":" with
    | ["N"] => some (.none, rest)
    | ["i", x] => x.toInt?.map (fun i => (.int i, rest))
    | ["f", x] => x.toNat?.map (fun b => (.float b, rest))
    | ["s", c] => (decodeCps c).map (fun s => (.str s, rest))
    | ["b", x] => (parseBool? x).map (fun b => (.bool b, rest))
    | ["ni", x] => x.toInt?.map (fun i => (.npInt i, rest))
    | ["nf", k, x] => do
      let k ← parseFKind? k
      let b ← x.toNat?
      some (.npFloat k b none, rest)
    | ["nf", k, x, e] => do
      let k ← parseFKind? k
      let b ← x.toNat?
      some (.npFloat k b (some e), rest)
    | ["nb", x] => (parseBool? x).map (fun b => (.npBool b, rest))
    | ["ns", c] => (decodeCps c).map (fun s => (.npStr s, rest))
    | ["o", c] => (decodeCps c).map (fun s => (.opaque s, rest))
    | ["L"] => match rest with
      | n :: rest => do
        let n ← n.toNat?
        let (xs, r) ← pList fuel n rest
        some (.list xs, r)
      | [] => none
    | ["T"] => match rest with
      | n :: rest => do
        let n ← n.toNat?
        let (xs, r) ← pList fuel n rest
        some (.tuple xs, r)
      | [] => none
    | ["D"] => match rest with
      | n :: rest => do
        let n ← n.toNat?
        let (kvs, r) ← pKvs fuel n rest
        some (.dict kvs, r)
      | [] => none
    | ["A"] => match rest with
      | dt :: nd :: rest => do
        let dt ← parseDT? dt
        let nd ← nd.toNat?
        let (shape, r) ← pNats nd rest
        match r with
        | n :: r => do
          let n ← n.toNat?
          let (xs, r') ← pList fuel n r
          some (.ndarray dt shape xs, r')
        | [] => none
      | _ => none
    | ["S"] => match rest with
      | nf :: rest => do
        let nf ← nf.toNat?
        let (names, r) ← pNames nf rest
        match r with
        | nr :: nc :: r => do
          let nr ← nr.toNat?
          let nc ← nc.toNat?
          let (xs, r') ← pList fuel nc r
          some (.structured names nr xs, r')
        | _ => none
      | [] => none
    | _ => none
def pList : Nat → Nat → List String → Option (List Tree × List String)
  | 0, _, _ => none
  | _ + 1, 0, r => some ([], r)
  | fuel + 1, n + 1, r => do
    let (x, r1) ← pTree fuel r
    let (xs, r2) ← pList fuel n r1
    some (x :: xs, r2)
def pKvs : Nat → Nat → List String → Option (List (Key × Tree) × List String)
  | 0, _, _ => none
  | _ + 1, 0, r => some ([], r)
  | _ + 1, _ + 1, [] => none
  | fuel + 1, n + 1, k :: r => do
    let k ← parseKey? k
    let (x, r1) ← pTree fuel r
    let (xs, r2) ← pKvs fuel n r1
    some ((k, x) :: xs, r2)
end

def parseTree? (toks : List String) : Option (Tree × List String) := pTree (toks.length + 2) toks

def keyTok : Key → String
  | .str s => "ks:" ++ cps s
  | .int i => "ki:" ++ toString i
  | .bool b => "kb:" ++ showBool b
  | .none => "kn"
  | .bad => "kx"

mutual
/-- tokens of a JSON-level tree (same grammar as the input) -/
def renderJ : Tree → List String
  | .dict kvs => ["D", toString kvs.length] ++ renderJKvs kvs
  | .list xs => ["L", toString xs.length] ++ renderJList xs
  | .tuple xs => ["T", toString xs.length] ++ renderJList xs
  | .int i => ["i:" ++ toString i]
  | .float b => ["f:" ++ toString b]
  | .str s => ["s:" ++ cps s]
  | .none => ["N"]
  | .bool b => ["b:" ++ showBool b]
  | _ => ["?"]
def renderJList : List Tree → List String
  | [] => []
  | x :: xs => renderJ x ++ renderJList xs
def renderJKvs : List (Key × Tree) → List String
  | [] => []
  | (k, v) :: rest => keyTok k :: (renderJ v ++ renderJKvs rest)
end

def showErr : Err → String
  | .type => "err=type" | .value => "err=value" | .os => "err=os" | .runtime => "err=runtime"
  | .malformed => "err=malformed"

def insertSorted (e : String × H5) : Kids → Kids
  | [] => [e]
  | x :: xs => if e.1 < x.1 then e :: x :: xs else x :: insertSorted e xs

mutual
def sortH : H5 → H5
  | .ds v => .ds v
  | .grp kids => .grp (sortKids kids)
def sortKids : List (String × H5) → List (String × H5)
  | [] => []
  | (k, h) :: rest => insertSorted (k, sortH h) (sortKids rest)
end

def runJson (t : Tree) : String :=
  match jsonRoundTrip Gen.Encode.jsonChain Gen.Encode.jsonFallback t with
  | .ok j => "ok " ++ " ".intercalate (renderJ j)
  | .error e => showErr e

def runH5 (kvs : List (Key × Tree)) : String :=
  let sent := Gen.Encode.h5Sentinel
  -- internal consistency of the two flatteners (the proved one and the error-ordered one)
  let consistent := match flattenKvs sent kvs with
    | .ok es => (flattenP sent kvs).2.isNone && (flattenP sent kvs).1.map (·.1) == es.map (·.1)
    | .error _ => (flattenP sent kvs).2.isSome
  if !consistent then "model-inconsistent" else
  match h5WriteFull sent kvs with
  | .error e => showErr e
  | .ok f =>
    match h5ReadToks sent (sortH (.grp f)) with
    | .ok toks => "ok " ++ " ".intercalate toks
    | .error e => showErr e

def showTest : TypeTest → String
  | .npInteger => "np.integer" | .npFloating => "np.floating" | .npNumber => "np.number"
  | .npGeneric => "np.generic" | .npBool => "np.bool_" | .ndarray => "np.ndarray"
def showAction : Action → String
  | .toInt => "int" | .toFloat => "float" | .toBool => "bool" | .tolist => "tolist" | .toStr => "str" | .item => "item"

def showChain : String :=
  "chain=" ++ showList (fun (e : TypeTest × Action) => showTest e.1 ++ "->" ++ showAction e.2) Gen.Encode.jsonChain ++
  " fallback=" ++ (match Gen.Encode.jsonFallback with | .strIfNotJsonable => "str-if-not-jsonable" | .raise => "raise") ++
  " sentinel=" ++ Gen.Encode.h5Sentinel ++
  " ext=" ++ showList (fun (e : String × Format) => e.1 ++ "->" ++ (match e.2 with | .json => "json" | .hdf5 => "hdf5"))
    Gen.Encode.extTable ++
  " posteriorAsDict=" ++ showBool Gen.Encode.jsonPosteriorAsDict ++
  " extra=" ++ showList id Gen.Encode.kwargsExtraKeys

def handle (toks : List String) : String :=
  match toks with
  | "json" :: rest =>
    match parseTree? rest with
    | some (t, []) => runJson t
    | _ => "bad-op"
  | "kwargs" :: n :: rest =>
    match n.toNat? with
    | none => "bad-op"
    | some n =>
      match pList (rest.length + 2) n rest with
      | some (vals, r) =>
        match parseTree? r with
        | some (.dict kvs, []) =>
          match jsonRoundTrip Gen.Encode.jsonChain Gen.Encode.jsonFallback
              (kwargsDict (Gen.Encode.kwargsExtraKeys.zip vals) kvs) with
          | .ok j => "ok " ++ " ".intercalate (renderJ j)
          | .error e => showErr e
        | _ => "bad-op"
      | none => "bad-op"
  | "h5" :: rest =>
    match parseTree? rest with
    | some (.dict kvs, []) => runH5 kvs
    | _ => "bad-op"
  | "results" :: ext :: rest =>
    match parseTree? rest with
    | some (.dict kvs, []) =>
      match formatOf Gen.Encode.extTable ext with
      | some .json =>
        "json " ++ runJson (.dict (if Gen.Encode.jsonPosteriorAsDict then posteriorToDict kvs else kvs))
      | some .hdf5 => "hdf5 " ++ runH5 kvs
      | none => "err=runtime"
    | _ => "bad-op"
  | ["ext", fe, e] =>
    let fe := if fe == "-" then "" else fe
    let e := if e == "none" then none else if e == "-" then some "" else some e
    match saveTarget Gen.Encode.extTable fe e with
    | .ok (.json, app) => "json " ++ showBool app
    | .ok (.hdf5, app) => "hdf5 " ++ showBool app
    | .error er => showErr er
  | ["chain"] => showChain
  | _ => "bad-op"

end NessaiVerif.Driver.Encode
