import NessaiVerif.Gen.CrashFS
import NessaiVerif.Proofs.CrashFSHist
/-
C11 — the protocols GENERATED from the nessai source (`Gen/CrashFS.lean`) meet the
specifications the history theorems need.  These are the proof obligations that
break when `safe_file_dump`, `FlowModel.save_weights` or the `except` clauses of
`FlowSampler._resume_from_file` change in a way that matters.
-/
set_option linter.unusedSimpArgs false
namespace NessaiVerif.CrashFS
open Gen

/-- `safe_file_dump` as it is in the source meets `DumpSpec` (both `save_existing` values) -/
theorem gen_dumpSpec : DumpSpec dumpProg := by
  constructor
  · intro se d fs cp
    obtain ⟨j, ins, f⟩ := cp
    obtain ⟨c, hc⟩ : ∃ c, fs cb = c := ⟨_, rfl⟩
    have hc' : fs ⟨.ckpt, .base⟩ = c := hc
    cases se <;> cases c <;>
      simp [crashState, dumpProg, dyn, FS.has, runOps, opRun, FS.set, hc', Content.exists?] <;>
      (rcases j with _|_|_|_|_|_|_|_|j <;> cases ins <;>
        simp [crashOps, opRun, opCrash, opPend, settle, FS.set, hc'])
  · intro se d fs
    obtain ⟨c, hc⟩ : ∃ c, fs cb = c := ⟨_, rfl⟩
    have hc' : fs ⟨.ckpt, .base⟩ = c := hc
    cases se <;> cases c <;>
      simp [runProg, dumpProg, dyn, FS.has, runOps, opRun, FS.set, hc', Content.exists?]

/-- `FlowModel.save_weights` as it is in the source meets `SaveSpec` -/
theorem gen_saveSpec : SaveSpec saveWeightsProg := by
  constructor
  · intro fam d fs cp
    obtain ⟨j, ins, f⟩ := cp
    obtain ⟨c, hc⟩ : ∃ c, fs ⟨fam, .base⟩ = c := ⟨_, rfl⟩
    cases c <;>
      simp [crashState, saveWeightsProg, dyn, FS.has, runOps, opRun, FS.set, hc, Content.exists?] <;>
      (rcases j with _|_|_|_|_|j <;> cases ins <;>
        simp [crashOps, opRun, opCrash, opPend, settle, FS.set, hc] <;> (try split) <;> simp <;>
        first | omega | (right; omega))
  · intro fam d fs
    obtain ⟨c, hc⟩ : ∃ c, fs ⟨fam, .base⟩ = c := ⟨_, rfl⟩
    cases c <;>
      simp [runProg, saveWeightsProg, dyn, FS.has, runOps, opRun, FS.set, hc, Content.exists?]

/-- the `except` clauses of `_resume_from_file` as they are in the source do what
`CkptGood` needs: a missing primary file falls through to `.old` -/
theorem gen_resumeSpec (h : WeightsHandler) : ResumeSpec (resumeCfgWith h) := by
  intro kind top fs prev hg hw
  obtain ⟨_, _, hp⟩ := hg
  cases prev with
  | none =>
    obtain ⟨hb, ho⟩ := hp
    have hb' : fs ⟨.ckpt, .base⟩ = .absent := hb
    have ho' : fs ⟨.ckpt, .old⟩ = .absent := ho
    simp [resume, resumeCfgWith, FS.has, hb', ho', Content.exists?, specOf]
  | some vn =>
    obtain ⟨v, n⟩ := vn
    rcases hp with hb | ⟨hb, ho⟩
    · have hb' : fs ⟨.ckpt, .base⟩ = .complete v n := hb
      have := hw cb v n (Or.inl rfl) hb
      simp [resume, attempt, resumeCfgWith, FS.has, hb', Content.exists?, specOf] at this ⊢
      simp [this]
    · have hb' : fs ⟨.ckpt, .base⟩ = .absent := hb
      have ho' : fs ⟨.ckpt, .old⟩ = .complete v n := ho
      have := hw co v n (Or.inr rfl) ho
      simp [resume, attempt, resumeCfgWith, FS.has, hb', ho', Content.exists?, specOf, catches,
        ExcName.covers] at this ⊢
      simp [this]

/-! ### weights side of the standard sampler -/

theorem catches_torn (l : List ExcName) (h : coversTorn l = true) (e : Exc) :
    catches l e = true := by
  simp only [coversTorn, List.all_cons, List.all_nil, Bool.and_true, Bool.and_eq_true] at h
  obtain ⟨h1, h2, h3, h4, h5, h6⟩ := h
  cases e <;> assumption

/-- a handler that passes `WeightsHandler.safe` never lets the weights reload raise -/
theorem safe_handler_ok (h : WeightsHandler) (hs : h.safe = true) (fs : FS) (n : Nat) :
    stdWeightsResume h fs n = none := by
  simp only [WeightsHandler.safe, Bool.and_eq_true, Bool.or_eq_true] at hs
  obtain ⟨⟨⟨hskip, habs⟩, hcov⟩, hfb⟩ := hs
  have fb : ∀ (c : Content) e, runFallback c e h.fallback = none := by
    intro c e
    cases hf : h.fallback with
    | reraise => rw [hf] at hfb; simp [Fallback.safe] at hfb
    | skip => rfl
    | loadOld g c2 =>
      rw [hf] at hfb
      simp only [Fallback.safe, Bool.and_eq_true, Bool.or_eq_true] at hfb
      obtain ⟨hg, hc⟩ := hfb
      simp only [runFallback]
      cases c with
      | absent =>
        rcases hg with hg | hg
        · simp [hg, Content.exists?]
        · simp [Content.exists?, loadContent, hg]
      | complete v m => simp [loadContent]
      | torn k e => simp [loadContent, catches_torn c2 hc e]
  unfold stdWeightsResume
  by_cases hn : n = 0
  · simp [hn, hskip]
  · simp only [hn, if_false, loadWeights]
    cases hw : fs ⟨.weights, primary n⟩ with
    | absent =>
      rcases habs with hg | hg
      · by_cases hm : h.onMissing <;> simp [hg, FS.has, hw, Content.exists?, hm, fb]
      · by_cases hgd : h.guardExists <;> by_cases hm : h.onMissing <;>
          simp [FS.has, hw, Content.exists?, loadContent, hg, fb, hgd, hm]
    | complete v m => simp [loadContent, fb]
    | torn k e => simp [loadContent, catches_torn h.excs hcov e, fb]

/-! ### the recorded weights path never drifts (standard sampler, handler as generated) -/

/-- whatever comes back for a checkpoint that recorded no weights or `model.pt`, the path
recorded afterwards is again none or `model.pt` -/
theorem gen_back_le (fs : FS) (n : Nat) (hn : n ≤ 1) : (stdWeightsBack weightsHandler fs n).2 ≤ 1 := by
  have h2 : n ≠ 2 := by omega
  have hp : primary n = .base := by simp [primary, h2]
  by_cases h0 : n = 0
  · simp [stdWeightsBack, h0]
  · cases hb : fs ⟨.weights, .base⟩ <;> cases ho : fs ⟨.weights, .old⟩ <;>
      simp [stdWeightsBack, fallbackBack, fallbackContent, weightsHandler, h0, h2, hp, FS.has, hb, ho,
        Content.exists?]

theorem attempt_mem_le (top : Nat) (fs : FS) (s : Suffix)
    (h : ∀ v n, fs ⟨.ckpt, s⟩ = .complete v n → n ≤ 1) :
    memAfter (attempt .std protocol.cfg top fs s) ≤ 1 := by
  unfold attempt
  cases hc : fs ⟨.ckpt, s⟩ with
  | absent => simp [memAfter]
  | torn k e => simp [memAfter]
  | complete v n =>
    have hn := h v n hc
    simp only
    split
    · simp only [memAfter, weightsBack]
      exact gen_back_le fs n hn
    · simp [memAfter]

theorem resume_mem_le (top : Nat) (fs : FS) (h : PicklesLe fs 1) :
    memAfter (resume .std protocol.cfg top fs) ≤ 1 := by
  have h1 := attempt_mem_le top fs .base (fun v n hv => h cb v n (Or.inl rfl) hv)
  have h2 := attempt_mem_le top fs .old (fun v n hv => h co v n (Or.inr rfl) hv)
  unfold resume
  simp only [protocol, protocolWith, resumeCfgWith] at h1 h2 ⊢
  generalize attempt Kind.std _ top fs Suffix.base = o1 at h1 ⊢
  generalize attempt Kind.std _ top fs Suffix.old = o2 at h2 ⊢
  by_cases hany : (![Suffix.base, Suffix.old].any fun s => fs.has ⟨.ckpt, s⟩) = true
  · simp only [hany, if_true]; simp [memAfter]
  · simp only [hany, if_false]
    cases o1 with
    | fresh => exact h1
    | loaded v n w m => exact h1
    | raises e =>
      by_cases hc : catches [ExcName.FileNotFoundError, ExcName.RuntimeError] e = true
      · simp only [hc, if_true]
        cases o2 with
        | fresh => exact h2
        | loaded v n w m => exact h2
        | raises e2 =>
          by_cases hc2 : catches [ExcName.RuntimeError] e2 = true <;> simp [hc2, memAfter]
      · simp only [hc]
        simp [memAfter]

/-- every history: the in-memory weights path and every checkpoint on disk record none or
`model.pt`, never `model.pt.old` -/
theorem hist_no_drift (hist : List Ev) (s : Sys) (hm : s.mem ≤ 1) (hp : PicklesLe s.fs 1) :
    (hist.foldl (step .std protocol) s).mem ≤ 1 ∧ PicklesLe (hist.foldl (step .std protocol) s).fs 1 := by
  induction hist generalizing s with
  | nil => exact ⟨hm, hp⟩
  | cons e r ih =>
    simp only [List.foldl]
    cases e with
    | ckpt se v n len cp =>
      cases cp with
      | none =>
        apply ih
        · exact hm
        · intro p v' n' hpp hv
          simp only [step, ckptN] at hv
          rcases dump_run_prov gen_dumpSpec se ⟨v, s.mem, len, .tornPickle⟩ s.fs p hpp with h | h | h | h
          · rw [show protocol.dump = dumpProg from rfl, h] at hv; exact hp cb v' n' (Or.inl rfl) hv
          · rw [show protocol.dump = dumpProg from rfl, h] at hv; exact hp co v' n' (Or.inr rfl) hv
          · rw [show protocol.dump = dumpProg from rfl, h] at hv; cases hv
          · rw [show protocol.dump = dumpProg from rfl, h] at hv; cases hv; exact hm
      | some cp =>
        have hp' : PicklesLe (crashState (dumpProg se) .ckpt ⟨v, s.mem, len, .tornPickle⟩ s.fs cp) 1 := by
          intro p v' n' hpp hv
          rcases dump_crash_prov gen_dumpSpec se ⟨v, s.mem, len, .tornPickle⟩ s.fs cp p hpp with h | h | h | h
          · rw [h] at hv; exact hp cb v' n' (Or.inl rfl) hv
          · rw [h] at hv; exact hp co v' n' (Or.inr rfl) hv
          · rw [h] at hv; cases hv
          · rw [h] at hv; cases hv; exact hm
        apply ih
        · simp only [step, ckptN]; exact resume_mem_le _ _ hp'
        · simp only [step, ckptN]; exact hp'
    | train w len e cp =>
      cases cp with
      | none =>
        apply ih
        · simp [step, trainMem]
        · intro p v' n' hpp hv
          simp only [step, trainFam] at hv
          rw [runProg_frame _ _ _ _ _ (by rcases hpp with rfl | rfl <;> simp)] at hv
          exact hp p v' n' hpp hv
      | some cp =>
        have hp' : PicklesLe (crashState saveWeightsProg .weights ⟨w, 0, len, e⟩ s.fs cp) 1 := by
          intro p v' n' hpp hv
          rw [crashState_frame _ _ _ _ _ _ (by rcases hpp with rfl | rfl <;> simp)] at hv
          exact hp p v' n' hpp hv
        apply ih
        · simp only [step, trainFam, trainTop]; exact resume_mem_le _ _ hp'
        · simp only [step, trainFam]; exact hp'

end NessaiVerif.CrashFS
