import NessaiVerif.Model.Np
import NessaiVerif.Model.PySlice
import NessaiVerif.Driver.Parse
/- `np` — the NumPy primitive models on their own (validated against NumPy by harness/np_prims.py):
   `np ssl [a..] v` | `np ssr [a..] v` | `np insert [a..] [idx..] [vals..]` | `np argmax [0/1..]`
   | `np complement n [idx..]` | `np cumsum [a..]` | `np splitn n k`
   Python/NumPy indexing (Model/PySlice.lean; bounds `none` or an integer):
   | `np getslice [a..] s e` | `np setslice [a..] s e [v..]` | `np getitem [a..] i` | `np setitem [a..] i x` -/
namespace NessaiVerif.Driver.NpPrim
open NessaiVerif NessaiVerif.Parse NessaiVerif.Np

def handle (toks : List String) : String :=
  match toks with
  | ["ssl", a, v] =>
    match parseList? parseInt? a, parseInt? v with
    | some a, some v => toString (ssl a v)
    | _, _ => "bad-op"
  | ["ssr", a, v] =>
    match parseList? parseInt? a, parseInt? v with
    | some a, some v => toString (ssr a v)
    | _, _ => "bad-op"
  | ["insert", a, i, v] =>
    match parseList? parseInt? a, parseList? parseNat? i, parseList? parseInt? v with
    | some a, some i, some v =>
      if i.length ≠ v.length then "err=value" else showList toString (insertMany a i v 0)
    | _, _, _ => "bad-op"
  | ["argmax", b] =>
    match parseList? parseBool? b with
    | some b => if b.isEmpty then "err=value" else toString (argmaxBool b)
    | none => "bad-op"
  | ["complement", n, i] =>
    match parseNat? n, parseList? parseNat? i with
    | some n, some i => showList toString (complement n i)
    | _, _ => "bad-op"
  | ["cumsum", a] =>
    match parseList? parseInt? a with
    | some a => showList toString (cumsum a 0)
    | none => "bad-op"
  | ["getslice", a, s, e] =>
    match parseList? parseInt? a, parseOpt? parseInt? s, parseOpt? parseInt? e with
    | some a, some s, some e => showList toString (Py.getSlice a s e)
    | _, _, _ => "bad-op"
  | ["setslice", a, s, e, v] =>
    match parseList? parseInt? a, parseOpt? parseInt? s, parseOpt? parseInt? e, parseList? parseInt? v with
    | some a, some s, some e, some v =>
      match Py.setSlice a s e v with
      | .ok r => showList toString r
      | .error _ => "err=value"
    | _, _, _, _ => "bad-op"
  | ["getitem", a, i] =>
    match parseList? parseInt? a, parseInt? i with
    | some a, some i =>
      match Py.getItem a i with
      | .ok r => toString r
      | .error _ => "err=index"
    | _, _ => "bad-op"
  | ["setitem", a, i, x] =>
    match parseList? parseInt? a, parseInt? i, parseInt? x with
    | some a, some i, some x =>
      match Py.setItem a i x with
      | .ok r => showList toString r
      | .error _ => "err=index"
    | _, _, _ => "bad-op"
  | _ => "bad-op"

end NessaiVerif.Driver.NpPrim
