"""py2lean — a small Python-`ast` → Lean 4 translator for straight-line integer / boolean decision logic.

It turns a *slice of statements* of a Python function (clamps, guards, index arithmetic) into one Lean `def`
in SSA / if-expression form over `Int`, `Bool` and `Option Int`, so that theorems about the definition are
re-proved by `lake build` against what the source says *now*.

Supported (everything else raises `TranslationError`; callers report that with `ctx.broken("translator: …")`):

  statements   `x = e`, `x: T = e`, `x += e` (also -=, *=), `if / elif / else` (nested), early `return e`,
               `pass`, doc strings, and expression statements that call a function listed in `ignore_calls`
               (logging).
  expressions  integer literals, `True/False`, names / attributes / calls declared in the signature,
               `+ - *`, unary `-`, `//` and `%` **by a non-zero integer literal** (Python floor semantics:
               `Int.fdiv` / `Int.fmod`), `max` / `min` (≥ 2 positional arguments), `int(e)` of an integer,
               `a if c else b`, comparisons (also chained) `== != < <= > >=`, `and / or / not`,
               `x is None`, `x is not None`.
  truthiness   per declared type: `Bool` → itself, `Int` → `≠ 0`, `Option Int` → `some v` with `v ≠ 0`
               (`truthyOpt`).  An `Option Int` may be used as a number only where the translator has
               established that it is not `None` (inside `x and …`, under `if x:` / `if x is not None:`);
               there it is read with `optGet`.

Free variables are declared by a *signature*: a list of `(python expression text, lean name, lean type)`;
the text is compared with `ast.unparse` of the sub-expression, so `self.min_samples`, `samples.size`,
`len(x)` or a local such as `n` can all be inputs.  `opaque_calls` maps a dotted function name (e.g.
`np.argmax`) to an input variable standing for the call's value.

The slice is selected structurally, never by line number: `start` is a prefix of the first line of
`ast.unparse(stmt)` of the first statement of the slice (searched in the function body, top level), `stop`
is the prefix of the first statement *after* the slice (if `None` the slice is the single start statement),
and `expect_after` lists the exact `ast.unparse` text of the statements that must follow the slice (this
pins down how the results are used, e.g. `threshold = samples[n]['logL'].copy()`).

Control flow: an `if` without `return` inside is merged symbolically (`let n2 := if c then a else b`); an
`if` that contains a `return` duplicates the continuation into both branches.  An early `return e` becomes
`ret_ctor e`; falling off the end of the slice becomes `fall_ctor r1 r2 …` for the declared result
variables (or the bare value / tuple when `fall_ctor` is `None`).
"""
import ast
import hashlib
import textwrap
from dataclasses import dataclass, field
from pathlib import Path
from typing import Dict, List, Optional, Sequence, Tuple

INT, BOOL, OPT = "Int", "Bool", "Option Int"
TYPES = (INT, BOOL, OPT)


class TranslationError(Exception):
    pass


@dataclass
class Spec:
    source: str                              # path relative to the repository root
    func: str                                # function name
    name: str                                # Lean definition name
    start: str                               # prefix of first line of unparse(first statement of the slice)
    sig: Sequence[Tuple[str, str, str]]      # (python text, lean name, lean type)
    results: Sequence[str]                   # python locals (or signature texts) that are the result
    result_type: str                         # Lean type of the definition
    cls: Optional[str] = None                # enclosing class, if any
    stop: Optional[str] = None               # prefix of the first statement after the slice
    expect_after: Sequence[str] = ()         # exact unparse of the statements following the slice
    opaque_calls: Dict[str, Tuple[str, str]] = field(default_factory=dict)
    ignore_calls: Sequence[str] = ("logger.debug", "logger.info", "logger.warning")
    ret_ctor: Optional[str] = None
    fall_ctor: Optional[str] = None
    doc: str = ""


@dataclass
class Translated:
    spec: Spec
    lean: str            # the definition text (with its header comment)
    first_line: int
    last_line: int
    sha256: str
    source_text: str
    params: List[Tuple[str, str]]


# ---------------------------------------------------------------------------------------------- helpers
def _dotted(node):
    if isinstance(node, ast.Name):
        return node.id
    if isinstance(node, ast.Attribute):
        b = _dotted(node.value)
        return None if b is None else b + "." + node.attr
    return None


def _first_line(stmt):
    return ast.unparse(stmt).split("\n", 1)[0]


def _has_return(stmts):
    for s in stmts:
        for n in ast.walk(s):
            if isinstance(n, ast.Return):
                return True
    return False


def _paren(s):
    s = s.strip()
    if s.replace("_", "a").replace(".", "a").isalnum() and not s[0] == "-":
        return s
    if s.startswith("(") and s.endswith(")"):
        depth = 0
        for i, ch in enumerate(s):
            depth += ch == "("
            depth -= ch == ")"
            if depth == 0 and i < len(s) - 1:
                break
        else:
            return s
    return "(" + s + ")"


def find_function(tree, func, cls=None):
    scope = tree.body
    if cls is not None:
        cands = [n for n in tree.body if isinstance(n, ast.ClassDef) and n.name == cls]
        if len(cands) != 1:
            raise TranslationError(f"class {cls}: expected exactly one definition, found {len(cands)}")
        scope = cands[0].body
    cands = [n for n in scope if isinstance(n, (ast.FunctionDef, ast.AsyncFunctionDef)) and n.name == func]
    if len(cands) != 1:
        raise TranslationError(f"function {func}: expected exactly one definition, found {len(cands)}")
    return cands[0]


def select_slice(fn, spec):
    body = fn.body
    hits = [i for i, s in enumerate(body) if _first_line(s).startswith(spec.start)]
    if len(hits) != 1:
        raise TranslationError(f"{spec.func}: start pattern {spec.start!r} matches {len(hits)} top-level statements")
    i = hits[0]
    if spec.stop is None:
        j = i + 1
    else:
        later = [k for k in range(i + 1, len(body)) if _first_line(body[k]).startswith(spec.stop)]
        if not later:
            raise TranslationError(f"{spec.func}: stop pattern {spec.stop!r} not found after the slice start")
        j = later[0]
    after = [ast.unparse(s) for s in body[j:j + len(spec.expect_after)]]
    if list(after) != list(spec.expect_after):
        raise TranslationError(f"{spec.func}: the statements after the slice are {after!r}, expected {list(spec.expect_after)!r}")
    return body[i:j]


# ---------------------------------------------------------------------------------------------- translator
class _Tx:
    def __init__(self, spec):
        self.spec = spec
        self.sig = {}
        self.used = set()
        self.params = []
        for text, lean, typ in spec.sig:
            if typ not in TYPES:
                raise TranslationError(f"signature: unknown type {typ!r} for {text!r}")
            norm = ast.unparse(ast.parse(text, mode="eval").body)
            self.sig[norm] = (lean, typ)
            self.params.append((lean, typ))
            self.used.add(lean)
        self.opaque = {}
        for fname, (lean, typ) in spec.opaque_calls.items():
            self.opaque[fname] = (lean, typ)
        self.opaque_seen = {}
        self.counter = {}

    # ---- names
    def fresh(self, py):
        base = py.replace(".", "_")
        k = self.counter.get(base, 0)
        while True:
            k += 1
            cand = f"{base}{k}" if not base[-1].isdigit() else f"{base}_{k}"
            if cand not in self.used:
                break
        self.counter[base] = k
        self.used.add(cand)
        return cand

    def lookup(self, node, env):
        """signature / local lookup of a leaf expression -> (lean, type) or None"""
        if isinstance(node, ast.Name) and node.id in env:
            return env[node.id]
        text = ast.unparse(node)
        if text in self.sig:
            return self.sig[text]
        if isinstance(node, ast.Call):
            f = _dotted(node.func)
            if f in self.opaque:
                if text not in self.opaque_seen:
                    lean, typ = self.opaque[f]
                    if self.opaque_seen:
                        lean = f"{lean}_{len(self.opaque_seen) + 1}"
                    self.opaque_seen[text] = (lean, typ)
                    self.params.append((lean, typ))
                    self.used.add(lean)
                return self.opaque_seen[text]
        return None

    # ---- expressions (value context)
    def expr(self, node, env, facts):
        hit = self.lookup(node, env)
        if hit is not None:
            return hit
        if isinstance(node, ast.Constant):
            if isinstance(node.value, bool):
                return ("true" if node.value else "false", BOOL)
            if isinstance(node.value, int):
                return (f"({node.value} : Int)" if node.value < 0 else str(node.value), INT)
            if node.value is None:
                return ("none", OPT)
            raise TranslationError(f"constant {node.value!r} is not an integer / boolean / None")
        if isinstance(node, (ast.Name, ast.Attribute, ast.Subscript)):
            raise TranslationError(f"free variable `{ast.unparse(node)}` is not declared in the signature")
        if isinstance(node, ast.UnaryOp):
            if isinstance(node.op, ast.USub):
                return ("-" + _paren(self.num(node.operand, env, facts)), INT)
            if isinstance(node.op, ast.UAdd):
                return (self.num(node.operand, env, facts), INT)
            if isinstance(node.op, ast.Not):
                p, _, _ = self.cond(node, env, facts)
                return (f"decide {_paren(p)}", BOOL)
            raise TranslationError(f"unary operator in `{ast.unparse(node)}`")
        if isinstance(node, ast.BinOp):
            a = self.num(node.left, env, facts)
            b = self.num(node.right, env, facts)
            if isinstance(node.op, ast.Add):
                return (f"{_paren(a)} + {_paren(b)}", INT)
            if isinstance(node.op, ast.Sub):
                return (f"{_paren(a)} - {_paren(b)}", INT)
            if isinstance(node.op, ast.Mult):
                return (f"{_paren(a)} * {_paren(b)}", INT)
            if isinstance(node.op, (ast.FloorDiv, ast.Mod)):
                d = node.right
                if isinstance(d, ast.UnaryOp) and isinstance(d.op, ast.USub):
                    d = d.operand
                if not (isinstance(d, ast.Constant) and isinstance(d.value, int) and not isinstance(d.value, bool)
                        and d.value != 0):
                    raise TranslationError(f"`{ast.unparse(node)}`: // and % are translated only for a non-zero literal divisor")
                fn = "Int.fdiv" if isinstance(node.op, ast.FloorDiv) else "Int.fmod"
                return (f"{fn} {_paren(a)} {_paren(b)}", INT)
            raise TranslationError(f"binary operator in `{ast.unparse(node)}`")
        if isinstance(node, ast.IfExp):
            p, ft, ff = self.cond(node.test, env, facts)
            a, ta = self.expr(node.body, env, facts | ft)
            b, tb = self.expr(node.orelse, env, facts | ff)
            if ta != tb:
                raise TranslationError(f"`{ast.unparse(node)}`: branches of different type ({ta} / {tb})")
            return (f"if {p} then {a} else {b}", ta)
        if isinstance(node, ast.Call):
            f = _dotted(node.func)
            if node.keywords:
                raise TranslationError(f"keyword arguments in `{ast.unparse(node)}`")
            if f in ("max", "min"):
                if len(node.args) < 2 or any(isinstance(a, ast.Starred) for a in node.args):
                    raise TranslationError(f"`{ast.unparse(node)}`: {f} needs at least two positional arguments")
                parts = [self.num(a, env, facts) for a in node.args]
                out = _paren(parts[-1])
                for p in reversed(parts[:-1]):
                    out = f"({f} {_paren(p)} {out})"
                return (out, INT)
            if f == "int" and len(node.args) == 1:
                return (self.num(node.args[0], env, facts), INT)
            if f == "bool" and len(node.args) == 1:
                p, _, _ = self.cond(node.args[0], env, facts)
                return (f"decide {_paren(p)}", BOOL)
            raise TranslationError(f"call `{ast.unparse(node)}` is not declared (signature / opaque_calls)")
        if isinstance(node, ast.Compare):
            p, _, _ = self.cond(node, env, facts)
            return (f"decide {_paren(p)}", BOOL)
        if isinstance(node, ast.BoolOp):
            vals = [self.expr(v, env, facts) for v in node.values]
            if any(t != BOOL for _, t in vals):
                raise TranslationError(f"`{ast.unparse(node)}`: and/or used as a value on non-boolean operands")
            op = " && " if isinstance(node.op, ast.And) else " || "
            return ("(" + op.join(_paren(v) for v, _ in vals) + ")", BOOL)
        raise TranslationError(f"unsupported expression `{ast.unparse(node)}` ({type(node).__name__})")

    def num(self, node, env, facts):
        """integer-valued expression"""
        e, t = self.expr(node, env, facts)
        if t == INT:
            return e
        if t == OPT:
            if e in facts:
                return f"optGet {e}"
            raise TranslationError(f"`{ast.unparse(node)}` is Optional and is used as a number where it may be None")
        raise TranslationError(f"`{ast.unparse(node)}` has type {t}, an integer is required")

    # ---- conditions: -> (Prop text, facts when true, facts when false)
    def cond(self, node, env, facts):
        if isinstance(node, ast.BoolOp):
            props, ft, ff = [], set(), set()
            cur = set(facts)
            if isinstance(node.op, ast.And):
                for v in node.values:
                    p, t, _ = self.cond(v, env, cur)
                    props.append(_paren(p))
                    cur |= t
                    ft |= t
                return (" ∧ ".join(props), ft, set())
            for v in node.values:
                p, _, f = self.cond(v, env, cur)
                props.append(_paren(p))
                cur |= f
                ff |= f
            return (" ∨ ".join(props), set(), ff)
        if isinstance(node, ast.UnaryOp) and isinstance(node.op, ast.Not):
            p, t, f = self.cond(node.operand, env, facts)
            return (f"¬ {_paren(p)}", f, t)
        if isinstance(node, ast.Compare):
            props, ft, ff = [], set(), set()
            left = node.left
            for op, right in zip(node.ops, node.comparators):
                if isinstance(op, (ast.Is, ast.IsNot)):
                    if not (isinstance(right, ast.Constant) and right.value is None):
                        raise TranslationError(f"`{ast.unparse(node)}`: `is` is translated only against None")
                    e, t = self.expr(left, env, facts)
                    if t != OPT:
                        raise TranslationError(f"`{ast.unparse(left)} is None` on a value of type {t}")
                    if isinstance(op, ast.Is):
                        props.append(f"{e} = none")
                        if len(node.ops) == 1:
                            ff.add(e)
                    else:
                        props.append(f"{e} ≠ none")
                        ft.add(e)
                else:
                    la, ta = self.expr(left, env, facts)
                    ra, tb = self.expr(right, env, facts)
                    if ta == BOOL and tb == BOOL and isinstance(op, (ast.Eq, ast.NotEq)):
                        pass
                    else:
                        la, ra = self.num(left, env, facts), self.num(right, env, facts)
                    sym = {ast.Eq: "=", ast.NotEq: "≠", ast.Lt: "<", ast.LtE: "≤", ast.Gt: ">", ast.GtE: "≥"}.get(type(op))
                    if sym is None:
                        raise TranslationError(f"comparison operator in `{ast.unparse(node)}`")
                    props.append(f"{_paren(la)} {sym} {_paren(ra)}")
                left = right
            if len(props) == 1:
                return (props[0], ft, ff)
            return (" ∧ ".join(_paren(p) for p in props), ft, set())
        if isinstance(node, ast.Constant) and isinstance(node.value, bool):
            return ("True" if node.value else "False", set(), set())
        e, t = self.expr(node, env, facts)
        if t == BOOL:
            return (f"{_paren(e)} = true", set(), set())
        if t == INT:
            return (f"{_paren(e)} ≠ 0", set(), set())
        if t == OPT:
            return (f"truthyOpt {_paren(e)} = true", {e}, set())
        raise TranslationError(f"truthiness of `{ast.unparse(node)}`")

    # ---- statements
    def is_ignored(self, s):
        if isinstance(s, ast.Pass):
            return True
        if isinstance(s, ast.Expr):
            v = s.value
            if isinstance(v, ast.Constant) and isinstance(v.value, str):
                return True
            if isinstance(v, ast.Call) and _dotted(v.func) in self.spec.ignore_calls:
                return True
        return False

    def assign_parts(self, s, env, facts):
        """-> (python target name, lean expr, type) for Assign / AnnAssign / AugAssign"""
        if isinstance(s, ast.Assign):
            if len(s.targets) != 1 or not isinstance(s.targets[0], ast.Name):
                raise TranslationError(f"assignment target in `{_first_line(s)}`")
            e, t = self.expr(s.value, env, facts)
            return s.targets[0].id, e, t
        if isinstance(s, ast.AnnAssign):
            if not isinstance(s.target, ast.Name) or s.value is None:
                raise TranslationError(f"assignment target in `{_first_line(s)}`")
            e, t = self.expr(s.value, env, facts)
            return s.target.id, e, t
        if isinstance(s, ast.AugAssign):
            if not isinstance(s.target, ast.Name):
                raise TranslationError(f"assignment target in `{_first_line(s)}`")
            node = ast.BinOp(left=ast.Name(id=s.target.id, ctx=ast.Load()), op=s.op, right=s.value)
            e, t = self.expr(node, env, facts)
            return s.target.id, e, t
        raise AssertionError

    def check_type(self, py, t, env, where):
        if py in env and env[py][1] != t:
            raise TranslationError(f"`{where}`: variable {py} changes type from {env[py][1]} to {t}")
        key = ast.unparse(ast.Name(id=py, ctx=ast.Load()))
        if py not in env and key in self.sig and self.sig[key][1] != t:
            raise TranslationError(f"`{where}`: variable {py} changes type from {self.sig[key][1]} to {t}")

    def sym_block(self, stmts, env, facts):
        """return-free block evaluated symbolically: env' (values are Lean expressions over the outer variables)"""
        env = dict(env)
        for s in stmts:
            if self.is_ignored(s):
                continue
            if isinstance(s, (ast.Assign, ast.AnnAssign, ast.AugAssign)):
                py, e, t = self.assign_parts(s, env, facts)
                self.check_type(py, t, env, _first_line(s))
                env[py] = (_paren(e), t)
            elif isinstance(s, ast.If):
                p, ft, ff = self.cond(s.test, env, facts)
                e1 = self.sym_block(s.body, env, facts | ft)
                e2 = self.sym_block(s.orelse, env, facts | ff)
                for py in sorted(set(e1) | set(e2)):
                    a, b = e1.get(py), e2.get(py)
                    if a == b:
                        continue
                    if a is None or b is None:
                        cur = self.current(py, env)
                        if cur is None:
                            raise TranslationError(f"variable {py} is assigned in only one branch of `{_first_line(s)}` and has no earlier value")
                        a, b = a or cur, b or cur
                    if a[1] != b[1]:
                        raise TranslationError(f"variable {py} has different types in the branches of `{_first_line(s)}`")
                    env[py] = (f"(if {p} then {a[0]} else {self.unwrap_else(b[0])})", a[1])
            else:
                raise TranslationError(f"unsupported statement `{_first_line(s)}` ({type(s).__name__})")
        return env

    @staticmethod
    def unwrap_else(e):
        # `else (if … )` reads better as `else if …`
        if e.startswith("(if ") and e.endswith(")"):
            depth = 0
            for i, ch in enumerate(e):
                depth += ch == "("
                depth -= ch == ")"
                if depth == 0 and i < len(e) - 1:
                    return e
            return e[1:-1]
        return e

    def current(self, py, env):
        if py in env:
            return env[py]
        key = ast.unparse(ast.Name(id=py, ctx=ast.Load()))
        return self.sig.get(key)

    def block(self, stmts, env, facts, ind):
        """statement list -> Lean term text (list of lines) ending in the result"""
        pad = "  " * ind
        if not stmts:
            return [pad + self.result(env)]
        s, rest = stmts[0], stmts[1:]
        if self.is_ignored(s):
            return self.block(rest, env, facts, ind)
        if isinstance(s, ast.Return):
            if self.spec.ret_ctor is None:
                raise TranslationError(f"`{_first_line(s)}`: early return but no ret_ctor declared")
            if s.value is None:
                raise TranslationError("bare `return`")
            e = self.num(s.value, env, facts)
            return [pad + f"{self.spec.ret_ctor} {_paren(e)}"]
        if isinstance(s, (ast.Assign, ast.AnnAssign, ast.AugAssign)):
            py, e, t = self.assign_parts(s, env, facts)
            self.check_type(py, t, env, _first_line(s))
            v = self.fresh(py)
            env2 = dict(env)
            env2[py] = (v, t)
            return [pad + f"let {v} : {t} := {e}"] + self.block(rest, env2, self.carry(facts, e, v), ind)
        if isinstance(s, ast.If):
            p, ft, ff = self.cond(s.test, env, facts)
            if _has_return([s]):
                out = [pad + f"if {p} then"]
                out += self.block(list(s.body) + list(rest), env, facts | ft, ind + 1)
                out += [pad + "else"]
                out += self.block(list(s.orelse) + list(rest), env, facts | ff, ind + 1)
                return out
            merged = self.sym_block([s], env, facts)
            env2 = dict(env)
            out = []
            for py in sorted(merged):
                if py in env and merged[py] == env[py]:
                    continue
                if merged[py] == self.current(py, env):
                    continue
                e, t = merged[py]
                v = self.fresh(py)
                out.append(pad + f"let {v} : {t} := {self.unwrap_else(e)}")
                env2[py] = (v, t)
            return out + self.block(rest, env2, facts, ind)
        raise TranslationError(f"unsupported statement `{_first_line(s)}` ({type(s).__name__})")

    @staticmethod
    def carry(facts, e, v):
        # `y = x` keeps the not-None knowledge about x for y
        return facts | {v} if e in facts else facts

    def result(self, env):
        vals = []
        for r in self.spec.results:
            cur = self.current(r, env)
            if cur is None:
                raise TranslationError(f"result variable {r} is not defined at the end of the slice")
            vals.append(cur[0])
        if self.spec.fall_ctor:
            return self.spec.fall_ctor + " " + " ".join(_paren(v) for v in vals)
        return vals[0] if len(vals) == 1 else "(" + ", ".join(vals) + ")"


def translate(repo_root, spec: Spec) -> Translated:
    path = Path(repo_root) / spec.source
    try:
        src = path.read_text()
        tree = ast.parse(src)
    except (OSError, SyntaxError) as e:
        raise TranslationError(f"cannot read/parse {spec.source}: {e}")
    fn = find_function(tree, spec.func, spec.cls)
    stmts = select_slice(fn, spec)
    first, last = stmts[0].lineno, stmts[-1].end_lineno
    lines = src.split("\n")[first - 1:last]
    text = textwrap.dedent("\n".join(lines)) + "\n"
    sha = hashlib.sha256(text.encode()).hexdigest()
    tx = _Tx(spec)
    body = tx.block(list(stmts), {}, set(), 1)
    groups, cur = [], None
    for lean, typ in tx.params:
        if cur and cur[1] == typ:
            cur[0].append(lean)
        else:
            cur = ([lean], typ)
            groups.append(cur)
    params = " ".join("(" + " ".join(ns) + " : " + t + ")" for ns, t in groups)
    where = (spec.cls + "." if spec.cls else "") + spec.func
    head = [f"/- source: {spec.source}  lines {first}-{last}  ({where})",
            f"   sha256 of the translated source text: {sha}"]
    if spec.expect_after:
        head.append("   followed in the source by: " + " ; ".join(spec.expect_after))
    if tx.opaque_seen:
        head.append("   opaque inputs: " + " ; ".join(f"{v[0]} := {k}" for k, v in tx.opaque_seen.items()))
    head.append("   signature: " + ", ".join(f"{lean} := {txt}" for txt, lean, _ in spec.sig) + " -/")
    doc = f"/-- {spec.doc} -/\n" if spec.doc else ""
    lean = "\n".join(head) + "\n" + doc + f"def {spec.name} {params} : {spec.result_type} :=\n" + "\n".join(body) + "\n"
    return Translated(spec, lean, first, last, sha, text, list(tx.params))


def render_file(namespace, imports, opens, items: Sequence[Translated], banner=""):
    out = ["/- GENERATED by harness/py2lean.py from the nessai sources — do not edit by hand.",
           "   Regenerated on every run of the owning check; written only when the text changes."]
    if banner:
        out.append("   " + banner)
    out[-1] += " -/"
    out += [f"import {m}" for m in imports]
    out += [f"namespace {namespace}"]
    out += [f"open {o}" for o in opens]
    out.append("")
    for it in items:
        out.append(it.lean)
    out.append(f"end {namespace}")
    return "\n".join(out) + "\n"


def write_if_changed(path, text):
    path = Path(path)
    if path.exists() and path.read_text() == text:
        return False
    path.parent.mkdir(parents=True, exist_ok=True)
    path.write_text(text)
    return True
