import NessaiVerif.Model.Np
/-
C13 — micro-step model of one iteration of the standard nested sampler
(`NestedSampler.consume_sample` + `insert_live_point`) and of an interruption
(signal handler → checkpoint → exit → resume → the loop restarts `consume_sample` from the top).

Each *tag* is one source statement that mutates pickled sampler state.  The order in which
the code executes them is extracted from the source on every run (Gen/Interrupt.lean).
-/
namespace NessaiVerif.Interrupt
open NessaiVerif.Np

structure Pt where
  key : Int
  id : Nat
deriving DecidableEq, Repr, Inhabited

inductive Tag
  | setMin        -- self.logLmin = worst["logL"]
  | increment     -- self.state.increment(worst["logL"])
  | appendNested  -- self.nested_samples.append(worst)
  | iter          -- self.iteration += 1
  | shift         -- self.live_points[: index - 1] = self.live_points[1:index]
  | place         -- self.live_points[index - 1] = live_point
  | idx           -- self.insertion_indices.append(index)
deriving DecidableEq, Repr

structure NS where
  live : List Pt := []
  nested : List Pt := []
  evid : List Int := []      -- likelihoods integrated by the evidence state, in order
  idx : List Nat := []       -- insertion indices
  iter : Nat := 0
  logLmin : Option Int := none
deriving Repr, DecidableEq

/-- locals of `consume_sample` that survive between statements -/
structure Locals where
  worst : Pt
  index : Nat       -- np.searchsorted(live logL, candidate logL), computed when `shift` starts

def keys (l : List Pt) : List Int := l.map (·.key)

/-- `live[: index-1] = live[1:index]` (NumPy slice assignment; a no-op when `index ≤ 1`) -/
def shiftLive (live : List Pt) (index : Nat) : List Pt :=
  if index ≤ 1 then live else (live.drop 1).take (index - 1) ++ live.drop (index - 1)

/-- `live[index-1] = p`; for `index = 0` NumPy writes the LAST element (`live[-1]`) -/
def placeLive (live : List Pt) (index : Nat) (p : Pt) : List Pt :=
  if index = 0 then (if live = [] then [] else live.set (live.length - 1) p)
  else live.set (index - 1) p

/-- one mutating statement; `p` is the accepted candidate -/
def applyTag (s : NS) (loc : Locals) (p : Pt) : Tag → NS × Locals
  | .setMin => ({ s with logLmin := some loc.worst.key }, loc)
  | .increment => ({ s with evid := s.evid ++ [loc.worst.key] }, loc)
  | .appendNested => ({ s with nested := s.nested ++ [loc.worst] }, loc)
  | .iter => ({ s with iter := s.iter + 1 }, loc)
  | .shift =>
      let index := ssl (keys s.live) p.key
      ({ s with live := shiftLive s.live index }, { loc with index := index })
  | .place => ({ s with live := placeLive s.live loc.index p }, loc)
  | .idx => ({ s with idx := s.idx ++ [loc.index - 1] }, loc)

def applyTags (s : NS) (loc : Locals) (p : Pt) : List Tag → NS × Locals
  | [] => (s, loc)
  | t :: ts => let (s', loc') := applyTag s loc p t; applyTags s' loc' p ts

/-- the statements of one iteration in the order the code executes them -/
def canonicalOrder : List Tag := [.setMin, .increment, .appendNested, .iter, .shift, .place, .idx]

/-- run the given statements of `consume_sample` on `s` with candidate `p` (`worst = live[0].copy()` first) -/
def runTags (s : NS) (p : Pt) (tags : List Tag) : NS :=
  match s.live with
  | [] => s
  | w :: _ => (applyTags s { worst := w, index := 0 } p tags).1

/-- a complete iteration -/
def consume (order : List Tag) (s : NS) (p : Pt) : NS := runTags s p order

/-- interruption after the first `j` mutating statements, checkpoint, resume, and a complete iteration
    with the (possibly different) candidate `p'` -/
def interruptResume (order : List Tag) (s : NS) (p p' : Pt) (j : Nat) : NS :=
  consume order (runTags s p (order.take j)) p'

/-- `finalise`: every remaining live point is integrated and recorded -/
def finalise (s : NS) : NS :=
  { s with nested := s.nested ++ s.live, evid := s.evid ++ keys s.live, live := [] }

/-- the consistency list of the property (decidable): full live set without duplicates, no discarded point
    recorded or integrated twice / lost, counts agree -/
def consistent (n : Nat) (s : NS) : Bool :=
  s.live.length == n &&
  s.nested.length == s.iter && s.evid.length == s.iter && s.idx.length == s.iter &&
  decide ((s.live ++ s.nested).map (·.id)).Nodup &&
  decide ((keys s.live).Pairwise (· ≤ ·)) &&
  s.evid == keys s.nested

/-- a candidate the real `yield_sample` can return for state `s` -/
def validCand (s : NS) (p : Pt) : Bool :=
  match s.live with
  | [] => false
  | w :: _ => decide (w.key < p.key) && !((s.live ++ s.nested).map (·.id)).contains p.id

/-- ImportanceNestedSampler.checkpoint: `guardFirst` = the `periodic is False → return` test precedes the write -/
def insCheckpoint (guardFirst : Bool) (periodic : Bool) (file newState : Nat) : Nat :=
  if guardFirst && !periodic then file else newState

/-! ### a signal while the INITIAL live points are drawn (`populate_live_points`)

The draws fill an array of `n` rows (unfilled rows are NaN: `none`); `self.live_points` — what the handler's checkpoint
pickles — is bound either after the draw loop (`publishAfterFill`, the array is then complete and sorted) or before it
(the handler then pickles the partially filled, unsorted array).  `initialise(live_points=True)` of the resumed run draws the
initial points again exactly when the pickled attribute is `None`. -/

/-- ordered insert by (key, id): `np.sort(live_points, order="logL")` on points with distinct ids -/
def insPt (p : Pt) : List Pt → List Pt
  | [] => [p]
  | x :: xs => if p.key < x.key ∨ (p.key = x.key ∧ p.id ≤ x.id) then p :: x :: xs else x :: insPt p xs

def sortPts : List Pt → List Pt
  | [] => []
  | x :: xs => insPt x (sortPts xs)

/-- `self.live_points` as pickled by a handler that runs after `k` of the `n` initial draws -/
def populatePickled (publishAfterFill : Bool) (n : Nat) (draws : List Pt) (k : Nat) : Option (List (Option Pt)) :=
  if publishAfterFill then none
  else some ((draws.take k).map some ++ List.replicate (n - min k draws.length) none)

/-- the live set the resumed run starts iterating from (`draws'` = the initial draws of the new process) -/
def populateResumed (publishAfterFill : Bool) (n : Nat) (draws draws' : List Pt) (k : Nat) : List (Option Pt) :=
  match populatePickled publishAfterFill n draws k with
  | none => (sortPts draws').map some
  | some part => part

/-- a full, NaN-free live set in ascending likelihood order -/
def fullLive (n : Nat) (l : List (Option Pt)) : Bool :=
  decide (l.length = n) && l.all Option.isSome &&
    decide ((l.filterMap id).Pairwise (fun a b => a.key ≤ b.key))

end NessaiVerif.Interrupt
