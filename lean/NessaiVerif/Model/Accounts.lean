/-
C12 — the accounts (likelihood-evaluation counter, likelihood-evaluation time, sampling time) of a
sampler across checkpoints, kills and resumes.  Core Lean only.

What is modelled (nessai/samplers/base.py, nessai/model.py, nessai/samplers/nestedsampler.py):

* `Model.likelihood_evaluations` / `Model.likelihood_evaluation_time` live on the *model object*; a
  fresh process builds a fresh model, so both start at 0 (class attributes).
* `BaseNestedSampler.__getstate__` drops `model` and writes the two counters into the pickle as
  `_previous_likelihood_evaluations` / `_previous_likelihood_evaluation_time`.
* `BaseNestedSampler.resume_from_pickled_sampler` does
  `model.likelihood_evaluations += sampler._previous_likelihood_evaluations` (and the same for the time)
  on the model it is handed.
* `BaseNestedSampler.checkpoint`: `sampling_time += now - sampling_start_time`, pickle (the pickle
  therefore holds the OLD `sampling_start_time`), then `sampling_start_time = now`.
* `NestedSampler.nested_sampling_loop` sets `sampling_start_time = now` on entry;
  `ImportanceNestedSampler.nested_sampling_loop` does not (`resetStart = false`), so a resumed
  importance sampler keeps the pickled, stale start time.

Time is a logical clock (`Nat` ticks) that keeps running while no process is alive (`down`).
-/
namespace NessaiVerif.Accounts

/-- One step of a run's life. -/
inductive Op
  /-- a process is started: fresh `Model`, `FlowSampler(resume=True)`; resumes from the checkpoint file if
      there is one, builds a fresh sampler otherwise; then the sampling loop is entered -/
  | launch
  /-- the live process performs `e` likelihood evaluations while `t` ticks elapse, `lt` of them inside
      the timed window of `batch_evaluate_log_likelihood` -/
  | run (e t lt : Nat)
  /-- a checkpoint file is written (completely) -/
  | checkpoint
  /-- the process dies; nothing is written -/
  | kill
  /-- `d` ticks pass while no process is alive (ignored while one is) -/
  | down (d : Nat)
  deriving Repr, DecidableEq

/-- What the pickle carries of the accounts. -/
structure Saved where
  evals : Nat      -- `_previous_likelihood_evaluations`
  ltime : Nat      -- `_previous_likelihood_evaluation_time`
  stime : Nat      -- `sampling_time`
  start : Nat      -- `sampling_start_time` (the value BEFORE the checkpoint re-armed it)
  deriving Repr, DecidableEq

structure St where
  clock : Nat := 0
  alive : Bool := false
  mEvals : Nat := 0          -- model.likelihood_evaluations of the live process
  mLtime : Nat := 0          -- model.likelihood_evaluation_time
  stime : Nat := 0           -- sampler.sampling_time
  start : Nat := 0           -- sampler.sampling_start_time
  file : Option Saved := none
  deriving Repr, DecidableEq

/-- How the code is configured / written. -/
structure Cfg where
  /-- the sampling loop re-arms `sampling_start_time` on entry (NestedSampler: yes; importance sampler: no) -/
  resetStart : Bool
  /-- the model object handed to the resume is fresh (counter 0), as in a new process -/
  freshModel : Bool
  deriving Repr, DecidableEq

def step (c : Cfg) (s : St) : Op → St
  | .launch =>
    match s.file with
    | none =>
      -- no checkpoint: a fresh sampler is built (`sampling_time = 0`, `sampling_start_time = now`)
      { s with alive := true
               mEvals := if c.freshModel then 0 else s.mEvals
               mLtime := if c.freshModel then 0 else s.mLtime
               stime := 0, start := s.clock }
    | some sv =>
      { s with alive := true
               mEvals := (if c.freshModel then 0 else s.mEvals) + sv.evals
               mLtime := (if c.freshModel then 0 else s.mLtime) + sv.ltime
               stime := sv.stime
               start := if c.resetStart then s.clock else sv.start }
  | .run e t lt =>
    if s.alive then { s with clock := s.clock + t, mEvals := s.mEvals + e, mLtime := s.mLtime + lt } else s
  | .checkpoint =>
    if s.alive then
      let st' := s.stime + (s.clock - s.start)
      { s with stime := st'
               file := some { evals := s.mEvals, ltime := s.mLtime, stime := st', start := s.start }
               start := s.clock }
    else s
  | .kill => { s with alive := false }
  | .down d => if s.alive then s else { s with clock := s.clock + d }

def exec (c : Cfg) (s : St) (h : List Op) : St := h.foldl (step c) s

/-- `current_sampling_time` of an unfinalised sampler -/
def St.current (s : St) : Nat := s.stime + (s.clock - s.start)

/-! ### The specification: a commit log, written without any counter that is reset or re-seeded.

`committed` are the `run` steps covered by the last completed checkpoint of the lineage that is alive
(or was alive last), `pending` the ones performed since.  A kill discards `pending`; nothing else is ever
discarded, and nothing is ever added twice. -/
structure Log where
  alive : Bool := false
  committed : List (Nat × Nat × Nat) := []
  pending : List (Nat × Nat × Nat) := []
  hasFile : Bool := false
  deriving Repr, DecidableEq

def logStep (l : Log) : Op → Log
  | .launch => { l with alive := true, pending := [] }
  | .run e t lt => if l.alive then { l with pending := l.pending ++ [(e, t, lt)] } else l
  | .checkpoint => if l.alive then { l with committed := l.committed ++ l.pending, pending := [], hasFile := true } else l
  | .kill => { l with alive := false }
  | .down _ => l

def logOf (l : Log) (h : List Op) : Log := h.foldl logStep l

def Log.retained (l : Log) : List (Nat × Nat × Nat) := l.committed ++ l.pending

def sumE (xs : List (Nat × Nat × Nat)) : Nat := (xs.map (fun x => x.1)).sum
def sumT (xs : List (Nat × Nat × Nat)) : Nat := (xs.map (fun x => x.2.1)).sum
def sumL (xs : List (Nat × Nat × Nat)) : Nat := (xs.map (fun x => x.2.2)).sum

/-- every `run` step a live process performed, in order (what an uninterrupted observer would add up) -/
def performed : Bool → List Op → List (Nat × Nat × Nat)
  | _, [] => []
  | _, .launch :: h => performed true h
  | _, .kill :: h => performed false h
  | alive, .run e t lt :: h => if alive then (e, t, lt) :: performed alive h else performed alive h
  | alive, .checkpoint :: h => performed alive h
  | alive, .down _ :: h => performed alive h

/-- histories the harness produces: a process is launched only when none is alive, and only a live
    process runs / checkpoints / is killed -/
def wellFormed : Bool → List Op → Bool
  | _, [] => true
  | alive, .launch :: h => !alive && wellFormed true h
  | alive, .kill :: h => alive && wellFormed false h
  | alive, .run _ _ _ :: h => alive && wellFormed alive h
  | alive, .checkpoint :: h => alive && wellFormed alive h
  | alive, .down _ :: h => wellFormed alive h

end NessaiVerif.Accounts
