import NessaiVerif.Model.Loops
import Mathlib.Order.Basic
import Mathlib.Algebra.Order.Ring.Rat
import Mathlib.Tactic.Ring
import Mathlib.Tactic.FieldSimp
import Mathlib.Tactic.Linarith
import Mathlib.Algebra.Order.Field.Basic
/-
C15 — helper lemmas: the loop skeleton, the finalise loop, alias resolution, criteria algebra.
-/
namespace NessaiVerif.Loops

variable {σ : Type}

theorem iter_succ (body : σ → σ) (k : Nat) (s : σ) : iter body (k + 1) s = body (iter body k s) := by
  induction k generalizing s with
  | zero => rfl
  | succ k ih => exact ih (body s)

theorem iter_succ' (body : σ → σ) (k : Nat) (s : σ) : iter body (k + 1) s = iter body k (body s) := rfl

/-- when the bottom test does not fire right after the first body, leaving after `j+1` bodies from `s`
is leaving after `j` bodies from `body s` -/
theorem stopAt_succ (w top bot : σ → Bool) (body : σ → σ) (s : σ) (j : Nat)
    (hb : bot (body s) = false) :
    stopAt w top bot body s (j + 1) = stopAt w top bot body (body s) j := by
  unfold stopAt
  simp only [iter_succ']
  cases j with
  | zero => simp [iter, hb]
  | succ j => simp

theorem runLoop_spec (w top bot : σ → Bool) (body : σ → σ) :
    ∀ (fuel : Nat) (s : σ) (k0 k : Nat) (s' : σ),
      runLoop w top bot body fuel s k0 = some (k, s') ↔
        ∃ j, k = k0 + j ∧ j ≤ fuel ∧ s' = iter body j s ∧ stopAt w top bot body s j = true ∧
          ∀ i, i < j → stopAt w top bot body s i = false := by
  intro fuel
  induction fuel with
  | zero =>
    intro s k0 k s'
    unfold runLoop
    constructor
    · intro h
      split at h
      · rename_i hc
        cases h
        exact ⟨0, rfl, Nat.le_refl _, rfl, by simpa [stopAt, iter] using hc, by intro i hi; omega⟩
      · cases h
    · rintro ⟨j, hk, hj, hs, hstop, _⟩
      have : j = 0 := by omega
      subst this
      have hc : (!w s || top s) = true := by simpa [stopAt, iter] using hstop
      simp [hc, hk, hs, iter]
  | succ fuel ih =>
    intro s k0 k s'
    have h0 : stopAt w top bot body s 0 = (!w s || top s) := by simp [stopAt, iter]
    by_cases hw : w s = false
    · -- leaves at once through the while test
      have hs0 : stopAt w top bot body s 0 = true := by simp [h0, hw]
      unfold runLoop
      simp only [hw, Bool.not_false, if_true]
      constructor
      · intro h; cases h
        exact ⟨0, rfl, Nat.zero_le _, rfl, hs0, by intro i hi; omega⟩
      · rintro ⟨j, hk, _, hs, _, hmin⟩
        have : j = 0 := by
          by_contra hne
          have := hmin 0 (by omega)
          simp [hs0] at this
        subst this
        simp [hk, hs, iter]
    · have hw' : w s = true := by simpa using hw
      by_cases ht : top s = true
      · have hs0 : stopAt w top bot body s 0 = true := by simp [h0, ht]
        unfold runLoop
        simp only [hw', Bool.not_true, ht, if_true]
        constructor
        · intro h
          simp at h
          obtain ⟨rfl, rfl⟩ := h
          exact ⟨0, rfl, Nat.zero_le _, rfl, hs0, by intro i hi; omega⟩
        · rintro ⟨j, hk, _, hs, _, hmin⟩
          have : j = 0 := by
            by_contra hne
            have := hmin 0 (by omega)
            simp [hs0] at this
          subst this
          simp [hk, hs, iter]
      · have ht' : top s = false := by simpa using ht
        have hs0 : stopAt w top bot body s 0 = false := by simp [h0, hw', ht']
        unfold runLoop
        simp only [hw', Bool.not_true, ht']
        by_cases hb : bot (body s) = true
        · have hs1 : stopAt w top bot body s 1 = true := by simp [stopAt, iter, hb]
          simp only [hb, if_true]
          constructor
          · intro h
            simp at h
            obtain ⟨rfl, rfl⟩ := h
            refine ⟨1, rfl, by omega, rfl, hs1, ?_⟩
            intro i hi
            have : i = 0 := by omega
            subst this; exact hs0
          · rintro ⟨j, hk, _, hs, hstop, hmin⟩
            have : j = 1 := by
              by_contra hne
              rcases Nat.lt_or_ge j 1 with h | h
              · have : j = 0 := by omega
                subst this; simp [hs0] at hstop
              · have := hmin 1 (by omega)
                simp [hs1] at this
            subst this
            simp [hk, hs, iter]
        · have hb' : bot (body s) = false := by simpa using hb
          simp only [hb']
          simp only [Bool.false_eq_true, if_false]
          rw [ih (body s) (k0 + 1) k s']
          constructor
          · rintro ⟨j, hk, hj, hs, hstop, hmin⟩
            refine ⟨j + 1, by omega, by omega, by simpa [iter_succ'] using hs, ?_, ?_⟩
            · rw [stopAt_succ _ _ _ _ _ _ hb']; exact hstop
            · intro i hi
              cases i with
              | zero => exact hs0
              | succ i => rw [stopAt_succ _ _ _ _ _ _ hb']; exact hmin i (by omega)
          · rintro ⟨j, hk, hj, hs, hstop, hmin⟩
            cases j with
            | zero => simp [hs0] at hstop
            | succ j =>
              refine ⟨j, by omega, by omega, by simpa [iter_succ'] using hs, ?_, ?_⟩
              · rw [← stopAt_succ _ _ _ _ _ _ hb']; exact hstop
              · intro i hi
                rw [← stopAt_succ _ _ _ _ _ _ hb']; exact hmin (i + 1) (by omega)

/-- the loop returns as soon as some stop index lies within the fuel -/
theorem runLoop_isSome (w top bot : σ → Bool) (body : σ → σ) (fuel : Nat) (s : σ) (k0 : Nat)
    (h : ∃ j, j ≤ fuel ∧ stopAt w top bot body s j = true) :
    ∃ k s', runLoop w top bot body fuel s k0 = some (k, s') := by
  classical
  have hex : ∃ j, stopAt w top bot body s j = true := let ⟨j, _, hj⟩ := h; ⟨j, hj⟩
  let j0 := Nat.find hex
  have hj0 : stopAt w top bot body s j0 = true := Nat.find_spec hex
  have hle : j0 ≤ fuel := by
    obtain ⟨j, hj, hs⟩ := h
    exact Nat.le_trans (Nat.find_min' hex hs) hj
  refine ⟨k0 + j0, iter body j0 s, ?_⟩
  rw [runLoop_spec]
  refine ⟨j0, rfl, hle, rfl, hj0, ?_⟩
  intro i hi
  have := Nat.find_min hex hi
  simpa using this

/-! ### `Ext` is a linear order (so every order theorem applies to the driver's instantiation) -/

theorem Ext.le_def (a b : Ext) : a ≤ b ↔ Ext.le a b = true := Iff.rfl
theorem Ext.lt_def (a b : Ext) : a < b ↔ Ext.le b a = false := Iff.rfl

instance : LinearOrder Ext where
  le_refl a := by cases a <;> simp [Ext.le_def, Ext.le]
  le_trans a b c := by
    cases a <;> cases b <;> cases c <;> simp [Ext.le_def, Ext.le]
    exact fun h1 h2 => le_trans h1 h2
  le_antisymm a b := by
    cases a <;> cases b <;> simp [Ext.le_def, Ext.le]
    exact fun h1 h2 => le_antisymm h1 h2
  le_total a b := by
    cases a <;> cases b <;> simp [Ext.le_def, Ext.le]
    exact le_total _ _
  lt_iff_le_not_ge a b := by
    cases a <;> cases b <;> simp [Ext.le_def, Ext.lt_def, Ext.le]
    exact fun h => le_of_lt h
  toDecidableLE := inferInstance
  toDecidableLT := inferInstance
  toDecidableEq := inferInstance

/-! ### finalise -/

theorem finaliseLoop_spec {α : Type} (nl : Nat → Int) :
    ∀ (ps : List α) (i : Nat) (acc : FinAcc α),
      finaliseLoop nl ps i acc =
        ⟨acc.incs ++ (ps.zipIdx i).map (fun q => (q.1, nl q.2)), acc.nested ++ ps⟩ := by
  intro ps
  induction ps with
  | nil => intro i acc; simp [finaliseLoop]
  | cons p ps ih =>
    intro i acc
    simp [finaliseLoop, ih, List.zipIdx_cons]

/-! ### alias resolution -/

theorem filter_alias_nil (table : List (String × List String)) (x : String)
    (h : x ∉ allAliases table) : (table.filter fun e => e.2.contains x) = [] := by
  rw [List.filter_eq_nil_iff]
  intro e he hc
  apply h
  simp only [allAliases, List.mem_flatMap]
  exact ⟨e, he, by simpa using hc⟩

theorem resolveNames_unknown (table : List (String × List String)) (names : List String)
    (h : ∀ x ∈ names, x ∉ allAliases table) : resolveNames table names = [] := by
  unfold resolveNames
  rw [List.flatMap_eq_nil_iff]
  intro x hx
  rw [filter_alias_nil table x (h x hx)]
  rfl

/-- names-major resolution keeps the user's order: when every name resolves to exactly its canonical
criterion, the k-th resolved criterion is the canonical name of the k-th name given -/
theorem resolveNames_user_order (table : List (String × List String)) (names : List String)
    (h : ∀ x ∈ names, (table.filter fun e => e.2.contains x).map (·.1) = (canonOf table x).toList ∧
      (canonOf table x).isSome = true) :
    (resolveNames table names).map some = names.map (canonOf table) := by
  induction names with
  | nil => simp [resolveNames]
  | cons x xs ih =>
    have hx := h x (by simp)
    have ih' := ih (fun y hy => h y (by simp [hy]))
    unfold resolveNames at ih' ⊢
    rw [List.flatMap_cons, List.map_append, ih', hx.1]
    cases hc : canonOf table x with
    | none => simp [hc] at hx
    | some c => simp [hc]

/-! ### any / all over paired lists -/

theorem any_zipWith_le {K : Type} [LinearOrder K] (c t : List K) :
    (List.zipWith (fun c t => decide (c ≤ t)) c t).any id = true ↔ ∃ p ∈ c.zip t, p.1 ≤ p.2 := by
  induction c generalizing t with
  | nil => simp
  | cons a c ih => cases t with
    | nil => simp
    | cons b t => simp [ih]

theorem all_zipWith_le {K : Type} [LinearOrder K] (c t : List K) :
    (List.zipWith (fun c t => decide (c ≤ t)) c t).all id = true ↔ ∀ p ∈ c.zip t, p.1 ≤ p.2 := by
  induction c generalizing t with
  | nil => simp
  | cons a c ih => cases t with
    | nil => simp
    | cons b t => simp [ih]

/-! ### paired lists by index (specification side of any/all) -/

theorem zip_exists_iff_index {α : Type} (r : α → α → Prop) (c t : List α) :
    (∃ p ∈ c.zip t, r p.1 p.2) ↔ ∃ i, ∃ (h1 : i < c.length) (h2 : i < t.length), r c[i] t[i] := by
  constructor
  · rintro ⟨p, hp, hr⟩
    obtain ⟨i, hi, rfl⟩ := List.mem_iff_getElem.mp hp
    have hi' : i < c.length ∧ i < t.length := by simpa [List.length_zip] using hi
    refine ⟨i, hi'.1, hi'.2, ?_⟩
    simpa [List.getElem_zip] using hr
  · rintro ⟨i, h1, h2, hr⟩
    have hi : i < (c.zip t).length := by simp [List.length_zip]; omega
    refine ⟨(c.zip t)[i], List.getElem_mem hi, ?_⟩
    simpa [List.getElem_zip] using hr

theorem zip_forall_iff_index {α : Type} (r : α → α → Prop) (c t : List α) :
    (∀ p ∈ c.zip t, r p.1 p.2) ↔ ∀ i, ∀ (h1 : i < c.length) (h2 : i < t.length), r c[i] t[i] := by
  constructor
  · intro h i h1 h2
    have hi : i < (c.zip t).length := by simp [List.length_zip]; omega
    have := h (c.zip t)[i] (List.getElem_mem hi)
    simpa [List.getElem_zip] using this
  · intro h p hp
    obtain ⟨i, hi, rfl⟩ := List.mem_iff_getElem.mp hp
    have hi' : i < c.length ∧ i < t.length := by simpa [List.length_zip] using hi
    have := h i hi'.1 hi'.2
    simpa [List.getElem_zip] using this

/-! ### criteria algebra -/

section crit
variable {K : Type} [Field K]

/-- the model's own sum is the library sum -/
theorem sumK_eq_sum (ws : List K) : sumK ws = ws.sum := by
  induction ws with
  | nil => simp [sumK]
  | cons w ws ih => simp [sumK, ih]

theorem sumK_map_mul (ws : List K) (a : K) : sumK (ws.map (· * a)) = sumK ws * a := by
  induction ws with
  | nil => simp [sumK]
  | cons w ws ih => simp [sumK, ih]; ring

theorem sumK_map_div (ws : List K) (a : K) : sumK (ws.map (· / a)) = sumK ws / a := by
  simp only [div_eq_mul_inv]; exact sumK_map_mul ws a⁻¹

theorem sumK_sq_scaled (ws : List K) (a : K) :
    sumK (ws.map fun w => (w * a) * (w * a)) = sumK (ws.map fun w => w * w) * (a * a) := by
  induction ws with
  | nil => simp [sumK]
  | cons w ws ih => simp [sumK, ih]; ring

theorem sumK_dev (ws : List K) (m : K) :
    sumK (ws.map fun w => (w - m) * (w - m)) =
      sumK (ws.map fun w => w * w) - 2 * m * sumK ws + (ws.length : K) * (m * m) := by
  induction ws with
  | nil => simp [sumK]
  | cons w ws ih => simp [sumK, ih]; ring

end crit

end NessaiVerif.Loops
