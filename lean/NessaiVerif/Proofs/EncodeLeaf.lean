import NessaiVerif.Model.EncodeLeaf
import NessaiVerif.Proofs.EncodeH5
/- C19: the full HDF5 writer (`h5WriteFull`, the function the real code is tied to) agrees with the container-level
writer (`h5Write`) whenever every leaf is writable (core Lean only) -/
namespace NessaiVerif.Encode

mutual
theorem flattenP_of_ok (s : String) : ∀ (kvs : List (Key × Tree)) (es : List (Path × Tree)),
    flattenKvs s kvs = .ok es → flattenP s kvs = (es, none)
  | [], es, h => by simp [flattenKvs] at h; simp [flattenP, ← h]
  | (k, v) :: rest, es, h => by
      cases k with
      | str key =>
        simp only [flattenKvs] at h
        cases hv : flattenVal s v with
        | error e => simp [hv, bind, Except.bind] at h
        | ok here =>
          cases hr : flattenKvs s rest with
          | error e => simp [hv, hr, bind, Except.bind] at h
          | ok more =>
            simp [hv, hr, bind, Except.bind, pure, Except.pure] at h
            simp [flattenP, flattenPVal_of_ok s v here hv, flattenP_of_ok s rest more hr, ← h]
      | int _ => simp [flattenKvs] at h
      | bool _ => simp [flattenKvs] at h
      | none => simp [flattenKvs] at h
      | bad => simp [flattenKvs] at h
theorem flattenPVal_of_ok (s : String) : ∀ (v : Tree) (es : List (Path × Tree)),
    flattenVal s v = .ok es → flattenPVal s v = (es, none)
  | .dict kvs, es, h => by
      simp only [flattenVal] at h
      simpa [flattenPVal] using flattenP_of_ok s kvs es h
  | .list _, es, h | .tuple _, es, h | .int _, es, h | .float _, es, h | .str _, es, h | .none, es, h
  | .bool _, es, h | .ndarray _ _ _, es, h | .structured _ _ _, es, h | .npInt _, es, h
  | .npFloat _ _ _, es, h | .npBool _, es, h | .npStr _, es, h | .opaque _, es, h => by
      simp [flattenVal] at h; simp [flattenPVal, ← h]
end

def EntryOk (s : String) (e : Path × Tree) : Prop := ∃ t, h5LeafToks s e.2 = .ok t

theorem leafOk_iff (s : String) (v : Tree) : leafOk s v = true ↔ ∃ t, h5LeafToks s (h5Encode s v) = .ok t := by
  unfold leafOk
  cases h5LeafToks s (h5Encode s v) <;> simp

mutual
theorem entries_ok (s : String) : ∀ (kvs : List (Key × Tree)) (es : List (Path × Tree)),
    LeavesOkKvs s kvs → flattenKvs s kvs = .ok es → ∀ e ∈ es, EntryOk s e
  | [], es, _, h => by simp [flattenKvs] at h; subst h; simp
  | (k, v) :: rest, es, hl, h => by
      have hl' : LeavesOk s v ∧ LeavesOkKvs s rest := by simpa [LeavesOkKvs] using hl
      cases k with
      | str key =>
        simp only [flattenKvs] at h
        cases hv : flattenVal s v with
        | error e => simp [hv, bind, Except.bind] at h
        | ok here =>
          cases hr : flattenKvs s rest with
          | error e => simp [hv, hr, bind, Except.bind] at h
          | ok more =>
            simp [hv, hr, bind, Except.bind, pure, Except.pure] at h
            intro e he
            rw [← h] at he
            simp only [List.mem_append, List.mem_map] at he
            rcases he with ⟨e', he', rfl⟩ | he
            · exact entries_ok_val s v here hl'.1 hv e' he'
            · exact entries_ok s rest more hl'.2 hr e he
      | int _ => simp [flattenKvs] at h
      | bool _ => simp [flattenKvs] at h
      | none => simp [flattenKvs] at h
      | bad => simp [flattenKvs] at h
theorem entries_ok_val (s : String) : ∀ (v : Tree) (es : List (Path × Tree)),
    LeavesOk s v → flattenVal s v = .ok es → ∀ e ∈ es, EntryOk s e
  | .dict kvs, es, hl, h => by
      simp only [flattenVal] at h
      exact entries_ok s kvs es (by simpa [LeavesOk] using hl) h
  | .list _, es, hl, h | .tuple _, es, hl, h | .int _, es, hl, h | .float _, es, hl, h | .str _, es, hl, h
  | .none, es, hl, h | .bool _, es, hl, h | .ndarray _ _ _, es, hl, h | .structured _ _ _, es, hl, h
  | .npInt _, es, hl, h | .npFloat _ _ _, es, hl, h | .npBool _, es, hl, h | .npStr _, es, hl, h
  | .opaque _, es, hl, h => by
      simp [flattenVal] at h
      intro e he
      rw [← h] at he
      simp at he
      subst he
      exact (leafOk_iff s _).1 (by simpa [LeavesOk] using hl)
end

theorem writeSeq_eq_insertAll (s : String) : ∀ (es : List (Path × Tree)) (f : Kids),
    (∀ e ∈ es, EntryOk s e) → writeSeq s es f = insertAll es f
  | [], f, _ => by simp [writeSeq, insertAll]
  | (p, v) :: es, f, h => by
      obtain ⟨t, ht⟩ := h (p, v) (by simp)
      simp only [writeSeq, insertAll, ht]
      cases hi : insertKids p v f with
      | error e => rfl
      | ok f' => exact writeSeq_eq_insertAll s es f' (fun e he => h e (by simp [he]))

/-- for safe dictionaries with writable leaves the full writer is the container-level writer -/
theorem h5WriteFull_safe (s : String) (kvs : List (Key × Tree)) (hs : H5SafeKvs s kvs) (hl : LeavesOkKvs s kvs) :
    h5WriteFull s kvs = .ok (imgKvs s kvs) ∧ h5Write s kvs = .ok (imgKvs s kvs) := by
  obtain ⟨es, hfl, _, _, hins⟩ := write_kvs s kvs hs
  have h0 := hins [] (by intro k _ s' _; simp [lookupKid])
  simp only [List.nil_append] at h0
  refine ⟨?_, by simp [h5Write, hfl, h0]⟩
  simp [h5WriteFull, flattenP_of_ok s kvs es hfl, writeSeq_eq_insertAll s es [] (entries_ok s kvs es hl hfl), h0]

mutual
theorem readToks_imgVal (s : String) : ∀ v : Tree, LeavesOk s v → ∃ t, h5ReadToks s (imgVal s v) = .ok t
  | .dict kvs, hl => by
      obtain ⟨t, ht⟩ := readToks_imgKvs s kvs (by simpa [LeavesOk] using hl)
      exact ⟨_, by simp [imgVal, h5ReadToks, ht]; rfl⟩
  | .list _, hl | .tuple _, hl | .int _, hl | .float _, hl | .str _, hl | .none, hl | .bool _, hl
  | .ndarray _ _ _, hl | .structured _ _ _, hl | .npInt _, hl | .npFloat _ _ _, hl | .npBool _, hl
  | .npStr _, hl | .opaque _, hl => by
      obtain ⟨t, ht⟩ := (leafOk_iff s _).1 (by simpa [LeavesOk] using hl)
      exact ⟨t, by simpa [imgVal, h5ReadToks] using ht⟩
theorem readToks_imgKvs (s : String) : ∀ kvs : List (Key × Tree), LeavesOkKvs s kvs →
    ∃ t, h5ReadToksKids s (imgKvs s kvs) = .ok t
  | [], _ => ⟨[], by simp [imgKvs, h5ReadToksKids]⟩
  | (k, v) :: rest, hl => by
      have hl' : LeavesOk s v ∧ LeavesOkKvs s rest := by simpa [LeavesOkKvs] using hl
      obtain ⟨a, ha⟩ := readToks_imgVal s v hl'.1
      obtain ⟨b, hb⟩ := readToks_imgKvs s rest hl'.2
      exact ⟨_, by simp [imgKvs, h5ReadToksKids, ha, hb]; rfl⟩
end

theorem h5RoundTripFull_safe (s : String) (kvs : List (Key × Tree)) (hs : H5SafeKvs s kvs) (hl : LeavesOkKvs s kvs) :
    h5RoundTripFull s kvs = .ok (.dict kvs) ∧
    ∃ f toks, h5WriteFull s kvs = .ok f ∧ h5Write s kvs = .ok f ∧ h5ReadToksKids s f = .ok toks := by
  obtain ⟨h1, h2⟩ := h5WriteFull_safe s kvs hs hl
  obtain ⟨t, ht⟩ := readToks_imgKvs s kvs hl
  exact ⟨by simp [h5RoundTripFull, h1, read_imgKvs s kvs hs], _, t, h1, h2, ht⟩

end NessaiVerif.Encode
