"""C11 translator: nessai source -> lean/NessaiVerif/Gen/CrashFS.lean

Extracted with `ast` from the checkout `core.REPO` on every run:
  (i)  the ordered file operations of `safe_file_dump` (for save_existing True and False) and of
       `FlowModel.save_weights`, as Lean statement lists (`Stmt`/`Op` of Model/CrashFS.lean);
  (ii) the resume path: the candidate files of `FlowSampler.check_resume`, which file each attempt of
       `_resume_from_file` opens, the `except` tuples of the two attempts and what the inner handler raises;
       the shape of the weights reload in `FlowProposal.resume` (guards, try/except, fallback);
  (iii) wiring facts the model relies on (who calls whom, absence of try blocks, level layout) — these are
       checked, and reported as a broken translation when they no longer hold.
A construct outside the supported fragment raises `Untranslatable`; the caller reports it with ctx.broken.
"""
import ast
import hashlib
from pathlib import Path

MOVE_FUNCS = {"shutil.move", "os.replace", "os.rename"}
UNSUPPORTED_FS = {"os.remove", "os.unlink", "shutil.copy", "shutil.copy2", "shutil.copyfile", "shutil.copytree",
                  "shutil.rmtree", "os.truncate", "os.link", "os.symlink", "os.rmdir", "os.removedirs"}
HARMLESS_PREFIX = ("logger.", "logging.", "os.path.join", "os.fsync", "os.sync", "print", "warn", "warnings.")
EXC_NAMES = {"FileNotFoundError": "FileNotFoundError", "OSError": "OSError", "IOError": "OSError",
             "EnvironmentError": "OSError", "RuntimeError": "RuntimeError", "EOFError": "EOFError",
             "UnpicklingError": "UnpicklingError", "PickleError": "PickleError", "Exception": "Exception",
             "BaseException": "BaseException"}
RAISED = {"RuntimeError": "runtime", "FileNotFoundError": "fileNotFound", "EOFError": "eof",
          "UnpicklingError": "unpickling"}


class Untranslatable(Exception):
    pass


class Source:
    def __init__(self, repo, rel):
        self.rel = rel
        self.path = Path(repo) / rel
        if not self.path.exists():
            raise Untranslatable(f"{rel}: file not found")
        self.text = self.path.read_text()
        self.tree = ast.parse(self.text)

    def func(self, qual):
        parts = qual.split(".")
        body = self.tree.body
        node = None
        for i, name in enumerate(parts):
            node = None
            for n in body:
                if isinstance(n, (ast.FunctionDef, ast.ClassDef)) and n.name == name:
                    node = n
                    break
            if node is None:
                raise Untranslatable(f"{self.rel}: {qual} not found")
            body = node.body
        if not isinstance(node, ast.FunctionDef):
            raise Untranslatable(f"{self.rel}: {qual} is not a function")
        return node

    def header(self, qual, node):
        seg = ast.get_source_segment(self.text, node) or ""
        return (f"{self.rel}::{qual} lines {node.lineno}-{node.end_lineno} "
                f"sha256={hashlib.sha256(seg.encode()).hexdigest()}")


def dotted(node):
    try:
        return ast.unparse(node)
    except Exception:  # noqa
        return ""


def strip_doc(body):
    if body and isinstance(body[0], ast.Expr) and isinstance(getattr(body[0], "value", None), ast.Constant) \
            and isinstance(body[0].value.value, str):
        return body[1:]
    return body


def path_suffix(node, env):
    """suffix string ('' for the file itself) if `node` denotes <file><suffix>, else None"""
    if isinstance(node, ast.Name):
        return env.get(node.id)
    if isinstance(node, ast.BinOp) and isinstance(node.op, ast.Add):
        left = path_suffix(node.left, env)
        if left is not None and isinstance(node.right, ast.Constant) and isinstance(node.right.value, str):
            return left + node.right.value
        return None
    if isinstance(node, ast.JoinedStr) and node.values:
        first = node.values[0]
        if isinstance(first, ast.FormattedValue) and first.format_spec is None and first.conversion == -1:
            left = path_suffix(first.value, env)
            if left is None:
                return None
            rest = ""
            for v in node.values[1:]:
                if isinstance(v, ast.Constant) and isinstance(v.value, str):
                    rest += v.value
                else:
                    return None
            return left + rest
        return None
    if isinstance(node, ast.Call) and dotted(node.func) == "os.path.join" and node.args:
        # os.path.join(self.output, <file>) : the directory part is irrelevant
        return path_suffix(node.args[-1], env)
    return None


class Suffixes:
    """map suffix strings to the model's three names"""

    def __init__(self):
        self.temp = None

    def lean(self, s, where):
        if s == "":
            return ".base"
        if s == ".old":
            return ".old"
        if self.temp is None:
            self.temp = s
        if s != self.temp:
            raise Untranslatable(f"{where}: more than one temporary suffix ({self.temp!r}, {s!r})")
        return ".temp"


def mentions_path(node, env, handles):
    for sub in ast.walk(node):
        if isinstance(sub, ast.Name) and (sub.id in env or sub.id in handles):
            return True
    return False


def has_fs_effect(stmts, env, handles):
    for s in stmts:
        for sub in ast.walk(s):
            if isinstance(sub, ast.Call):
                d = dotted(sub.func)
                if d in MOVE_FUNCS or d in UNSUPPORTED_FS or d == "open" or d == "torch.save" or d.endswith(".dump"):
                    return True
            if isinstance(sub, ast.With):
                return True
    return False


def translate_ops(body, env, consts, sfx, where, handles=None, flat=False):
    """-> list of ('op', leanOp) | ('ifExists', leanSuffix, [leanOp])"""
    handles = dict(handles or {})
    env = dict(env)
    out = []

    def op(text):
        out.append(("op", text))

    for st in strip_doc(body):
        if isinstance(st, (ast.Pass, ast.Return)):
            continue
        if isinstance(st, ast.Assign):
            if len(st.targets) == 1 and isinstance(st.targets[0], ast.Name):
                s = path_suffix(st.value, env)
                name = st.targets[0].id
                if s is not None:
                    env[name] = s
                    continue
                if name in env:
                    raise Untranslatable(f"{where}:{st.lineno}: path variable {name} reassigned to a non-path")
            if has_fs_effect([st], env, handles):
                raise Untranslatable(f"{where}:{st.lineno}: file operation inside an assignment")
            continue
        if isinstance(st, ast.AugAssign):
            if isinstance(st.target, ast.Name) and st.target.id in env and isinstance(st.op, ast.Add) \
                    and isinstance(st.value, ast.Constant) and isinstance(st.value.value, str):
                env[st.target.id] = env[st.target.id] + st.value.value
                continue
            if has_fs_effect([st], env, handles):
                raise Untranslatable(f"{where}:{st.lineno}: file operation inside an augmented assignment")
            continue
        if isinstance(st, ast.If):
            t = st.test
            neg = False
            if isinstance(t, ast.UnaryOp) and isinstance(t.op, ast.Not):
                t, neg = t.operand, True
            if isinstance(t, ast.Name) and t.id in consts:
                val = bool(consts[t.id]) != neg
                sub = translate_ops(st.body if val else st.orelse, env, consts, sfx, where, handles, flat)
                out.extend(sub)
                continue
            if isinstance(t, ast.Call) and dotted(t.func) == "os.path.exists" and len(t.args) == 1 and not neg:
                s = path_suffix(t.args[0], env)
                if s is None:
                    if has_fs_effect(st.body + st.orelse, env, handles):
                        raise Untranslatable(f"{where}:{st.lineno}: exists() test on an unknown path guards file operations")
                    continue
                if flat:
                    raise Untranslatable(f"{where}:{st.lineno}: nested exists() guards are not supported")
                if has_fs_effect(st.orelse, env, handles):
                    raise Untranslatable(f"{where}:{st.lineno}: file operations in the else branch of an exists() guard")
                sub = translate_ops(st.body, env, consts, sfx, where, handles, flat=True)
                out.append(("ifExists", sfx.lean(s, where), [o for _, o in sub]))
                continue
            if has_fs_effect(st.body + st.orelse, env, handles):
                raise Untranslatable(f"{where}:{st.lineno}: file operations under an unsupported condition `{dotted(st.test)}`")
            continue
        if isinstance(st, ast.With):
            if len(st.items) != 1:
                raise Untranslatable(f"{where}:{st.lineno}: with-statement with several items")
            item = st.items[0]
            call = item.context_expr
            if not (isinstance(call, ast.Call) and dotted(call.func) == "open" and call.args):
                if has_fs_effect(st.body, env, handles):
                    raise Untranslatable(f"{where}:{st.lineno}: unsupported context manager around file operations")
                continue
            s = path_suffix(call.args[0], env)
            if s is None:
                raise Untranslatable(f"{where}:{st.lineno}: open() of an unknown path")
            mode = None
            if len(call.args) > 1 and isinstance(call.args[1], ast.Constant):
                mode = call.args[1].value
            for kw in call.keywords:
                if kw.arg == "mode" and isinstance(kw.value, ast.Constant):
                    mode = kw.value.value
            if mode not in ("wb", "w", "bw"):
                raise Untranslatable(f"{where}:{st.lineno}: open() mode {mode!r} is not a truncating write")
            ls = sfx.lean(s, where)
            op(f".openTrunc {ls}")
            h = dict(handles)
            if isinstance(item.optional_vars, ast.Name):
                h[item.optional_vars.id] = ls
            sub = translate_ops(st.body, env, consts, sfx, where, h, flat=True)
            out.extend(sub)
            op(f".close {ls}")
            continue
        if isinstance(st, ast.Expr) and isinstance(st.value, ast.Call):
            call = st.value
            d = dotted(call.func)
            if d in MOVE_FUNCS:
                if len(call.args) != 2:
                    raise Untranslatable(f"{where}:{st.lineno}: {d} with {len(call.args)} arguments")
                a, b = path_suffix(call.args[0], env), path_suffix(call.args[1], env)
                if a is None or b is None:
                    raise Untranslatable(f"{where}:{st.lineno}: {d} on an unknown path")
                op(f".move {sfx.lean(a, where)} {sfx.lean(b, where)}")
                continue
            if d in UNSUPPORTED_FS:
                raise Untranslatable(f"{where}:{st.lineno}: unsupported file operation {d}")
            if d == "torch.save" or d.endswith(".dump"):
                if len(call.args) < 2:
                    raise Untranslatable(f"{where}:{st.lineno}: {d} with fewer than two arguments")
                tgt = call.args[1]
                if isinstance(tgt, ast.Name) and tgt.id in handles:
                    op(f".write {handles[tgt.id]}")
                    continue
                s = path_suffix(tgt, env)
                if s is not None and d == "torch.save":
                    op(f".save {sfx.lean(s, where)}")
                    continue
                raise Untranslatable(f"{where}:{st.lineno}: {d} to an unknown target")
            if d.startswith(HARMLESS_PREFIX) or d.startswith("super()."):
                if d.startswith("super().") and mentions_path(call, env, handles):
                    raise Untranslatable(f"{where}:{st.lineno}: delegating call {d} (translate the callee instead)")
                continue
            if mentions_path(call, env, handles):
                raise Untranslatable(f"{where}:{st.lineno}: unknown call touching the file: {d}")
            continue
        if has_fs_effect([st], env, handles):
            raise Untranslatable(f"{where}:{st.lineno}: file operation inside unsupported statement {type(st).__name__}")
    return out


def lean_stmts(items):
    parts = []
    for it in items:
        if it[0] == "op":
            parts.append(f".op ({it[1]})")
        else:
            parts.append(f".ifExists {it[1]} [" + ", ".join(it[2]) + "]")
    return "[" + ", ".join(parts) + "]"


def exc_list(node, where):
    if node is None:
        return ["BaseException"]
    elts = node.elts if isinstance(node, ast.Tuple) else [node]
    res = []
    for e in elts:
        name = e.attr if isinstance(e, ast.Attribute) else (e.id if isinstance(e, ast.Name) else None)
        if name not in EXC_NAMES:
            raise Untranslatable(f"{where}: exception class {dotted(e)} is not in the model's table")
        res.append(EXC_NAMES[name])
    return res


def lean_excs(names):
    return "[" + ", ".join("." + n for n in names) + "]"


def find_calls(stmts, pred):
    res = []
    for s in stmts:
        for sub in ast.walk(s):
            if isinstance(sub, ast.Call) and pred(sub):
                res.append(sub)
    return res


def contains_raise(stmts):
    return any(isinstance(sub, ast.Raise) for s in stmts for sub in ast.walk(s))


def extract_resume_from_file(src):
    where = "FlowSampler._resume_from_file"
    fn = src.func(where)
    env = {"resume_file": ""}
    is_resume = lambda c: dotted(c.func).endswith(".resume") and dotted(c.func).startswith("SamplerClass")  # noqa
    tries = [s for s in strip_doc(fn.body) if isinstance(s, ast.Try)]
    if len(tries) != 1:
        raise Untranslatable(f"{where}: expected exactly one top-level try, found {len(tries)}")
    t1 = tries[0]
    if t1.orelse or t1.finalbody or len(t1.handlers) != 1:
        raise Untranslatable(f"{where}: outer try has else/finally or several handlers")

    def attempt(stmts, env):
        env = dict(env)
        suffix = None
        for s in stmts:
            if isinstance(s, ast.AugAssign) and isinstance(s.target, ast.Name) and s.target.id in env \
                    and isinstance(s.op, ast.Add) and isinstance(s.value, ast.Constant):
                env[s.target.id] += s.value.value
            elif isinstance(s, ast.Assign) and len(s.targets) == 1 and isinstance(s.targets[0], ast.Name) \
                    and s.targets[0].id in env:
                v = path_suffix(s.value, env)
                if v is None:
                    raise Untranslatable(f"{where}:{s.lineno}: resume_file reassigned to an unknown value")
                env[s.targets[0].id] = v
            calls = find_calls([s], is_resume)
            for c in calls:
                if suffix is not None:
                    raise Untranslatable(f"{where}: several SamplerClass.resume calls in one attempt")
                if not c.args:
                    raise Untranslatable(f"{where}: SamplerClass.resume without a file argument")
                suffix = path_suffix(c.args[0], env)
                if suffix is None:
                    raise Untranslatable(f"{where}:{c.lineno}: cannot tell which file is resumed from")
        return suffix, env

    first, env1 = attempt(t1.body, env)
    if first is None:
        raise Untranslatable(f"{where}: no SamplerClass.resume call in the outer try")
    h1 = t1.handlers[0]
    catch1 = exc_list(h1.type, where)
    inner = [s for s in h1.body if isinstance(s, ast.Try)]
    if len(inner) != 1:
        raise Untranslatable(f"{where}: expected one nested try in the handler, found {len(inner)}")
    # statements of the handler before the nested try may already change resume_file
    pre = h1.body[:h1.body.index(inner[0])]
    _, env2 = attempt(pre, env1)
    t2 = inner[0]
    if t2.orelse or t2.finalbody or len(t2.handlers) != 1:
        raise Untranslatable(f"{where}: nested try has else/finally or several handlers")
    second, _ = attempt(t2.body, env2)
    if second is None:
        raise Untranslatable(f"{where}: no SamplerClass.resume call in the nested try")
    h2 = t2.handlers[0]
    catch2 = exc_list(h2.type, where)
    raises = [s for s in ast.walk(h2) if isinstance(s, ast.Raise)]
    if len(raises) != 1 or raises[0].exc is None:
        raise Untranslatable(f"{where}: the nested handler must raise one explicit exception")
    exc = raises[0].exc
    name = dotted(exc.func) if isinstance(exc, ast.Call) else dotted(exc)
    name = name.split(".")[-1]
    if name not in RAISED:
        raise Untranslatable(f"{where}: the nested handler raises {name}, not in the model's table")
    return dict(first=first, catch1=catch1, second=second, catch2=catch2, reraise=RAISED[name], node=fn)


def extract_check_resume(src):
    where = "FlowSampler.check_resume"
    fn = src.func(where)
    env = {"resume_file": ""}
    for sub in ast.walk(fn):
        if isinstance(sub, ast.Call) and dotted(sub.func) == "any" and sub.args:
            g = sub.args[0]
            if isinstance(g, (ast.GeneratorExp, ast.ListComp)) and len(g.generators) == 1:
                gen = g.generators[0]
                if isinstance(gen.iter, (ast.List, ast.Tuple)) and isinstance(gen.target, ast.Name):
                    cands = [path_suffix(e, env) for e in gen.iter.elts]
                    elt = g.elt
                    ok = isinstance(elt, ast.Call) and dotted(elt.func) == "os.path.exists" and \
                        path_suffix(elt.args[0], {gen.target.id: ""}) == ""
                    if ok and all(c is not None for c in cands) and not gen.ifs:
                        return cands, fn
    raise Untranslatable(f"{where}: `any(os.path.exists(join(output, f)) for f in [...])` not found")


def classify_handler(fn, where, load_pred, env):
    """Shape of the weights (re)load inside function `fn`.
    -> dict(found, guard, excs, fallback) ; fallback = 'reraise' | 'skip' | ('loadOld', guard, excs2)"""
    loads = []

    def walk(stmts, guards, tries, env):
        env = dict(env)
        for s in stmts:
            if isinstance(s, ast.Assign) and len(s.targets) == 1 and isinstance(s.targets[0], ast.Name):
                v = path_suffix(s.value, env)
                if v is not None:
                    env[s.targets[0].id] = v
            if isinstance(s, ast.If):
                t = s.test
                g = None
                if isinstance(t, ast.Call) and dotted(t.func) == "os.path.exists" and t.args:
                    g = path_suffix(t.args[0], env)
                walk(s.body, guards + ([("exists", g)] if g is not None else [("cond", dotted(t))]), tries, env)
                walk(s.orelse, guards + [("else", dotted(t))], tries, env)
            elif isinstance(s, ast.Try):
                walk(s.body, guards, tries + [s], env)
                for h in s.handlers:
                    walk(h.body, guards + [("handler", s, h)], tries, env)
                walk(s.orelse, guards, tries, env)
                walk(s.finalbody, guards, tries, env)
            elif isinstance(s, (ast.For, ast.While)):
                if find_calls([s], load_pred):
                    raise Untranslatable(f"{where}:{s.lineno}: weights are loaded inside a loop (shape not supported; "
                                         "use nested try/except, see the C11 report)")
            elif isinstance(s, ast.With):
                walk(s.body, guards, tries, env)
            else:
                for c in find_calls([s], load_pred):
                    arg = c.args[0] if c.args else None
                    loads.append(dict(call=c, suffix=path_suffix(arg, env) if arg is not None else None,
                                      guards=list(guards), tries=list(tries), env=dict(env)))

    walk(strip_doc(fn.body), [], [], env)
    return loads


def handler_excs(t, where):
    names = []
    for h in t.handlers:
        if contains_raise(h.body):
            continue
        names += exc_list(h.type, where)
    return names


def _flag_protocol(fn, t, flag, reload_pred):
    """`flag = False` before the try `t`, `flag = True` right after the reload call inside its body"""
    init = any(isinstance(x, ast.Assign) and len(x.targets) == 1 and isinstance(x.targets[0], ast.Name)
               and x.targets[0].id == flag and isinstance(x.value, ast.Constant) and x.value.value is False
               for x in ast.walk(fn))
    seen_call, set_true = False, False
    for x in t.body:
        if find_calls([x], reload_pred):
            seen_call = True
        elif seen_call and isinstance(x, ast.Assign) and len(x.targets) == 1 and isinstance(x.targets[0], ast.Name) \
                and x.targets[0].id == flag and isinstance(x.value, ast.Constant) and x.value.value is True:
            set_true = True
    others = [x for x in ast.walk(fn) if isinstance(x, ast.Assign) and any(isinstance(tg, ast.Name) and tg.id == flag
                                                                          for tg in x.targets)]
    return init and set_true and len(others) == 2


def extract_weights_handler(src_prop, src_flow):
    where = "FlowProposal.resume"
    fn = src_prop.func(where)
    env = {"weights_file": ""}
    is_reload = lambda c: dotted(c.func) in ("self.flow.reload_weights", "self.flow.load_weights")  # noqa
    loads = classify_handler(fn, where, is_reload, env)
    prim = [l for l in loads if l["suffix"] == "" and not any(g[0] == "handler" for g in l["guards"])]
    if len(prim) != 1:
        raise Untranslatable(f"{where}: expected one primary self.flow.reload_weights(weights_file) call, found {len(prim)}")
    p = prim[0]
    is_none_guard = lambda g: g[0] == "cond" and g[1].replace(" ", "") == "weights_fileisnotNone"  # noqa
    skip_none = any(is_none_guard(g) for g in p["guards"])
    guard = any(g[0] == "exists" and g[1] == "" for g in p["guards"])
    others = [g for g in p["guards"] if not (g[0] == "exists" and g[1] == "") and not is_none_guard(g)]
    if others:
        raise Untranslatable(f"{where}: the weights reload sits under an unsupported condition {others[0][1]!r}")
    nodes = [fn]
    base = dict(skip_none=skip_none, guard=guard, on_missing=False, reset_path=False, nodes=nodes)
    if not p["tries"]:
        # the try may live one level down: FlowModel.reload_weights / load_weights
        for qual, pred in (("FlowModel.reload_weights", lambda c: dotted(c.func) == "self.load_weights"),
                           ("FlowModel.load_weights", lambda c: dotted(c.func) == "torch.load")):
            f2 = src_flow.func(qual)
            nodes.append(f2)
            l2 = classify_handler(f2, qual, pred, {"weights_file": ""})
            pr2 = [l for l in l2 if not any(g[0] == "handler" for g in l["guards"])]
            if len(pr2) != 1:
                raise Untranslatable(f"{qual}: expected one primary load call, found {len(pr2)}")
            if pr2[0]["tries"] or len(l2) > 1:
                raise Untranslatable(f"{qual}: contains a try/except or a second load; put the fallback in "
                                     "FlowProposal.resume (shape described in the C11 report) or extend the translator")
        if len(loads) > 1:
            raise Untranslatable(f"{where}: a second weights load without a try around the first")
        return dict(base, excs=[], fallback="reraise")
    if len(p["tries"]) != 1:
        raise Untranslatable(f"{where}: the weights reload sits in nested try blocks")
    t = p["tries"][0]
    if t.finalbody or t.orelse:
        raise Untranslatable(f"{where}: try around the weights reload has else/finally")
    excs = handler_excs(t, where)
    if any(contains_raise(h.body) for h in t.handlers) and excs:
        raise Untranslatable(f"{where}: some handlers re-raise and some do not")
    if not excs:
        if len(loads) > 1:
            raise Untranslatable(f"{where}: a fallback load next to a re-raising handler")
        return dict(base, excs=exc_list_all(t, where), fallback="reraise")
    sec = [l for l in loads if l is not p]
    if not sec:
        return dict(base, excs=excs, fallback="skip")
    if len(sec) != 1 or sec[0]["suffix"] != ".old":
        raise Untranslatable(f"{where}: the fallback must reload exactly `weights_file + '.old'` once")
    s2 = sec[0]
    in_handler = any(g[0] == "handler" and g[1] is t for g in s2["guards"])
    flags = [g for g in s2["guards"] if g[0] == "cond" and g[1].startswith("not ") and g[1][4:].isidentifier()]
    on_missing = False
    if not in_handler:
        # sequential shape: `loaded = False; if exists: try: reload; loaded = True except …; if not loaded: <fallback>`
        if len(flags) != 1 or not _flag_protocol(fn, t, flags[0][1][4:], is_reload):
            raise Untranslatable(f"{where}: the fallback reload is neither inside the except body nor under "
                                 "`if not <flag>` with flag=False before / flag=True right after the first reload")
        on_missing = True
    rest = [g for g in s2["guards"] if not (g[0] == "exists" and g[1] == ".old") and not is_none_guard(g)
            and not (g[0] == "handler" and g[1] is t) and g not in flags
            and not (in_handler and g[0] == "exists" and g[1] == "")]
    if rest:
        raise Untranslatable(f"{where}: the fallback reload sits under an unsupported condition {rest[0][1]!r}")
    g2 = any(g[0] == "exists" and g[1] == ".old" for g in s2["guards"])
    inner_tries = [x for x in s2["tries"] if x is not t]
    if len(inner_tries) > 1:
        raise Untranslatable(f"{where}: the fallback reload sits in nested try blocks")
    excs2 = handler_excs(inner_tries[0], where) if inner_tries else []
    # `self.flow.weights_file = weights_file` right after the fallback reload, in the same block
    reset = False
    block = inner_tries[0].body if inner_tries else []
    seen = False
    for x in block:
        if find_calls([x], is_reload):
            seen = True
        elif seen and isinstance(x, ast.Assign) and len(x.targets) == 1 and dotted(x.targets[0]) == "self.flow.weights_file":
            if path_suffix(x.value, s2["env"]) != "":
                raise Untranslatable(f"{where}: self.flow.weights_file is reset to something other than weights_file")
            reset = True
    for x in ast.walk(fn):
        if isinstance(x, ast.Assign) and any(dotted(tg) == "self.flow.weights_file" for tg in x.targets) and not reset:
            raise Untranslatable(f"{where}: assignment to self.flow.weights_file outside the recognised place")
    return dict(base, excs=excs, fallback=("loadOld", g2, excs2), on_missing=on_missing, reset_path=reset)


def exc_list_all(t, where):
    names = []
    for h in t.handlers:
        names += exc_list(h.type, where)
    return names


def check_wiring(srcs):
    """facts the hand-written part of the model relies on; -> list of (description, header)"""
    facts = []
    base = srcs["base"]
    # BaseNestedSampler.checkpoint -> safe_file_dump(self, self.resume_file, pickle, save_existing=save_existing)
    fn = base.func("BaseNestedSampler.checkpoint")
    calls = find_calls(fn.body, lambda c: dotted(c.func) == "safe_file_dump")
    if len(calls) != 1:
        raise Untranslatable("BaseNestedSampler.checkpoint: expected one safe_file_dump call")
    c = calls[0]
    args = [dotted(a) for a in c.args]
    kws = {k.arg: dotted(k.value) for k in c.keywords}
    if args[:3] != ["self", "self.resume_file", "pickle"] or kws.get("save_existing") != "save_existing":
        raise Untranslatable(f"BaseNestedSampler.checkpoint: safe_file_dump called as {dotted(c)}")
    default = None
    a = fn.args
    names = [x.arg for x in a.args]
    if "save_existing" in names:
        i = names.index("save_existing") - (len(names) - len(a.defaults))
        if i >= 0 and isinstance(a.defaults[i], ast.Constant):
            default = a.defaults[i].value
    if default is None:
        raise Untranslatable("BaseNestedSampler.checkpoint: default of save_existing not found")
    facts.append((f"checkpoint() dumps self to self.resume_file with pickle; save_existing default {default}",
                  base.header("BaseNestedSampler.checkpoint", fn)))
    # BaseNestedSampler.resume: open(filename, 'rb'); pickle.load; no try
    fn = base.func("BaseNestedSampler.resume")
    if any(isinstance(s, ast.Try) for s in ast.walk(fn)):
        raise Untranslatable("BaseNestedSampler.resume: contains a try block (model assumes unpickling errors propagate)")
    if not find_calls(fn.body, lambda c: dotted(c.func) == "pickle.load") or \
            not find_calls(fn.body, lambda c: dotted(c.func) == "open" and c.args and dotted(c.args[0]) == "filename"):
        raise Untranslatable("BaseNestedSampler.resume: open(filename)/pickle.load not found")
    facts.append(("resume() = open(filename,'rb') + pickle.load, no try", base.header("BaseNestedSampler.resume", fn)))
    # NestedSampler.resume_from_pickled_sampler -> obj._flow_proposal.resume(model, flow_config, weights_path), no try
    ns = srcs["ns"]
    fn = ns.func("NestedSampler.resume_from_pickled_sampler")
    if any(isinstance(s, ast.Try) for s in ast.walk(fn)):
        raise Untranslatable("NestedSampler.resume_from_pickled_sampler: contains a try block")
    if not find_calls(fn.body, lambda c: dotted(c.func) == "obj._flow_proposal.resume"):
        raise Untranslatable("NestedSampler.resume_from_pickled_sampler: obj._flow_proposal.resume(...) not found")
    facts.append(("standard sampler resume calls _flow_proposal.resume, no try",
                  ns.header("NestedSampler.resume_from_pickled_sampler", fn)))
    # INS
    ins = srcs["ins"]
    fn = ins.func("ImportanceNestedSampler.resume_from_pickled_sampler")
    if any(isinstance(s, ast.Try) for s in ast.walk(fn)):
        raise Untranslatable("ImportanceNestedSampler.resume_from_pickled_sampler: contains a try block")
    if not find_calls(fn.body, lambda c: dotted(c.func) == "obj.proposal.resume"):
        raise Untranslatable("ImportanceNestedSampler.resume_from_pickled_sampler: obj.proposal.resume(...) not found")
    facts.append(("importance sampler resume calls proposal.resume, no try",
                  ins.header("ImportanceNestedSampler.resume_from_pickled_sampler", fn)))
    fn = ins.func("ImportanceNestedSampler.checkpoint")
    calls = find_calls(fn.body, lambda c: dotted(c.func) == "super().checkpoint")
    if len(calls) != 1 or {k.arg: dotted(k.value) for k in calls[0].keywords}.get("save_existing") != \
            "self.save_existing_checkpoint":
        raise Untranslatable("ImportanceNestedSampler.checkpoint: super().checkpoint(save_existing=self.save_existing_checkpoint) not found")
    facts.append(("importance sampler checkpoint passes save_existing=self.save_existing_checkpoint",
                  ins.header("ImportanceNestedSampler.checkpoint", fn)))
    ip = srcs["iprop"]
    fn = ip.func("ImportanceFlowProposal.resume")
    if any(isinstance(s, ast.Try) for s in ast.walk(fn)) or \
            not find_calls(fn.body, lambda c: dotted(c.func) == "self.flow.resume"):
        raise Untranslatable("ImportanceFlowProposal.resume: self.flow.resume(...) without try expected")
    facts.append(("ImportanceFlowProposal.resume calls flow.resume, no try", ip.header("ImportanceFlowProposal.resume", fn)))
    fn = ip.func("ImportanceFlowProposal.train")
    seg = ast.get_source_segment(ip.text, fn)
    if 'f"level_{self.level_count}"' not in seg or "self.level_count += 1" not in seg or "output=level_output" not in seg:
        raise Untranslatable("ImportanceFlowProposal.train: level_<level_count> output layout not recognised")
    facts.append(("each level trains into <output>/level_<level_count>/", ip.header("ImportanceFlowProposal.train", fn)))
    im = srcs["iflow"]
    fn = im.func("ImportanceFlowModel.save_weights")
    body = strip_doc(fn.body)
    if not (body and isinstance(body[0], ast.Expr) and dotted(body[0].value) == "super().save_weights(weights_file)"):
        raise Untranslatable("ImportanceFlowModel.save_weights: does not start with super().save_weights(weights_file)")
    if has_fs_effect(body[1:], {"weights_file": ""}, {}):
        raise Untranslatable("ImportanceFlowModel.save_weights: file operations besides the delegated save")
    facts.append(("ImportanceFlowModel.save_weights delegates to FlowModel.save_weights", im.header("ImportanceFlowModel.save_weights", fn)))
    fn = im.func("ImportanceFlowModel.resume")
    seg = ast.get_source_segment(im.text, fn)
    if any(isinstance(s, ast.Try) for s in ast.walk(fn)) or "self.update_weights_path(weights_path, n=self._resume_n_models)" not in seg \
            or "self.load_all_weights()" not in seg:
        raise Untranslatable("ImportanceFlowModel.resume: update_weights_path(n=_resume_n_models) + load_all_weights() without try expected")
    facts.append(("ImportanceFlowModel.resume = update_weights_path(n=_resume_n_models); load_all_weights()",
                  im.header("ImportanceFlowModel.resume", fn)))
    fn = im.func("ImportanceFlowModel.update_weights_path")
    ok = False
    for s in ast.walk(fn):
        if isinstance(s, ast.If) and dotted(s.test).replace(" ", "") == "len(all_weights_files)<n":
            r = [x for x in s.body if isinstance(x, ast.Raise)]
            if r and isinstance(r[0].exc, ast.Call) and dotted(r[0].exc.func) == "RuntimeError":
                ok = True
    seg = ast.get_source_segment(im.text, fn)
    if not ok or 'f"level_{i}"' not in seg or "for i in range(n)" not in seg or any(isinstance(s, ast.Try) for s in ast.walk(fn)):
        raise Untranslatable("ImportanceFlowModel.update_weights_path: `len(files) < n -> RuntimeError`, level_i for i in range(n) expected")
    facts.append(("update_weights_path: fewer than n files -> RuntimeError; uses level_0..level_{n-1}",
                  im.header("ImportanceFlowModel.update_weights_path", fn)))
    fn = im.func("ImportanceFlowModel.load_all_weights")
    if any(isinstance(s, ast.Try) for s in ast.walk(fn)) or "for wf in self.weights_files" not in ast.get_source_segment(im.text, fn):
        raise Untranslatable("ImportanceFlowModel.load_all_weights: plain loop over self.weights_files without try expected")
    facts.append(("load_all_weights: torch.load of every recorded file, no try", im.header("ImportanceFlowModel.load_all_weights", fn)))
    fn = im.func("ImportanceFlowModel.__getstate__")
    if '_resume_n_models' not in ast.get_source_segment(im.text, fn) or 'len(d["models"])' not in ast.get_source_segment(im.text, fn):
        raise Untranslatable("ImportanceFlowModel.__getstate__: _resume_n_models = len(models) not found")
    facts.append(("the pickle records _resume_n_models = len(models)", im.header("ImportanceFlowModel.__getstate__", fn)))
    fl = srcs["flow"]
    fn = fl.func("FlowModel.train")
    seg = ast.get_source_segment(fl.text, fn)
    if 'os.path.join(output, "model.pt")' not in seg or "self.save_weights(current_weights_file)" not in seg:
        raise Untranslatable("FlowModel.train: save_weights(<output>/model.pt) at the end of training not found")
    facts.append(("FlowModel.train ends with save_weights(<output>/model.pt)", "nessai/flowmodel/base.py::FlowModel.train"))
    fn = fl.func("FlowModel.load_weights")
    if not find_calls(fn.body, lambda c: dotted(c.func) == "torch.load"):
        raise Untranslatable("FlowModel.load_weights: torch.load not found")
    facts.append(("FlowModel.load_weights = torch.load(weights_file)", fl.header("FlowModel.load_weights", fn)))
    fp = srcs["prop"]
    fn = fp.func("FlowProposal.__getstate__")
    seg = ast.get_source_segment(fp.text, fn)
    if 'state["weights_file"] = getattr(' not in seg:
        raise Untranslatable("FlowProposal.__getstate__: weights_file is not recorded from the flow")
    facts.append(("the pickle records the flow's weights_file (None before the first save)", fp.header("FlowProposal.__getstate__", fn)))
    return facts


def generate(repo):
    """-> (lean text, info dict).  Raises Untranslatable."""
    srcs = dict(io=Source(repo, "nessai/utils/io.py"), flow=Source(repo, "nessai/flowmodel/base.py"),
                fsamp=Source(repo, "nessai/flowsampler.py"), base=Source(repo, "nessai/samplers/base.py"),
                ns=Source(repo, "nessai/samplers/nestedsampler.py"), ins=Source(repo, "nessai/samplers/importancesampler.py"),
                prop=Source(repo, "nessai/proposal/flowproposal.py"), iprop=Source(repo, "nessai/proposal/importance.py"),
                iflow=Source(repo, "nessai/flowmodel/importance.py"))
    sfx = Suffixes()
    headers = []
    fn = srcs["io"].func("safe_file_dump")
    params = [a.arg for a in fn.args.args]
    if params[:4] != ["data", "filename", "module", "save_existing"]:
        raise Untranslatable(f"safe_file_dump: unexpected parameters {params}")
    progs = {}
    for se in (True, False):
        progs[se] = translate_ops(fn.body, {"filename": ""}, {"save_existing": se}, sfx, "safe_file_dump")
    headers.append(srcs["io"].header("safe_file_dump", fn))
    fnw = srcs["flow"].func("FlowModel.save_weights")
    if [a.arg for a in fnw.args.args] != ["self", "weights_file"]:
        raise Untranslatable("FlowModel.save_weights: unexpected parameters")
    sfx_w = Suffixes()
    wprog = translate_ops(fnw.body, {"weights_file": ""}, {}, sfx_w, "FlowModel.save_weights")
    headers.append(srcs["flow"].header("FlowModel.save_weights", fnw))
    cands, fnc = extract_check_resume(srcs["fsamp"])
    headers.append(srcs["fsamp"].header("FlowSampler.check_resume", fnc))
    rf = extract_resume_from_file(srcs["fsamp"])
    headers.append(srcs["fsamp"].header("FlowSampler._resume_from_file", rf["node"]))
    wh = extract_weights_handler(srcs["prop"], srcs["flow"])
    headers.append(srcs["prop"].header("FlowProposal.resume", wh["nodes"][0]))
    for n, q in zip(wh["nodes"][1:], ("FlowModel.reload_weights", "FlowModel.load_weights")):
        headers.append(srcs["flow"].header(q, n))
    facts = check_wiring(srcs)

    def suf(s):
        return sfx.lean(s, "resume path")

    if wh["fallback"] == "reraise":
        fb = ".reraise"
    elif wh["fallback"] == "skip":
        fb = ".skip"
    else:
        fb = f".loadOld {str(wh['fallback'][1]).lower()} {lean_excs(wh['fallback'][2])}"
    b = lambda x: "true" if x else "false"  # noqa
    lines = ["import NessaiVerif.Model.CrashFS", "/-", "GENERATED by harness/c11_gen.py from the nessai checkout — do not edit.",
             "Regenerated on every `./check C11`; the theorems of Props/C11.lean are about these definitions.", "",
             "sources (path::function, line span, sha256 of the function text):"]
    lines += ["  " + h for h in headers]
    lines += ["", "wiring facts checked by the translator (a change makes the translation fail):"]
    lines += [f"  * {d}   [{h}]" for d, h in facts]
    lines += [f"", f"temporary-file suffix in safe_file_dump: {sfx.temp!r}", "-/",
              "namespace NessaiVerif.CrashFS.Gen", "open NessaiVerif.CrashFS", "",
              "/-- `safe_file_dump(data, filename, module, save_existing)` by `save_existing` -/",
              "def dumpProg : Bool → List Stmt",
              f"  | true => {lean_stmts(progs[True])}",
              f"  | false => {lean_stmts(progs[False])}", "",
              "/-- `FlowModel.save_weights(weights_file)` -/",
              "def saveWeightsProg : List Stmt :=",
              f"  {lean_stmts(wprog)}", "",
              "/-- the weights reload in `FlowProposal.resume` -/",
              "def weightsHandler : WeightsHandler :=",
              f"  {{ skipWhenNone := {b(wh['skip_none'])}, guardExists := {b(wh['guard'])}, "
              f"excs := {lean_excs(wh['excs'])}, fallback := {fb}, "
              f"onMissing := {b(wh['on_missing'])}, resetPath := {b(wh['reset_path'])} }}", "",
              "/-- `FlowSampler.check_resume` / `_resume_from_file`, for a given weights-reload shape -/",
              "def resumeCfgWith (h : WeightsHandler) : ResumeCfg :=",
              f"  {{ candidates := [{', '.join(suf(c) for c in cands)}], first := {suf(rf['first'])}, "
              f"catchFirst := {lean_excs(rf['catch1'])},",
              f"    second := {suf(rf['second'])}, catchSecond := {lean_excs(rf['catch2'])}, "
              f"reraise := .{rf['reraise']}, weights := h }}", "",
              "def protocolWith (h : WeightsHandler) : Protocol :=",
              "  { dump := dumpProg, saveWeights := saveWeightsProg, cfg := resumeCfgWith h }", "",
              "def protocol : Protocol := protocolWith weightsHandler", "",
              "end NessaiVerif.CrashFS.Gen", ""]
    info = dict(dump_true=lean_stmts(progs[True]), dump_false=lean_stmts(progs[False]), save_weights=lean_stmts(wprog),
                handler=dict(skip_none=wh["skip_none"], guard=wh["guard"], excs=wh["excs"], fallback=wh["fallback"],
                             on_missing=wh["on_missing"], reset_path=wh["reset_path"]),
                resume=dict(candidates=cands, first=rf["first"], catch1=rf["catch1"], second=rf["second"],
                            catch2=rf["catch2"], reraise=rf["reraise"]),
                temp_suffix=sfx.temp, headers=headers, wiring=[d for d, _ in facts])
    return "\n".join(lines), info
