import NessaiVerif.Proofs.ResampleLog
import NessaiVerif.Gen.ResampleTx
/-
C16 — posterior resampling follows the posterior weights.
Property theorems only (helper lemmas live in Proofs/Resample*.lean).

Weights are in the linear domain (`w = exp(log_w)`, `-inf ↦ 0`); `u` are the uniform
draws handed to the code by the random number generator.  Everything generic is proved
for an arbitrary linearly ordered field `K` (so for ℚ, which the driver executes, and ℝ).
The first section proves, for whole vectors of extended log-values over ℝ (entries `-inf`,
`np.max`, `logsumexp`, draws `u = 0`, constant shifts), that the log-space programs of the code
compute exactly what the linear-domain model computes; float rounding is outside all theorems.
-/
set_option linter.unusedSectionVars false

namespace NessaiVerif.C16
open NessaiVerif.Np NessaiVerif.Resample

variable {K : Type} [Field K] [LinearOrder K] [IsStrictOrderedRing K] {α : Type}

/-! ## the linear-domain model is the log-space code

The code's programs are written out over log-values in Proofs/ResampleLog.lean (`LogVal = Option ℝ`,
`none` = the float `-inf`; IEEE conventions made explicit: `-inf - m = -inf`, `-inf > -inf` is False,
an all-`-inf` vector gives NaN differences whose comparisons are all False; `logsumexp` is `log Σ exp`).
The theorems below are list-level: whole weight vectors, `np.max`, `-inf` entries, draws `u = 0`. -/

/-- One acceptance test of the code over extended log-values: `log_w[i] - max > log(u)` holds iff
`u < exp(log_w[i]) / exp(max)`, for a weight that may be `-inf` (never accepted), a draw that may be 0
(accepted iff the weight is non-zero) and a maximum that may be `-inf` (NaN difference: never accepted;
the linear side divides by zero, which is 0 in the model). -/
theorem log_space_accept_iff (M a : LogVal) (u : ℝ) (hu : 0 ≤ u) :
    keepLog M a (logE u) ↔ u < expE a / expE M := by
  rw [← keep_iff_keepLog M a u hu, keep_iff]

example : ¬ keepLog (some 0) none (logE 0) := by
  rw [log_space_accept_iff (some 0) none 0 le_rfl]
  simp [expE]

example : keepLog (some 1) (some 0) (logE 0) :=
  (log_space_accept_iff (some 1) (some 0) 0 le_rfl).mpr (by simp only [expE]; positivity)

/-- One entry of `np.exp(log_w - logsumexp(log_w))` over extended log-values: `exp(a - log S) = exp(a) / S`,
also for `a = -inf` (probability 0). -/
theorem log_space_probability (a : LogVal) (S : ℝ) (hS : 0 < S) :
    expE (a.map (fun x => x - Real.log S)) = expE a / S :=
  expE_sub_log a hS

example : expE ((none : LogVal).map (fun x => x - Real.log 3)) = expE none / 3 :=
  log_space_probability none 3 (by norm_num)

/-- Rejection sampling as written in the code — `np.where(log_w - np.max(log_w) > np.log(u))[0]` on a
vector of log-weights that may contain `-inf`, with draws `u ≥ 0` that may be 0 — returns exactly the
indices of the linear-domain model run on the weights `exp(log_w)` (`exp(-inf) = 0`). -/
theorem rejection_log_space (lw : List LogVal) (us : List ℝ) (hu : ∀ u ∈ us, 0 ≤ u) :
    rejLog lw us = rejectionIndices (lw.map expE) us := by
  unfold rejLog rejectionIndices
  rw [lmax_map_expE]
  exact rejLogGo_eq (maxE lw) 0 lw us hu

example : rejLog [some 0, none, some (-1)] [1 / 2, 0, 0] =
    rejectionIndices ([some 0, none, some (-1)].map expE) [1 / 2, 0, 0] :=
  rejection_log_space _ _ (by intro u hu; simp at hu; rcases hu with rfl | rfl <;> norm_num)

/-- The guard `0 ≤ u` is needed: `np.log` of a negative number is NaN (never accepted), while the
linear test would accept it against a positive weight.  Here `logE (-1) = some (log 1) = some 0`. -/
theorem rejection_log_space_fails_without :
    rejLog [some 0] [-1] ≠ rejectionIndices ([some (0 : ℝ)].map expE) [-1] := by
  have h1 : rejLog [some 0] [-1] = [] := by
    have hk : ¬ keepLog (some 0) (some 0) (logE (-1)) := by
      simp [keepLog, logE, gtE]
    simp only [rejLog, maxE, max2E, List.map_cons, List.map_nil, rejLogGo, if_neg hk]
  have h2 : rejectionIndices ([some (0 : ℝ)].map expE) [-1] = [0] := by
    have hk : keep (lmax [expE (some 0)]) (expE (some 0)) (-1) = true := by
      rw [keep_iff]
      simp [expE, lmax_cons]
    simp only [rejectionIndices, List.map_cons, List.map_nil, rejGo, hk, if_true]
  rw [h1, h2]
  simp

/-- The `p=` argument handed to `np.random.choice`, `np.exp(log_w - logsumexp(log_w))`, is the model's
`w / Σw` for the weights `exp(log_w)` (entries `-inf` give probability 0), whenever some weight is non-zero. -/
theorem probabilities_log_space (lw : List LogVal) (hS : 0 < lsum (lw.map expE)) :
    probsLog lw = probs (lw.map expE) :=
  probsLog_eq_probs lw hS

example : probsLog [some 0, none] = probs ([some 0, none].map expE) :=
  probabilities_log_space _ (by simp [expE])

/-- `effective_sample_size` as written — `log_w -= logsumexp(log_w); exp(-logsumexp(2*log_w))` on a vector
that may contain `-inf` — is the model's ESS of the weights `exp(log_w)`. -/
theorem ess_log_space (lw : List LogVal) (hS : 0 < lsum (lw.map expE)) :
    essLog lw = ess (lw.map expE) :=
  essLog_eq_ess lw hS

example : essLog [some 0, none, some 0] = ess ([some 0, none, some 0].map expE) :=
  ess_log_space _ (by simp [expE])

/-- Shifting every log-weight by a constant `c` (entries `-inf` stay `-inf`) multiplies every weight by
the positive constant `exp c`. -/
theorem log_shift_is_scale (c : ℝ) (lw : List LogVal) :
    (shiftE c lw).map expE = (lw.map expE).map (fun x => Real.exp c * x) ∧ 0 < Real.exp c :=
  ⟨map_expE_shiftE c lw, Real.exp_pos c⟩

example : (shiftE 1 [some 0, none]).map expE = ([some 0, none].map expE).map (fun x => Real.exp 1 * x) :=
  (log_shift_is_scale 1 _).1

/-- **The ESS does not change when all log-weights are shifted by a constant** (log-space statement,
`-inf` entries allowed, weights not all zero). -/
theorem ess_shift_invariant (c : ℝ) (lw : List LogVal) (hS : 0 < lsum (lw.map expE)) :
    essLog (shiftE c lw) = essLog lw := by
  have hS' : 0 < lsum ((shiftE c lw).map expE) := by
    rw [map_expE_shiftE, lsum_map_mul_left]
    exact mul_pos (Real.exp_pos c) hS
  rw [essLog_eq_ess _ hS', essLog_eq_ess _ hS, map_expE_shiftE]
  unfold ess
  rw [probs_map_mul_left (Real.exp_pos c).ne']

example : essLog (shiftE 5 [some 0, none, some 2]) = essLog [some 0, none, some 2] :=
  ess_shift_invariant 5 _ (by
    have := Real.exp_pos 2
    simp [expE]; linarith)

/-- The probabilities handed to `np.random.choice` (hence every multinomial draw) do not change when all
log-weights are shifted by a constant. -/
theorem probabilities_shift_invariant (c : ℝ) (lw : List LogVal) (hS : 0 < lsum (lw.map expE)) :
    probsLog (shiftE c lw) = probsLog lw := by
  have hS' : 0 < lsum ((shiftE c lw).map expE) := by
    rw [map_expE_shiftE, lsum_map_mul_left]
    exact mul_pos (Real.exp_pos c) hS
  rw [probsLog_eq_probs _ hS', probsLog_eq_probs _ hS, map_expE_shiftE,
    probs_map_mul_left (Real.exp_pos c).ne']

example : probsLog (shiftE 2 [some 0, none]) = probsLog [some 0, none] :=
  probabilities_shift_invariant 2 _ (by simp [expE])

/-! ## rejection sampling -/

/-- Sample `i` is accepted exactly when its own uniform draw is below `wᵢ / w_max`
(strictly): each decision depends on `uᵢ` and `wᵢ / w_max` only. -/
theorem rejection_keep_iff (w u : List K) (i : Nat) :
    i ∈ rejectionIndices w u ↔
      ∃ (hw : i < w.length) (hu : i < u.length), u[i] < w[i] / lmax w := by
  unfold rejectionIndices
  rw [mem_rejGo]
  constructor
  · rintro ⟨j, hj, h⟩
    have : i = j := by omega
    subst this; exact h
  · intro h; exact ⟨i, by omega, h⟩

example : (1 : Nat) ∈ rejectionIndices [(1 : ℚ), 1 / 2, 0] [9 / 10, 1 / 4, 0] := by decide +kernel

example : (1 : Nat) ∈ rejectionIndices [(1 : ℚ), 1 / 2, 0] [9 / 10, 1 / 4, 0] :=
  (rejection_keep_iff _ _ 1).mpr ⟨by simp, by simp, by decide +kernel⟩

/-- A sample carrying the maximum weight is accepted for every draw `u ∈ [0, 1)`
(weights not all zero). -/
theorem rejection_max_kept (w u : List K) (i : Nat) (hw : i < w.length) (hu : i < u.length)
    (hmax : w[i] = lmax w) (hpos : 0 < lmax w) (hu1 : u[i] < 1) :
    i ∈ rejectionIndices w u := by
  rw [rejection_keep_iff]
  refine ⟨hw, hu, ?_⟩
  rw [hmax, div_self hpos.ne']
  exact hu1

example : (0 : Nat) ∈ rejectionIndices [(2 : ℚ), 1] [999 / 1000, 0] :=
  rejection_max_kept _ _ 0 (by simp) (by simp) (by decide +kernel) (by decide +kernel) (by decide +kernel)

/-- Without "not all zero" nothing is accepted, not even the maximum-weight sample. -/
theorem rejection_max_kept_fails_without :
    (0 : Nat) ∉ rejectionIndices [(0 : ℚ), 0] [0, 0] := by decide +kernel

/-- With non-negative weights that are not all zero and all draws below one, rejection
sampling returns at least one sample (the maximum is attained somewhere). -/
theorem rejection_some_kept (w u : List K) (hw : ∀ x ∈ w, 0 ≤ x) (hpos : 0 < lmax w)
    (hlen : w.length ≤ u.length) (hu1 : ∀ x ∈ u, x < 1) :
    rejectionIndices w u ≠ [] := by
  have hne : w ≠ [] := by rintro rfl; simp at hpos
  obtain ⟨i, hi, hmax⟩ := List.getElem_of_mem (lmax_mem hne hw)
  have hiu : i < u.length := by omega
  have := rejection_max_kept w u i hi hiu hmax hpos (hu1 _ (List.getElem_mem hiu))
  intro h
  rw [h] at this
  simp at this

example : rejectionIndices [(1 : ℚ), 3, 2] [1 / 2, 1 / 2, 1 / 2] ≠ [] :=
  rejection_some_kept _ _ (by decide +kernel) (by decide +kernel) (by simp) (by decide +kernel)

/-- A zero-weight sample (log-weight `-inf`) is never accepted, whatever the draw `u ≥ 0`,
including `u = 0`. -/
theorem rejection_zero_never (w u : List K) (i : Nat) (hw : i < w.length) (hu : i < u.length)
    (hz : w[i] = 0) (hu0 : 0 ≤ u[i]) : i ∉ rejectionIndices w u := by
  rw [rejection_keep_iff]
  rintro ⟨_, _, h⟩
  rw [hz, zero_div] at h
  exact absurd hu0 (not_le.mpr h)

example : (1 : Nat) ∉ rejectionIndices [(1 : ℚ), 0] [0, 0] :=
  rejection_zero_never _ _ 1 (by simp) (by simp) (by simp) (by simp)

/-- The guard `0 ≤ u` is needed (a uniform draw is never negative). -/
theorem rejection_zero_never_fails_without :
    (1 : Nat) ∈ rejectionIndices [(1 : ℚ), 0] [0, -1] := by decide +kernel

/-- The accepted indices are strictly increasing, in range, and at most `N` many. -/
theorem rejection_indices_sorted (w u : List K) :
    (rejectionIndices w u).Pairwise (· < ·) ∧ (∀ i ∈ rejectionIndices w u, i < w.length) ∧
      (rejectionIndices w u).length ≤ w.length := by
  refine ⟨rejGo_sorted _ _ _ _, ?_, rejGo_length_le _ _ _ _⟩
  intro i hi
  have := (rejGo_bounds _ _ _ _ i hi).2
  omega

example : rejectionIndices [(1 : ℚ), 1 / 2, 0, 1] [9 / 10, 1 / 4, 0, 0] = [0, 1, 3] := by decide +kernel

example : ∀ i ∈ rejectionIndices [(1 : ℚ), 1 / 2, 0, 1] [9 / 10, 1 / 4, 0, 0], i < 4 :=
  (rejection_indices_sorted [(1 : ℚ), 1 / 2, 0, 1] [9 / 10, 1 / 4, 0, 0]).2.1

/-- Rejection sampling does not depend on the normalisation of the weights
(a constant shift of all log-weights). -/
theorem rejection_scale_invariant (w u : List K) (c : K) (hc : 0 < c) :
    rejectionIndices (w.map (fun x => c * x)) u = rejectionIndices w u := by
  unfold rejectionIndices
  rw [lmax_map_mul_left hc]
  generalize lmax w = m
  generalize 0 = k
  induction w generalizing k u with
  | nil => simp [rejGo]
  | cons x xs ih =>
    cases u with
    | nil => simp [rejGo]
    | cons y ys =>
      have hk : keep (c * m) (c * x) y = keep m x y := by
        unfold keep; rw [mul_div_mul_left _ _ hc.ne']
      simp only [List.map_cons, rejGo, hk, ih]

example : rejectionIndices ([(1 : ℚ), 1 / 2].map (fun x => 8 * x)) [1 / 2, 1 / 4] =
    rejectionIndices [(1 : ℚ), 1 / 2] [1 / 2, 1 / 4] := rejection_scale_invariant _ _ 8 (by norm_num)

/-- Rejection sampling as written in the code does not change when all log-weights are shifted by a constant. -/
theorem rejection_shift_invariant (c : ℝ) (lw : List LogVal) (us : List ℝ) (hu : ∀ u ∈ us, 0 ≤ u) :
    rejLog (shiftE c lw) us = rejLog lw us := by
  rw [rejection_log_space _ _ hu, rejection_log_space _ _ hu, map_expE_shiftE]
  exact rejection_scale_invariant _ _ _ (Real.exp_pos c)

example : rejLog (shiftE (-3) [some 0, none]) [1 / 2, 0] = rejLog [some 0, none] [1 / 2, 0] :=
  rejection_shift_invariant (-3) _ _ (by intro u hu; simp at hu; rcases hu with rfl | rfl <;> norm_num)

/-! ## the returned samples are the nested samples at the returned indices -/

/-- Looking indices up in the nested samples only ever yields nested samples, and for indices
in range the `k`-th returned sample is the nested sample at the `k`-th returned index. -/
theorem indices_identify (nested : List α) (idx : List Nat) :
    (∀ s ∈ takeIdx nested idx, s ∈ nested) ∧
      ((∀ i ∈ idx, i < nested.length) →
        (takeIdx nested idx).length = idx.length ∧
          ∀ k (hk : k < idx.length), (takeIdx nested idx)[k]? = nested[idx[k]]?) :=
  ⟨takeIdx_mem nested idx, fun h => ⟨takeIdx_length nested idx h, takeIdx_getElem nested idx h⟩⟩

example : takeIdx [10, 11, 12, 13] [3, 0, 0] = [13, 10, 10] := by decide

example : (takeIdx [10, 11, 12, 13] [3, 0, 0]).length = 3 :=
  ((indices_identify [10, 11, 12, 13] [3, 0, 0]).2 (by decide)).1

/-- For rejection sampling the returned samples are exactly the nested samples whose
acceptance test succeeded, in their original order (one sample per index, no repeats). -/
theorem indices_identify_rejection (nested : List α) (w u : List K) :
    takeIdx nested (rejectionIndices w u) = rejMask (lmax w) w u nested := by
  rw [takeIdx_eq]
  exact filterMap_rejGo (lmax w) w u nested []

example : takeIdx [10, 11, 12] (rejectionIndices [(1 : ℚ), 0, 1 / 2] [1 / 2, 0, 1 / 4]) = [10, 12] := by
  decide +kernel

example : takeIdx [10, 11, 12] (rejectionIndices [(1 : ℚ), 0, 1 / 2] [1 / 2, 0, 1 / 4]) =
    rejMask (lmax [(1 : ℚ), 0, 1 / 2]) [(1 : ℚ), 0, 1 / 2] [1 / 2, 0, 1 / 4] [10, 11, 12] :=
  indices_identify_rejection _ _ _

/-! ## multinomial resampling -/

/-- With non-negative weights of positive total and a draw `0 ≤ u < 1`, index `i` is selected
exactly when `u ∈ [cdf_{i-1}, cdf_i)` where `cdf_i = (w₀+…+wᵢ)/Σw` — the table legacy
`RandomState.choice` builds (`cumsum(p) / cumsum(p)[-1]`, `searchsorted(side='right')`). -/
theorem multinomial_index_iff (w : List K) (hw : ∀ x ∈ w, 0 ≤ x) (hS : 0 < lsum w) (u : K)
    (hu0 : 0 ≤ u) (hu1 : u < 1) (i : Nat) :
    multIndex w u = i ↔
      i < w.length ∧ lsum (w.take i) / lsum w ≤ u ∧ u < lsum (w.take (i + 1)) / lsum w :=
  multIndex_eq_iff w hw hS u hu0 hu1 i

example : multIndex [(1 : ℚ), 2, 1] (1 / 2) = 1 := by decide +kernel

example : multIndex [(1 : ℚ), 2, 1] (1 / 2) = 1 :=
  (multinomial_index_iff [(1 : ℚ), 2, 1] (by decide +kernel) (by decide +kernel) (1 / 2)
    (by norm_num) (by norm_num) 1).mpr ⟨by simp, by decide +kernel, by decide +kernel⟩

/-- Without `u < 1` the look-up runs off the end of the table (index `N`, not a sample). -/
theorem multinomial_index_iff_fails_without : multIndex [(1 : ℚ), 2, 1] 1 = 3 := by decide +kernel

/-- The interval of draws that select `i` has length `wᵢ / Σw`: under a uniform draw the
selection frequency is proportional to the weight. -/
theorem multinomial_interval_length (w : List K) (i : Nat) (hi : i < w.length) :
    lsum (w.take (i + 1)) / lsum w - lsum (w.take i) / lsum w = w[i] / lsum w := by
  rw [lsum_take_succ w i hi]
  ring

example : lsum ([(1 : ℚ), 2, 1].take 2) / 4 - lsum ([(1 : ℚ), 2, 1].take 1) / 4 = 2 / 4 := by
  decide +kernel

example : lsum ([(1 : ℚ), 2, 1].take 2) / lsum [(1 : ℚ), 2, 1] - lsum ([(1 : ℚ), 2, 1].take 1) / lsum [(1 : ℚ), 2, 1] =
    [(1 : ℚ), 2, 1][1] / lsum [(1 : ℚ), 2, 1] :=
  multinomial_interval_length [(1 : ℚ), 2, 1] 1 (by simp)

/-- Every multinomial draw is a valid index, and never the index of a zero-weight sample. -/
theorem multinomial_zero_never (w : List K) (hw : ∀ x ∈ w, 0 ≤ x) (hS : 0 < lsum w) (u : K)
    (hu0 : 0 ≤ u) (hu1 : u < 1) :
    ∃ hi : multIndex w u < w.length, w[multIndex w u] ≠ 0 := by
  obtain ⟨hi, hlo, hhi⟩ := (multinomial_index_iff w hw hS u hu0 hu1 _).mp rfl
  refine ⟨hi, ?_⟩
  intro hz
  rw [lsum_take_succ w _ hi, hz, add_zero] at hhi
  exact absurd (lt_of_le_of_lt hlo hhi) (lt_irrefl _)

example : multIndex [(0 : ℚ), 1, 0, 1] 0 = 1 ∧ multIndex [(0 : ℚ), 1, 0, 1] (1 / 2) = 3 := by
  decide +kernel

example : ∃ hi : multIndex [(0 : ℚ), 1, 0, 1] 0 < 4, [(0 : ℚ), 1, 0, 1][multIndex [(0 : ℚ), 1, 0, 1] 0] ≠ 0 :=
  multinomial_zero_never [(0 : ℚ), 1, 0, 1] (by decide +kernel) (by decide +kernel) 0 (by norm_num) (by norm_num)

/-- Multinomial resampling returns the requested number of draws, each a valid index of a sample with
non-zero weight.  The count part holds by construction of the model: `np.random.choice(N, size=n, p=…)`
is modelled as one table look-up per uniform for the first `n` uniforms (`(us.take n).map …`), so
"exactly n" is a fact about the model, not a derived one; that the real call returns `n` indices
(and `int(ESS)` of them by default) is what the correspondence and the oracle check on every case.
The derived content is the second part (every draw is in range and never a zero-weight sample),
`default_count` (the default `n` is `⌊ESS⌋ ∈ [1, N]`) and `draw_multinomial` (the whole call path:
`n` given or defaulted, samples looked up at the indices). -/
theorem multinomial_count (w : List K) (n : Nat) (us : List K) (hn : n ≤ us.length) :
    (multinomialIndices w n us).length = n ∧
      ((∀ x ∈ w, 0 ≤ x) → 0 < lsum w → (∀ x ∈ us, 0 ≤ x ∧ x < 1) →
        ∀ i ∈ multinomialIndices w n us, ∃ hi : i < w.length, w[i] ≠ 0) := by
  constructor
  · simp [multinomialIndices, List.length_take, hn]
  · intro hw hS hu i hi
    simp only [multinomialIndices, List.mem_map] at hi
    obtain ⟨x, hx, rfl⟩ := hi
    have := hu x (List.mem_of_mem_take hx)
    exact multinomial_zero_never w hw hS x this.1 this.2

example : multinomialIndices [(1 : ℚ), 2, 1] 3 [0, 1 / 2, 7 / 8, 1 / 3] = [0, 1, 2] := by decide +kernel

example : (multinomialIndices [(1 : ℚ), 2, 1] 3 [0, 1 / 2, 7 / 8, 1 / 3]).length = 3 ∧
    ∀ i ∈ multinomialIndices [(1 : ℚ), 2, 1] 3 [0, 1 / 2, 7 / 8, 1 / 3], ∃ hi : i < 3, [(1 : ℚ), 2, 1][i] ≠ 0 :=
  let h := multinomial_count [(1 : ℚ), 2, 1] 3 [0, 1 / 2, 7 / 8, 1 / 3] (by simp)
  ⟨h.1, h.2 (by decide +kernel) (by decide +kernel) (by decide +kernel)⟩

/-- Multinomial resampling does not depend on the normalisation of the weights. -/
theorem multinomial_scale_invariant (w : List K) (n : Nat) (us : List K) (c : K) (hc : c ≠ 0) :
    multinomialIndices (w.map (fun x => c * x)) n us = multinomialIndices w n us := by
  unfold multinomialIndices cdf
  rw [probs_map_mul_left hc]

example : multinomialIndices ([(1 : ℚ), 2].map (fun x => 5 * x)) 1 [1 / 2] =
    multinomialIndices [(1 : ℚ), 2] 1 [1 / 2] :=
  multinomial_scale_invariant [(1 : ℚ), 2] 1 [1 / 2] 5 (by norm_num)

/-! ## Kish's effective sample size -/

/-- The quantity the code computes, `1 / Σ pᵢ²` with `pᵢ = wᵢ/Σw`, is Kish's `(Σw)² / Σw²`. -/
theorem ess_eq_kish (w : List K) : ess w = lsum w * lsum w / lsum (w.map (fun x => x * x)) :=
  Resample.ess_eq_kish w

example : ess [(1 : ℚ), 1, 2] = 8 / 3 := by decide +kernel

example : ess [(1 : ℚ), 1, 2] = lsum [(1 : ℚ), 1, 2] * lsum [(1 : ℚ), 1, 2] / lsum ([(1 : ℚ), 1, 2].map (fun x => x * x)) :=
  ess_eq_kish _

/-- `1 ≤ ESS ≤ N` for non-negative weights that are not all zero. -/
theorem ess_bounds (w : List K) (hw : ∀ x ∈ w, 0 ≤ x) (hS : 0 < lsum w) :
    1 ≤ ess w ∧ ess w ≤ (w.length : K) := by
  rw [Resample.ess_eq_kish]
  have hQ := sumSq_pos w hS
  constructor
  · rw [one_le_div hQ]; exact sumSq_le_sq_sum w hw
  · rw [div_le_iff₀ hQ]; exact sq_sum_le_length_mul_sumSq w

example : 1 ≤ ess [(1 : ℚ), 0, 2] ∧ ess [(1 : ℚ), 0, 2] ≤ 3 := by decide +kernel

example : 1 ≤ ess [(1 : ℚ), 0, 2] ∧ ess [(1 : ℚ), 0, 2] ≤ (([(1 : ℚ), 0, 2].length : ℕ) : ℚ) :=
  ess_bounds [(1 : ℚ), 0, 2] (by decide +kernel) (by decide +kernel)

/-- The lower bound needs non-negative weights (which `exp(log_w)` always are). -/
theorem ess_bounds_fails_without : ess [(2 : ℚ), -1] < 1 := by decide +kernel

/-- All-zero weights (every log-weight `-inf`) are outside the bounds: the model yields 0
(the code yields NaN). -/
theorem ess_bounds_fails_without_total : ess [(0 : ℚ), 0] = 0 := by decide +kernel

/-- The ESS does not change when all weights are multiplied by a constant
(all log-weights shifted by a constant). -/
theorem ess_scale_invariant (w : List K) (c : K) (hc : c ≠ 0) :
    ess (w.map (fun x => c * x)) = ess w := by
  unfold ess
  rw [probs_map_mul_left hc]

example : ess ([(1 : ℚ), 1, 2].map (fun x => 7 * x)) = ess [(1 : ℚ), 1, 2] :=
  ess_scale_invariant _ 7 (by norm_num)

/-- `effective_n_posterior_samples` is the same quantity, with 0 for an empty state. -/
theorem effectiveN_eq (w : List K) : effectiveN w = if w = [] then 0 else ess w := by
  unfold effectiveN
  cases w <;> simp

example : effectiveN ([] : List ℚ) = 0 ∧ effectiveN [(1 : ℚ), 1] = 2 := by decide +kernel

example : effectiveN [(1 : ℚ), 1] = if [(1 : ℚ), 1] = [] then 0 else ess [(1 : ℚ), 1] := effectiveN_eq _

/-- The default number of multinomial draws is the integer part of the ESS, and lies in `[1, N]`. -/
theorem default_count (w : List ℚ) (hw : ∀ x ∈ w, 0 ≤ x) (hS : 0 < lsum w) :
    ((defaultN w : ℚ) ≤ ess w ∧ ess w < (defaultN w : ℚ) + 1) ∧ 1 ≤ defaultN w ∧ defaultN w ≤ w.length := by
  obtain ⟨h1, hN⟩ := ess_bounds w hw hS
  have hfl : (1 : ℤ) ≤ (ess w).floor := Rat.le_floor_iff.mpr (by simpa using h1)
  have hcast : ((defaultN w : ℕ) : ℤ) = (ess w).floor := by
    unfold defaultN
    exact Int.toNat_of_nonneg (by omega)
  have hq : (defaultN w : ℚ) = ((ess w).floor : ℚ) := by
    rw [← hcast]; simp
  refine ⟨⟨?_, ?_⟩, ?_, ?_⟩
  · rw [hq]; exact Rat.floor_le _
  · rw [hq]
    have := Rat.lt_floor_add_one (ess w)
    simpa using this
  · omega
  · have h2 : ((ess w).floor : ℚ) ≤ (w.length : ℚ) := le_trans (Rat.floor_le _) hN
    have h3 : (ess w).floor ≤ (w.length : ℤ) := by exact_mod_cast h2
    omega

example : defaultN [(1 : ℚ), 1, 2] = 2 := by decide +kernel

example : 1 ≤ defaultN [(1 : ℚ), 1, 2] ∧ defaultN [(1 : ℚ), 1, 2] ≤ 3 :=
  (default_count [(1 : ℚ), 1, 2] (by decide +kernel) (by decide +kernel)).2

/-! ## the whole function -/

/-- `draw_posterior_samples(method="rejection_sampling")` on matching non-empty inputs returns the
accepted indices and the nested samples at those indices; `n` is ignored. -/
theorem draw_rejection (nested : List α) (w u : List ℚ) (n : Option Nat)
    (hN : nested ≠ []) (hw : w.length = nested.length) (hu : nested.length ≤ u.length) :
    drawPosterior "rejection_sampling" n nested w u =
      .ok (rejectionIndices w u, takeIdx nested (rejectionIndices w u)) := by
  have h1 : methodOf "rejection_sampling" = some .rejection := by decide
  have h2 : ¬ (nested.length = 0 ∨ w.length ≠ nested.length) := by
    simp [hw, hN]
  have h3 : ¬ u.length < nested.length := by omega
  simp only [drawPosterior, h1, if_neg h2, if_neg h3]

example : (drawPosterior "rejection_sampling" none [10, 11, 12] [1, 1 / 2, 0] [1 / 2, 1 / 2, 0]).toOption =
    some ([0], [10]) := by decide +kernel

example : drawPosterior "rejection_sampling" (some 7) [10, 11, 12] [1, 1 / 2, 0] [1 / 2, 1 / 2, 0] =
    .ok (rejectionIndices [(1 : ℚ), 1 / 2, 0] [1 / 2, 1 / 2, 0],
      takeIdx [10, 11, 12] (rejectionIndices [(1 : ℚ), 1 / 2, 0] [1 / 2, 1 / 2, 0])) :=
  draw_rejection [10, 11, 12] [1, 1 / 2, 0] [1 / 2, 1 / 2, 0] (some 7) (by simp) (by simp) (by simp)

/-- `draw_posterior_samples` with `method="multinomial_resampling"` (or its alias
`"importance_sampling"`) returns exactly `n` samples — `⌊ESS⌋` of them when `n` is not given —
each of them the nested sample at the returned index. -/
theorem draw_multinomial (method : String)
    (hm : method = "multinomial_resampling" ∨ method = "importance_sampling")
    (nested : List α) (w u : List ℚ) (n : Option Nat)
    (hN : nested ≠ []) (hlen : w.length = nested.length) (hw : ∀ x ∈ w, 0 ≤ x) (hS : 0 < lsum w)
    (hu : ∀ x ∈ u, 0 ≤ x ∧ x < 1) (hk : n.getD (defaultN w) ≤ u.length) :
    ∃ idx s, drawPosterior method n nested w u = .ok (idx, s) ∧
      idx.length = n.getD (defaultN w) ∧ s.length = idx.length ∧
      (∀ i ∈ idx, i < nested.length) ∧ (∀ x ∈ s, x ∈ nested) ∧
      ∀ k (hk : k < idx.length), s[k]? = nested[idx[k]]? := by
  have h1 : methodOf method = some .multinomial := by
    rcases hm with rfl | rfl <;> decide
  have h2 : ¬ (nested.length = 0 ∨ w.length ≠ nested.length) := by
    simp [hlen, hN]
  have h3 : ¬ lsum w = 0 := ne_of_gt hS
  have h4 : ¬ u.length < n.getD (defaultN w) := by omega
  refine ⟨multinomialIndices w (n.getD (defaultN w)) u,
    takeIdx nested (multinomialIndices w (n.getD (defaultN w)) u), ?_, ?_⟩
  · simp only [drawPosterior, h1, if_neg h2, if_neg h3, if_neg h4]
  · obtain ⟨hc, hv⟩ := multinomial_count w (n.getD (defaultN w)) u hk
    have hrange : ∀ i ∈ multinomialIndices w (n.getD (defaultN w)) u, i < nested.length := by
      intro i hi
      obtain ⟨h, _⟩ := hv hw hS hu i hi
      omega
    obtain ⟨hmem, hrest⟩ := indices_identify nested (multinomialIndices w (n.getD (defaultN w)) u)
    obtain ⟨hl, hget⟩ := hrest hrange
    exact ⟨hc, hl, hrange, hmem, hget⟩

example : (drawPosterior "importance_sampling" none [10, 11, 12] [1, 1, 2] [0, 1 / 2, 3 / 4]).toOption =
    some ([0, 2], [10, 12]) := by decide +kernel

example : ∃ idx s, drawPosterior "importance_sampling" none [10, 11, 12] [1, 1, 2] [0, 1 / 2, 3 / 4] = .ok (idx, s) ∧
    idx.length = defaultN [1, 1, 2] ∧ s.length = idx.length := by
  obtain ⟨idx, s, h, hc, hl, _⟩ := draw_multinomial "importance_sampling" (Or.inr rfl) [10, 11, 12]
    [1, 1, 2] [0, 1 / 2, 3 / 4] none (by simp) (by simp) (by decide +kernel) (by decide +kernel)
    (by decide +kernel) (by decide +kernel)
  exact ⟨idx, s, h, hc, hl⟩

/-- An unknown method string is rejected. -/
theorem draw_unknown_method (nested : List α) (w u : List ℚ) (n : Option Nat) :
    drawPosterior "nested_sampling" n nested w u = .error .valueErr := by
  have h1 : methodOf "nested_sampling" = none := by decide
  simp only [drawPosterior, h1]

example : (drawPosterior "nested_sampling" none [1] [1] [0]).toOption = none := by decide +kernel

example : drawPosterior "nested_sampling" (some 3) [1, 2] [1, 1] [0, 0] = .error .valueErr :=
  draw_unknown_method _ _ _ _

/-! ## The source, regenerated on every run, IS the model

`Gen/ResampleTx.lean` is produced by `harness/pylogvec2lean.py` from the current text of `effective_sample_size`,
`_BaseNSIntegralState.effective_n_posterior_samples` and `draw_posterior_samples` (log-weight vectors ↦ weights, statement
by statement; the uniform draws are an input).  The theorems below identify the generated definitions with the model's
`ess`, `effectiveN`, `rejectionIndices`, `multinomialIndices` and, on the model's domain, `drawPosterior` — so every theorem
of this file is a theorem about the source as it is now. -/

theorem ess_source_eq_model (w : List K) : Gen.ResampleTx.effective_sample_size w = ess w := rfl

theorem effective_n_source_eq_model (w : List K) : Gen.ResampleTx.effective_n_posterior_samples w = effectiveN w := rfl

theorem whereGtGo_eq_rejGo (m : K) (k : Nat) (w u : List K) :
    whereGtGo k (w.map (fun x => x / m)) u = rejGo m k w u := by
  induction w generalizing u k with
  | nil => cases u <;> simp [whereGtGo, rejGo]
  | cons a as ih =>
    cases u with
    | nil => simp [whereGtGo, rejGo]
    | cons b bs =>
      simp only [List.map_cons, whereGtGo, rejGo, keep, decide_eq_true_eq]
      split <;> simp [ih]

/-- the rejection arm of the source: the indices are the model's `rejectionIndices`, the samples the nested samples there -/
theorem draw_posterior_source_rejection (intOf : K → Nat) (nested : List α) (n : Option Nat) (w u : List K) (r : Bool) :
    Gen.ResampleTx.draw_posterior_samples intOf nested n w "rejection_sampling" r u =
      .ok (takeIdx nested (rejectionIndices w u), rejectionIndices w u) := by
  simp [Gen.ResampleTx.draw_posterior_samples, whereGt, rejectionIndices, whereGtGo_eq_rejGo]

/-- the multinomial arm of the source (both spellings): `n` draws, `intOf (ess w)` of them when `n` is not given -/
theorem draw_posterior_source_multinomial (intOf : K → Nat) (method : String)
    (hm : method = "multinomial_resampling" ∨ method = "importance_sampling")
    (nested : List α) (n : Option Nat) (w u : List K) (r : Bool) :
    Gen.ResampleTx.draw_posterior_samples intOf nested n w method r u =
      .ok (takeIdx nested (multinomialIndices w (n.getD (intOf (ess w))) u),
           multinomialIndices w (n.getD (intOf (ess w))) u) := by
  rcases hm with rfl | rfl <;>
    simp [Gen.ResampleTx.draw_posterior_samples, choiceIdx, multinomialIndices, cdf, probs, ess_source_eq_model]

/-- any other method string is rejected by the source as by the model -/
theorem draw_posterior_source_unknown (intOf : K → Nat) (method : String)
    (h1 : method ≠ "rejection_sampling") (h2 : method ≠ "importance_sampling") (h3 : method ≠ "multinomial_resampling")
    (nested : List α) (n : Option Nat) (w u : List K) (r : Bool) :
    Gen.ResampleTx.draw_posterior_samples intOf nested n w method r u = .error .valueErr := by
  simp [Gen.ResampleTx.draw_posterior_samples, h1, h2, h3]

/-- on the model's domain (matching non-empty inputs, enough uniforms, positive total weight for multinomial resampling)
the generated `draw_posterior_samples` at `K = ℚ`, `int = ⌊·⌋`, IS `drawPosterior` (pair order swapped: the code returns
`(samples, indices)`) — rejection sampling -/
theorem draw_posterior_source_eq_model_rejection (nested : List α) (w u : List ℚ) (n : Option Nat) (r : Bool)
    (hN : nested ≠ []) (hw : w.length = nested.length) (hu : nested.length ≤ u.length) :
    (Gen.ResampleTx.draw_posterior_samples (fun q : ℚ => q.floor.toNat) nested n w "rejection_sampling" r u).map Prod.swap =
      drawPosterior "rejection_sampling" n nested w u := by
  rw [draw_posterior_source_rejection, draw_rejection nested w u n hN hw hu]
  rfl

example : (Gen.ResampleTx.draw_posterior_samples (fun q : ℚ => q.floor.toNat) [10, 11, 12] none [1, 1 / 2, 0]
    "rejection_sampling" true [1 / 2, 1 / 2, 0]).toOption = some ([10], [0]) := by decide +kernel

end NessaiVerif.C16
