"""pylog2lean — translates scalar LOG-SPACE float code of nessai (the evidence integrator) into the LINEAR-DOMAIN Lean
definitions the C02 theorems are about, statement by statement, on every run.

The evidence code works with logarithms in float64 (`logZ`, `logw`, `logL`, `logt`, …); the Lean model of
`Model/Quadrature.lean` / `Model/Information.lean` represents each such quantity by its exponential in an arbitrary field
`K` (`-inf ↦ 0`).  This translator applies that dictionary MECHANICALLY, driven by a type for every variable:

    LOG   a log-domain number, represented in Lean by its exponential          (logZ, logw, logL, logt, Wt, oldZ)
    LIN   an ordinary real                                                      (info entries, prev_info)
    NAT   a live count                                                          (nlive, base_nlive)

    expression            wanted LOG                         wanted LIN
    --------------------  ---------------------------------  ------------------------------------
    a + b, a - b          ⟦a⟧·⟦b⟧, ⟦a⟧/⟦b⟧  (both LOG)          ⟦a⟧ + ⟦b⟧, ⟦a⟧ - ⟦b⟧  (both LIN)
    -a                    1/⟦a⟧                               -⟦a⟧
    a * b, a / b          —                                   ⟦a⟧·⟦b⟧, ⟦a⟧/⟦b⟧      (both LIN)
    np.logaddexp(a, b)    ⟦a⟧ + ⟦b⟧        (both LOG)          lg(…)
    np.log1p(x)           1 + ⟦x⟧          (x LIN)             lg(…)
    np.exp(a)             ex(…)                               ⟦a⟧ wanted LOG
    a LOG variable v      v                                   lg v
    a LIN expression e    ex e                                e
    np.isfinite(v)        v ≠ 0    for a LOG variable v (finite or -inf: the domain the harness feeds)

`lg` and `ex` are PARAMETERS of the generated definition (any functions `K → K`): the translation never uses a law of the
logarithm, so `lg (a / b)` and `lg a - lg b` are different terms and the translator produces whichever the source says.

State: `self.<attr>` fields are threaded in SSA form (`self.logw += logt` ↦ `let s_w1 := s_w * logt`), list fields support
`.append(e)`, `[-1]` (`getLastD 0`: the lists are never empty — `__init__` seeds them) and `len(...)`.
Everything outside this fragment raises `py2lean.TranslationError` (reported as a tie downgrade, never guessed).
"""
import ast
from dataclasses import dataclass, field
from typing import Dict, List, Optional, Sequence, Tuple

from .py2lean import TranslationError, find_function

LOG, LIN, NAT, OPTNAT = "LOG", "LIN", "NAT", "OPTNAT"


@dataclass
class LogSpec:
    source: str
    cls: str
    func: str
    name: str                                    # Lean definition name
    struct: str                                  # Lean structure of the state, e.g. `NSt K`
    fields: Sequence[Tuple[str, str, str]]       # (python attribute, lean field, type: LOG | LIN | NAT | LIST LOG | LIST LIN | LIST NAT)
    params: Sequence[Tuple[str, str, str]]       # (python parameter, lean name, type)
    locals_: Dict[str, str]                      # declared types of the locals
    flags: Dict[str, Tuple[str, str]] = field(default_factory=dict)   # python condition text -> (lean Bool parameter, doc)
    ignore_attrs: Sequence[str] = ()             # attributes whose updates are outside the model (must only be appended to)
    ignore_flags: Sequence[str] = ()             # `if self.<flag>:` blocks that only touch ignore_attrs
    doc: str = ""


class _Tx:
    def __init__(self, spec: LogSpec):
        self.spec = spec
        self.ftype = {py: ty for py, _, ty in spec.fields}
        self.fname = {py: ln for py, ln, _ in spec.fields}
        self.cur: Dict[str, str] = {py: f"s.{ln}" for py, ln, _ in spec.fields}   # current Lean term of each field
        self.ver: Dict[str, int] = {}
        self.env: Dict[str, Tuple[str, str]] = {py: (ln, ty) for py, ln, ty in spec.params}   # local/param -> (lean, type)
        self.lines: List[str] = []
        self.used_flags: List[str] = []

    # ------------------------------------------------------------------ helpers
    def fail(self, node, why):
        raise TranslationError(f"{self.spec.cls}.{self.spec.func}: {why}: {ast.unparse(node)[:90]!r}")

    def fresh(self, base):
        k = self.ver.get(base, 0) + 1
        self.ver[base] = k
        return f"{base}{k}"

    def self_attr(self, node) -> Optional[str]:
        if isinstance(node, ast.Attribute) and isinstance(node.value, ast.Name) and node.value.id == "self":
            return node.attr
        return None

    def call_name(self, node) -> Optional[str]:
        if isinstance(node, ast.Call):
            return ast.unparse(node.func)
        return None

    # ------------------------------------------------------------------ typing
    def type_of(self, e) -> str:
        if ast.unparse(e) in getattr(self.spec, "atoms", {}):
            return LIN
        a = self.self_attr(e)
        if a is not None:
            if a not in self.ftype:
                self.fail(e, "attribute outside the declared state")
            return self.ftype[a]
        if isinstance(e, ast.Name):
            if e.id in self.env:
                return self.env[e.id][1]
            self.fail(e, "undeclared name")
        if isinstance(e, ast.Constant) and isinstance(e.value, (int, float)) and not isinstance(e.value, bool):
            return LIN
        if isinstance(e, ast.Subscript):
            a = self.self_attr(e.value)
            if a is not None and self.ftype.get(a, "").startswith("LIST ") and ast.unparse(e.slice) == "-1":
                return self.ftype[a].split()[1]
            self.fail(e, "subscript outside the fragment")
        if isinstance(e, ast.UnaryOp) and isinstance(e.op, ast.USub):
            return self.type_of(e.operand)
        if isinstance(e, ast.BinOp):
            if isinstance(e.op, (ast.Add, ast.Sub)):
                lt, rt = self.type_of(e.left), self.type_of(e.right)
                return LOG if (lt == LOG and rt == LOG) else LIN
            if isinstance(e.op, (ast.Mult, ast.Div, ast.Pow)):
                return LIN
            self.fail(e, "operator outside the fragment")
        cn = self.call_name(e)
        if cn in ("np.logaddexp", "np.log1p", "np.log"):
            return LOG
        if cn == "np.exp":
            return LIN
        self.fail(e, "expression outside the fragment")

    # ------------------------------------------------------------------ expressions
    def expr(self, e, want: str) -> str:
        """Lean term for `e` read as a `want` quantity (LOG: its exponential; LIN: itself)"""
        if ast.unparse(e) in getattr(self.spec, "atoms", {}):
            t = self.spec.atoms[ast.unparse(e)]
            return t if want == LIN else f"ex ({t})"
        ty = self.type_of(e)
        if ty == NAT:
            if want != LIN:
                self.fail(e, "a count used as a log-domain number")
            return f"(({self.atom(e)} : Nat) : K)"
        if isinstance(e, ast.Constant):
            if want != LIN:
                self.fail(e, "a literal used as a log-domain number")
            return _lit(e.value)
        if isinstance(e, (ast.Name, ast.Attribute, ast.Subscript)):
            t = self.atom(e)
            if ty == want:
                return t
            return f"lg ({t})" if (ty == LOG and want == LIN) else f"ex ({t})"
        if isinstance(e, ast.UnaryOp):
            if want == LOG:
                if ty != LOG:
                    return f"ex ({self.expr(e, LIN)})"
                return f"(1 / {self.expr(e.operand, LOG)})"
            return f"(-{self.expr(e.operand, LIN)})"       # read as a real: minus the operand read as a real (−lg a, never lg (1/a))
        if isinstance(e, ast.BinOp):
            if isinstance(e.op, (ast.Add, ast.Sub)):
                if want == LOG:
                    if ty != LOG:
                        return f"ex ({self.expr(e, LIN)})"
                    op = "*" if isinstance(e.op, ast.Add) else "/"
                    return f"({self.expr(e.left, LOG)} {op} {self.expr(e.right, LOG)})"
                # wanted LIN: the operands are read as LIN one by one (lg a - lg b, never lg (a / b))
                op = "+" if isinstance(e.op, ast.Add) else "-"
                return f"({self.expr(e.left, LIN)} {op} {self.expr(e.right, LIN)})"
            if isinstance(e.op, ast.Pow):
                if not (isinstance(e.right, ast.Constant) and e.right.value == 2):
                    self.fail(e, "power other than a square")
                b = self.expr(e.left, LIN)
                t = f"({b} * {b})"
                return t if want == LIN else f"ex {t}"
            op = "*" if isinstance(e.op, ast.Mult) else "/"
            t = f"({self.expr(e.left, LIN)} {op} {self.expr(e.right, LIN)})"
            return t if want == LIN else f"ex {t}"
        cn = self.call_name(e)
        if cn == "np.logaddexp" and len(e.args) == 2 and not e.keywords:
            t = f"({self.expr(e.args[0], LOG)} + {self.expr(e.args[1], LOG)})"
            return t if want == LOG else f"lg {t}"
        if cn == "np.log1p" and len(e.args) == 1 and not e.keywords:
            t = f"(1 + {self.expr(e.args[0], LIN)})"
            return t if want == LOG else f"lg {t}"
        if cn == "np.log" and len(e.args) == 1 and not e.keywords:
            # the logarithm of a real: as a log-domain number it IS that real; read as a real it is `lg` of it
            t = self.expr(e.args[0], LIN)
            return t if want == LOG else f"lg ({t})"
        if cn == "np.exp" and len(e.args) == 1 and not e.keywords:
            if want == LIN:
                return self.expr(e.args[0], LOG)
            return f"ex ({self.expr(e.args[0], LOG)})"
        self.fail(e, "expression outside the fragment")

    def atom(self, e) -> str:
        a = self.self_attr(e)
        if a is not None:
            return self.cur[a]
        if isinstance(e, ast.Name):
            return self.env[e.id][0]
        if isinstance(e, ast.Subscript):
            a = self.self_attr(e.value)
            zero = "0"
            return f"({self.cur[a]}).getLastD {zero}"
        self.fail(e, "not an atom")

    # ------------------------------------------------------------------ conditions
    def cond(self, c) -> str:
        if isinstance(c, ast.BoolOp):
            op = " ∧ " if isinstance(c.op, ast.And) else " ∨ "
            return "(" + op.join(self.cond(v) for v in c.values) + ")"
        text = ast.unparse(c)
        if text in self.spec.flags:
            name = self.spec.flags[text][0]
            if name not in self.used_flags:
                self.used_flags.append(name)
            return f"{name} = true"
        if self.call_name(c) == "np.isfinite" and len(c.args) == 1:
            a = c.args[0]
            if self.type_of(a) != LOG or not isinstance(a, (ast.Name, ast.Attribute, ast.Subscript)):
                self.fail(c, "isfinite of something that is not a log-domain variable")
            return f"{self.atom(a)} ≠ 0"
        if isinstance(c, ast.Compare) and len(c.ops) == 1 and isinstance(c.ops[0], ast.Eq):
            l, r = c.left, c.comparators[0]
            if self.call_name(l) == "len" and isinstance(r, ast.Constant) and isinstance(r.value, int):
                a = self.self_attr(l.args[0])
                if a is not None and self.ftype.get(a, "").startswith("LIST "):
                    return f"({self.cur[a]}).length = {r.value}"
        self.fail(c, "condition outside the fragment")

    # ------------------------------------------------------------------ statements
    def only_logging(self, body) -> bool:
        return all(isinstance(s, ast.Expr) and isinstance(s.value, ast.Call)
                   and ast.unparse(s.value.func).startswith("logger.") for s in body)

    def only_ignored(self, body) -> bool:
        for s in body:
            ok = (isinstance(s, ast.Expr) and isinstance(s.value, ast.Call) and isinstance(s.value.func, ast.Attribute)
                  and s.value.func.attr == "append" and self.self_attr(s.value.func.value) in self.spec.ignore_attrs)
            if not ok:
                return False
        return True

    def assign_local(self, name, rhs_term, ty):
        ln = self.fresh(name)
        self.lines.append(f"let {ln} : K := {rhs_term}")
        self.env[name] = (ln, ty)

    def assign_field(self, attr, term):
        ln = self.fresh("s_" + self.fname[attr])
        self.lines.append(f"let {ln} := {term}")
        self.cur[attr] = ln

    def block(self, body):
        for st in body:
            self.stmt(st)

    def stmt(self, st):
        if isinstance(st, ast.Expr) and isinstance(st.value, ast.Constant) and isinstance(st.value.value, str):
            return
        if isinstance(st, ast.Expr) and isinstance(st.value, ast.Call):
            f = st.value.func
            if ast.unparse(f).startswith("logger."):
                return
            if isinstance(f, ast.Attribute) and f.attr == "append" and len(st.value.args) == 1:
                a = self.self_attr(f.value)
                if a in self.spec.ignore_attrs:
                    return
                if a is not None and self.ftype.get(a, "").startswith("LIST "):
                    ety = self.ftype[a].split()[1]
                    arg = st.value.args[0]
                    if ety == NAT:
                        if self.type_of(arg) != NAT:
                            self.fail(st, "appending a non-count to a list of counts")
                        term = self.atom(arg)
                    else:
                        term = self.expr(arg, ety)
                    self.assign_field(a, f"{self.cur[a]} ++ [{term}]")
                    return
            self.fail(st, "call statement outside the fragment")
        if isinstance(st, ast.Assign) and len(st.targets) == 1:
            t = st.targets[0]
            a = self.self_attr(t)
            if a is not None:
                ty = self.ftype.get(a)
                if ty not in (LOG, LIN):
                    self.fail(st, "assignment to a field that is not a scalar")
                self.assign_field(a, self.expr(st.value, ty))
                return
            if isinstance(t, ast.Name):
                # declared type, else the type the right-hand side has by itself (so a renamed local still translates)
                ty = self.spec.locals_.get(t.id) or self.type_of(st.value)
                if ty not in (LOG, LIN):
                    self.fail(st, "a local that is neither a log-domain nor a linear number")
                self.assign_local(t.id, self.expr(st.value, ty), ty)
                return
            self.fail(st, "assignment target outside the fragment")
        if isinstance(st, ast.AugAssign) and isinstance(st.op, ast.Add):
            a = self.self_attr(st.target)
            if a is not None and self.ftype.get(a) == LOG:
                self.assign_field(a, f"{self.cur[a]} * {self.expr(st.value, LOG)}")
                return
            self.fail(st, "augmented assignment outside the fragment")
        if isinstance(st, ast.If):
            return self.if_stmt(st)
        self.fail(st, "statement outside the fragment")

    def if_stmt(self, st: ast.If):
        text = ast.unparse(st.test)
        if self.only_logging(st.body) and not st.orelse:
            return                                                     # a warning only
        if text in self.spec.ignore_flags and self.only_ignored(st.body) and not st.orelse:
            return                                                     # bookkeeping outside the model
        # `if x is None: x = e`  (default of an optional count)
        if (isinstance(st.test, ast.Compare) and isinstance(st.test.ops[0], ast.Is) and isinstance(st.test.left, ast.Name)
                and isinstance(st.test.comparators[0], ast.Constant) and st.test.comparators[0].value is None
                and not st.orelse and len(st.body) == 1 and isinstance(st.body[0], ast.Assign)
                and isinstance(st.body[0].targets[0], ast.Name) and st.body[0].targets[0].id == st.test.left.id
                and self.env.get(st.test.left.id, ("", ""))[1] == OPTNAT):
            x = st.test.left.id
            d = st.body[0].value
            if self.type_of(d) != NAT:
                self.fail(st, "default of a count is not a count")
            ln = self.fresh(x)
            self.lines.append(f"let {ln} : Nat := ({self.env[x][0]}).getD {self.atom(d)}")
            self.env[x] = (ln, NAT)
            return
        c = self.cond(st.test)
        # translate both arms in copies of the environment; merge every field / local that an arm changed
        def run(body):
            sub = _Tx.__new__(_Tx)
            sub.__dict__.update(self.__dict__)
            sub.cur, sub.env, sub.lines = dict(self.cur), dict(self.env), []
            sub.ver = self.ver                                          # shared: names stay unique
            sub.block(body)
            return sub
        a, b = run(st.body), run(st.orelse)
        changed_f = [k for k in self.cur if a.cur[k] != self.cur[k] or b.cur[k] != self.cur[k]]
        changed_l = [k for k in a.env if k in b.env and (a.env[k] != b.env[k] or (k in self.env and a.env[k] != self.env[k]))]
        changed_l = [k for k in changed_l if not (k in self.env and a.env[k] == self.env[k] and b.env[k] == self.env[k])]
        if len(changed_f) + len(changed_l) != 1:
            self.fail(st, f"an `if` that changes {len(changed_f) + len(changed_l)} variables (only one is supported)")

        def arm(sub, term):
            if not sub.lines:
                return term
            return "(" + "; ".join(sub.lines) + "; " + term + ")"
        if changed_f:
            k = changed_f[0]
            ln = self.fresh("s_" + self.fname[k])
            self.lines.append(f"let {ln} := if {c} then {arm(a, a.cur[k])} else {arm(b, b.cur[k])}")
            self.cur[k] = ln
        else:
            k = changed_l[0]
            ta, tb = a.env[k][1], b.env[k][1]
            va, vb = a.env[k][0], b.env[k][0]
            if ta != tb:
                # one arm computed the logarithm itself (LIN), the other a log-domain number: the variable is log-domain
                if {ta, tb} != {LOG, LIN}:
                    self.fail(st, "the arms give the variable different types")
                va = va if ta == LOG else f"ex ({va})"
                vb = vb if tb == LOG else f"ex ({vb})"
                ta = LOG
            ln = self.fresh(k)
            self.lines.append(f"let {ln} : K := if {c} then {arm(a, va)} else {arm(b, vb)}")
            self.env[k] = (ln, ta)


def translate(repo, spec: LogSpec) -> Tuple[str, dict]:
    """returns (Lean definition text, info)"""
    from pathlib import Path
    import hashlib
    text = (Path(repo) / spec.source).read_text()
    fn = find_function(ast.parse(text), spec.func, spec.cls)
    if fn is None:
        raise TranslationError(f"{spec.cls}.{spec.func}: not found in {spec.source}")
    want_params = ["self"] + [p for p, _, _ in spec.params]
    got = [a.arg for a in fn.args.args]
    if got != want_params or fn.args.vararg or fn.args.kwarg or fn.args.kwonlyargs:
        raise TranslationError(f"{spec.cls}.{spec.func}: signature {got} differs from the modelled one {want_params}")
    tx = _Tx(spec)
    tx.block(fn.body)
    flags = " ".join(f"({n} : Bool)" for n, _ in spec.flags.values())
    params = " ".join(f"({ln} : {'K' if ty in (LOG, LIN) else ('Option Nat' if ty == OPTNAT else 'Nat')})" for _, ln, ty in spec.params)
    ctor = ", ".join(tx.cur[py] for py, _, _ in spec.fields)
    body = "\n  ".join(tx.lines)
    src = ast.get_source_segment(text, fn) or ""
    sha = hashlib.sha256(src.encode()).hexdigest()[:16]
    lean = (f"/-- GENERATED by harness/pylog2lean.py from `{spec.source}`, `{spec.cls}.{spec.func}` "
            f"(lines {fn.lineno}–{fn.end_lineno}, sha256 {sha}).\n{spec.doc} -/\n"
            f"def {spec.name} (lg ex : K → K) {flags} (s : {spec.struct}) {params} : {spec.struct} :=\n  {body}\n  ⟨{ctor}⟩\n")
    return lean, dict(first_line=fn.lineno, last_line=fn.end_lineno, sha256=sha, statements=len(fn.body), lets=len(tx.lines))


@dataclass
class FnSpec:
    """a module-level function whose body is (assignments and) one `return e1, e2, …`"""
    source: str
    func: str
    name: str
    params: Sequence[Tuple[str, str, str]]       # (python parameter, lean name, LOG | LIN)
    returns: Sequence[str]                        # type of each returned component
    locals_: Dict[str, str] = field(default_factory=dict)
    doc: str = ""
    defaults: Sequence[str] = ()                  # exact text of the parameter defaults the model assumes are passed explicitly
    atoms: Dict[str, str] = field(default_factory=dict)   # exact text of a real constant (np.pi) -> name of an extra parameter


def translate_fn(repo, spec: FnSpec) -> Tuple[str, dict]:
    from pathlib import Path
    import hashlib
    text = (Path(repo) / spec.source).read_text()
    fn = find_function(ast.parse(text), spec.func, None)
    got = [a.arg for a in fn.args.args]
    if got != [p for p, _, _ in spec.params] or fn.args.vararg or fn.args.kwarg or fn.args.kwonlyargs \
            or [ast.unparse(d) for d in fn.args.defaults] != list(spec.defaults):
        raise TranslationError(f"{spec.func}: signature {got} differs from the modelled one {[p for p, _, _ in spec.params]}")
    ls = LogSpec(source=spec.source, cls="", func=spec.func, name=spec.name, struct="", fields=[], params=spec.params,
                 locals_=dict(spec.locals_))
    ls.atoms = dict(spec.atoms)
    tx = _Tx(ls)
    body = [s_ for s_ in fn.body if not (isinstance(s_, ast.Expr) and isinstance(s_.value, ast.Constant))]
    if not body or not isinstance(body[-1], ast.Return) or body[-1].value is None:
        raise TranslationError(f"{spec.func}: the body does not end in `return …`")
    tx.block(body[:-1])
    rv = body[-1].value
    comps = list(rv.elts) if isinstance(rv, ast.Tuple) else [rv]
    if len(comps) != len(spec.returns):
        raise TranslationError(f"{spec.func}: returns {len(comps)} values, the model has {len(spec.returns)}")
    terms = [tx.expr(c, ty) for c, ty in zip(comps, spec.returns)]
    params = " ".join([f"({a} : K)" for a in dict.fromkeys(spec.atoms.values())] + [f"({ln} : K)" for _, ln, _ in spec.params])
    rty = " × ".join("K" for _ in terms)
    lets = "".join(f"  {ln}\n" for ln in tx.lines)
    seg = ast.get_source_segment(text, fn) or ""
    sha = hashlib.sha256(seg.encode()).hexdigest()[:16]
    lean = (f"/-- GENERATED by harness/pylog2lean.py from `{spec.source}`, `{spec.func}` (lines {fn.lineno}–{fn.end_lineno}, "
            f"sha256 {sha}).\n{spec.doc} -/\n"
            f"def {spec.name} (lg ex : K → K) {params} : {rty} :=\n{lets}  (" + ", ".join(terms) + ")\n")
    return lean, dict(source=spec.source, lines=[fn.lineno, fn.end_lineno], sha256=sha)


@dataclass
class CpsSpec:
    """a scalar function with early returns / raises: translated in continuation style (`if c then … else …`, the statements
    after an `if` are continued in both arms); result `Option (K × K)` (`none` = the function raises ValueError)"""
    source: str
    func: str
    name: str
    params: Sequence[Tuple[str, str, str]]        # (python parameter, lean binder text, LIN | "BOOL" | "OTHER")
    conds: Dict[str, str]                         # exact text of a condition -> Lean proposition
    atoms: Dict[str, str] = field(default_factory=dict)   # exact text of a real-valued atom (e.g. `rescale_bounds[0]`) -> Lean term
    doc: str = ""


def _lit(v) -> str:
    from fractions import Fraction
    q = Fraction(v).limit_denominator(1 << 20)
    if float(q) != float(v):
        raise TranslationError(f"literal {v!r} is not a small rational")
    nat = lambda k: f"({k} : K)" if k in (0, 1) else f"(({k} : Nat) : K)"
    t = nat(abs(q.numerator)) if q.denominator == 1 else f"({nat(abs(q.numerator))} / {nat(q.denominator)})"
    return t if q >= 0 else f"(-{t})"


def translate_cps(repo, spec: CpsSpec) -> Tuple[str, dict]:
    from pathlib import Path
    import hashlib
    text = (Path(repo) / spec.source).read_text()
    fn = find_function(ast.parse(text), spec.func, None)
    got = [a.arg for a in fn.args.args]
    if got != [p for p, _, _ in spec.params] or fn.args.vararg or fn.args.kwarg or fn.args.kwonlyargs:
        raise TranslationError(f"{spec.func}: signature {got} differs from the modelled one {[p for p, _, _ in spec.params]}")
    ver: Dict[str, int] = {}

    def fail(node, why):
        raise TranslationError(f"{spec.func}: {why}: {ast.unparse(node)[:90]!r}")

    def ex(e, env) -> str:
        t = ast.unparse(e)
        if t in spec.atoms:
            return spec.atoms[t]
        if isinstance(e, ast.Name):
            if e.id in env:
                return env[e.id]
            fail(e, "undeclared or non-real name")
        if isinstance(e, ast.Constant) and isinstance(e.value, (int, float)) and not isinstance(e.value, bool):
            return _lit(e.value)
        if isinstance(e, ast.UnaryOp) and isinstance(e.op, ast.USub):
            if isinstance(e.operand, ast.Constant):
                return _lit(-e.operand.value)
            return f"(-{ex(e.operand, env)})"
        if isinstance(e, ast.BinOp) and isinstance(e.op, (ast.Add, ast.Sub, ast.Mult, ast.Div)):
            op = {ast.Add: "+", ast.Sub: "-", ast.Mult: "*", ast.Div: "/"}[type(e.op)]
            return f"({ex(e.left, env)} {op} {ex(e.right, env)})"
        fail(e, "expression outside the fragment")

    def only_logging(body):
        return all(isinstance(s_, ast.Expr) and isinstance(s_.value, ast.Call) and ast.unparse(s_.value.func).startswith("logger.")
                   for s_ in body)

    def block(stmts, env, ind) -> str:
        pad = "  " * ind
        if not stmts:
            raise TranslationError(f"{spec.func}: control reaches the end of the function without a return")
        st, rest = stmts[0], stmts[1:]
        if isinstance(st, ast.Expr) and isinstance(st.value, ast.Constant):
            return block(rest, env, ind)
        if isinstance(st, ast.Raise):
            if st.exc is not None and ast.unparse(st.exc).startswith("ValueError("):
                return f"{pad}none"
            fail(st, "raise of something else than ValueError")
        if isinstance(st, ast.Return) and isinstance(st.value, ast.Tuple) and len(st.value.elts) == 2:
            return f"{pad}some ({ex(st.value.elts[0], env)}, {ex(st.value.elts[1], env)})"
        if isinstance(st, ast.Assign) and len(st.targets) == 1 and isinstance(st.targets[0], ast.Name):
            name = st.targets[0].id
            k = ver.get(name, 0) + 1
            ver[name] = k
            env2 = dict(env)
            env2[name] = f"{name}{k}"
            return f"{pad}let {name}{k} : K := {ex(st.value, env)}\n" + block(rest, env2, ind)
        if isinstance(st, ast.If):
            c = ast.unparse(st.test)
            if only_logging(st.body) and not st.orelse and c in spec.conds:
                return block(rest, env, ind)
            if c not in spec.conds:
                fail(st.test, "condition outside the table")
            a = block(list(st.body) + rest, env, ind + 1)
            b = block(list(st.orelse) + rest, env, ind + 1)
            return f"{pad}if {spec.conds[c]} then\n{a}\n{pad}else\n{b}"
        fail(st, "statement outside the fragment")

    env = {py: ln.split()[0].lstrip("(") for py, ln, ty in spec.params if ty == LIN}
    body = block(list(fn.body), env, 1)
    seg = ast.get_source_segment(text, fn) or ""
    sha = hashlib.sha256(seg.encode()).hexdigest()[:16]
    binders = " ".join(ln for _, ln, _ in spec.params)
    lean = (f"/-- GENERATED by harness/pylog2lean.py (continuation style) from `{spec.source}`, `{spec.func}` "
            f"(lines {fn.lineno}–{fn.end_lineno}, sha256 {sha}).\n{spec.doc} -/\n"
            f"def {spec.name} {binders} : Option (K × K) :=\n{body}\n")
    return lean, dict(source=spec.source, lines=[fn.lineno, fn.end_lineno], sha256=sha)
