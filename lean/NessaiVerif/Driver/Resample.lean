import NessaiVerif.Model.Resample
import NessaiVerif.Driver.Parse
/-
Line protocol of the resampling model (token `rs`).  Weights and uniforms are exact
rationals; a weight may also be written `m@e` (= m·2^e, e any integer) to keep
extreme dynamic ranges short.

  rs draw <method> <n|none> <ids> <w> <u>   → ok <indices> <sample ids> | err=value
  rs rej <w> <u>                            → ok <indices>
  rs mult <n> <w> <u>                       → ok <indices>
  rs cdf <w>                                → ok <cdf>                  (rationals)
  rs ess <w>                                → ok <ess> <floor>          (rational, integer)
  rs effn <w>                               → ok <effective_n_posterior_samples>
-/
namespace NessaiVerif.Driver.Resample
open NessaiVerif NessaiVerif.Parse NessaiVerif.Resample

def pow2 (e : Nat) : Nat := 1 <<< e

/-- `m@e` = m·2^e, or a plain rational -/
def parseW? (s : String) : Option Rat :=
  match s.splitOn "@" with
  | [m, e] => do
      let m ← m.toInt?
      let e ← e.toInt?
      if e ≥ 0 then some ((m * (pow2 e.toNat : Int) : Int) : Rat)
      else some (mkRat m (pow2 (-e).toNat))
  | _ => parseRat? s

def showErr : Err → String
  | .valueErr => "err=value"

def handle (toks : List String) : String :=
  match toks with
  | ["draw", m, n, ids, w, u] =>
    match parseOpt? parseNat? n, parseList? parseInt? ids, parseList? parseW? w, parseList? parseW? u with
    | some n, some ids, some w, some u =>
      match drawPosterior m n ids w u with
      | .ok (idx, s) => "ok " ++ showList toString idx ++ " " ++ showList toString s
      | .error e => showErr e
    | _, _, _, _ => "bad-op"
  | ["rej", w, u] =>
    match parseList? parseW? w, parseList? parseW? u with
    | some w, some u => "ok " ++ showList toString (rejectionIndices w u)
    | _, _ => "bad-op"
  | ["mult", n, w, u] =>
    match parseNat? n, parseList? parseW? w, parseList? parseW? u with
    | some n, some w, some u => "ok " ++ showList toString (multinomialIndices w n u)
    | _, _, _ => "bad-op"
  | ["cdf", w] =>
    match parseList? parseW? w with
    | some w => "ok " ++ showList showRat (cdf w)
    | none => "bad-op"
  | ["ess", w] =>
    match parseList? parseW? w with
    | some w => "ok " ++ showRat (ess w) ++ " " ++ toString (defaultN w)
    | none => "bad-op"
  | ["effn", w] =>
    match parseList? parseW? w with
    | some w => "ok " ++ showRat (effectiveN w)
    | none => "bad-op"
  | _ => "bad-op"

end NessaiVerif.Driver.Resample
