import NessaiVerif.Model.Encode
import NessaiVerif.Gen.Encode
import NessaiVerif.Proofs.Encode
import NessaiVerif.Proofs.EncodeH5
import NessaiVerif.Proofs.EncodeLeaf
/-
C19 — saved results read back equal to the in-memory results.
Property theorems only.  `jsonChain`, `jsonFallback`, `h5Sentinel`, `extTable` are GENERATED from
nessai/utils/io.py and nessai/flowsampler.py on every run (Gen/Encode.lean), so every theorem below is
re-proved against the dispatch the source has now.  The json text layer, `ndarray.tolist`, `str(obj)` and the
h5py container / numpy coercion are external: they are modelled (Model/Encode.lean, Model/EncodeLeaf.lean) and
assumed; the correspondence validates them on every run.
NOT covered by a theorem (oracle + model==code correspondence only): the result-level clauses of the property —
which fields a real result dictionary of either sampler holds (log_evidence, log_evidence_error, nested_samples /
samples, posterior_samples, log_posterior_weights, insertion_indices, history) and that they equal the in-memory
results, and the conversion of `posterior_samples` to a dict of columns in the JSON branch of `save_results`.
-/
namespace NessaiVerif.C19
open NessaiVerif.Encode NessaiVerif.Gen.Encode

/-- The generated `NessaiJSONEncoder.default` chain dispatches as documented: numpy integers → `int`,
numpy floats → `float`, arrays → `tolist()`, every other non-native object (incl. `np.bool_`) → `str(obj)`. -/
theorem dispatch_spec : DispatchSpec jsonChain jsonFallback :=
  ⟨by decide, by decide, by decide, by decide, by decide⟩

/-- The encoder driven by the GENERATED dispatch produces the documented canonical form `canon` (a per-constructor
description: ndarray ↦ nested lists of its elements in row-major order, numpy int/float scalar ↦ the number,
tuple ↦ list, any other object ↦ `str(obj)`), for every tree whose keys the json module accepts and whose arrays
are well-shaped, and never raises.  The content of this theorem is the dispatch facts (`dispatch_spec`) carried
through the recursion; what `canon` means is pinned independently by `json_plain_identity`,
`json_scalars_numbers`, `json_array_values_preserved`, `json_array_1d` below. -/
theorem json_dispatch_matches_canon (t : Tree) (hk : KeysOk t) (hw : WellShaped t) :
    jsonEncode jsonChain jsonFallback t = .ok (canon t) :=
  jsonEncode_eq_canon dispatch_spec t hk hw

example : jsonEncode jsonChain jsonFallback (.dict [(.int 3, .ndarray .float [1, 2] [.npFloat .f64 0 none, .none])]) =
    .ok (.dict [(.str "3", .list [.list [.float 0, .none]])]) :=
  json_dispatch_matches_canon _ (by simp [KeysOk, KeysOkKvs, KeysOkList]) (by simp [WellShaped, WellShapedKvs, WellShapedList, prod])

/-- **JSON round trip.**  Write with `save_to_json`, read with `json.load` (which builds dictionaries by assignment,
so a repeated key would collapse).  For every tree (i) whose keys the json module accepts, (ii) whose keys are
distinct as written to the file in every dictionary, (iii) whose arrays hold as many elements as their shape says:
the write never raises and the value read is the canonical form, which consists of native JSON values only.
Assumed of the json text layer and validated by the correspondence, not proved: `dumps`/`loads` of native values is
the identity, incl. `NaN`/`Infinity` literals, float repr round trip and member order. -/
theorem json_roundtrip (t : Tree) (hk : KeysOk t) (hd : KeysDistinct t) (hw : WellShaped t) :
    jsonRoundTrip jsonChain jsonFallback t = .ok (canon t) ∧ IsJson (canon t) :=
  ⟨jsonRoundTrip_eq_canon dispatch_spec t hk hd hw, canon_isJson t hk⟩

example : jsonRoundTrip jsonChain jsonFallback
    (.dict [(.str "history", .dict [(.str "logZ", .list [.npFloat .f64 0x7ff8000000000000 none, .none])]),
            (.int 3, .ndarray .float [1, 2] [.float 0, .float 0x7ff0000000000000]), (.str "cls", .opaque "<class 'A'>")]) =
    .ok (.dict [(.str "history", .dict [(.str "logZ", .list [.float 0x7ff8000000000000, .none])]),
            (.str "3", .list [.list [.float 0, .float 0x7ff0000000000000]]), (.str "cls", .str "<class 'A'>")]) :=
  (json_roundtrip _ (by simp [KeysOk, KeysOkKvs, KeysOkList])
    (by simp [KeysDistinct, KeysDistinctKvs, KeysDistinctList, keysOf, renderKey, jsonKey]; decide)
    (by simp [WellShaped, WellShapedKvs, WellShapedList, prod])).1

/-- Hypothesis (i) is needed: a key such as `np.int64(1)` or a tuple makes `json.dump` raise TypeError
(no file content is produced). -/
theorem json_bad_key_fails_without :
    jsonEncode jsonChain jsonFallback (.dict [(.bad, .int 1)]) = .error .type := by rfl

/-- Hypothesis (ii) is needed: `{1: 0, "1": 5}` is written with two members "1" and `json.load` returns one. -/
theorem json_duplicate_keys_fails_without :
    jsonRoundTrip jsonChain jsonFallback (.dict [(.int 1, .int 0), (.str "1", .int 5)]) =
      .ok (.dict [(.str "1", .int 5)]) := by rfl

/-- Hypothesis (iii) is a representation invariant: a tree whose array has the wrong number of elements denotes no
numpy array and is rejected by the model instead of being "round-tripped". -/
theorem json_wellshaped_fails_without :
    jsonRoundTrip jsonChain jsonFallback (.ndarray .float [2, 2] [.float 0]) = .error .malformed := by rfl

/-- A dictionary that already consists of native JSON values (None, bool, int, float incl. NaN/±inf, str,
lists, string-keyed dicts with distinct keys) reads back identical — value by value, in order. -/
theorem json_plain_identity (t : Tree) (h : IsJson t) (hd : KeysDistinct t) :
    jsonRoundTrip jsonChain jsonFallback t = .ok t := by
  have := jsonRoundTrip_eq_canon dispatch_spec t (keysOk_of_isJson t h) hd (wellShaped_of_isJson t h)
  rwa [canon_of_isJson t h] at this

example : jsonRoundTrip jsonChain jsonFallback
    (.dict [(.str "a", .list [.float 0x7ff8000000000000, .none, .int (-3)]), (.str "b", .dict [])]) =
    .ok (.dict [(.str "a", .list [.float 0x7ff8000000000000, .none, .int (-3)]), (.str "b", .dict [])]) :=
  json_plain_identity _ (by simp [IsJson, IsJsonKvs, IsJsonList])
    (by simp [KeysDistinct, KeysDistinctKvs, KeysDistinctList, keysOf, renderKey, jsonKey])

/-- Saving what was read back gives the same file again (the canonical form is a fixed point). -/
theorem json_canon_idempotent (t : Tree) (h : KeysOk t) : canon (canon t) = canon t :=
  canon_of_isJson _ (canon_isJson t h)

example : canon (canon (.tuple [.npInt 2, .npBool true])) = canon (.tuple [.npInt 2, .npBool true]) :=
  json_canon_idempotent _ (by simp [KeysOk, KeysOkList])

/-- numpy integer and floating scalars read back as the Python number with the same value: the integer itself,
and the binary64 pattern of `float(x)` (any pattern: NaN, +inf, −inf, −0.0 included). -/
theorem json_scalars_numbers (i : Int) (k : FKind) (bits : Nat) (e : Option String) :
    jsonEncode jsonChain jsonFallback (.npInt i) = .ok (.int i) ∧
    jsonEncode jsonChain jsonFallback (.npFloat k bits e) = .ok (.float bits) :=
  ⟨jsonEncode_eq_canon dispatch_spec _ (by simp [KeysOk]) (by simp [WellShaped]),
   jsonEncode_eq_canon dispatch_spec _ (by simp [KeysOk]) (by simp [WellShaped])⟩

/-- An array of any shape reads back as nested lists whose leaves are exactly the array's elements in C order:
nothing lost, duplicated or reordered (for elements that are native scalars, as `tolist` produces them). -/
theorem json_array_values_preserved (dt : DT) (shape : List Nat) (flat : List Tree)
    (hflat : ∀ x ∈ flat, IsJson x ∧ IsLeaf x) (hlen : flat.length = prod shape) :
    ∃ j, jsonEncode jsonChain jsonFallback (.ndarray dt shape flat) = .ok j ∧ leaves j = flat := by
  have hj : IsJsonList flat := (isJsonList_iff flat).2 (fun x hx => (hflat x hx).1)
  have hk : KeysOk (.ndarray dt shape flat) := by
    simpa [KeysOk] using keysOkList_of_isJson flat hj
  have hw : WellShaped (.ndarray dt shape flat) := by
    simpa [WellShaped, hlen] using wellShapedList_of_isJson flat hj
  refine ⟨_, jsonEncode_eq_canon dispatch_spec _ hk hw, ?_⟩
  simp only [canon, canonList_of_isJson flat hj]
  exact leaves_nest shape flat (fun x hx => (hflat x hx).2) hlen

example : ∃ j, jsonEncode jsonChain jsonFallback
    (.ndarray .float [3, 2] [.float 1, .float 2, .float 3, .float 4, .float 5, .float 6]) = .ok j ∧
    leaves j = [.float 1, .float 2, .float 3, .float 4, .float 5, .float 6] :=
  json_array_values_preserved _ _ _ (by simp [IsJson, IsLeaf]) (by simp [prod])

/-- A one-dimensional array of native scalars reads back as exactly the flat list of its elements. -/
theorem json_array_1d (dt : DT) (flat : List Tree) (hflat : ∀ x ∈ flat, IsJson x) :
    jsonEncode jsonChain jsonFallback (.ndarray dt [flat.length] flat) = .ok (.list flat) := by
  have hj : IsJsonList flat := (isJsonList_iff flat).2 hflat
  have hk : KeysOk (.ndarray dt [flat.length] flat) := by
    simpa [KeysOk] using keysOkList_of_isJson flat hj
  have hw : WellShaped (.ndarray dt [flat.length] flat) := by
    simpa [WellShaped, prod] using wellShapedList_of_isJson flat hj
  rw [jsonEncode_eq_canon dispatch_spec _ hk hw]
  simp only [canon, canonList_of_isJson flat hj, nest_1d]

example : jsonEncode jsonChain jsonFallback (.ndarray .float [3] [.float 1, .float 0x7ff8000000000000, .float 3]) =
    .ok (.list [.float 1, .float 0x7ff8000000000000, .float 3]) :=
  json_array_1d .float [.float 1, .float 0x7ff8000000000000, .float 3] (by simp [IsJson])

/-- **Partial** (a finding, stated as a theorem): structured arrays other than `posterior_samples` are written
as bare rows, so two arrays that differ only in their field names produce the same JSON file — the names of
`nested_samples` / `samples` / `training_samples` cannot be recovered from a JSON result. -/
theorem json_structured_forgets_names_partial (n1 n2 : List String) (nrows : Nat) (cells : List Tree)
    (h : n1.length = n2.length) :
    jsonEncode jsonChain jsonFallback (.structured n1 nrows cells) =
    jsonEncode jsonChain jsonFallback (.structured n2 nrows cells) := by
  simp [jsonEncode, h]

example : jsonEncode jsonChain jsonFallback (.structured ["x", "logL"] 1 [.float 1, .float 2]) =
    jsonEncode jsonChain jsonFallback (.structured ["y", "logP"] 1 [.float 1, .float 2]) :=
  json_structured_forgets_names_partial _ _ _ _ rfl

/-- **Partial** (a finding): a `np.bool_` is neither `np.integer` nor `np.floating`, so it falls through to
`str(obj)` and reads back as the string "True"/"False", not as a boolean. -/
theorem json_npbool_becomes_string_partial (b : Bool) :
    jsonEncode jsonChain jsonFallback (.npBool b) = .ok (.str (pyBoolStr b)) :=
  jsonEncode_eq_canon dispatch_spec _ (by simp [KeysOk]) (by simp [WellShaped])

/-- **Configuration file.**  Keyword arguments reach `save_kwargs` as a dict with distinct string keys.  Whatever
the values are — classes, pools, callbacks (opaque), numpy values, nested containers with json-acceptable,
distinct keys — `save_kwargs` writes a file that the standard JSON reader reads: the write never raises and what
`json.load` returns is native JSON. -/
theorem save_kwargs_readable (kwargs : List (Key × Tree)) (eps dtype ins : Tree)
    (hs : StrKeys kwargs) (hn : (keysOf kwargs).Nodup)
    (hk : KeysOkKvs kwargs) (hd : KeysDistinctKvs kwargs) (hw : WellShapedKvs kwargs)
    (hx : ∀ v ∈ [eps, dtype, ins], KeysOk v ∧ KeysDistinct v ∧ WellShaped v) :
    ∃ j, jsonRoundTrip jsonChain jsonFallback (kwargsDict (kwargsExtraKeys.zip [eps, dtype, ins]) kwargs) = .ok j ∧
      IsJson j := by
  have hx' : ∀ e ∈ kwargsExtraKeys.zip [eps, dtype, ins], KeysOk e.2 ∧ KeysDistinct e.2 ∧ WellShaped e.2 :=
    fun e hmem => hx e.2 (List.of_mem_zip hmem).2
  obtain ⟨h1, h2⟩ := strKeys_nodup_extras (kwargsExtraKeys.zip [eps, dtype, ins]) kwargs hs hn
  obtain ⟨h3, h4⟩ := extras_invariants (kwargsExtraKeys.zip [eps, dtype, ins]) kwargs
    (fun e he => ⟨(hx' e he).2.1, (hx' e he).2.2⟩) hd hw
  have hok : KeysOk (kwargsDict (kwargsExtraKeys.zip [eps, dtype, ins]) kwargs) := by
    simpa [kwargsDict, KeysOk] using keysOkKvs_extras _ kwargs (fun e he => (hx' e he).1) hk
  have hdist : KeysDistinct (kwargsDict (kwargsExtraKeys.zip [eps, dtype, ins]) kwargs) := by
    simp only [kwargsDict, KeysDistinct]
    exact ⟨renderKey_nodup_of_str _ h1 h2, h3⟩
  have hws : WellShaped (kwargsDict (kwargsExtraKeys.zip [eps, dtype, ins]) kwargs) := by
    simpa [kwargsDict, WellShaped] using h4
  exact ⟨_, jsonRoundTrip_eq_canon dispatch_spec _ hok hdist hws, canon_isJson _ hok⟩

example : ∃ j, jsonRoundTrip jsonChain jsonFallback (kwargsDict (kwargsExtraKeys.zip [.none, .opaque "torch.float32", .bool false])
    [(.str "pool", .opaque "<multiprocessing.pool.Pool state=RUN pool_size=2>"),
     (.str "flow_config", .dict [(.str "model_config", .dict [(.str "ftype", .opaque "<class 'F'>")])]),
     (.str "nlive", .npInt 100)]) = .ok j ∧ IsJson j :=
  save_kwargs_readable _ _ _ _
    (by intro k hk; simp [keysOf] at hk; rcases hk with h | h | h <;> exact ⟨_, h⟩)
    (by simp [keysOf])
    (by simp [KeysOkKvs, KeysOk])
    (by simp [KeysDistinctKvs, KeysDistinct, keysOf, renderKey, jsonKey])
    (by simp [WellShapedKvs, WellShaped])
    (by simp [KeysOk, KeysDistinct, WellShaped])

/-- **HDF5 round trip** — about `h5WriteFull`, the writer the real code is tied to (values converted by
numpy/h5py, then names linked, in write order).  For every nested dictionary (i) whose keys are distinct strings
that are single path segments (non-empty, no '/', not "."), with no empty sub-dictionary and no genuine string
equal to the sentinel, and (ii) whose every leaf is writable by numpy/h5py (`LeavesOk`: the assumed table
`h5LeafToks` accepts its stored form — no arbitrary object, no None or ragged rows inside a list, …):
the write succeeds, it produces the same container as the container-level writer `h5Write`, reading groups as
dictionaries and datasets as stored values (sentinel → None) gives back the same dictionary — same keys at every
level, same stored value at every leaf, None preserved — and every dataset has a canonical read-back form.
"Same value at a leaf" is up to what h5py stores for it (list → array, int → int64, …): that canonicalisation is
the assumed table, validated by the correspondence, not proved. -/
theorem hdf5_roundtrip (kvs : List (Key × Tree)) (h : H5SafeKvs h5Sentinel kvs) (hl : LeavesOkKvs h5Sentinel kvs) :
    h5RoundTripFull h5Sentinel kvs = .ok (.dict kvs) ∧
    ∃ f toks, h5WriteFull h5Sentinel kvs = .ok f ∧ h5Write h5Sentinel kvs = .ok f ∧
      h5ReadToksKids h5Sentinel f = .ok toks :=
  h5RoundTripFull_safe h5Sentinel kvs h hl

example : h5RoundTripFull h5Sentinel [(.str "log_evidence", .npFloat .f64 0 none), (.str "bootstrap_log_evidence", .none),
    (.str "history", .dict [(.str "logZ", .list [.float 0]), (.str "stopping_criteria", .dict [(.str "ratio", .list [])])])] =
    .ok (.dict [(.str "log_evidence", .npFloat .f64 0 none), (.str "bootstrap_log_evidence", .none),
    (.str "history", .dict [(.str "logZ", .list [.float 0]), (.str "stopping_criteria", .dict [(.str "ratio", .list [])])])]) :=
  (hdf5_roundtrip _ (by simp [H5SafeKvs, H5Safe, keysOf]; decide)
    (by simp [LeavesOkKvs, LeavesOk]; decide)).1

/-- The syntactic condition that makes a key a single path segment. -/
theorem key_single_segment (k : String) (h1 : '/' ∉ k.toList) (h2 : k ≠ "") (h3 : k ≠ ".") : segs k = [k] :=
  segs_single k h1 h2 h3

example : segs "log_evidence" = ["log_evidence"] :=
  key_single_segment "log_evidence" (by decide) (by decide) (by decide)

/-- `None` entries survive at any depth: written as the sentinel string, read back as `None`. -/
theorem none_roundtrip (k1 k2 : String) (h1 : segs k1 = [k1]) (h2 : segs k2 = [k2]) (hk : k1 ≠ k2) :
    h5RoundTripFull h5Sentinel [(.str k1, .none), (.str k2, .dict [(.str k1, .none)])] =
      .ok (.dict [(.str k1, .none), (.str k2, .dict [(.str k1, .none)])]) := by
  refine (hdf5_roundtrip _ ?_ ?_).1
  · simp [H5SafeKvs, H5Safe, keysOf, h1, h2, hk]
  · simp [LeavesOkKvs, LeavesOk]; decide

example : h5RoundTripFull h5Sentinel [(.str "bootstrap_log_evidence", .none), (.str "b", .dict [(.str "bootstrap_log_evidence", .none)])] =
    .ok (.dict [(.str "bootstrap_log_evidence", .none), (.str "b", .dict [(.str "bootstrap_log_evidence", .none)])]) :=
  none_roundtrip _ _ (by decide) (by decide) (by decide)

/-- `hdf5_roundtrip` needs "no genuine string equals the sentinel": the string "__none__" reads back as None. -/
theorem sentinel_string_fails_without :
    h5RoundTripFull h5Sentinel [(.str "a", .str h5Sentinel)] = .ok (.dict [(.str "a", .none)]) := by rfl

/-- `hdf5_roundtrip` needs "no empty sub-dictionary": an empty dict writes nothing, its key is lost. -/
theorem empty_dict_fails_without :
    h5RoundTripFull h5Sentinel [(.str "a", .dict []), (.str "b", .int 1)] = .ok (.dict [(.str "b", .int 1)]) := by rfl

/-- `hdf5_roundtrip` needs slash-free keys: a key "a/b" comes back as a nested dictionary … -/
theorem slash_key_fails_without :
    h5RoundTripFull h5Sentinel [(.str "a/b", .int 1)] = .ok (.dict [(.str "a", .dict [(.str "b", .int 1)])]) := by rfl

/-- … two different dictionaries produce the same file, and together with the nested spelling the write fails
(`OSError: name already exists`). -/
theorem slash_key_collides :
    h5RoundTripFull h5Sentinel [(.str "a/b", .int 1)] = h5RoundTripFull h5Sentinel [(.str "a", .dict [(.str "b", .int 1)])] ∧
    h5RoundTripFull h5Sentinel [(.str "a/b", .int 1), (.str "a", .dict [(.str "b", .int 2)])] = .error .os := by
  constructor <;> rfl

/-- a key that is not a str makes the HDF5 writer raise TypeError (`path + key`) -/
theorem hdf5_nonstr_key_fails_without (i : Int) (v : Tree) (rest : List (Key × Tree)) :
    h5RoundTripFull h5Sentinel ((.int i, v) :: rest) = .error .type := by
  simp [h5RoundTripFull, h5WriteFull, flattenP, writeSeq]

example : h5RoundTripFull h5Sentinel [(.int 1, .float 0)] = .error .type := hdf5_nonstr_key_fails_without 1 _ _

/-- `hdf5_roundtrip` needs writable leaves (known finding): `None` is encoded only as a direct dictionary value,
a list holding a None entry makes the writer raise TypeError — although the container-level writer would accept it. -/
theorem none_in_list_fails_without :
    h5RoundTripFull h5Sentinel [(.str "a", .list [.float 0, .none])] = .error .type ∧
    ∃ f, h5Write h5Sentinel [(.str "a", .list [.float 0, .none])] = .ok f :=
  ⟨by rfl, _, by rfl⟩

/-- `hdf5_roundtrip` needs writable leaves (known finding): rows of unequal length make the writer raise ValueError. -/
theorem ragged_list_fails_without :
    h5RoundTripFull h5Sentinel [(.str "a", .list [.list [.int 1, .int 2], .list [.int 3]])] = .error .value := by rfl

/-- `hdf5_roundtrip` needs writable leaves: an arbitrary object (class, pool, callback) makes the writer raise TypeError. -/
theorem opaque_leaf_fails_without :
    h5RoundTripFull h5Sentinel [(.str "a", .opaque "<class 'A'>")] = .error .type := by rfl

/-- **Extension handling.**  All three spellings select the documented writer, whether given through
`extension=` (appended to a bare file name) or taken from the file name. -/
theorem extension_cases :
    saveTarget extTable "" (some "json") = .ok (.json, true) ∧
    saveTarget extTable "" (some "hdf5") = .ok (.hdf5, true) ∧
    saveTarget extTable "" (some "h5") = .ok (.hdf5, true) ∧
    saveTarget extTable "json" none = .ok (.json, false) ∧
    saveTarget extTable "hdf5" none = .ok (.hdf5, false) ∧
    saveTarget extTable "h5" none = .ok (.hdf5, false) ∧
    saveTarget extTable "" none = .error .runtime :=
  ⟨rfl, rfl, rfl, rfl, rfl, rfl, rfl⟩

/-- Any other extension is rejected with RuntimeError, never silently written in some format. -/
theorem unknown_extension_rejected (e fe : String) (h : e ∉ ["json", "hdf5", "h5"]) :
    saveTarget extTable fe (some e) = .error .runtime := by
  simp only [List.mem_cons, List.mem_nil_iff, or_false, not_or] at h
  simp [saveTarget, resolveExt, extTable, formatOf, h.1, h.2.1, h.2.2]

example : saveTarget extTable "" (some "txt") = .error .runtime :=
  unknown_extension_rejected "txt" "" (by decide)

end NessaiVerif.C19
