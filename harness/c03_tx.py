"""C03 translator — the weight bookkeeping of the importance sampler's meta-proposal, regenerated from the current source on
every run as Lean definitions over Python dictionaries in insertion order (`Model/PyDict.lean`) → `Gen/MetaTx.lean`:

    ImportanceNestedSampler.add_new_proposal_weight     (nessai/samplers/importancesampler.py)
    ImportanceFlowProposal.update_proposal_weights      (nessai/proposal/importance.py)
    ImportanceFlowProposal.compute_meta_proposal_from_log_q   (log Q = logsumexp(log_q, b=weights, axis=1)  ↦  Σ_k w_k q_k per row)
    ImportanceFlowProposal.update_log_q                 (the six statements, by their text: guard, rescale, density of the current
                                                         proposal, column appended with the Jacobian)
    ImportanceNestedSampler.add_and_update_points       (the re-weighting sequence update_log_q / logQ / logW / add_samples of each store)

`C03.add_new_proposal_weight_source_eq_model` proves the first two (composed as the source composes them) equal to the model's
`Meta.addProposalWeight`, `C03.meta_from_log_q_source_eq_model` the third equal to `Meta.mix` row by row.

Fragment (statements are translated ONE BY ONE in source order; anything else raises `TranslationError` = tie downgrade):

    if <cond>: raise RuntimeError(…)                 ↦ if <cond> then .error .runtimeErr else …
    name = <expr>                                    ↦ let name := <expr>
    self.<dict>[k] = v                               ↦ let <dict>' := PyDict.set <dict> k v         (later reads see <dict>')
    self.<dict>.update(e)                            ↦ let <dict>' := PyDict.update <dict> e
    self.proposal.update_proposal_weights(e)         ↦ match update_proposal_weights <weights> e with | .error e => .error e | .ok w => …
  expressions:
    k in d, d[k], a != 0, a and b, len(self.samples_unit) (a parameter), a + b (counts), v / n (counts ↦ K),
    {k: <expr> for k, v in d.items()}                ↦ d.map (fun kv => (kv.1, <expr>))
    np.sum(np.fromiter(d.values(), float))           ↦ sumK (PyDict.values d)
    not np.isclose(x, 1.0)                           ↦ ¬ (x = 1)      (exact arithmetic: `isclose` is equality in the model)
    logsumexp(log_q, b=self.weights_array, axis=1)   ↦ log_q.map (mix (PyDict.values <weights>))    with the property
    weights_array = np.fromiter(self._weights.values(), dtype=float) checked by its text
"""
import ast
import hashlib
from pathlib import Path

from .py2lean import TranslationError, find_function

NAT, KEY, FLD, DN, DK, BOOL = "nat", "key", "K", "dictN", "dictK", "bool"


def _fail(fn, node, why):
    raise TranslationError(f"{fn}: {why}: {ast.unparse(node)[:100]!r}")


class _Tx:
    def __init__(self, fn_name, env):
        self.fn = fn_name
        self.env = dict(env)          # source text -> (lean term, type)
        self.count = {}

    def fresh(self, base):
        self.count[base] = self.count.get(base, 0) + 1
        return f"{base}{self.count[base]}"

    def expr(self, e):
        t = ast.unparse(e)
        if t in self.env:
            return self.env[t]
        if isinstance(e, ast.Constant) and isinstance(e.value, int) and not isinstance(e.value, bool):
            return str(e.value), NAT
        if isinstance(e, ast.BinOp) and isinstance(e.op, ast.Add):
            (a, ta), (b, tb) = self.expr(e.left), self.expr(e.right)
            if ta == tb == NAT:
                return f"({a} + {b})", NAT
        if isinstance(e, ast.BinOp) and isinstance(e.op, ast.Div):
            (a, ta), (b, tb) = self.expr(e.left), self.expr(e.right)
            if ta == tb == NAT:
                return f"((({a} : Nat) : K) / (({b} : Nat) : K))", FLD
        if isinstance(e, ast.BoolOp) and isinstance(e.op, ast.And):
            parts = [self.expr(v) for v in e.values]
            if all(ty == BOOL for _, ty in parts):
                return "(" + " && ".join(p for p, _ in parts) + ")", BOOL
        if isinstance(e, ast.Compare) and len(e.ops) == 1:
            op, l, r = e.ops[0], e.left, e.comparators[0]
            if isinstance(op, ast.In):
                (k, tk), (d, td) = self.expr(l), self.expr(r)
                if tk == KEY and td in (DN, DK):
                    return f"(PyDict.has {d} {k})", BOOL
            if isinstance(op, ast.NotEq):
                (a, ta), (b, tb) = self.expr(l), self.expr(r)
                if ta == tb == NAT:
                    return f"({a} != {b})", BOOL
        if isinstance(e, ast.Subscript):
            (d, td), (k, tk) = self.expr(e.value), self.expr(e.slice)
            if td == DN and tk == KEY:
                return f"(PyDict.getD {d} {k} 0)", NAT
        if isinstance(e, ast.DictComp) and len(e.generators) == 1:
            g = e.generators[0]
            if (not g.ifs and isinstance(g.target, ast.Tuple) and len(g.target.elts) == 2 and all(isinstance(x, ast.Name) for x in g.target.elts)
                    and isinstance(g.iter, ast.Call) and isinstance(g.iter.func, ast.Attribute) and g.iter.func.attr == "items" and not g.iter.args):
                d, td = self.expr(g.iter.func.value)
                kn, vn = (x.id for x in g.target.elts)
                if td == DN and isinstance(e.key, ast.Name) and e.key.id == kn:
                    sub = _Tx(self.fn, self.env)
                    sub.env[kn], sub.env[vn] = ("kv.1", KEY), ("kv.2", NAT)
                    v, tv = sub.expr(e.value)
                    if tv == FLD:
                        return f"({d}.map (fun kv => (kv.1, {v})))", DK
        if t.startswith("np.sum(np.fromiter(") and isinstance(e, ast.Call) and len(e.args) == 1:
            inner = e.args[0]
            if (isinstance(inner, ast.Call) and len(inner.args) == 2 and ast.unparse(inner.args[1]) == "float"
                    and isinstance(inner.args[0], ast.Call) and isinstance(inner.args[0].func, ast.Attribute)
                    and inner.args[0].func.attr == "values"):
                d, td = self.expr(inner.args[0].func.value)
                if td == DK:
                    return f"(sumK (PyDict.values {d}))", FLD
        if isinstance(e, ast.UnaryOp) and isinstance(e.op, ast.Not) and isinstance(e.operand, ast.Call) \
                and ast.unparse(e.operand.func) == "np.isclose" and len(e.operand.args) == 2 and not e.operand.keywords \
                and ast.unparse(e.operand.args[1]) in ("1.0", "1"):
            x, tx = self.expr(e.operand.args[0])
            if tx == FLD:
                return f"(¬ ({x} = 1))", "prop"
        _fail(self.fn, e, "expression outside the fragment")

    def body(self, stmts, result, calls):
        """-> list of lines; `result`: source texts of the state returned at the end; `calls`: callee text -> (lean fn, state text)"""
        lines = []
        for st in stmts:
            if isinstance(st, ast.Expr) and isinstance(st.value, ast.Constant):
                continue
            if isinstance(st, ast.If) and not st.orelse and len(st.body) == 1 and isinstance(st.body[0], ast.Raise):
                exc = st.body[0].exc
                name = ast.unparse(exc.func if isinstance(exc, ast.Call) else exc)
                if name != "RuntimeError":
                    _fail(self.fn, st, "raise of an exception class the model has no code for")
                c, tc = self.expr(st.test)
                if tc not in (BOOL, "prop"):
                    _fail(self.fn, st.test, "condition is not boolean")
                lines.append(f"if {c} then .error .runtimeErr else")
                continue
            if isinstance(st, ast.Assign) and len(st.targets) == 1:
                tg = st.targets[0]
                if isinstance(tg, ast.Name):
                    v, tv = self.expr(st.value)
                    n = self.fresh(tg.id)
                    ann = {NAT: "Nat", FLD: "K", DK: "List (Int × K)", DN: "List (Int × Nat)"}.get(tv)
                    if ann is None:
                        _fail(self.fn, st, "assignment of a value of a type outside the fragment")
                    lines.append(f"let {n} : {ann} := {v}")
                    self.env[tg.id] = (n, tv)
                    continue
                if isinstance(tg, ast.Subscript):
                    dt = ast.unparse(tg.value)
                    (d, td), (k, tk), (v, tv) = self.expr(tg.value), self.expr(tg.slice), self.expr(st.value)
                    if td == DN and tk == KEY and tv == NAT:
                        n = self.fresh(d.rstrip("0123456789"))
                        lines.append(f"let {n} : List (Int × Nat) := PyDict.set {d} {k} {v}")
                        self.env[dt] = (n, DN)
                        continue
            if isinstance(st, ast.Expr) and isinstance(st.value, ast.Call) and isinstance(st.value.func, ast.Attribute) \
                    and len(st.value.args) == 1 and not st.value.keywords:
                f = st.value.func
                if f.attr == "update":
                    dt = ast.unparse(f.value)
                    (d, td), (e2, te) = self.expr(f.value), self.expr(st.value.args[0])
                    if td == te == DK:
                        n = self.fresh(d.rstrip("0123456789"))
                        lines.append(f"let {n} : List (Int × K) := PyDict.update {d} {e2}")
                        self.env[dt] = (n, DK)
                        continue
                ft = ast.unparse(f)
                if ft in calls:
                    lean_fn, state_text = calls[ft]
                    (a, ta), (s, ts) = self.expr(st.value.args[0]), self.expr(ast.parse(state_text, mode="eval").body)
                    if ta == ts == DK:
                        n = self.fresh("w")
                        lines.append(f"match {lean_fn} {s} {a} with\n  | .error e => .error e\n  | .ok {n} =>")
                        self.env[state_text] = (n, DK)
                        continue
            _fail(self.fn, st, "statement outside the fragment")
        outs = [self.expr(ast.parse(r, mode="eval").body)[0] for r in result]
        lines.append(".ok " + (outs[0] if len(outs) == 1 else "(" + ", ".join(outs) + ")"))
        return lines


def _function(repo, src, cls, name):
    text = (Path(repo) / src).read_text()
    fn = find_function(ast.parse(text), name, cls)
    seg = ast.get_source_segment(text, fn) or ""
    return fn, dict(source=src, lines=[fn.lineno, fn.end_lineno], sha256=hashlib.sha256(seg.encode()).hexdigest()[:16])


def _args(fn, want):
    got = [a.arg for a in fn.args.args]
    if len(got) != len(want) + 1 or got[0] != "self" or fn.args.vararg or fn.args.kwarg or fn.args.kwonlyargs:
        raise TranslationError(f"{fn.name}: signature {got} differs from the modelled one")
    return got[1:]


def translate(repo):
    out, infos = [], {}
    # ---- ImportanceFlowProposal.update_proposal_weights(self, weights)
    fn, info = _function(repo, "nessai/proposal/importance.py", "ImportanceFlowProposal", "update_proposal_weights")
    (w,) = _args(fn, ["weights"])
    tx = _Tx("update_proposal_weights", {"self._weights": ("self__weights", DK), w: (w, DK)})
    lines = tx.body(fn.body, ["self._weights"], {})
    out.append(f"/-- GENERATED from `{info['source']}`, `ImportanceFlowProposal.update_proposal_weights` (lines {info['lines'][0]}–"
               f"{info['lines'][1]}, sha256 {info['sha256']}): the new `_weights`, or the error raised. -/\n"
               f"def update_proposal_weights (self__weights : List (Int × K)) ({w} : List (Int × K)) : Except Err (List (Int × K)) :=\n  "
               + "\n  ".join(lines) + "\n")
    infos["update_proposal_weights"] = info
    # ---- ImportanceNestedSampler.add_new_proposal_weight(self, iteration, n_new)
    fn, info = _function(repo, "nessai/samplers/importancesampler.py", "ImportanceNestedSampler", "add_new_proposal_weight")
    it, nn = _args(fn, ["iteration", "n_new"])
    tx = _Tx("add_new_proposal_weight", {"self.sample_counts": ("self_sample_counts", DN), "self.proposal._weights": ("self_proposal__weights", DK),
                                         "len(self.samples_unit)": ("len_samples_unit", NAT), it: (it, KEY), nn: (nn, NAT)})
    lines = tx.body(fn.body, ["self.sample_counts", "self.proposal._weights"],
                    {"self.proposal.update_proposal_weights": ("update_proposal_weights", "self.proposal._weights")})
    out.append(f"/-- GENERATED from `{info['source']}`, `ImportanceNestedSampler.add_new_proposal_weight` (lines {info['lines'][0]}–"
               f"{info['lines'][1]}, sha256 {info['sha256']}): the new (`sample_counts`, `proposal._weights`), or the error raised;\n"
               f"    `len_samples_unit` = `len(self.samples_unit)`. -/\n"
               f"def add_new_proposal_weight (self_sample_counts : List (Int × Nat)) (self_proposal__weights : List (Int × K))\n"
               f"    (len_samples_unit : Nat) ({it} : Int) ({nn} : Nat) : Except Err (List (Int × Nat) × List (Int × K)) :=\n  "
               + "\n  ".join(lines) + "\n")
    infos["add_new_proposal_weight"] = info
    # ---- weights_array + compute_meta_proposal_from_log_q
    fnw, infow = _function(repo, "nessai/proposal/importance.py", "ImportanceFlowProposal", "weights_array")
    body = [s for s in fnw.body if not (isinstance(s, ast.Expr) and isinstance(s.value, ast.Constant))]
    if len(body) != 1 or not isinstance(body[0], ast.Return) or ast.unparse(body[0].value) != "np.fromiter(self._weights.values(), dtype=float)":
        raise TranslationError("weights_array: not `np.fromiter(self._weights.values(), dtype=float)`")
    fn, info = _function(repo, "nessai/proposal/importance.py", "ImportanceFlowProposal", "compute_meta_proposal_from_log_q")
    (lq,) = _args(fn, ["log_q"])
    body = [s for s in fn.body if not (isinstance(s, ast.Expr) and isinstance(s.value, ast.Constant))]
    ok = len(body) == 1 and isinstance(body[0], ast.Return) and isinstance(body[0].value, ast.Call)
    if ok:
        c = body[0].value
        kw = {k.arg: ast.unparse(k.value) for k in c.keywords}
        ok = (ast.unparse(c.func) == "logsumexp" and len(c.args) == 1 and ast.unparse(c.args[0]) == lq
              and kw == {"b": "self.weights_array", "axis": "1"})
    if not ok:
        raise TranslationError("compute_meta_proposal_from_log_q: not `logsumexp(log_q, b=self.weights_array, axis=1)`")
    out.append(f"/-- GENERATED from `{info['source']}`, `compute_meta_proposal_from_log_q` (lines {info['lines'][0]}–{info['lines'][1]}, sha256 "
               f"{info['sha256']}) with the property `weights_array` (sha256 {infow['sha256']}): `exp` of the returned vector, one entry per row\n"
               f"    of the density table `{lq}` (`logsumexp(·, b=w)` of a row of logarithms is `mix w` of the row). -/\n"
               f"def compute_meta_proposal_from_log_q (self__weights : List (Int × K)) ({lq} : List (List K)) : List K :=\n"
               f"  {lq}.map (mix (PyDict.values self__weights))\n")
    infos["compute_meta_proposal_from_log_q"] = info
    infos["weights_array"] = infow
    # ---- ImportanceFlowProposal.update_log_q(self, samples, log_q)
    fn, info = _function(repo, "nessai/proposal/importance.py", "ImportanceFlowProposal", "update_log_q")
    smp, lq = _args(fn, ["samples", "log_q"])
    body = [ast.unparse(s) for s in fn.body if not (isinstance(s, ast.Expr) and isinstance(s.value, ast.Constant))]
    if len(body) != 6 or not isinstance(fn.body[-1], ast.Return):
        raise TranslationError("update_log_q: not the six modelled statements")
    guard = [s for s in fn.body if isinstance(s, ast.If)]
    if (len(guard) != 1 or guard[0] is not [s for s in fn.body if not (isinstance(s, ast.Expr) and isinstance(s.value, ast.Constant))][0]
            or ast.unparse(guard[0].test) != f"{lq}.shape[1] == self.n_proposals" or guard[0].orelse or len(guard[0].body) != 1
            or not isinstance(guard[0].body[0], ast.Raise) or not ast.unparse(guard[0].body[0].exc).startswith("ValueError")):
        raise TranslationError(f"update_log_q: guard is not `if {lq}.shape[1] == self.n_proposals: raise ValueError`")
    want = [None, f"x, log_j = self.rescale({smp})", "log_prob_fn = self.get_proposal_log_prob(self.level_count)",
            "log_q_current = log_prob_fn(x)",
            f"{lq} = np.concatenate([{lq}, log_q_current[:, np.newaxis] + log_j[:, np.newaxis]], axis=1)", f"return {lq}"]
    for got, w_ in zip(body[1:], want[1:]):
        if got != w_:
            raise TranslationError(f"update_log_q: statement outside the fragment: {got[:90]!r} (modelled: {w_!r})")
    out.append(f"/-- `{lq}.shape[1]` of a non-empty two-dimensional array held as the list of its rows -/\n"
               "def shape1 (a : List (List K)) : Nat := match a with | [] => 0 | r :: _ => r.length\n\n"
               f"/-- GENERATED from `{info['source']}`, `ImportanceFlowProposal.update_log_q` (lines {info['lines'][0]}–{info['lines'][1]}, sha256 "
               f"{info['sha256']}): the density table with the column of the CURRENT proposal appended; `log_q_current` = the proposal's\n"
               "    density at the rescaled samples, `log_j` = the Jacobian factor of the rescaling (log-domain `+` is `*`). -/\n"
               f"def update_log_q (self_n_proposals : Nat) ({lq} : List (List K)) (log_q_current log_j : List K) : Except Err (List (List K)) :=\n"
               f"  if (shape1 {lq} == self_n_proposals) then .error .valueErr else\n"
               f"  let {lq}1 : List (List K) := List.zipWith (fun row c => row ++ [c]) {lq} (List.zipWith (· * ·) log_q_current log_j)\n"
               f"  .ok {lq}1\n")
    infos["update_log_q"] = info
    # ---- the re-weighting of the stored samples in ImportanceNestedSampler.add_and_update_points
    fn, info = _function(repo, "nessai/samplers/importancesampler.py", "ImportanceNestedSampler", "add_and_update_points")
    flat = []          # (statement text, guarded by `if self.draw_iid_live`)
    for st in fn.body:
        if isinstance(st, ast.If) and ast.unparse(st.test) == "self.draw_iid_live" and not st.orelse:
            flat += [(ast.unparse(x), True) for x in st.body]
        else:
            flat.append((ast.unparse(st), False))
    texts = [t for t, _ in flat]
    for P, guarded, new, nlq in (("self.training_samples", False, "new_samples", "log_q"), ("self.iid_samples", True, "iid_samples", "iid_log_q")):
        triple = [f"{P}.log_q = self.proposal.update_log_q({P}.samples, {P}.log_q)",
                  f"{P}.samples['logQ'] = self.proposal.compute_meta_proposal_from_log_q({P}.log_q)",
                  f"{P}.samples['logW'] = {P}.samples['logU'] - {P}.samples['logQ']",
                  f"{P}.add_samples({new}, {nlq})"]
        if triple[0] not in texts:
            raise TranslationError(f"add_and_update_points: no `{triple[0]}`")
        i = texts.index(triple[0])
        if texts[i:i + 4] != triple or any(g != guarded for _, g in flat[i:i + 4]):
            raise TranslationError(f"add_and_update_points: the re-weighting of {P} is not the modelled sequence "
                                   f"update_log_q / logQ / logW / add_samples: {texts[i:i + 4]}")
        if sum(1 for t in texts if f"{P}.samples['logQ'] =" in t or f"{P}.samples['logW'] =" in t or f"{P}.log_q =" in t) != 3:
            raise TranslationError(f"add_and_update_points: {P} is written outside the modelled sequence")
    out.append(f"/-- GENERATED from `{info['source']}`, `ImportanceNestedSampler.add_and_update_points` (lines {info['lines'][0]}–"
               f"{info['lines'][1]}, sha256 {info['sha256']}): the statements that re-weight a sample store before the new samples are added —\n"
               "    `S.log_q = proposal.update_log_q(S.samples, S.log_q)`, `S.samples['logQ'] = proposal.compute_meta_proposal_from_log_q(S.log_q)`,\n"
               "    `S.samples['logW'] = S.samples['logU'] - S.samples['logQ']` — found in this order for `training_samples` and, under\n"
               "    `if self.draw_iid_live`, for `iid_samples`; returns the new (`log_q`, `logQ`, `logW`) of the store. -/\n"
               "def reweight_store (self__weights : List (Int × K)) (self_n_proposals : Nat) (log_q : List (List K))\n"
               "    (logU log_q_current log_j : List K) : Except Err (List (List K) × List K × List K) :=\n"
               "  match update_log_q self_n_proposals log_q log_q_current log_j with\n"
               "  | .error e => .error e\n"
               "  | .ok log_q1 =>\n"
               "    let logQ1 : List K := compute_meta_proposal_from_log_q self__weights log_q1\n"
               "    let logW1 : List K := List.zipWith (· / ·) logU logQ1\n"
               "    .ok (log_q1, logQ1, logW1)\n")
    infos["add_and_update_points"] = info
    return "\n".join(out), infos


def gen(ctx):
    from . import core, py2lean
    try:
        lean, infos = translate(core.REPO)
    except TranslationError as e:
        ctx.broken(f"translator: {e}", "Gen/MetaTx.lean was left as it was (the theorems are about the last translatable source)")
        return
    except (OSError, SyntaxError) as e:
        ctx.broken(f"translator: cannot read/parse the source: {e}")
        return
    text = ("import NessaiVerif.Model.MetaProposal\nimport NessaiVerif.Model.PyDict\n"
            "/-\nGENERATED by harness/c03_tx.py from the CURRENT nessai source — do not edit.\n"
            "C03: the weight bookkeeping of the meta-proposal over Python dictionaries in insertion order.\n-/\n"
            "namespace NessaiVerif.Gen.MetaTx\nopen NessaiVerif NessaiVerif.Meta\n\n"
            "variable {K : Type} [Add K] [Mul K] [Div K] [OfNat K 0] [OfNat K 1] [NatCast K] [DecidableEq K]\n\n"
            + lean + "\nend NessaiVerif.Gen.MetaTx\n")
    infos["rewritten"] = py2lean.write_if_changed(core.LEAN / "NessaiVerif" / "Gen" / "MetaTx.lean", text)
    ctx.extra["generated"] = infos
