import NessaiVerif.Proofs.Pool
/-
C09 — the accumulating branch of `FlowProposal.populate` (core Lean only).
-/
namespace NessaiVerif.Pool
open EV

/-- invariant of the accumulated arrays: `log_weights` stays aligned with `samples`, every accumulated sample
    survived `backward_pass` (+ truncation) of one of the drawn batches, and a stored mask is the acceptance
    test evaluated on a prefix of the current weights -/
structure AccInv (t : Option EV) (all : List (List Cand)) (st : AccSt) : Prop where
  lws : st.lws = logWeights st.samples
  mem : ∀ c ∈ st.samples, ∃ b ∈ all, c ∈ survivors t b
  acc : ∀ a, st.accept = some a → ∃ k c u, a = acceptMask (st.lws.take k) c u

theorem accInv_init (t : Option EV) (all : List (List Cand)) : AccInv t all {} :=
  ⟨rfl, by simp, by simp⟩

/-- the state in which the loop is left through its guard carries a fresh mask of the right length -/
def FreshMask (N : Nat) (st : AccSt) : Prop :=
  ∃ a, st.accept = some a ∧ a.length = st.samples.length ∧ countTrue a = st.nAcc ∧ N ≤ st.nAcc

theorem take_prefix_append {α : Type} (l r : List α) (k : Nat) : ∃ k', l.take k = (l ++ r).take k' := by
  refine ⟨min k l.length, ?_⟩
  rw [List.take_append_of_le_length (Nat.min_le_right _ _), List.take_eq_take_iff]
  omega

theorem accLoop_spec (z : Bool) (N maxS : Nat) (t : Option EV) (all : List (List Cand)) :
    ∀ (bs : List (List Cand)) (gs : List Bool) (us : List (List EV)) (st st' : AccSt) (broke : Bool)
      (us' : List (List EV)),
      (∀ b ∈ bs, b ∈ all) → AccInv t all st → accLoop z N maxS t st bs gs us = some (st', broke, us') →
      st'.crashed = false →
      AccInv t all st' ∧ (broke = false → (N ≤ st.nAcc ∧ st' = st) ∨ FreshMask N st') := by
  intro bs
  induction bs with
  | nil =>
    intro gs us st st' broke us' _ hi h hc
    unfold accLoop at h
    split at h
    · rename_i hN; cases h; exact ⟨hi, fun _ => Or.inl ⟨hN, rfl⟩⟩
    · simp at h
  | cons b bs ih =>
    intro gs us st st' broke us' hall hi h hc
    have hall' : ∀ b' ∈ bs, b' ∈ all := fun b' hb' => hall b' (List.mem_cons_of_mem _ hb')
    unfold accLoop at h
    split at h
    · rename_i hN; cases h; exact ⟨hi, fun _ => Or.inl ⟨hN, rfl⟩⟩
    · rename_i hN
      simp only at h
      split at h
      · cases h; simp at hc
      split at h
      · -- `continue`
        have hi1 : AccInv t all { st with nProp := st.nProp + b.length, batches := st.batches + 1 } :=
          ⟨hi.lws, hi.mem, hi.acc⟩
        obtain ⟨r1, r2⟩ := ih gs us _ st' broke us' hall' hi1 h hc
        refine ⟨r1, fun hb => ?_⟩
        rcases r2 hb with ⟨hle, _⟩ | hf
        · exact absurd hle hN
        · exact Or.inr hf
      · cases gs with
        | nil => simp at h
        | cons g gs =>
          simp only at h
          have hmem : ∀ c ∈ st.samples ++ survivors t b, ∃ b' ∈ all, c ∈ survivors t b' := by
            intro c hc
            rcases List.mem_append.1 hc with hc | hc
            · exact hi.mem c hc
            · exact ⟨b, hall b List.mem_cons_self, hc⟩
          have hlws : st.lws ++ logWeights (survivors t b) = logWeights (st.samples ++ survivors t b) := by
            simp [hi.lws, logWeights]
          -- the state after concatenation, mask unchanged
          have hi2 : AccInv t all { st with
                                     nProp := st.nProp + b.length, batches := st.batches + 1,
                                     samples := st.samples ++ survivors t b,
                                     lws := st.lws ++ logWeights (survivors t b),
                                     c := pyMax (nanmax (logWeights (survivors t b))) st.c } := by
            refine ⟨hlws, hmem, ?_⟩
            intro a ha
            obtain ⟨k, c, u, e⟩ := hi.acc a ha
            obtain ⟨k', e'⟩ := take_prefix_append st.lws (logWeights (survivors t b)) k
            exact ⟨k', c, u, by rw [e, e']⟩
          -- the state after a fresh mask
          have hi3 : ∀ (u : List EV),
              AccInv t all { st with
                                     nProp := st.nProp + b.length, batches := st.batches + 1,
                                     samples := st.samples ++ survivors t b,
                                     lws := st.lws ++ logWeights (survivors t b),
                                     c := pyMax (nanmax (logWeights (survivors t b))) st.c,
                                     accept := some (acceptMask (st.lws ++ logWeights (survivors t b))
                                       (pyMax (nanmax (logWeights (survivors t b))) st.c) u),
                                     nAcc := countTrue (acceptMask (st.lws ++ logWeights (survivors t b))
                                       (pyMax (nanmax (logWeights (survivors t b))) st.c) u),
                                     rands := st.rands + 1 } := by
            intro u
            refine ⟨hlws, hmem, ?_⟩
            intro a ha
            simp only [Option.some.injEq] at ha
            exact ⟨(st.lws ++ logWeights (survivors t b)).length, _, u, by rw [← ha, List.take_length]⟩
          cases g with
          | true =>
            simp only [if_true] at h
            cases us with
            | nil => simp at h
            | cons u us =>
              simp only at h
              split at h
              · cases h
                exact ⟨hi3 u, fun hb => by simp at hb⟩
              · obtain ⟨r1, r2⟩ := ih gs us _ st' broke us' hall' (hi3 u) h hc
                refine ⟨r1, fun hb => ?_⟩
                rcases r2 hb with ⟨hle, he⟩ | hf
                · right
                  subst he
                  exact ⟨_, rfl, by simp [length_acceptMask, hi.lws, logWeights], rfl, hle⟩
                · exact Or.inr hf
          | false =>
            simp only [Bool.false_eq_true, if_false] at h
            split at h
            · cases h
              exact ⟨hi2, fun hb => by simp at hb⟩
            · obtain ⟨r1, r2⟩ := ih gs us _ st' broke us' hall' hi2 h hc
              refine ⟨r1, fun hb => ?_⟩
              rcases r2 hb with ⟨hle, _⟩ | hf
              · exact absurd hle hN
              · exact Or.inr hf

theorem accLoop_no_crash (z : Bool) (N maxS : Nat) (t : Option EV) :
    ∀ (bs : List (List Cand)) (gs : List Bool) (us : List (List EV)) (st st' : AccSt) (broke : Bool)
      (us' : List (List EV)),
      (∀ b ∈ bs, batchCrashes z b = false) → st.crashed = false →
      accLoop z N maxS t st bs gs us = some (st', broke, us') → st'.crashed = false := by
  intro bs
  induction bs with
  | nil =>
    intro gs us st st' broke us' _ hs h
    unfold accLoop at h
    split at h
    · cases h; exact hs
    · simp at h
  | cons b bs ih =>
    intro gs us st st' broke us' hb hs h
    have hb' : ∀ b' ∈ bs, batchCrashes z b' = false := fun b' h' => hb b' (List.mem_cons_of_mem _ h')
    unfold accLoop at h
    split at h
    · cases h; exact hs
    · simp only at h
      split at h
      · rename_i hcr; simp [hb b List.mem_cons_self] at hcr
      split at h
      · exact ih gs us _ st' broke us' hb' (by exact hs) h
      · cases gs with
        | nil => simp at h
        | cons g gs =>
          simp only at h
          cases g with
          | true =>
            simp only [if_true] at h
            cases us with
            | nil => simp at h
            | cons u us =>
              simp only at h
              split at h
              · cases h; exact hs
              · exact ih gs us _ st' broke us' hb' (by exact hs) h
          | false =>
            simp only [Bool.false_eq_true, if_false] at h
            split at h
            · cases h; exact hs
            · exact ih gs us _ st' broke us' hb' (by exact hs) h

/-- the final mask is always the acceptance test evaluated on all accumulated weights; a fresh mask is kept -/
theorem finalMask_spec {t : Option EV} {all : List (List Cand)} {st : AccSt} (hi : AccInv t all st)
    {us : List (List EV)} {acc : List Bool} {r : Nat} (h : finalMask st us = some (acc, r)) :
    (∃ m u, acc = acceptMask st.lws m u) ∧
      (∀ a, st.accept = some a → a.length = st.samples.length → acc = a) := by
  unfold finalMask at h
  have redraw : redrawMask st us = some (acc, r) → ∃ m u, acc = acceptMask st.lws m u := by
    intro h
    cases us with
    | nil => simp [redrawMask] at h
    | cons u us =>
      simp only [redrawMask, Option.some.injEq, Prod.mk.injEq] at h
      exact ⟨st.c, u, h.1.symm⟩
  cases ha : st.accept with
  | none =>
    simp only [ha] at h
    exact ⟨redraw h, by simp⟩
  | some a =>
    simp only [ha] at h
    by_cases hlen : a.length = st.samples.length
    · simp only [hlen, if_true, Option.some.injEq, Prod.mk.injEq] at h
      obtain ⟨k, m, u, e⟩ := hi.acc a ha
      have hk : st.lws.take k = st.lws := by
        have h1 : (acceptMask (st.lws.take k) m u).length = st.samples.length := by rw [← e]; exact hlen
        rw [length_acceptMask, List.length_take] at h1
        have h2 : st.lws.length = st.samples.length := by rw [hi.lws]; simp [logWeights]
        exact List.take_of_length_le (by omega)
      rw [hk] at e
      refine ⟨⟨m, u, by rw [← h.1, e]⟩, ?_⟩
      intro a' ha' _
      simp only [Option.some.injEq] at ha'
      rw [← ha', h.1]
    · simp only [hlen, if_false] at h
      exact ⟨redraw h, fun a' ha' hl => by simp only [Option.some.injEq] at ha'; subst ha'; exact absurd hl hlen⟩

/-- the pool built after the loop -/
theorem accFinal_spec {N : Nat} {t : Option EV} {all : List (List Cand)} {st : AccSt} {broke : Bool}
    {us : List (List EV)} {P : Population} (hi : AccInv t all st)
    (hfresh : broke = false → (N = 0) ∨ FreshMask N st)
    (h : accFinal N st broke us = some P) :
    (∀ c, some c ∈ P.pool → (∃ b ∈ all, c ∈ survivors t b) ∧ ∃ m u, acceptFlow (logWeight c) m u = true) ∧
      (∀ s ∈ P.pool, s ≠ none) ∧ P.llCalls = P.pool ∧ P.pool.length ≤ N ∧ P.broke = broke ∧
      (broke = false → P.pool.length = N) := by
  unfold accFinal at h
  cases hm : finalMask st us with
  | none => simp [hm] at h
  | some v =>
    obtain ⟨acc, r⟩ := v
    simp only [hm, Option.map_some, Option.some.injEq] at h
    subst h
    obtain ⟨⟨m, u, e⟩, hkeep⟩ := finalMask_spec hi hm
    refine ⟨?_, ?_, rfl, ?_, rfl, ?_⟩
    · intro c hc
      simp only [List.mem_map, Option.some.injEq] at hc
      obtain ⟨c', hc', rfl⟩ := hc
      have hc'' := List.mem_of_mem_take hc'
      rw [e, hi.lws] at hc''
      have := mem_select_acceptMask logWeight m st.samples u c' hc''
      exact ⟨hi.mem c' this.1, _, this.2⟩
    · intro s hs
      simp only [List.mem_map] at hs
      obtain ⟨c, _, rfl⟩ := hs
      simp
    · simp only [List.length_map, List.length_take]; omega
    · intro hb
      rcases hfresh hb with h0 | ⟨a, ha, hlen, hcnt, hN⟩
      · subst h0; simp
      · have := hkeep a ha hlen
        subst this
        simp only [List.length_map, List.length_take]
        rw [length_select acc st.samples hlen, hcnt]
        omega

theorem populateAcc_spec {z : Bool} {N maxS : Nat} {t : Option EV} {bs : List (List Cand)} {gs : List Bool}
    {us : List (List EV)} {P : Population} (h : populateAcc z N maxS t bs gs us = some P)
    (hc : P.crashed = false) :
    (∀ c, some c ∈ P.pool → (∃ b ∈ bs, c ∈ survivors t b) ∧ ∃ m u, acceptFlow (logWeight c) m u = true) ∧
      (∀ s ∈ P.pool, s ≠ none) ∧ P.llCalls = P.pool ∧ P.pool.length ≤ N ∧
      (P.broke = false → P.pool.length = N) := by
  unfold populateAcc at h
  split at h
  · simp at h
  · rename_i st broke us' hl
    split at h
    · simp only [Option.some.injEq] at h; subst h; simp at hc
    rename_i hcr
    have hcr' : st.crashed = false := by simpa using hcr
    obtain ⟨r1, r2⟩ := accLoop_spec z N maxS t bs bs gs us {} st broke us' (fun _ hb => hb) (accInv_init t bs) hl hcr'
    have hf : broke = false → (N = 0) ∨ FreshMask N st := by
      intro hb
      rcases r2 hb with ⟨hle, _⟩ | hf
      · left; simpa using hle
      · exact Or.inr hf
    obtain ⟨a, b, c, d, e, f⟩ := accFinal_spec r1 hf h
    exact ⟨a, b, c, d, fun hb => f (by rw [← e]; exact hb)⟩

end NessaiVerif.Pool
