"""pyidx2lean — translates the index-array methods of `OrderedSamples` (`nessai/samplers/importancesampler.py`) into Lean terms
over the primitives of `Model/Np.lean` / `Model/OrderedSamples.lean`, statement by statement, in continuation style.

The methods shuffle four pieces of state — `samples` (record array or None), `log_q` (rows), `live_points_indices` (index array
or None), `nested_samples_indices` (index array) — with NumPy index arithmetic.  Types:

    ARR / OARR    List Smp / Option (List Smp)          record arrays (OARR: may be None)
    ROWS          List Nat                              the rows of `log_q` (one token per sample)
    IARR / OIARR  List Nat / Option (List Nat)          index arrays
    KEYS          List Int                              a `["logL"]` column
    NAT, BOOL, OTHR (Option Int: the threshold)

    expression                                         Lean
    len(a), a.size                                     a.length                       (None ⇒ TypeError)
    a["logL"]                                          keys a                         (None ⇒ TypeError)
    self.live_points                                   the samples at the live indices (either None ⇒ TypeError when used)
    np.count_nonzero(k < self.log_likelihood_threshold)   countBelowOpt thr k          (threshold None and k non-empty ⇒ TypeError)
    np.arange(n)                                       List.range n
    i + np.arange(len(i))                              shiftIdx i 0
    np.searchsorted(k1, k2)  /  (i1, i2)               k2.map (ssl k1)
    np.insert(a, i, b[, axis=0])                       insertMany a i b 0
    get_inverse_indices(n, i)                          inverseIndices n i             (ValueError on an empty index array)
    a[b] (index arrays)                                fancy a b
    a[:n], a[n:], np.delete(a, np.s_[:n])              a.take n, a.drop n, a.drop n
    x - y (sizes)                                      x - y
    self.sort_samples(samples, log_q)                  sortBatch (samples.zip log_q), unzipped
    self.add_to_nested_samples(i)                      nested := addToNested nested i  (that method itself is tied by
                                                       C04.add_to_nested_samples_source_eq_model)

An Optional value used where NumPy/Python needs a value is unwrapped with an explicit `match … | none => .error .typeErr`
in front of the statement that uses it, so the generated term raises exactly where the code raises.  Statements: assignments
(names, `self.<attr>`, the tuple returned by `sort_samples`), `if` on a Boolean attribute / `x is None` / `len(a) != e`,
`raise RuntimeError`, `return e`.  Anything else raises `TranslationError` (tie downgrade).
"""
import ast
import hashlib
from dataclasses import dataclass, field
from pathlib import Path
from typing import Dict, List, Optional, Sequence, Tuple

from .py2lean import TranslationError, find_function

ARR, OARR, ROWS, IARR, OIARR, KEYS, NAT, BOOL, OTHR = "ARR OARR ROWS IARR OIARR KEYS NAT BOOL OTHR".split()
LEAN = {ARR: "List Smp", OARR: "Option (List Smp)", ROWS: "List Nat", IARR: "List Nat", OIARR: "Option (List Nat)",
        KEYS: "List Int", NAT: "Nat", BOOL: "Bool", OTHR: "Option Int"}
STATE = [("samples", "samples", OARR), ("log_q", "rows", ROWS), ("live_points_indices", "live", OIARR),
         ("nested_samples_indices", "nested", IARR)]
READONLY = [("log_likelihood_threshold", "thr", OTHR), ("strict_threshold", "strict", BOOL), ("replace_all", "replAll", BOOL)]


@dataclass
class IdxSpec:
    func: str
    name: str
    params: Sequence[Tuple[str, str, str]] = ()
    returns: Optional[str] = None                # type of the returned value (None: the method returns nothing)
    source: str = "nessai/samplers/importancesampler.py"
    cls: str = "OrderedSamples"
    doc: str = ""


class _T:
    def __init__(self, spec):
        self.spec = spec
        self.n = 0

    def fresh(self, base):
        self.n += 1
        return f"{base}{self.n}"

    def fail(self, node, why):
        raise TranslationError(f"OrderedSamples.{self.spec.func}: {why}: {ast.unparse(node)[:100]!r}")

    # ---------------------------------------------------------------- expressions: (type, term, unwraps)
    def need(self, e, env, types):
        """translate `e`; an Optional result is unwrapped (TypeError when None) if the non-optional type is wanted"""
        t, v, u = self.ex(e, env)
        if t in types:
            return t, v, u
        if t == OARR and ARR in types:
            nm = self.fresh("smp")
            return ARR, nm, u + [(v, nm, "typeErr")]
        if t == OIARR and IARR in types:
            nm = self.fresh("idx")
            return IARR, nm, u + [(v, nm, "typeErr")]
        self.fail(e, f"a {t} where one of {types} is needed")

    def ex(self, e, env):
        sp = self.spec
        if isinstance(e, ast.Attribute) and isinstance(e.value, ast.Name) and e.value.id == "self":
            if e.attr in env["state"]:
                return env["state"][e.attr]+ ([],)
            if e.attr == "live_points":
                # property: None if the indices are None else self.samples[self.live_points_indices]
                _, l, u1 = self.need(ast.parse("self.live_points_indices", mode="eval").body, env, [IARR])
                _, s, u2 = self.need(ast.parse("self.samples", mode="eval").body, env, [ARR])
                return ARR, f"(fancySmp {s} {l})", u1 + u2
            self.fail(e, "attribute outside the declared state")
        if isinstance(e, ast.Name):
            if e.id in env["vars"]:
                return env["vars"][e.id] + ([],)
            self.fail(e, "undeclared name")
        if isinstance(e, ast.Constant) and e.value is None:
            return "NONE", "none", []
        if isinstance(e, ast.Attribute) and e.attr == "size":
            t, v, u = self.need(e.value, env, [ARR, IARR, ROWS])
            return NAT, f"{v}.length", u
        if isinstance(e, ast.Call):
            fn = ast.unparse(e.func)
            if fn == "len" and len(e.args) == 1:
                t, v, u = self.need(e.args[0], env, [ARR, IARR, ROWS, KEYS])
                return NAT, f"{v}.length", u
            if fn == "np.arange" and len(e.args) == 1 and all(k.arg == "dtype" and ast.unparse(k.value) == "int" for k in e.keywords):
                t, v, u = self.need(e.args[0], env, [NAT])
                return IARR, f"(List.range {v})", u
            if fn == "np.count_nonzero" and len(e.args) == 1 and isinstance(e.args[0], ast.Compare) \
                    and len(e.args[0].ops) == 1 and isinstance(e.args[0].ops[0], ast.Lt):
                c = e.args[0]
                _, k, u1 = self.need(c.left, env, [KEYS])
                t2, th, u2 = self.ex(c.comparators[0], env)
                if t2 != OTHR:
                    self.fail(e, "count_nonzero against something else than the threshold")
                nm = self.fresh("n")
                return NAT, nm, u1 + u2 + [(f"(countBelowOpt {th} {k})", nm, "typeErr")]
            if fn == "np.searchsorted" and len(e.args) == 2 and not e.keywords:
                ta, a, u1 = self.need(e.args[0], env, [KEYS, IARR])
                tb, b, u2 = self.need(e.args[1], env, [KEYS, IARR])
                if ta != tb:
                    self.fail(e, "searchsorted on arrays of different kinds")
                return IARR, f"({b}.map (ssl {a}))", u1 + u2
            if fn == "np.insert" and len(e.args) == 3 and all(k.arg == "axis" and ast.unparse(k.value) == "0" for k in e.keywords):
                ta, a, u1 = self.need(e.args[0], env, [ARR, ROWS, IARR])
                _, i, u2 = self.need(e.args[1], env, [IARR])
                tb, b, u3 = self.need(e.args[2], env, [ta])
                return ta, f"(insertMany {a} {i} {b} 0)", u1 + u2 + u3
            if fn == "get_inverse_indices" and len(e.args) == 2 and not e.keywords:
                _, n, u1 = self.need(e.args[0], env, [NAT])
                _, i, u2 = self.need(e.args[1], env, [IARR])
                nm = self.fresh("inv")
                return IARR, nm, u1 + u2 + [(f"(inverseIndices {n} {i})", nm, "EXCEPT")]
            if fn == "np.delete" and len(e.args) == 2 and not e.keywords and isinstance(e.args[1], ast.Subscript) \
                    and ast.unparse(e.args[1].value) == "np.s_" and isinstance(e.args[1].slice, ast.Slice) \
                    and e.args[1].slice.lower is None and e.args[1].slice.step is None:
                _, a, u1 = self.need(e.args[0], env, [IARR])
                _, n, u2 = self.need(e.args[1].slice.upper, env, [NAT])
                return IARR, f"({a}.drop {n})", u1 + u2
            self.fail(e, "call outside the fragment")
        if isinstance(e, ast.Subscript):
            if isinstance(e.slice, ast.Constant) and e.slice.value == "logL":
                _, a, u = self.need(e.value, env, [ARR])
                return KEYS, f"(keys {a})", u
            if isinstance(e.slice, ast.Slice):
                sl = e.slice
                if sl.step is not None or (sl.lower is None) == (sl.upper is None):
                    self.fail(e, "slice form outside the fragment")
                _, a, u1 = self.need(e.value, env, [IARR])
                _, n, u2 = self.need(sl.upper if sl.lower is None else sl.lower, env, [NAT])
                return IARR, f"({a}.{'take' if sl.lower is None else 'drop'} {n})", u1 + u2
            ta, a, u1 = self.need(e.value, env, [IARR])
            tb, b, u2 = self.need(e.slice, env, [IARR])
            return IARR, f"(fancy {a} {b})", u1 + u2
        if isinstance(e, ast.BinOp):
            if isinstance(e.op, ast.Add) and ast.unparse(e.right) == f"np.arange(len({ast.unparse(e.left)}))":
                _, a, u = self.need(e.left, env, [IARR])
                return IARR, f"(shiftIdx {a} 0)", u
            if isinstance(e.op, ast.Sub):
                _, a, u1 = self.need(e.left, env, [NAT])
                _, b, u2 = self.need(e.right, env, [NAT])
                return NAT, f"({a} - {b})", u1 + u2
            self.fail(e, "arithmetic outside the fragment")
        self.fail(e, "expression outside the fragment")

    # ---------------------------------------------------------------- statements
    def wrap(self, unwraps, body, pad):
        """put the unwraps (in evaluation order) in front of `body`"""
        out = body
        for term, nm, err in reversed(unwraps):
            if err == "EXCEPT":
                out = f"{pad}match {term} with\n{pad}| .error e => .error e\n{pad}| .ok {nm} =>\n{out}"
            else:
                out = f"{pad}match {term} with\n{pad}| none => .error .{err}\n{pad}| some {nm} =>\n{out}"
        return out

    def result(self, env, ret):
        st = env["state"]
        parts = [st[a][1] for a, _, _ in STATE]
        return "(" + ", ".join(parts + ([ret] if ret is not None else [])) + ")"

    def block(self, stmts, env, ind):
        pad = "  " * ind
        if not stmts:
            if self.spec.returns is not None:
                raise TranslationError(f"OrderedSamples.{self.spec.func}: falls off the end without the modelled return")
            return f"{pad}.ok {self.result(env, None)}"
        st, rest = stmts[0], stmts[1:]
        if isinstance(st, ast.Expr) and isinstance(st.value, ast.Constant):
            return self.block(rest, env, ind)
        if isinstance(st, ast.Raise):
            if st.exc is not None and ast.unparse(st.exc).startswith("RuntimeError("):
                return f"{pad}.error .runtimeErr"
            self.fail(st, "raise outside the fragment")
        if isinstance(st, ast.Return):
            if st.value is None and self.spec.returns is None:
                return f"{pad}.ok {self.result(env, None)}"        # early exit of a method that returns nothing
            if st.value is None or self.spec.returns is None:
                self.fail(st, "return outside the modelled form")
            t, v, u = self.need(st.value, env, [self.spec.returns])
            return self.wrap(u, f"{pad}.ok {self.result(env, v)}", pad)
        if isinstance(st, ast.Expr) and isinstance(st.value, ast.Call) and ast.unparse(st.value.func) == "self.add_to_nested_samples" \
                and len(st.value.args) == 1:
            _, i, u = self.need(st.value.args[0], env, [IARR])
            nm = self.fresh("nested")
            env2 = {"state": dict(env["state"]), "vars": env["vars"]}
            env2["state"]["nested_samples_indices"] = (IARR, nm)
            return self.wrap(u, f"{pad}let {nm} : List Nat := addToNested {env['state']['nested_samples_indices'][1]} {i}\n"
                             + self.block(rest, env2, ind), pad)
        if isinstance(st, ast.Expr) and isinstance(st.value, ast.Call) and ast.unparse(st.value.func).startswith("self.state."):
            return self.block(rest, env, ind)        # the evidence state is not part of this model (C05)
        if isinstance(st, ast.Assign) and ast.unparse(st) == "self.live_points = None":
            nm = self.fresh("live")                  # property setter: `self.live_points_indices = None`
            env2 = {"state": dict(env["state"]), "vars": env["vars"]}
            env2["state"]["live_points_indices"] = (OIARR, nm)
            return f"{pad}let {nm} : Option (List Nat) := none\n" + self.block(rest, env2, ind)
        if isinstance(st, ast.Assign) and len(st.targets) == 1:
            tgt = st.targets[0]
            if isinstance(tgt, ast.Tuple) and ast.unparse(st.value).startswith("self.sort_samples(") and len(tgt.elts) == 2 \
                    and len(st.value.args) == 2:
                _, a, u1 = self.need(st.value.args[0], env, [ARR])
                _, r, u2 = self.need(st.value.args[1], env, [ROWS])
                sb = self.fresh("sb")
                env2 = {"state": dict(env["state"]), "vars": dict(env["vars"])}
                outs = []
                for el, (ty, oty, fld) in zip(tgt.elts, ((ARR, OARR, "1"), (ROWS, ROWS, "2"))):
                    if isinstance(el, ast.Name):
                        nm = self.fresh(el.id)
                        env2["vars"][el.id] = (ty, nm)
                        outs.append(f"{pad}let {nm} : {LEAN[ty]} := {sb}.map (·.{fld})\n")
                    elif isinstance(el, ast.Attribute) and isinstance(el.value, ast.Name) and el.value.id == "self" \
                            and {a_: t_ for a_, _, t_ in STATE}.get(el.attr) == oty:
                        nm = self.fresh({a_: l_ for a_, l_, _ in STATE}[el.attr])
                        env2["state"][el.attr] = (oty, nm)
                        val = f"{sb}.map (·.{fld})"
                        outs.append(f"{pad}let {nm} : {LEAN[oty]} := {'(some (' + val + '))' if oty != ty else val}\n")
                    else:
                        self.fail(st, "target of sort_samples outside the fragment")
                return self.wrap(u1 + u2, f"{pad}let {sb} := sortBatch ({a}.zip {r})\n" + "".join(outs) + self.block(rest, env2, ind), pad)
            t, v, u = self.ex(st.value, env)
            env2 = {"state": dict(env["state"]), "vars": dict(env["vars"])}
            if isinstance(tgt, ast.Name):
                if t in ("NONE",):
                    self.fail(st, "None assigned to a local")
                nm = self.fresh(tgt.id)
                env2["vars"][tgt.id] = (t, nm)
                return self.wrap(u, f"{pad}let {nm} : {LEAN[t]} := {v}\n" + self.block(rest, env2, ind), pad)
            if isinstance(tgt, ast.Attribute) and isinstance(tgt.value, ast.Name) and tgt.value.id == "self":
                decl = {a: ty for a, _, ty in STATE}
                if tgt.attr not in decl:
                    self.fail(st, "assignment to an attribute outside the mutable state")
                want = decl[tgt.attr]
                if t == "NONE" and want in (OARR, OIARR):
                    v2 = "none"
                elif want == OARR and t == ARR or want == OIARR and t == IARR:
                    v2 = f"(some {v})"
                elif t == want:
                    v2 = v
                else:
                    self.fail(st, f"a {t} assigned to a {want} attribute")
                nm = self.fresh({a: l for a, l, _ in STATE}[tgt.attr])
                env2["state"][tgt.attr] = (want, nm)
                return self.wrap(u, f"{pad}let {nm} : {LEAN[want]} := {v2}\n" + self.block(rest, env2, ind), pad)
            self.fail(st, "assignment target outside the fragment")
        if isinstance(st, ast.If):
            c = st.test
            u = []
            if isinstance(c, ast.Attribute) and isinstance(c.value, ast.Name) and c.value.id == "self" \
                    and env["state"].get(c.attr, ("",))[0] == BOOL:
                cond = f"{env['state'][c.attr][1]} = true"
            elif isinstance(c, ast.Compare) and len(c.ops) == 1 and isinstance(c.ops[0], ast.Is) and ast.unparse(c.comparators[0]) == "None":
                t, v, u = self.ex(c.left, env)
                if t not in (OARR, OIARR):
                    self.fail(c, "`is None` of something that cannot be None")
                # the arms see the variable as it is (still Optional): unwrapping happens where a value is needed
                cond = f"{v}.isNone = true"
            elif isinstance(c, ast.Compare) and len(c.ops) == 1 and isinstance(c.ops[0], ast.NotEq):
                _, a, u1 = self.need(c.left, env, [NAT])
                _, b, u2 = self.need(c.comparators[0], env, [NAT])
                u = u1 + u2
                cond = f"{a} ≠ {b}"
            else:
                self.fail(c, "condition outside the fragment")
            a = self.block(list(st.body) + rest, env, ind + 1)
            b = self.block(list(st.orelse) + rest, env, ind + 1)
            return self.wrap(u, f"{pad}if {cond} then\n{a}\n{pad}else\n{b}", pad)
        self.fail(st, "statement outside the fragment")


def translate(repo, spec: IdxSpec):
    text = (Path(repo) / spec.source).read_text()
    fn = find_function(ast.parse(text), spec.func, spec.cls)
    got = [a.arg for a in fn.args.args]
    if got != ["self"] + [p for p, _, _ in spec.params] or fn.args.vararg or fn.args.kwarg or fn.args.kwonlyargs or fn.args.defaults:
        raise TranslationError(f"OrderedSamples.{spec.func}: signature {got} differs from the modelled one")
    t = _T(spec)
    env = {"state": {a: (ty, ln) for a, ln, ty in STATE + READONLY}, "vars": {p: (ty, ln) for p, ln, ty in spec.params}}
    body = t.block(list(fn.body), env, 1)
    binders = " ".join(f"({ln} : {LEAN[ty]})" for _, ln, ty in STATE + READONLY) + " " + \
        " ".join(f"({ln} : {LEAN[ty]})" for _, ln, ty in spec.params)
    rty = " × ".join([LEAN[ty] for _, _, ty in STATE] + ([LEAN[spec.returns]] if spec.returns else []))
    seg = ast.get_source_segment(text, fn) or ""
    sha = hashlib.sha256(seg.encode()).hexdigest()[:16]
    lean = (f"/-- GENERATED by harness/pyidx2lean.py from `{spec.source}`, `{spec.cls}.{spec.func}` (lines {fn.lineno}–{fn.end_lineno}, "
            f"sha256 {sha}).\n{spec.doc} -/\n"
            f"def {spec.name} {binders} : Except Err ({rty}) :=\n{body}\n")
    return lean, dict(source=spec.source, lines=[fn.lineno, fn.end_lineno], sha256=sha)
