import NessaiVerif.Model.Encode
/- helper lemmas for C19 (core Lean only) -/
namespace NessaiVerif.Encode

/-- the dispatch facts the canonical form depends on (discharged by `decide` on the generated chain) -/
structure DispatchSpec (c : Chain) (fb : Fallback) : Prop where
  npInt : defaultAction c fb .npInt = some .toInt
  npFloat : defaultAction c fb .npFloat = some .toFloat
  ndarray : defaultAction c fb .ndarray = some .tolist
  npBool : defaultAction c fb .npBool = some .toStr
  opaq : defaultAction c fb .opaque = some .toStr

section json
variable {c : Chain} {fb : Fallback}

mutual
theorem jsonEncode_eq_canon (h : DispatchSpec c fb) : ∀ t : Tree, KeysOk t → jsonEncode c fb t = .ok (canon t)
  | .dict kvs, hk => by
      have := jsonEncodeKvs_eq_canon h kvs (by simpa [KeysOk] using hk)
      simp [jsonEncode, canon, this]; rfl
  | .list xs, hk => by
      have := jsonEncodeList_eq_canon h xs (by simpa [KeysOk] using hk)
      simp [jsonEncode, canon, this]; rfl
  | .tuple xs, hk => by
      have := jsonEncodeList_eq_canon h xs (by simpa [KeysOk] using hk)
      simp [jsonEncode, canon, this]; rfl
  | .int _, _ => by simp [jsonEncode, canon]
  | .float _, _ => by simp [jsonEncode, canon]
  | .str _, _ => by simp [jsonEncode, canon]
  | .none, _ => by simp [jsonEncode, canon]
  | .bool _, _ => by simp [jsonEncode, canon]
  | .npStr _, _ => by simp [jsonEncode, canon]
  | .ndarray _ shape flat, hk => by
      have := jsonEncodeList_eq_canon h flat (by simpa [KeysOk] using hk)
      simp [jsonEncode, canon, this, h.ndarray]; rfl
  | .structured names nrows cells, hk => by
      have := jsonEncodeList_eq_canon h cells (by simpa [KeysOk] using hk)
      simp [jsonEncode, canon, this, h.ndarray]; rfl
  | .npInt _, _ => by simp [jsonEncode, canon, h.npInt, applyScalar]
  | .npFloat _ _ _, _ => by simp [jsonEncode, canon, h.npFloat, applyScalar]
  | .npBool _, _ => by simp [jsonEncode, canon, h.npBool, applyScalar]
  | .opaque _, _ => by simp [jsonEncode, canon, h.opaq, applyScalar]
theorem jsonEncodeList_eq_canon (h : DispatchSpec c fb) :
    ∀ xs : List Tree, KeysOkList xs → jsonEncodeList c fb xs = .ok (canonList xs)
  | [], _ => by simp [jsonEncodeList, canonList]
  | x :: xs, hk => by
      have hk' : KeysOk x ∧ KeysOkList xs := by simpa [KeysOkList] using hk
      simp [jsonEncodeList, canonList, jsonEncode_eq_canon h x hk'.1, jsonEncodeList_eq_canon h xs hk'.2]; rfl
theorem jsonEncodeKvs_eq_canon (h : DispatchSpec c fb) :
    ∀ kvs : List (Key × Tree), KeysOkKvs kvs → jsonEncodeKvs c fb kvs = .ok (canonKvs kvs)
  | [], _ => by simp [jsonEncodeKvs, canonKvs]
  | (k, v) :: rest, hk => by
      have hk' : k ≠ .bad ∧ KeysOk v ∧ KeysOkKvs rest := by simpa [KeysOkKvs] using hk
      have hv := jsonEncode_eq_canon h v hk'.2.1
      have hr := jsonEncodeKvs_eq_canon h rest hk'.2.2
      cases k <;> simp_all [jsonEncodeKvs, canonKvs, jsonKey] <;> rfl
end

/-! ### membership forms -/

theorem isJsonList_iff : ∀ xs : List Tree, IsJsonList xs ↔ ∀ x ∈ xs, IsJson x
  | [] => by simp [IsJsonList]
  | x :: xs => by simp [IsJsonList, isJsonList_iff xs]

theorem leavesList_map (f : α → Tree) : ∀ ys : List α, leavesList (ys.map f) = (ys.map (fun y => leaves (f y))).flatten
  | [] => by simp [leavesList]
  | y :: ys => by simp [leavesList, leavesList_map f ys]

/-! ### chunks -/

theorem chunksN_spec {α : Type} (k : Nat) : ∀ (n : Nat) (xs : List α), xs.length = n * k →
    (chunksN n k xs).flatten = xs ∧ ∀ c ∈ chunksN n k xs, c.length = k ∧ ∀ x ∈ c, x ∈ xs
  | 0, xs, h => by
      have : xs = [] := by
        have : xs.length = 0 := by simpa using h
        exact List.eq_nil_of_length_eq_zero this
      subst this
      simp [chunksN]
  | n + 1, xs, h => by
      have hlen : (xs.drop k).length = n * k := by
        simp only [List.length_drop, h]
        rw [Nat.add_mul]; omega
      obtain ⟨hf, hc⟩ := chunksN_spec k n (xs.drop k) hlen
      refine ⟨by simp [chunksN, hf], ?_⟩
      intro c hcm
      simp only [chunksN, List.mem_cons] at hcm
      rcases hcm with rfl | hcm
      · refine ⟨?_, fun x hx => List.mem_of_mem_take hx⟩
        simp only [List.length_take, h]
        rw [Nat.add_mul]; omega
      · obtain ⟨h1, h2⟩ := hc c hcm
        exact ⟨h1, fun x hx => List.mem_of_mem_drop (h2 x hx)⟩

theorem chunksN_mem_sub {α : Type} (k : Nat) : ∀ (n : Nat) (xs : List α), ∀ c ∈ chunksN n k xs, ∀ x ∈ c, x ∈ xs
  | 0, _, c, hc => by simp [chunksN] at hc
  | n + 1, xs, c, hc => by
      simp only [chunksN, List.mem_cons] at hc
      rcases hc with rfl | hc
      · exact fun x hx => List.mem_of_mem_take hx
      · exact fun x hx => List.mem_of_mem_drop (chunksN_mem_sub k n _ c hc x hx)

/-! ### nest -/

theorem isJson_nest : ∀ (shape : List Nat) (xs : List Tree), (∀ x ∈ xs, IsJson x) → IsJson (nest shape xs)
  | [], xs, h => by
      cases xs with
      | nil => simp [nest, IsJson]
      | cons x xs => simpa [nest] using h x (by simp)
  | n :: rest, xs, h => by
      simp only [nest, IsJson]
      rw [isJsonList_iff]
      intro y hy
      simp only [List.mem_map] at hy
      obtain ⟨c, hc, rfl⟩ := hy
      exact isJson_nest rest c (fun x hx => h x (chunksN_mem_sub _ _ _ c hc x hx))

theorem leaves_of_isLeaf : ∀ t : Tree, IsLeaf t → leaves t = [t]
  | .list _, h => by simp [IsLeaf] at h
  | .dict _, _ | .tuple _, _ | .int _, _ | .float _, _ | .str _, _ | .none, _ | .bool _, _
  | .ndarray _ _ _, _ | .structured _ _ _, _ | .npInt _, _ | .npFloat _ _ _, _ | .npBool _, _
  | .npStr _, _ | .opaque _, _ => by simp [leaves]

/-- `tolist` keeps every element, in C order -/
theorem leaves_nest : ∀ (shape : List Nat) (xs : List Tree), (∀ x ∈ xs, IsLeaf x) → xs.length = prod shape →
    leaves (nest shape xs) = xs
  | [], xs, hl, hlen => by
      match xs, hlen with
      | [x], _ => simpa [nest] using leaves_of_isLeaf x (hl x (by simp))
  | n :: rest, xs, hl, hlen => by
      obtain ⟨hf, hc⟩ := chunksN_spec (prod rest) n xs (by simpa [prod] using hlen)
      simp only [nest, leaves, leavesList_map]
      have : (chunksN n (prod rest) xs).map (fun y => leaves (nest rest y)) = chunksN n (prod rest) xs := by
        conv => rhs; rw [← List.map_id (chunksN n (prod rest) xs)]
        apply List.map_congr_left
        intro c hcm
        obtain ⟨h1, h2⟩ := hc c hcm
        simpa using leaves_nest rest c (fun x hx => hl x (h2 x hx)) h1
      rw [this, hf]

/-! ### canonical form -/

mutual
theorem canon_isJson : ∀ t : Tree, KeysOk t → IsJson (canon t)
  | .dict kvs, hk => by simpa [canon, IsJson] using canonKvs_isJson kvs (by simpa [KeysOk] using hk)
  | .list xs, hk => by simpa [canon, IsJson] using canonList_isJson xs (by simpa [KeysOk] using hk)
  | .tuple xs, hk => by simpa [canon, IsJson] using canonList_isJson xs (by simpa [KeysOk] using hk)
  | .int _, _ | .float _, _ | .str _, _ | .none, _ | .bool _, _ | .npStr _, _ | .npInt _, _
  | .npFloat _ _ _, _ | .npBool _, _ | .opaque _, _ => by simp [canon, IsJson]
  | .ndarray _ shape flat, hk => by
      simp only [canon]
      exact isJson_nest _ _ ((isJsonList_iff _).1 (canonList_isJson flat (by simpa [KeysOk] using hk)))
  | .structured _ _ cells, hk => by
      simp only [canon]
      exact isJson_nest _ _ ((isJsonList_iff _).1 (canonList_isJson cells (by simpa [KeysOk] using hk)))
theorem canonList_isJson : ∀ xs : List Tree, KeysOkList xs → IsJsonList (canonList xs)
  | [], _ => by simp [canonList, IsJsonList]
  | x :: xs, hk => by
      have hk' : KeysOk x ∧ KeysOkList xs := by simpa [KeysOkList] using hk
      exact ⟨canon_isJson x hk'.1, canonList_isJson xs hk'.2⟩
theorem canonKvs_isJson : ∀ kvs : List (Key × Tree), KeysOkKvs kvs → IsJsonKvs (canonKvs kvs)
  | [], _ => by simp [canonKvs, IsJsonKvs]
  | (k, v) :: rest, hk => by
      have hk' : k ≠ .bad ∧ KeysOk v ∧ KeysOkKvs rest := by simpa [KeysOkKvs] using hk
      refine ⟨?_, canon_isJson v hk'.2.1, canonKvs_isJson rest hk'.2.2⟩
      cases k <;> simp_all [jsonKey]
end

mutual
theorem canon_of_isJson : ∀ t : Tree, IsJson t → canon t = t
  | .dict kvs, h => by simp [canon, canonKvs_of_isJson kvs (by simpa [IsJson] using h)]
  | .list xs, h => by simp [canon, canonList_of_isJson xs (by simpa [IsJson] using h)]
  | .int _, _ | .float _, _ | .str _, _ | .none, _ | .bool _, _ => by simp [canon]
  | .tuple _, h | .ndarray _ _ _, h | .structured _ _ _, h | .npInt _, h | .npFloat _ _ _, h
  | .npBool _, h | .npStr _, h | .opaque _, h => by simp [IsJson] at h
theorem canonList_of_isJson : ∀ xs : List Tree, IsJsonList xs → canonList xs = xs
  | [], _ => by simp [canonList]
  | x :: xs, h => by
      have h' : IsJson x ∧ IsJsonList xs := by simpa [IsJsonList] using h
      simp [canonList, canon_of_isJson x h'.1, canonList_of_isJson xs h'.2]
theorem canonKvs_of_isJson : ∀ kvs : List (Key × Tree), IsJsonKvs kvs → canonKvs kvs = kvs
  | [], _ => by simp [canonKvs]
  | (k, v) :: rest, h => by
      have h' : (∃ s, k = .str s) ∧ IsJson v ∧ IsJsonKvs rest := by simpa [IsJsonKvs] using h
      obtain ⟨⟨s, rfl⟩, hv, hr⟩ := h'
      simp [canonKvs, jsonKey, canon_of_isJson v hv, canonKvs_of_isJson rest hr]
end

mutual
theorem keysOk_of_isJson : ∀ t : Tree, IsJson t → KeysOk t
  | .dict kvs, h => by simpa [KeysOk] using keysOkKvs_of_isJson kvs (by simpa [IsJson] using h)
  | .list xs, h => by simpa [KeysOk] using keysOkList_of_isJson xs (by simpa [IsJson] using h)
  | .int _, _ | .float _, _ | .str _, _ | .none, _ | .bool _, _ => by simp [KeysOk]
  | .tuple _, h | .ndarray _ _ _, h | .structured _ _ _, h | .npInt _, h | .npFloat _ _ _, h
  | .npBool _, h | .npStr _, h | .opaque _, h => by simp [IsJson] at h
theorem keysOkList_of_isJson : ∀ xs : List Tree, IsJsonList xs → KeysOkList xs
  | [], _ => by simp [KeysOkList]
  | x :: xs, h => by
      have h' : IsJson x ∧ IsJsonList xs := by simpa [IsJsonList] using h
      exact ⟨keysOk_of_isJson x h'.1, keysOkList_of_isJson xs h'.2⟩
theorem keysOkKvs_of_isJson : ∀ kvs : List (Key × Tree), IsJsonKvs kvs → KeysOkKvs kvs
  | [], _ => by simp [KeysOkKvs]
  | (k, v) :: rest, h => by
      have h' : (∃ s, k = .str s) ∧ IsJson v ∧ IsJsonKvs rest := by simpa [IsJsonKvs] using h
      obtain ⟨⟨s, rfl⟩, hv, hr⟩ := h'
      exact ⟨by simp, keysOk_of_isJson v hv, keysOkKvs_of_isJson rest hr⟩
end

end json

/-! ### save_kwargs -/

theorem keysOkKvs_upsert (k : String) (v : Tree) (hv : KeysOk v) : ∀ kvs : List (Key × Tree),
    KeysOkKvs kvs → KeysOkKvs (upsert (.str k) v kvs)
  | [], _ => by simp [upsert, KeysOkKvs, hv]
  | (k', v') :: rest, h => by
      have h' : k' ≠ .bad ∧ KeysOk v' ∧ KeysOkKvs rest := by simpa [KeysOkKvs] using h
      by_cases hk : k' = .str k
      · simp [upsert, hk, KeysOkKvs, hv, h'.2.2]
      · simp [upsert, hk, KeysOkKvs, h'.1, h'.2.1, keysOkKvs_upsert k v hv rest h'.2.2]

theorem keysOkKvs_extras : ∀ (extra : List (String × Tree)) (kvs : List (Key × Tree)),
    (∀ e ∈ extra, KeysOk e.2) → KeysOkKvs kvs →
    KeysOkKvs (extra.foldl (fun d e => upsert (.str e.1) e.2 d) kvs)
  | [], kvs, _, h => by simpa using h
  | e :: extra, kvs, he, h => by
      simp only [List.foldl_cons]
      exact keysOkKvs_extras extra _ (fun x hx => he x (by simp [hx]))
        (keysOkKvs_upsert e.1 e.2 (he e (by simp)) kvs h)

theorem upsert_mem_keys (k : Key) (v : Tree) : ∀ kvs : List (Key × Tree), (k, v) ∈ upsert k v kvs
  | [] => by simp [upsert]
  | (k', v') :: rest => by
      by_cases hk : k' = k
      · simp [upsert, hk]
      · simp [upsert, hk, upsert_mem_keys k v rest]

end NessaiVerif.Encode
