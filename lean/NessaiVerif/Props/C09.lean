import NessaiVerif.Model.Pool
import NessaiVerif.Proofs.Pool
import NessaiVerif.Proofs.PoolLoop
import NessaiVerif.Proofs.PoolAcc
import NessaiVerif.Proofs.PoolFill
import NessaiVerif.Proofs.PoolHand
import NessaiVerif.Proofs.PoolRadial
import NessaiVerif.Gen.PoolTx
import Mathlib.Analysis.SpecialFunctions.Exp
/-
C09 — proposal pools follow the prior inside the contour and never leave the prior.
Property theorems only (helper lemmas live in Proofs/Pool*.lean).

PARTIAL.  The statistical clause of the property — the pool is *distributed* as the prior restricted to the latent
contour — is NOT proved here.  What is proved is the bookkeeping around it, for candidate batches, in-bounds flags,
log-densities and log-uniforms that are arbitrary inputs: `accepted_iff` reduces "kept with probability w / w_max" to
the deterministic event `log u < log w − log w_max` in the code's form; the step from that event to a distribution
(uniformity of the RNG, exactness of the flow density) is assumed, not claimed.  `pool_follows_prior_partial`
collects the non-statistical clauses for the flow pool.

NOT MODELLED.  The population loops are modelled for `backward_pass(rescale=True)` only, i.e. for
`use_x_prime_prior = False`.  With a prime prior (GW reparameterisations) `populate` calls
`backward_pass(rescale=False)`, which does not call `check_prior_bounds`; `pool_in_bounds` and
`likelihood_args_in_support` say nothing about that branch (`backward_pass_without_rescale_keeps_out_of_bounds`
exhibits why the bounds clause cannot come from `backward_pass` there), and the harness does not drive it.
-/
namespace NessaiVerif.C09
open NessaiVerif.Pool NessaiVerif.Pool.EV

/-! ### in bounds -/

/-- `check_prior_bounds` returns exactly the rows whose `in_bounds` flag is set: nothing out of bounds survives,
nothing in bounds is dropped, order is kept. -/
theorem check_prior_bounds_sound (cs : List Cand) :
    (∀ c ∈ checkPriorBounds cs, c.inb = true) ∧ (∀ c ∈ cs, c.inb = true → c ∈ checkPriorBounds cs) ∧
      (checkPriorBounds cs).Sublist cs := by
  refine ⟨fun c h => (mem_checkPriorBounds.1 h).2, fun c h hb => mem_checkPriorBounds.2 ⟨h, hb⟩, ?_⟩
  exact List.filter_sublist

/-- The bounds check of `backward_pass` belongs to its `rescale=True` branch: there every survivor is in bounds; with
`rescale=False` (what `populate` passes when `use_x_prime_prior` is set) an out-of-bounds candidate with a finite
density survives.  The pool theorems below are stated for the `rescale=True` branch, the only one modelled. -/
theorem backward_pass_without_rescale_keeps_out_of_bounds :
    (∀ cs : List Cand, ∀ c ∈ backwardPassX true cs, c.inb = true) ∧
      backwardPassX false [⟨0, false, .fin 0, .fin 0⟩] = [⟨0, false, .fin 0, .fin 0⟩] ∧
      backwardPassX true [⟨0, false, .fin 0, .fin 0⟩] = [] := by
  refine ⟨fun cs c h => (mem_backwardPass.1 h).2.2, by decide +kernel, by decide +kernel⟩

/-- Every point of a flow pool (plain and accumulating branch of `FlowProposal.populate` with
`backward_pass(rescale=True)`, any number of batches, any sizes) went through `check_prior_bounds` of the batch it was drawn in, hence is inside the prior bounds;
no slot of the pool is left unwritten. -/
theorem pool_in_bounds (z : Bool) (N : Nat) (t : Option EV) (bs : List (List Cand)) (us : List (List EV))
    (P : Population) (hc : P.crashed = false) :
    (populatePlain z N t bs us = some P ∨ ∃ maxS gs, populateAcc z N maxS t bs gs us = some P) →
    (∀ s ∈ P.pool, s ≠ none) ∧
      ∀ c, some c ∈ P.pool → c.inb = true ∧ ∃ b ∈ bs, c ∈ checkPriorBounds b := by
  rintro (h | ⟨maxS, gs, h⟩)
  · obtain ⟨hp, _, _⟩ := populatePlain_eq h hc
    refine ⟨by rw [hp]; exact map_some_ne_none _, ?_⟩
    intro c hc
    rw [hp] at hc
    simp only [List.mem_map, Option.some.injEq] at hc
    obtain ⟨c', hc', rfl⟩ := hc
    obtain ⟨b, hb, u, hu⟩ := mem_plainStream t bs us c' (List.mem_of_mem_take hc')
    have hs := (plainAccepted_spec hu).1
    exact ⟨(mem_survivors hs).2.2, b, hb, mem_survivors_filter hs⟩
  · obtain ⟨h1, h2, _, _, _⟩ := populateAcc_spec h hc
    refine ⟨h2, ?_⟩
    intro c hc
    obtain ⟨⟨b, hb, hs⟩, _⟩ := h1 c hc
    exact ⟨(mem_survivors hs).2.2, b, hb, mem_survivors_filter hs⟩

/-! ### sizes -/

/-- Plain branch: when the `while n_accepted < N` loop ends, the pool has exactly `N` points; they are the first
`N` accepted points in drawing order; every slot `0 … N-1` of the array was written exactly once, in increasing
order (the write log is `range N`).  The plain loop has no other normal exit; `crashed = false` excludes the
population aborted by an exception (see `flow_population_aborts`). -/
theorem flow_pool_size_eq (z : Bool) (N : Nat) (t : Option EV) (bs : List (List Cand)) (us : List (List EV))
    (st : PlainSt) (h : plainLoop z N t (PlainSt.init N) bs us = some st) (hc : st.crashed = false) :
    (st.arr.take N).length = N ∧ st.arr.take N = ((plainStream t bs us).take N).map some ∧
      st.writes = List.range N ∧ N ≤ st.nAcc := by
  obtain ⟨h1, h2, h3, h4⟩ := plainLoop_final h hc
  refine ⟨?_, ?_, h3, h4⟩
  · rw [h1, List.take_of_length_le (by rw [List.length_map, List.length_take]; omega), List.length_map,
      List.length_take]; omega
  · rw [h1]; exact List.take_of_length_le (by rw [List.length_map, List.length_take]; omega)

/-- Accumulating branch (`accumulate_weights=True`): the pool never exceeds `N`, and it has exactly `N` points
whenever the loop ended through its guard, i.e. was not left through `if n_proposed > max_samples: break`. -/
theorem flow_pool_size_eq_acc (z : Bool) (N maxS : Nat) (t : Option EV) (bs : List (List Cand)) (gs : List Bool)
    (us : List (List EV)) (P : Population) (h : populateAcc z N maxS t bs gs us = some P)
    (hc : P.crashed = false) :
    P.pool.length ≤ N ∧ (P.broke = false → P.pool.length = N) := by
  obtain ⟨_, _, _, h4, h5⟩ := populateAcc_spec h hc
  exact ⟨h4, h5⟩

/-- The hypothesis of `flow_pool_size_eq_acc` is needed: with `max_samples = 1` a first batch of two candidates
makes the loop `break`; `accept` is then drawn after the loop and one point of the requested two is in the pool.  When
every surviving candidate has a zero prior (`log_p = −inf`) the pool is even empty — `populated` is then set with an
empty index list and the next `draw` fails on `indices.pop()` (see the session example below). -/
theorem flow_pool_size_eq_acc_fails_without :
    ((populateAcc false 2 1 none [[⟨0, true, .fin 0, .fin 0⟩, ⟨1, true, .fin 0, .fin (-1)⟩]] [false]
        [[.fin (-1/2), .fin (-1/2)]]).map fun P => (P.broke, P.pool.length)) = some (true, 1) ∧
    ((populateAcc false 2 1 none [[⟨0, true, .fin 0, .ninf⟩, ⟨1, true, .fin 0, .ninf⟩]] [false]
        [[.fin (-1/2), .fin (-1/2)]]).map fun P => (P.broke, P.pool.length)) = some (true, 0) ∧
    hrun {} [⟨[], []⟩] [.draw] = [.errIndex] := by
  decide +kernel

/-- The behaviour of `FlowProposal.backward_pass` before fix c6b6530 (rows with a non-finite `log_prob` dropped from
`x` and `log_prob` but not from `z`, so `check_prior_bounds(x, z, log_prob)` raised `IndexError`): with it
(`strictZ = true`) a population whose next drawn batch holds a non-finite log-density is aborted, whatever came
before.  The correspondence drives the fixed code with `strictZ = false`; a regression shows up as a crash the model
does not have. -/
theorem flow_population_aborts (N : Nat) (t : Option EV) (st : PlainSt) (b : List Cand) (bs : List (List Cand))
    (us : List (List EV)) (hN : st.nAcc < N) (hb : ∃ c ∈ b, c.logq.isFinite = false) :
    (plainLoop true N t st (b :: bs) us).map (·.crashed) = some true := by
  obtain ⟨c, hc, hq⟩ := hb
  have : batchCrashes true b = true := by
    simp only [batchCrashes, Bool.true_and, List.any_eq_true]
    exact ⟨c, hc, by simp [hq]⟩
  unfold plainLoop
  simp [Nat.not_le.2 hN, this]

/-- Conversely a population is never aborted when the quirk is absent (`strictZ = false`:
`AugmentedFlowProposal`) or when every drawn log-density is finite — the side condition `crashed = false` of the
theorems above then holds. -/
theorem flow_population_completes (z : Bool) (N : Nat) (t : Option EV) (bs : List (List Cand)) (us : List (List EV))
    (P : Population) (hz : z = false ∨ ∀ b ∈ bs, ∀ c ∈ b, c.logq.isFinite = true)
    (h : populatePlain z N t bs us = some P ∨ ∃ maxS gs, populateAcc z N maxS t bs gs us = some P) :
    P.crashed = false := by
  have hb : ∀ b ∈ bs, batchCrashes z b = false := by
    intro b hb
    rcases hz with hz | hz
    · simp [batchCrashes, hz]
    · simp only [batchCrashes, Bool.and_eq_false_imp, List.any_eq_false]
      intro _ c hc
      simp [hz b hb c hc]
  rcases h with h | ⟨maxS, gs, h⟩
  · unfold populatePlain at h
    cases hl : plainLoop z N t (PlainSt.init N) bs us with
    | none => simp [hl] at h
    | some st =>
      simp only [hl, Option.map_some, Option.some.injEq] at h
      subst h
      exact plainLoop_no_crash z N t bs us _ st hb rfl hl
  · unfold populateAcc at h
    split at h
    · simp at h
    · rename_i st broke us' hl
      have := accLoop_no_crash z N maxS t bs gs us {} st broke us' hb rfl hl
      simp only [this, Bool.false_eq_true, if_false] at h
      unfold accFinal at h
      cases hm : finalMask st us' with
      | none => simp [hm] at h
      | some v =>
        simp only [hm, Option.map_some, Option.some.injEq] at h
        subst h
        exact this

/-- A prior-rejection pool (`RejectionProposal.populate(N)`) holds at most the `N` drawn candidates, in drawing
order, and the likelihood is evaluated on exactly the pool. -/
theorem rejection_pool_size_le (cands : List Cand) (lus : List EV) :
    (populateRejection cands lus).pool.length ≤ cands.length ∧
      (populateRejection cands lus).pool.Sublist (cands.map some) ∧
      (populateRejection cands lus).llCalls = (populateRejection cands lus).pool := by
  refine ⟨?_, ?_, rfl⟩
  · simpa [populateRejection] using (select_sublist (rejectMask (logWeights cands) (nanmax (logWeights cands)) lus) cands).length_le
  · simpa [populateRejection] using (select_sublist _ cands).map some

/-- The fill loops of `Model._multiple_new_points` and `ImportanceNestedSampler.populate_live_points`
(`out[n:n+m] = p[accept][:m]; n += m`): when they end, all `N` slots hold accepted points (finite log-prior) taken
from the drawn batches. -/
theorem fill_loop_complete {α : Type} (N : Nat) (keep : α → Bool) (bs : List (List α)) (out : List (Option α))
    (h : fillLoop N keep (List.replicate N none) 0 bs = some out) :
    out.length = N ∧ ∀ s ∈ out, ∃ c, s = some c ∧ keep c = true ∧ ∃ b ∈ bs, c ∈ b := by
  obtain ⟨pre, h1, h2, h3⟩ := fillLoop_spec N keep bs bs (List.replicate N none) 0 [] out (fun _ hb => hb)
    (by simp) (by simp) (by simp) h
  subst h1
  refine ⟨by simp; omega, ?_⟩
  intro s hs
  simp only [List.mem_map] at hs
  obtain ⟨c, hc, rfl⟩ := hs
  exact ⟨c, rfl, h3 c (List.mem_of_mem_take hc)⟩

/-! ### handing out -/

/-- Between two populations no index is handed out twice, and populations do not share handed-out entries:
for every sequence of `draw` / invalidation (`train`) operations and every sequence of populations whose index
lists are duplicate-free (what `np.random.permutation` returns), the `(population number, index)` pairs returned
by `draw` are pairwise distinct. -/
theorem handout_nodup (pops : List Pop) (ops : List Op) (hp : ∀ p ∈ pops, p.indices.Nodup) :
    (handedKeys (hrun {} pops ops)).Nodup := by
  have := hrun_nodup ops {} pops [] hp ⟨List.nodup_nil, List.nodup_nil, by simp⟩
  simpa using this

/-- Across populations the pool is replaced: a point returned by `draw` is entry `idx` of the pool of the latest
population (number `count`), with `idx` taken from that population's index list — never from an earlier pool. -/
theorem handout_current_pool (pops : List Pop) (ops : List Op) (c i : Nat) (id : Option Nat)
    (h : Out.handed c i id ∈ hrun {} pops ops) :
    ∃ p, 0 < c ∧ pops[c - 1]? = some p ∧ i ∈ p.indices ∧ id = p.pool[i]? := by
  have := hrun_from ops {} pops [] ⟨rfl, by simp⟩ _ h
  simpa [FromPop] using this

/-- The scripted permutation used in the correspondence is a genuine permutation of `range n`, so the hypothesis of
`handout_nodup` holds for it. -/
theorem scripted_permutation_nodup (keys : List Int) (n : Nat) :
    (permOf keys n).Nodup ∧ (permOf keys n).Perm (List.range n) :=
  ⟨permOf_nodup keys n, permOf_perm keys n⟩

/-! ### the rejection step -/

/-- The acceptance test in exactly the code's form.  Flow pools: `(log_w − log_w_max) > log_u`, i.e. for finite
values `log u < log w − log w_max`; for `u = 0` (`log u = −inf`) every finite weight is accepted.  Prior-rejection
pools: `((log_w − log_w_max) − log_u) >= 0`, i.e. `log u ≤ log w − log w_max`. -/
theorem accepted_iff (lw m lu : Rat) :
    (acceptFlow (.fin lw) (.fin m) (.fin lu) = true ↔ lu < lw - m) ∧
      acceptFlow (.fin lw) (.fin m) .ninf = true ∧
      (acceptRej (.fin lw) (.fin m) (.fin lu) = true ↔ lu ≤ lw - m) := by
  refine ⟨by simp [acceptFlow, sub, gt], by simp [acceptFlow, sub, gt], ?_⟩
  simp only [acceptRej, sub, ge, decide_eq_true_eq]
  constructor <;> intro h <;> grind

/-- A point whose log-prior is −inf or NaN is never accepted — whatever the uniform (including `u = 0`) and
whatever the normalising maximum — as soon as its proposal density is finite (which `backward_pass` ensures);
for log-priors that are not `+inf` an accepted point therefore has a finite log-prior. -/
theorem accepted_prior_finite (c : Cand) (m u : EV) (hq : c.logq.isFinite = true)
    (h : acceptFlow (logWeight c) m u = true ∨ acceptRej (logWeight c) m u = true) :
    c.logp ≠ .ninf ∧ c.logp ≠ .nan ∧ (c.logp ≠ .pinf → c.logp.isFinite = true) := by
  have hw : logWeight c ≠ .nan ∧ logWeight c ≠ .ninf := by
    rcases h with h | h
    · exact acceptFlow_weight h
    · exact acceptRej_weight h
  have hp := logWeight_of_prior hq hw
  exact ⟨hp.2, hp.1, fun h3 => finite_of_not hp.1 hp.2 h3⟩

/-- The side condition `log_p ≠ +inf` of `accepted_prior_finite` is needed for finiteness at the level of a single
test (a `+inf` prior against a finite maximum is accepted); log-priors are never `+inf` in the property's domain. -/
theorem accepted_prior_finite_fails_without :
    acceptFlow (logWeight ⟨0, true, .fin 0, .pinf⟩) (.fin 0) (.fin (-1)) = true ∧
      (⟨0, true, .fin 0, .pinf⟩ : Cand).logp.isFinite = false := by
  decide +kernel

/-! ### likelihood arguments -/

/-- Flow pools: every argument of the likelihood call made by `populate` (the whole pool, in pool order) is a
candidate that is in bounds, has a finite proposal density and a log-prior that is neither −inf nor NaN
(finite, for log-priors that are not `+inf`); no unwritten slot is evaluated. -/
theorem likelihood_args_in_support (z : Bool) (N : Nat) (t : Option EV) (bs : List (List Cand))
    (us : List (List EV)) (P : Population) (hc : P.crashed = false)
    (h : populatePlain z N t bs us = some P ∨ ∃ maxS gs, populateAcc z N maxS t bs gs us = some P) :
    (∀ s ∈ P.llCalls, s ≠ none) ∧
      ∀ c, some c ∈ P.llCalls → c.inb = true ∧ c.logp ≠ .ninf ∧ c.logp ≠ .nan ∧
        (c.logp ≠ .pinf → c.logp.isFinite = true) := by
  have key : P.llCalls = P.pool ∧ (∀ s ∈ P.pool, s ≠ none) ∧
      ∀ c, some c ∈ P.pool → (∃ b ∈ bs, c ∈ survivors t b) ∧ ∃ m u, acceptFlow (logWeight c) m u = true := by
    rcases h with h | ⟨maxS, gs, h⟩
    · obtain ⟨hp, _, hl⟩ := populatePlain_eq h hc
      refine ⟨hl, by rw [hp]; exact map_some_ne_none _, ?_⟩
      intro c hc
      rw [hp] at hc
      simp only [List.mem_map, Option.some.injEq] at hc
      obtain ⟨c', hc', rfl⟩ := hc
      obtain ⟨b, hb, u, hu⟩ := mem_plainStream t bs us c' (List.mem_of_mem_take hc')
      obtain ⟨hs, m, lu, ha⟩ := plainAccepted_spec hu
      exact ⟨⟨b, hb, hs⟩, m, lu, ha⟩
    · obtain ⟨h1, h2, h3, _, _⟩ := populateAcc_spec h hc
      exact ⟨h3, h2, h1⟩
  obtain ⟨k1, k2, k3⟩ := key
  rw [k1]
  refine ⟨k2, ?_⟩
  intro c hc
  obtain ⟨⟨b, _, hs⟩, m, u, ha⟩ := k3 c hc
  have hsv := mem_survivors hs
  exact ⟨hsv.2.2, accepted_prior_finite c m u hsv.2.1 (Or.inl ha)⟩

/-- Prior-rejection pools: the likelihood is called only on accepted candidates, and (given the finite proposal
density `new_point_log_prob` returns) an accepted candidate has a log-prior that is neither −inf nor NaN.
`RejectionProposal.populate` has no bounds filter of its own: that the arguments are in bounds is inherited from
`Model.new_point` (hypothesis `hb`; for the default `new_point` it is the range of `np.random.uniform(lower, upper)`). -/
theorem likelihood_args_in_support_rejection (cands : List Cand) (lus : List EV)
    (hq : ∀ c ∈ cands, c.logq.isFinite = true) (hb : ∀ c ∈ cands, c.inb = true) :
    ∀ c, some c ∈ (populateRejection cands lus).llCalls →
      c ∈ cands ∧ c.inb = true ∧ c.logp ≠ .ninf ∧ c.logp ≠ .nan := by
  intro c hc
  simp only [populateRejection, List.mem_map, Option.some.injEq] at hc
  obtain ⟨c', hc', rfl⟩ := hc
  obtain ⟨hm, u, ha⟩ := mem_select_rejectMask logWeight _ cands lus c' hc'
  have := accepted_prior_finite c' _ u (hq c' hm) (Or.inr ha)
  exact ⟨hm, hb c' hm, this.1, this.2.1⟩

/-- Importance sampler: `ImportanceFlowProposal.draw(n)` returns exactly `n` points when its loop ends, each of
which passed the unit-hypercube mask and has a finite log-prior — these are the arguments `draw_n_samples` hands
to the likelihood. -/
theorem likelihood_args_in_support_ins (n : Nat) (bs : List (List ICand)) (out : List ICand) (k : Nat)
    (h : insDraw n bs = some (out, k)) :
    out.length = n ∧ ∀ c ∈ out, c.inCube = true ∧ c.logP.isFinite = true ∧ c.logW ≠ .pinf ∧ ∃ b ∈ bs, c ∈ b := by
  unfold insDraw at h
  cases hl : insLoop n [] 0 0 bs with
  | none => simp [hl] at h
  | some v =>
    obtain ⟨s, k'⟩ := v
    simp only [hl, Option.map_some, Option.some.injEq, Prod.mk.injEq] at h
    obtain ⟨h1, h2⟩ := insLoop_spec n bs bs [] 0 0 s k' (fun _ hb => hb) rfl (by simp) hl
    obtain ⟨rfl, _⟩ := h
    refine ⟨by simp; omega, ?_⟩
    intro c hc
    obtain ⟨m1, m2, hb⟩ := h2 c (List.mem_of_mem_take hc)
    simp only [ICand.mask1, ICand.mask2, Bool.and_eq_true, Bool.not_eq_true', beq_eq_false_iff_ne] at m1 m2
    exact ⟨m1.1.1.1.1, m2.1.1.1, m2.1.1.2, hb⟩

/-! ### radial truncation -/

/-- Rescaling a direction `x` to radius `p` (`p * x / ‖x‖`, as `NDimensionalTruncatedGaussian.sample` and
`draw_truncated_gaussian` do) gives a point of squared norm `p²` (sqrt-free: `s` is any number with `s² = ‖x‖²`,
`s ≠ 0`); and `p = ppf(u)` with `u ≤ u_max = cdf(r·fuzz)` is at most `r·fuzz` for a monotone `ppf` with
`ppf(cdf(r·fuzz)) ≤ r·fuzz` (only this instance of "ppf inverts cdf" is used) and `0 ≤ ppf(u)` (a radius), so no
latent point lies outside the contour: `‖z‖² ≤ (r·fuzz)²`.  Any ordered field (ℚ, ℝ). -/
theorem radial_norm {K : Type} [Field K] [LinearOrder K] [IsStrictOrderedRing K]
    (ppf cdf : K → K) (hmono : Monotone ppf) (r fuzz u s : K) (xs : List K)
    (hinv : ppf (cdf (r * fuzz)) ≤ r * fuzz) (hpos : 0 ≤ ppf u)
    (hs : s ≠ 0) (hnorm : normSq xs = s * s) (hu : u ≤ cdf (r * fuzz)) :
    normSq (radialScale (ppf u) s xs) = ppf u * ppf u ∧ ppf u ≤ r * fuzz ∧
      normSq (radialScale (ppf u) s xs) ≤ (r * fuzz) * (r * fuzz) := by
  have h1 : normSq (radialScale (ppf u) s xs) = ppf u * ppf u := by
    rw [normSq_radialScale _ _ hs, hnorm]
    field_simp
  have h2 : ppf u ≤ r * fuzz := le_trans (hmono hu) hinv
  exact ⟨h1, h2, by rw [h1]; exact mul_self_le_mul_self hpos h2⟩

/-- `radial_norm` INSTANTIATED (non-vacuity, machine-checked): on ℚ with `ppf = cdf = fun x => max x 0` (monotone,
`ppf (cdf y) = y` for `y ≥ 0`), contour `r·fuzz = 2·1`, `u = 3/2`, direction `(3,4)` of norm `s = 5`. -/
example : normSq (radialScale (max (3/2 : ℚ) 0) 5 [3, 4]) ≤ (2 * 1) * (2 * 1) :=
  (radial_norm (K := ℚ) (fun x => max x 0) (fun x => max x 0)
    (fun a b h => max_le_max h le_rfl) 2 1 (3/2) 5 [3, 4]
    (by norm_num) (le_max_right _ _) (by norm_num) (by simp [normSq]; norm_num)
    (le_max_of_le_left (by decide +kernel))).2.2

/-! ### summary -/

/-- **Summary (partial).**  A completed population of the flow proposal (plain branch, or accumulating branch not
cut short by `max_samples`) has exactly the requested size; every pool point is in bounds with a usable prior; the
likelihood is evaluated on exactly the pool.  NOT covered: that the pool is distributed as the prior restricted to
the latent contour (the statistical clause of C09), and that the stored `logP` / `logL` equal the model's values
(checked on the real code by the oracle of the harness, not a theorem about this bookkeeping model). -/
theorem pool_follows_prior_partial (z : Bool) (N : Nat) (t : Option EV) (bs : List (List Cand))
    (us : List (List EV)) (P : Population) (hc : P.crashed = false)
    (h : populatePlain z N t bs us = some P ∨
      ∃ maxS gs, populateAcc z N maxS t bs gs us = some P ∧ P.broke = false) :
    P.pool.length = N ∧ P.llCalls = P.pool ∧
      ∀ s ∈ P.pool, ∃ c, s = some c ∧ c.inb = true ∧ c.logp ≠ .ninf ∧ c.logp ≠ .nan := by
  have h' : populatePlain z N t bs us = some P ∨ ∃ maxS gs, populateAcc z N maxS t bs gs us = some P := by
    rcases h with h | ⟨a, b, h, _⟩
    · exact Or.inl h
    · exact Or.inr ⟨a, b, h⟩
  obtain ⟨l1, l2⟩ := likelihood_args_in_support z N t bs us P hc h'
  have hcall : P.llCalls = P.pool := by
    rcases h with h | ⟨a, b, h, _⟩
    · exact (populatePlain_eq h hc).2.2
    · exact (populateAcc_spec h hc).2.2.1
  refine ⟨?_, hcall, ?_⟩
  · rcases h with h | ⟨a, b, h, hb⟩
    · obtain ⟨hp, hN, _⟩ := populatePlain_eq h hc
      rw [hp]; simp; omega
    · exact (populateAcc_spec h hc).2.2.2.2 hb
  · intro s hs
    rw [← hcall] at hs
    cases s with
    | none => exact absurd rfl (l1 none hs)
    | some c =>
      obtain ⟨a, b, c', _⟩ := l2 c hs
      exact ⟨c, rfl, a, b, c'⟩

/-! ### non-vacuity -/

/-- a plain population with out-of-bounds, infinite-density and zero-prior candidates completes with `N = 3` -/
example : ((populatePlain false 3 none
    [[⟨0, true, .fin 0, .fin 0⟩, ⟨1, false, .fin 0, .fin 0⟩, ⟨2, true, .pinf, .fin 0⟩],
     [⟨3, true, .fin 0, .ninf⟩, ⟨4, true, .fin (1/2), .fin 0⟩, ⟨5, true, .fin 0, .fin 0⟩]]
    [[.fin (-1), .fin (-1), .fin (-1)], [.fin (-1), .fin (-1), .fin (-1)]]).map
      fun P => P.pool.map (·.map (·.id))) = some [some 0, some 4, some 5] := by decide +kernel

/-- an accumulating population that ends through the loop guard -/
example : ((populateAcc false 2 100 none
    [[⟨0, true, .fin 0, .fin 0⟩, ⟨1, true, .fin 0, .fin (-1)⟩], [⟨2, true, .fin 0, .fin 0⟩]] [false, true]
    [[.fin (-1/2), .fin (-1/2), .fin (-1/2)]]).map
      fun P => (P.broke, P.pool.map (·.map (·.id)))) = some (false, [some 0, some 2]) := by decide +kernel

/-- the abort is reachable: a non-finite log-density in the first batch of a `FlowProposal` population -/
example : ((populatePlain true 1 none [[⟨0, true, .fin 0, .fin 0⟩, ⟨1, true, .pinf, .fin 0⟩]] [[.fin (-1), .fin (-1)]]).map
    (·.crashed)) = some true := by decide +kernel

/-- a session: populate, two draws exhaust the pool, invalidation, a second population replaces the pool -/
example : hrun {} [⟨[10, 11], [1, 0]⟩, ⟨[20, 21, 22], [2, 0, 1]⟩] [.draw, .draw, .inval, .draw]
    = [.handed 1 0 (some 10), .handed 1 1 (some 11), .ok, .handed 2 1 (some 21)] := by decide +kernel

/-- the fill loop: zero-prior draws are skipped, the three slots are filled from two batches -/
example : newPoints 3 [[⟨0, true, .fin 0, .ninf⟩, ⟨1, true, .fin 0, .fin 0⟩, ⟨2, true, .fin 0, .fin (-1)⟩],
    [⟨3, true, .fin 0, .fin 0⟩, ⟨4, true, .fin 0, .fin 0⟩, ⟨5, true, .fin 0, .fin 0⟩]]
    = some [some ⟨1, true, .fin 0, .fin 0⟩, some ⟨2, true, .fin 0, .fin (-1)⟩, some ⟨3, true, .fin 0, .fin 0⟩] := by
  decide +kernel

/-- a prior-rejection population: the zero-prior candidate is rejected even with `u = 0`, the others accepted -/
example : (populateRejection [⟨0, true, .fin 0, .ninf⟩, ⟨1, true, .fin 0, .fin 0⟩, ⟨2, true, .fin (1/2), .fin (-1)⟩]
    [.ninf, .ninf, .ninf]).pool.map (·.map (·.id)) = [some 1, some 2] := by decide +kernel

/-- the hypotheses of `accepted_prior_finite` are satisfiable: a finite-density, finite-prior point is accepted -/
example : (⟨0, true, .fin 0, .fin (-1)⟩ : Cand).logq.isFinite = true ∧
    acceptFlow (logWeight ⟨0, true, .fin 0, .fin (-1)⟩) (.fin 0) (.fin (-2)) = true := by decide +kernel

/-- an importance-sampler draw: the out-of-cube and the zero-prior candidate are dropped, exactly `n = 2` returned -/
example : ((insDraw 2
    [[⟨0, false, true, true, true, true, .fin 0, .fin 0, .fin 0, false, false⟩,
      ⟨1, true, true, true, true, true, .ninf, .fin 0, .fin 0, false, false⟩,
      ⟨2, true, true, true, true, true, .fin 0, .fin 0, .fin 0, false, false⟩],
     [⟨3, true, true, true, true, true, .fin 0, .fin 0, .fin 0, false, false⟩,
      ⟨4, true, true, true, true, true, .fin 0, .fin 0, .fin 0, false, false⟩]]).map
      fun r => (r.1.map (·.id), r.2)) = some ([2, 3], 2) := by decide +kernel

/-! ### the theorems applied to concrete instances (every hypothesis discharged by evaluation) -/

/-- `pool_in_bounds`, `likelihood_args_in_support` and `pool_follows_prior_partial` applied to a completed plain
population (one out-of-bounds, one accepted candidate) -/
example :
    let a : Cand := ⟨0, false, .fin 0, .fin 0⟩
    let c : Cand := ⟨1, true, .fin 0, .fin 0⟩
    let P : Population := { pool := [some c], llCalls := [some c], nAcc := 1, nProp := 2, batches := 1, rands := 1 }
    ((∀ s ∈ P.pool, s ≠ none) ∧ ∀ c', some c' ∈ P.pool → c'.inb = true ∧ ∃ b ∈ [[a, c]], c' ∈ checkPriorBounds b) ∧
    ((∀ s ∈ P.llCalls, s ≠ none) ∧ ∀ c', some c' ∈ P.llCalls → c'.inb = true ∧ c'.logp ≠ .ninf ∧ c'.logp ≠ .nan ∧
        (c'.logp ≠ .pinf → c'.logp.isFinite = true)) ∧
    (P.pool.length = 1 ∧ P.llCalls = P.pool ∧
      ∀ s ∈ P.pool, ∃ c', s = some c' ∧ c'.inb = true ∧ c'.logp ≠ .ninf ∧ c'.logp ≠ .nan) := by
  intro a c P
  have h : populatePlain false 1 none [[a, c]] [[.fin (-1), .fin (-1)]] = some P := by decide +kernel
  exact ⟨pool_in_bounds false 1 none _ _ P rfl (Or.inl h),
         likelihood_args_in_support false 1 none _ _ P rfl (Or.inl h),
         pool_follows_prior_partial false 1 none _ _ P rfl (Or.inl h)⟩

/-- the same three, and `flow_pool_size_eq_acc`, applied to a completed accumulating population -/
example :
    let c0 : Cand := ⟨0, true, .fin 0, .fin 0⟩
    let c1 : Cand := ⟨1, true, .fin 0, .fin (-1)⟩
    let c2 : Cand := ⟨2, true, .fin 0, .fin 0⟩
    let P : Population := { pool := [some c0, some c2], llCalls := [some c0, some c2], nAcc := 2, nProp := 3,
                            batches := 2, rands := 1 }
    (P.pool.length ≤ 2 ∧ (P.broke = false → P.pool.length = 2)) ∧
    (∀ c', some c' ∈ P.pool → c'.inb = true ∧ ∃ b ∈ [[c0, c1], [c2]], c' ∈ checkPriorBounds b) ∧
    (∀ c', some c' ∈ P.llCalls → c'.inb = true ∧ c'.logp ≠ .ninf ∧ c'.logp ≠ .nan ∧
        (c'.logp ≠ .pinf → c'.logp.isFinite = true)) ∧
    P.pool.length = 2 := by
  intro c0 c1 c2 P
  have h : populateAcc false 2 100 none [[c0, c1], [c2]] [false, true]
      [[.fin (-1/2), .fin (-1/2), .fin (-1/2)]] = some P := by decide +kernel
  exact ⟨flow_pool_size_eq_acc false 2 100 none _ _ _ P h rfl,
         (pool_in_bounds false 2 none _ _ P rfl (Or.inr ⟨100, _, h⟩)).2,
         (likelihood_args_in_support false 2 none _ _ P rfl (Or.inr ⟨100, _, h⟩)).2,
         (pool_follows_prior_partial false 2 none _ _ P rfl (Or.inr ⟨100, _, h, rfl⟩)).1⟩

/-- `flow_pool_size_eq` applied: the final loop state of a two-batch plain population with `N = 2` -/
example :
    let c0 : Cand := ⟨0, true, .fin 0, .fin 0⟩
    let c1 : Cand := ⟨1, true, .fin 0, .fin 0⟩
    let st : PlainSt := { arr := [some c0, some c1], nAcc := 2, nProp := 2, writes := [0, 1], batches := 2, rands := 2 }
    (st.arr.take 2).length = 2 ∧ st.writes = List.range 2 := by
  intro c0 c1 st
  have h : plainLoop false 2 none (PlainSt.init 2) [[c0], [c1]] [[.fin (-1)], [.fin (-1)]] = some st := by
    decide +kernel
  have := flow_pool_size_eq false 2 none _ _ st h rfl
  exact ⟨this.1, this.2.2.1⟩

/-- `flow_population_aborts` applied (pre-fix behaviour) and `flow_population_completes` applied (all densities
finite, `strictZ = true`) -/
example :
    (plainLoop true 1 none (PlainSt.init 1) [[⟨0, true, .pinf, .fin 0⟩]] []).map (·.crashed) = some true ∧
    ({ pool := [some ⟨0, true, .fin 0, .fin 0⟩], llCalls := [some ⟨0, true, .fin 0, .fin 0⟩], nAcc := 1, nProp := 1,
       batches := 1, rands := 1 } : Population).crashed = false := by
  refine ⟨flow_population_aborts 1 none (PlainSt.init 1) _ [] [] (by decide) ⟨_, List.mem_cons_self, rfl⟩, ?_⟩
  exact flow_population_completes true 1 none [[⟨0, true, .fin 0, .fin 0⟩]] [[.fin (-1)]] _
    (Or.inr (by decide)) (Or.inl (by decide +kernel))

/-- `fill_loop_complete` applied to the run of the fill-loop example above (`keep` = finite log-prior) -/
example : ∀ s ∈ [some (⟨1, true, .fin 0, .fin 0⟩ : Cand), some ⟨2, true, .fin 0, .fin (-1)⟩],
    ∃ c, s = some c ∧ c.logp.isFinite = true ∧
      ∃ b ∈ [[(⟨0, true, .fin 0, .ninf⟩ : Cand), ⟨1, true, .fin 0, .fin 0⟩, ⟨2, true, .fin 0, .fin (-1)⟩]], c ∈ b :=
  (fill_loop_complete 2 (fun c : Cand => c.logp.isFinite)
    [[⟨0, true, .fin 0, .ninf⟩, ⟨1, true, .fin 0, .fin 0⟩, ⟨2, true, .fin 0, .fin (-1)⟩]] _ (by decide +kernel)).2

/-- `handout_nodup` and `handout_current_pool` applied to the session of the example above -/
example :
    (handedKeys (hrun {} [⟨[10, 11], [1, 0]⟩, ⟨[20, 21, 22], [2, 0, 1]⟩] [.draw, .draw, .inval, .draw])).Nodup ∧
    ∃ p, 0 < 2 ∧ [(⟨[10, 11], [1, 0]⟩ : Pop), ⟨[20, 21, 22], [2, 0, 1]⟩][2 - 1]? = some p ∧ 1 ∈ p.indices ∧
      some 21 = p.pool[1]? :=
  ⟨handout_nodup _ _ (by decide),
   handout_current_pool [⟨[10, 11], [1, 0]⟩, ⟨[20, 21, 22], [2, 0, 1]⟩] [.draw, .draw, .inval, .draw] 2 1 (some 21)
     (by decide)⟩

/-- `accepted_prior_finite` applied to an accepted point -/
example : (⟨0, true, .fin 0, .fin (-1)⟩ : Cand).logp ≠ .ninf :=
  (accepted_prior_finite ⟨0, true, .fin 0, .fin (-1)⟩ (.fin 0) (.fin (-2)) rfl (Or.inl (by decide +kernel))).1

/-- `likelihood_args_in_support_rejection` applied: all candidates in bounds with finite proposal density -/
example : ∀ c, some c ∈ (populateRejection
      [⟨0, true, .fin 0, .ninf⟩, ⟨1, true, .fin 0, .fin 0⟩, ⟨2, true, .fin (1/2), .fin (-1)⟩] [.ninf, .ninf, .ninf]).llCalls →
    c ∈ [(⟨0, true, .fin 0, .ninf⟩ : Cand), ⟨1, true, .fin 0, .fin 0⟩, ⟨2, true, .fin (1/2), .fin (-1)⟩] ∧
      c.inb = true ∧ c.logp ≠ .ninf ∧ c.logp ≠ .nan :=
  likelihood_args_in_support_rejection _ _ (by decide) (by decide)

/-- `likelihood_args_in_support_ins` applied to the importance-sampler draw of the example above -/
example :
    let g : Nat → ICand := fun i => ⟨i, true, true, true, true, true, .fin 0, .fin 0, .fin 0, false, false⟩
    ([g 2, g 3] : List ICand).length = 2 ∧ ∀ c ∈ [g 2, g 3], c.inCube = true ∧ c.logP.isFinite = true ∧
      c.logW ≠ .pinf ∧ ∃ b ∈ [[(⟨0, false, true, true, true, true, .fin 0, .fin 0, .fin 0, false, false⟩ : ICand),
        ⟨1, true, true, true, true, true, .ninf, .fin 0, .fin 0, false, false⟩, g 2], [g 3, g 4]], c ∈ b := by
  intro g
  exact likelihood_args_in_support_ins 2 _ [g 2, g 3] 2 (by decide +kernel)

/-! ### the acceptance step of the source, regenerated on every run, IS the model's

`Gen/PoolTx.lean` is produced by `harness/c09_tx.py` from the current text of `RejectionProposal.populate` (normalisation by
`np.nanmax`, `log_u = np.log(np.random.rand(N))`, `np.where((log_w - log_u) >= 0)[0]`, `x[indices]`), literally, in the
extended-value arithmetic of the model.  It selects exactly the candidates of `populateRejection`'s pool. -/

theorem EV.sub_nan_right (x : EV) : EV.sub x .nan = .nan := by cases x <;> rfl
theorem EV.ge_nan_left (y : EV) : EV.ge .nan y = false := by cases y <;> rfl

theorem select_zipWith_eq_rejectMask {α : Type} (lw : List EV) (m : EV) (lus : List EV) (x : List α) :
    select (List.zipWith (fun a b => EV.ge (EV.sub a b) (.fin 0)) (lw.map (fun w => EV.sub w m)) lus) x =
      select (rejectMask lw m lus) x := by
  induction lw generalizing lus x with
  | nil => cases lus <;> cases x <;> simp [rejectMask, select]
  | cons w ws ih =>
    cases lus with
    | nil =>
      -- no uniform left: the model reads NaN (never accepted), the code's zip stops — nothing more is selected either way
      have hfalse : ∀ (ws' : List EV) (y : List α), select (rejectMask ws' m []) y = [] := by
        intro ws'
        induction ws' with
        | nil => intro y; cases y <;> simp [rejectMask, select]
        | cons a as iha =>
          intro y
          cases y with
          | nil => simp [rejectMask, select]
          | cons y0 ys => simp [rejectMask, select, acceptRej, EV.sub_nan_right, EV.ge_nan_left, iha]
      cases x with
      | nil => simp [select]
      | cons x0 xs => simpa [select] using (hfalse (w :: ws) (x0 :: xs)).symm
    | cons u us =>
      cases x with
      | nil => simp [rejectMask, select]
      | cons x0 xs =>
        simp only [List.map_cons, List.zipWith_cons_cons, rejectMask, List.headD_cons, List.tail_cons, select, acceptRej]
        rw [ih us xs]

theorem rejection_accept_source_eq_model (cands : List Cand) (lus : List EV) :
    (Gen.PoolTx.rejection_accept (logWeights cands) lus cands).map some = (populateRejection cands lus).pool := by
  simp only [Gen.PoolTx.rejection_accept, populateRejection, select_zipWith_eq_rejectMask]

theorem EV.gt_nan_right (x : EV) : EV.gt x .nan = false := by cases x <;> rfl

theorem select_zipWith_eq_acceptMask {α : Type} (lw : List EV) (c : EV) (lus : List EV) (x : List α) :
    select (List.zipWith (fun a b => EV.gt a b) (lw.map (fun w => EV.sub w c)) lus) x =
      select (acceptMask lw c lus) x := by
  induction lw generalizing lus x with
  | nil => cases lus <;> cases x <;> simp [acceptMask, select]
  | cons w ws ih =>
    cases lus with
    | nil =>
      have hfalse : ∀ (ws' : List EV) (y : List α), select (acceptMask ws' c []) y = [] := by
        intro ws'
        induction ws' with
        | nil => intro y; cases y <;> simp [acceptMask, select]
        | cons a as iha =>
          intro y
          cases y with
          | nil => simp [acceptMask, select]
          | cons y0 ys => simp [acceptMask, select, acceptFlow, EV.gt_nan_right, iha]
      cases x with
      | nil => simp [select]
      | cons x0 xs => simpa [select] using (hfalse (w :: ws) (x0 :: xs)).symm
    | cons u us =>
      cases x with
      | nil => simp [acceptMask, select]
      | cons x0 xs =>
        simp only [List.map_cons, List.zipWith_cons_cons, acceptMask, List.headD_cons, List.tail_cons, select, acceptFlow]
        rw [ih us xs]

theorem select_length_eq_countTrue {α : Type} (m : List Bool) (x : List α) (h : m.length ≤ x.length) :
    (select m x).length = countTrue m := by
  induction m generalizing x with
  | nil => cases x <;> simp [select, countTrue]
  | cons b bs ih =>
    cases x with
    | nil => simp at h
    | cons x0 xs =>
      have h' : bs.length ≤ xs.length := by simpa using h
      cases b <;> simp [select, countTrue, ih xs h'] <;> simp [countTrue] at * <;> omega

/-- one batch of the plain branch of `FlowProposal.populate`, generated from the source: it writes
`x[accept][: min(N - n_accepted, #accepted)]` at `n_accepted` and adds the number accepted — exactly the step of the model's
`plainLoop` (`plainAccepted` with no `log_q` truncation) -/
theorem plain_batch_step_source_eq_model (N nAcc : Nat) (arr : List (Option Cand)) (x : List Cand) (lus : List EV) :
    Gen.PoolTx.plain_batch_step N nAcc arr (logWeights x) lus x =
      (let xa := select (acceptMask (logWeights x) (npMax (logWeights x)) lus) x
       (sliceWrite arr nAcc (min (N - nAcc) xa.length) xa, nAcc + xa.length)) := by
  have hlen : (List.zipWith (fun a b => EV.gt a b) ((logWeights x).map (fun w => EV.sub w (npMax (logWeights x)))) lus).length
      ≤ x.length := by
    simp [logWeights]
  simp only [Gen.PoolTx.plain_batch_step, ← select_length_eq_countTrue _ x hlen, select_zipWith_eq_acceptMask]

theorem zipWith_eq_acceptMask (lw : List EV) (c : EV) (lus : List EV) (h : lus.length = lw.length) :
    List.zipWith (fun a b => EV.gt a b) (lw.map (fun w => EV.sub w c)) lus = acceptMask lw c lus := by
  induction lw generalizing lus with
  | nil => cases lus <;> simp [acceptMask]
  | cons w ws ih =>
    cases lus with
    | nil => simp at h
    | cons u us =>
      simp only [List.map_cons, List.zipWith_cons_cons, acceptMask, acceptFlow, List.headD_cons, List.tail_cons]
      rw [ih us (by simpa using h)]

/-- one non-empty batch of the ACCUMULATING branch of `FlowProposal.populate`, generated from the source: samples and weights are
appended, the constant is `max(nanmax(log_w), log_constant)`, and — when the gate `log_n_expected >= log_n` is open — the mask is
`(log_weights − log_constant) > log_u` over ALL accumulated weights with the UPDATED constant, `n_accepted` its count; the loop is
left when `n_proposed > max_samples`: exactly the step of the model's `accLoop` (`st2` / `st3`) -/
theorem acc_batch_step_source_eq_model (g : Bool) (maxS nProp nAcc rands : Nat) (samples : List Cand) (lws : List EV) (c : EV)
    (accept : Option (List Bool)) (x : List Cand) (lus : List EV) (hl : lus.length = (lws ++ logWeights x).length) :
    Gen.PoolTx.acc_batch_step g maxS nProp nAcc rands samples lws c accept x (logWeights x) lus =
      (let lws' := lws ++ logWeights x
       let c' := pyMax (nanmax (logWeights x)) c
       let acc := acceptMask lws' c' lus
       (samples ++ x, lws', c', if g then some acc else accept, if g then countTrue acc else nAcc,
        if g then rands + 1 else rands, decide (maxS < nProp))) := by
  cases g
  · simp [Gen.PoolTx.acc_batch_step]
  · simp only [Gen.PoolTx.acc_batch_step, if_true, zipWith_eq_acceptMask _ _ _ hl]

example : Gen.PoolTx.rejection_accept [.fin 0, .fin (-1), .ninf] [.fin (-1/2), .fin (-1/2), .ninf] [10, 11, 12] = [10] := by
  decide +kernel

/-! ### the statistical clause, reduced to its deterministic core

"The pool is distributed as the prior" is a statement about frequencies and is NOT proved as such.  What the rejection step
contributes to it IS a deterministic identity: a candidate drawn with proposal density `q` and prior density `p` is accepted
exactly for the uniforms `u` in an initial interval of `[0, 1)` whose length is `(p/q) / w_max`, so the accepted mass at the
point is `q · (p/q) / w_max = p / w_max` — the prior times a constant that does not depend on the point.  Both facts need
the normaliser to be (at least) the maximum of the WEIGHTS; with any other normaliser the accepted mass is not proportional
to the prior (counter-example below: the normaliser `max log p` of seeded change C09-fA).  The uniformity of
`np.random.rand` (interval length = probability) is the one assumption. -/
section statistical
variable {K : Type} [Field K] [LinearOrder K] [IsStrictOrderedRing K]

/-- the log-space acceptance test of the code (see `accepted_iff`) is the linear test `u < w / w_max` -/
theorem log_accept_iff_linear (lu lw m : ℝ) :
    lu < lw - m ↔ Real.exp lu < Real.exp lw / Real.exp m := by
  rw [← Real.exp_sub, Real.exp_lt_exp]

/-- for a weight below the normaliser the accepted uniforms form the initial interval `[0, w / w_max)` of `[0, 1)` -/
theorem accept_interval (w wmax u : K) (hw : 0 ≤ w) (hle : w ≤ wmax) (hpos : 0 < wmax) :
    0 ≤ w / wmax ∧ w / wmax ≤ 1 ∧ ((0 ≤ u ∧ u < 1 ∧ u < w / wmax) ↔ (0 ≤ u ∧ u < w / wmax)) := by
  have h1 : w / wmax ≤ 1 := by rw [div_le_one hpos]; exact hle
  refine ⟨div_nonneg hw hpos.le, h1, ?_⟩
  constructor
  · rintro ⟨a, _, c⟩; exact ⟨a, c⟩
  · rintro ⟨a, c⟩; exact ⟨a, lt_of_lt_of_le c h1, c⟩

/-- accepted mass at a point = proposal density × length of the acceptance interval = prior / w_max:
the SAME multiple of the prior at every point -/
theorem accepted_mass_is_prior (p q wmax : K) (hq : q ≠ 0) :
    q * ((p / q) / wmax) = p / wmax := by
  field_simp

/-- with another normaliser `M` (acceptance probability `min 1 (w / M)`) the accepted masses of two points are in general
NOT in the ratio of their priors: priors 1 and 1/4, proposal densities 1/4 and 1 (weights 4 and 1/4), `M = 1` -/
theorem accepted_mass_fails_with_other_normaliser :
    let mass : ℚ → ℚ → ℚ → ℚ := fun p q M => q * min 1 ((p / q) / M)
    mass 1 (1 / 4) 1 / mass (1 / 4) 1 1 ≠ (1 : ℚ) / (1 / 4) ∧
      mass 1 (1 / 4) 4 / mass (1 / 4) 1 4 = (1 : ℚ) / (1 / 4) := by
  norm_num

example : (0 : ℚ) ≤ (1 / 2) / 2 ∧ (1 / 2 : ℚ) / 2 ≤ 1 ∧
    ((0 ≤ (1 / 8 : ℚ) ∧ (1 / 8 : ℚ) < 1 ∧ (1 / 8 : ℚ) < (1 / 2) / 2) ↔ (0 ≤ (1 / 8 : ℚ) ∧ (1 / 8 : ℚ) < (1 / 2) / 2)) :=
  accept_interval (1 / 2) 2 (1 / 8) (by norm_num) (by norm_num) (by norm_num)

end statistical

end NessaiVerif.C09
