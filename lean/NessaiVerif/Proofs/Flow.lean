import NessaiVerif.Model.FlowAlgebra
import Mathlib.Algebra.Group.Basic
import Mathlib.Algebra.Field.Basic
import Mathlib.Tactic.Abel
import Mathlib.Tactic.FieldSimp
import Mathlib.Tactic.Ring
/-
C08 — helper lemmas: composition of lawful transforms, the cascade of `CompositeTransform`,
and the lawfulness of the coupling / affine / permutation layers for arbitrary conditioners.
-/
namespace NessaiVerif.Flow
variable {X Y Z L K : Type}

section Compose
variable [AddCommGroup L]

theorem comp_lawful (t1 : Transform X Y L) (t2 : Transform Y Z L) (h1 : Lawful t1) (h2 : Lawful t2) :
    Lawful (t1.comp t2) := by
  constructor
  · intro x
    have e2 := h2.1 (t1.fwd x).1
    have e1 := h1.1 x
    simp only [Transform.comp]
    rw [e2]; simp only []; rw [e1]
    refine Prod.ext rfl ?_
    simp only []; abel
  · intro z
    have e1 := h1.2 (t2.inv z).1
    have e2 := h2.2 z
    simp only [Transform.comp]
    rw [e1]; simp only []; rw [e2]
    refine Prod.ext rfl ?_
    simp only []; abel

theorem Lawful.roundTripAt {t : Transform X Z L} (h : Lawful t) (z : Z) : RoundTripAt t z := h.2 z

/-- a lawful transform has only one left inverse: any `g` undoing `fwd` is the modelled `inv` -/
theorem lawful_left_inverse_unique (t : Transform X Z L) (h : Lawful t) (g : Z → X)
    (hg : ∀ x, g (t.fwd x).1 = x) (z : Z) : g z = (t.inv z).1 := by
  have := hg (t.inv z).1
  rw [h.2 z] at this
  exact this

/-- the fold of `_cascade` started from an arbitrary accumulator -/
def cascadeFrom (fs : List (X → X × L)) (acc : X × L) : X × L :=
  fs.foldl (fun acc f => let r := f acc.1; (r.1, acc.2 + r.2)) acc

theorem cascade_eq_from (fs : List (X → X × L)) (x : X) : cascade fs x = cascadeFrom fs (x, 0) := rfl

theorem cascadeFrom_cons (f : X → X × L) (fs : List (X → X × L)) (acc : X × L) :
    cascadeFrom (f :: fs) acc = cascadeFrom fs ((f acc.1).1, acc.2 + (f acc.1).2) := rfl

theorem cascadeFrom_shift (fs : List (X → X × L)) (x : X) (l : L) :
    cascadeFrom fs (x, l) = ((cascadeFrom fs (x, 0)).1, l + (cascadeFrom fs (x, 0)).2) := by
  induction fs generalizing x l with
  | nil => simp [cascadeFrom]
  | cons f fs ih =>
    rw [cascadeFrom_cons, cascadeFrom_cons]
    simp only []
    rw [ih (f x).1 (l + (f x).2), ih (f x).1 (0 + (f x).2)]
    refine Prod.ext rfl ?_
    simp only []; abel

theorem cascade_cons (f : X → X × L) (fs : List (X → X × L)) (x : X) :
    cascade (f :: fs) x = ((cascade fs (f x).1).1, (f x).2 + (cascade fs (f x).1).2) := by
  rw [cascade_eq_from, cascadeFrom_cons]
  simp only []
  rw [cascadeFrom_shift, cascade_eq_from]
  refine Prod.ext rfl ?_
  simp only []; abel

theorem cascade_append (fs gs : List (X → X × L)) (x : X) :
    cascade (fs ++ gs) x = ((cascade gs (cascade fs x).1).1, (cascade fs x).2 + (cascade gs (cascade fs x).1).2) := by
  induction fs generalizing x with
  | nil => simp [cascade]
  | cons f fs ih =>
    rw [List.cons_append, cascade_cons, ih, cascade_cons]
    refine Prod.ext rfl ?_
    simp only []; abel

theorem cascade_nil (x : X) : cascade ([] : List (X → X × L)) x = (x, 0) := rfl

theorem cascade_single (f : X → X × L) (x : X) : cascade [f] x = f x := by
  rw [cascade_cons, cascade_nil]
  refine Prod.ext rfl ?_
  simp

/-- `CompositeTransform(t :: ts)` is `t` followed by `CompositeTransform(ts)` -/
theorem composite_cons (t : Transform X X L) (ts : List (Transform X X L)) :
    composite (t :: ts) = t.comp (composite ts) := by
  have hf : (composite (t :: ts)).fwd = (t.comp (composite ts)).fwd := by
    funext x
    simp only [composite, Transform.comp, List.map_cons]
    rw [cascade_cons]
  have hi : (composite (t :: ts)).inv = (t.comp (composite ts)).inv := by
    funext z
    simp only [composite, Transform.comp, List.reverse_cons, List.map_append, List.map_cons, List.map_nil]
    rw [cascade_append, cascade_single]
  cases h : composite (t :: ts)
  cases h' : t.comp (composite ts)
  rw [h] at hf hi; rw [h'] at hf hi
  simp only at hf hi
  rw [hf, hi]

theorem composite_nil_lawful : Lawful (composite ([] : List (Transform X X L))) := by
  constructor <;> intro x <;> simp [composite, cascade]

theorem composite_lawful (ts : List (Transform X X L)) (h : ∀ t ∈ ts, Lawful t) : Lawful (composite ts) := by
  induction ts with
  | nil => exact composite_nil_lawful
  | cons t ts ih =>
    rw [composite_cons]
    exact comp_lawful _ _ (h t (by simp)) (ih fun t' ht' => h t' (by simp [ht']))

end Compose

section Layers
variable [Field K] [AddCommGroup L] {n : Nat}

theorem maskOut_update (m : Fin n → Bool) (x F : Fin n → K) :
    maskOut m (fun i => if m i then F i else x i) = maskOut m x := by
  funext i
  simp only [maskOut]
  split <;> simp_all

theorem coupling_lawful' (lg : K → L) (m : Fin n → Bool) (s t : (Fin n → K) → Fin n → K)
    (hs : ∀ c i, m i = true → s c i ≠ 0) : Lawful (coupling lg m s t) := by
  constructor
  · intro x
    simp only [coupling]
    rw [maskOut_update]
    refine Prod.ext ?_ rfl
    funext i
    by_cases h : m i = true
    · have := hs (maskOut m x) i h
      simp only [h, if_true]
      field_simp
      ring
    · simp [h]
  · intro y
    simp only [coupling]
    rw [maskOut_update]
    refine Prod.ext ?_ (by simp)
    funext i
    by_cases h : m i = true
    · have := hs (maskOut m y) i h
      simp only [h, if_true]
      field_simp
      ring
    · simp [h]

theorem affine_lawful' (lg : K → L) (a b : Fin n → K) (ha : ∀ i, a i ≠ 0) : Lawful (affine lg a b) := by
  constructor
  · intro x
    simp only [affine]
    refine Prod.ext ?_ rfl
    funext i
    have := ha i
    simp only []
    field_simp
    ring
  · intro y
    simp only [affine]
    refine Prod.ext ?_ (by simp)
    funext i
    have := ha i
    simp only []
    field_simp
    ring

omit [Field K] in
theorem permutation_lawful' (σ σinv : Fin n → Fin n) (h1 : ∀ i, σ (σinv i) = i) (h2 : ∀ i, σinv (σ i) = i) :
    Lawful (permutation (K := K) (L := L) σ σinv) := by
  constructor
  · intro x
    simp only [permutation]
    refine Prod.ext ?_ (by simp)
    funext i
    simp [h1]
  · intro y
    simp only [permutation]
    refine Prod.ext ?_ (by simp)
    funext i
    simp [h2]

end Layers

end NessaiVerif.Flow
