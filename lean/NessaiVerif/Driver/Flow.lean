import NessaiVerif.Model.FlowAlgebra
import NessaiVerif.Driver.Parse
/-
Line protocol of the flow area (C08).  The primitives read from the real torch / numpy objects at ONE point
(base log-density, transform log|det|, rescaling log-Jacobian, alternative latent log-density) arrive as exact
rationals of the float64 values; the answer is what the wrapper of `Model/FlowAlgebra.lean` returns, as an exact
rational.  Points themselves are abstract (`Unit`; for `fm_slp` the latent type is `Bool`: `false` = the noise the
flow draws itself, `true` = the supplied `z`).

  flow nflow_lp  b ld                      NFlow.log_prob
  flow nflow_flp b ld                      NFlow.forward_and_log_prob (log-density)
  flow nflow_slp b ldi                     NFlow.sample_and_log_prob  (log-density)
  flow fm_slp <hasz> <alt|none> bNoise bZ ldiNoise ldiZ      FlowModel.sample_and_log_prob
  flow fp_fwd <rescale> b ld jr            FlowProposal.forward_pass
  flow fp_bwd <rescale> <alt|none> b ldi jri                 FlowProposal.backward_pass
  flow ifp_row j [b:ld,…]                  ImportanceFlowProposal.compute_meta_proposal_samples (log_q row)
  flow ifp_upd level j [b:ld,…] [q,…]      ImportanceFlowProposal.update_log_q
  flow ifp_draw i jcheck [b:ld,…]          ImportanceFlowProposal.draw (log_q row)
  flow ar fwd|inv [v,…] [[S rows]] [[T rows]]   masked affine autoregressive layer in dimension n = length of v, conditioners
                                           affine in the strict prefix: s_i(x) = S[i][0] + Σ_{j<i} S[i][j+1]·x_j (same for t);
                                           answer: `[mapped point] J` with J = ∏ s_i the multiplicative volume factor of the
                                           forward map at the (pre-)image;  `err=value` when some s_i = 0
-/
namespace NessaiVerif.Driver.Flow
open NessaiVerif NessaiVerif.Parse NessaiVerif.Flow

/-- a flow at one abstract point: forward gives log|det| `ld`, inverse gives `ldi`, base density `b` -/
def pointFlow (b ld ldi : Rat) : NFlowM Unit Unit Rat :=
  ⟨⟨fun _ => ((), ld), fun _ => ((), ldi)⟩, fun _ => b⟩

def pointR (jr jri : Rat) : Transform Unit Unit Rat := ⟨fun _ => ((), jr), fun _ => ((), jri)⟩

def parsePair? (s : String) : Option (Rat × Rat) :=
  match s.splitOn ":" with
  | [a, b] => do
      let a ← parseRat? a
      let b ← parseRat? b
      some (a, b)
  | _ => none

def flowsOf (ps : List (Rat × Rat)) : List (NFlowM Unit Unit Rat) := ps.map fun p => pointFlow p.1 p.2 0

/-- conditioner `i` from a coefficient table: constant term + coefficients of the strict prefix only -/
def tableFn {n : Nat} (tab : List (List Rat)) (i : Fin n) (x : Fin n → Rat) : Rat :=
  let row := tab.getD i.val []
  row.getD 0 0 + (List.ofFn fun j : Fin n => if j.val < i.val then row.getD (j.val + 1) 0 * x j else 0).sum

def arRun (inv : Bool) (v : List Rat) (S T : List (List Rat)) : String :=
  let n := v.length
  let x : Fin n → Rat := fun i => v.getD i.val 0
  let s : Fin n → (Fin n → Rat) → Rat := tableFn S
  let t : Fin n → (Fin n → Rat) → Rat := tableFn T
  let tr : Transform (Fin n → Rat) (Fin n → Rat) Rat := autoregressive (fun a => a) s t
  let out := if inv then (tr.inv x).1 else (tr.fwd x).1
  let pre := if inv then out else x
  let scales := List.ofFn fun i : Fin n => s i pre
  if scales.any (· == 0) then "err=value"
  else showList showRat (List.ofFn out) ++ " " ++ showRat (scaleProd (fun _ => true) (fun i => s i pre))

def handle (toks : List String) : String :=
  match toks with
  | ["ar", dir, v, S, T] =>
    match parseList? parseRat? v, parseList? (parseList? parseRat?) S, parseList? (parseList? parseRat?) T with
    | some v, some S, some T =>
      if dir == "fwd" then arRun false v S T else if dir == "inv" then arRun true v S T else "bad-op"
    | _, _, _ => "bad-op"
  | ["nflow_lp", b, ld] =>
    match parseRat? b, parseRat? ld with
    | some b, some ld => showRat ((pointFlow b ld 0).logProb ())
    | _, _ => "bad-op"
  | ["nflow_flp", b, ld] =>
    match parseRat? b, parseRat? ld with
    | some b, some ld => showRat ((pointFlow b ld 0).forwardAndLogProb ()).2
    | _, _ => "bad-op"
  | ["nflow_slp", b, ldi] =>
    match parseRat? b, parseRat? ldi with
    | some b, some ldi => showRat ((pointFlow b 0 ldi).sampleAndLogProb ()).2
    | _, _ => "bad-op"
  | ["fm_slp", hz, alt, bn, bz, ln, lz] =>
    match parseBool? hz, parseOpt? parseRat? alt, parseRat? bn, parseRat? bz, parseRat? ln, parseRat? lz with
    | some hz, some alt, some bn, some bz, some ln, some lz =>
      let f : NFlowM Unit Bool Rat :=
        ⟨⟨fun _ => (false, 0), fun z => ((), if z then lz else ln)⟩, fun z => if z then bz else bn⟩
      showRat (fmSampleAndLogProb f false (if hz then some true else none) (alt.map fun a => fun _ => a)).2
    | _, _, _, _, _, _ => "bad-op"
  | ["fp_fwd", rs, b, ld, jr] =>
    match parseBool? rs, parseRat? b, parseRat? ld, parseRat? jr with
    | some rs, some b, some ld, some jr => showRat (fpForwardPass (pointFlow b ld 0) (pointR jr 0) rs ()).2
    | _, _, _, _ => "bad-op"
  | ["fp_bwd", rs, alt, b, ldi, jri] =>
    match parseBool? rs, parseOpt? parseRat? alt, parseRat? b, parseRat? ldi, parseRat? jri with
    | some rs, some alt, some b, some ldi, some jri =>
      showRat (fpBackwardPass (pointFlow b 0 ldi) (pointR 0 jri) (alt.map fun a => fun _ => a) rs ()).2
    | _, _, _, _, _ => "bad-op"
  | ["ifp_row", j, ps] =>
    match parseRat? j, parseList? parsePair? ps with
    | some j, some ps => showList showRat (ifpMetaRow (flowsOf ps) (pointR j 0) ())
    | _, _ => "bad-op"
  | ["ifp_upd", level, j, ps, q] =>
    match parseNat? level, parseRat? j, parseList? parsePair? ps, parseList? parseRat? q with
    | some level, some j, some ps, some q =>
      showOpt (showList showRat) (ifpUpdateLogQ (flowsOf ps) (pointR j 0) level () q)
    | _, _, _, _ => "bad-op"
  | ["ifp_draw", i, j, ps] =>
    match parseNat? i, parseRat? j, parseList? parsePair? ps with
    | some i, some j, some ps =>
      showOpt (fun p => showList showRat p.2) (ifpDraw (flowsOf ps) (pointR j 0) id i ())
    | _, _, _ => "bad-op"
  | _ => "bad-op"

end NessaiVerif.Driver.Flow
