import NessaiVerif.Proofs.Flow
import NessaiVerif.Gen.FlowTrain
import NessaiVerif.Proofs.FlowReal
import NessaiVerif.Proofs.FlowTri
import Mathlib.Tactic.Linarith
/-
C08 — flow and proposal densities are consistent with their samples.

PARTIAL proof.  What is proved: the log-density bookkeeping of nessai's wrapper layers
(`NFlow`, `FlowModel`, `FlowProposal`, `ImportanceFlowModel`/`ImportanceFlowProposal`) attaches to a generated
point exactly the density the same layer computes forwards at that point, for every lawful transform
(inverse pair with opposite log-Jacobians), for any point/latent types and any additive commutative group of
log-densities; compositions (`CompositeTransform`) of lawful layers are lawful; affine coupling layers with
ARBITRARY conditioner functions, masked affine AUTOREGRESSIVE layers (MAF / MADE) in every dimension with arbitrary
conditioners of the strict prefix and the literal sweep-loop inverse, triangular affine maps and the LU linear layer,
elementwise affine layers and permutations are lawful — hence RealNVP stacks (coupling + permutation / LU + batch norm in
eval mode / actnorm) and MAF stacks (autoregressive + permutation + batch norm) of any depth.
The density theorems take POINTWISE round-trip hypotheses (`RoundTripAt`, at the generating latent point and at the
generated x'-point); they are discharged here for the layers above and for affine rescalings, while inversion, angle /
polar and logit reparameterisations enter only through the pointwise hypothesis (checked numerically by the harness).
NOT proved: that the density integrates to one, that `Σ log|s|` is the log-determinant of the derivative
(calculus), lawfulness of glasflow's rational-quadratic spline and SVD (Householder) layers, batch norm in training mode,
and all floating-point numerics — the harness checks those numerically on generated points.
-/
namespace NessaiVerif.C08
open NessaiVerif.Flow

variable {X Y Z L K : Type}

/-! ## lawful transforms compose; the built-in layers are lawful -/

/-- Two lawful transforms in sequence form a lawful transform: the round trip returns the input and the
accumulated log-Jacobians are opposite. -/
theorem compose_lawful [AddCommGroup L] (t1 : Transform X Y L) (t2 : Transform Y Z L)
    (h1 : Lawful t1) (h2 : Lawful t2) : Lawful (t1.comp t2) := comp_lawful t1 t2 h1 h2

example : Lawful ((⟨fun x => (x + 3, 2), fun z => (z - 3, -2)⟩ : Transform ℤ ℤ ℤ).comp
    ⟨fun x => (-x, 5), fun z => (-z, -5)⟩) :=
  compose_lawful _ _ ⟨fun x => by simp, fun z => by simp⟩ ⟨fun x => by simp, fun z => by simp⟩

/-- **forward followed by inverse returns the input** for a stack of any number of lawful layers combined the
way `CompositeTransform` does (left-to-right cascade, inverses in reverse order, log-Jacobians summed from 0):
`inverse(forward(x)) = (x, -logJ)` and `forward(inverse(z)) = (z, -logJ)`. -/
theorem forward_inverse [AddCommGroup L] (ts : List (Transform X X L)) (h : ∀ t ∈ ts, Lawful t) :
    Lawful (composite ts) := composite_lawful ts h

example : Lawful (composite [(⟨fun x => (x + 3, 2), fun z => (z - 3, -2)⟩ : Transform ℤ ℤ ℤ),
    ⟨fun x => (-x, 5), fun z => (-z, -5)⟩]) := by
  apply forward_inverse
  intro t ht
  simp only [List.mem_cons, List.not_mem_nil, or_false] at ht
  rcases ht with rfl | rfl <;> exact ⟨fun x => by simp, fun z => by simp⟩

example : ((composite [(⟨fun x => (x + 3, 2), fun z => (z - 3, -2)⟩ : Transform ℤ ℤ ℤ),
    ⟨fun x => (-x, 5), fun z => (-z, -5)⟩]).fwd 4) = (-7, 7) := by decide

/-- An affine coupling layer `x₂ ↦ x₂ · s(x₁) + t(x₁)` with arbitrary conditioner functions `s ≠ 0`, `t`
(any mask, any dimension) is a lawful transform with log-Jacobian `Σ_{masked} lg (s i)`. -/
theorem coupling_lawful [Field K] [AddCommGroup L] {n : Nat} (lg : K → L) (m : Fin n → Bool)
    (s t : (Fin n → K) → Fin n → K) (hs : ∀ c i, m i = true → s c i ≠ 0) :
    Lawful (coupling lg m s t) := coupling_lawful' lg m s t hs

example : Lawful (coupling (K := ℚ) (L := ℚ) (n := 2) (fun a => a) (fun i => i.val == 1)
    (fun c _ => c 0 * c 0 + 1) (fun c _ => c 0)) :=
  coupling_lawful _ _ _ _ (fun c i _ => by have := mul_self_nonneg (c 0); intro h0; linarith)

/-- the non-vanishing scale is needed: with `s = 0` the layer collapses the masked feature and the inverse
does not return the input -/
theorem coupling_lawful_fails_without :
    ¬ Lawful (coupling (K := ℚ) (L := ℚ) (n := 1) (fun a => a) (fun _ => true) (fun _ _ => 0) (fun _ _ => 0)) := by
  intro h
  have := congrArg (fun p => p.1 0) (h.1 (fun _ => 1))
  simp [coupling] at this

/-- Elementwise affine layers (`ActNorm`, `BatchNorm` in eval mode) with non-zero scale are lawful. -/
theorem affine_lawful [Field K] [AddCommGroup L] {n : Nat} (lg : K → L) (a b : Fin n → K)
    (ha : ∀ i, a i ≠ 0) : Lawful (affine lg a b) := affine_lawful' lg a b ha

example : Lawful (affine (K := ℚ) (L := ℚ) (n := 2) (fun a => a) (fun _ => 2) (fun _ => -1)) :=
  affine_lawful _ _ _ (fun _ => by norm_num)

/-- Permutation layers are lawful with zero log-Jacobian. -/
theorem permutation_lawful [AddCommGroup L] {n : Nat} (σ σinv : Fin n → Fin n)
    (h1 : ∀ i, σ (σinv i) = i) (h2 : ∀ i, σinv (σ i) = i) :
    Lawful (permutation (K := K) (L := L) σ σinv) := permutation_lawful' σ σinv h1 h2

example : Lawful (permutation (K := ℚ) (L := ℚ) (n := 2) Fin.rev Fin.rev) :=
  permutation_lawful _ _ (fun i => Fin.rev_rev i) (fun i => Fin.rev_rev i)

/-- **Masked affine autoregressive layer (MAF / MADE), every dimension.**  `y i = x i · s i(x) + t i(x)` where `s i`,
`t i` are arbitrary functions of the strict prefix `x 0 … x (i-1)` and `s i ≠ 0`: the one-pass forward and the literal
inverse loop of `AutoregressiveTransform.inverse` (start from zeros, `n` sweeps `x ← (y - t(x)) / s(x)`, log|det| from the
last sweep's parameters) are mutual inverses with opposite log-Jacobians `± Σ lg (s i)`. -/
theorem autoregressive_lawful [Field K] [AddCommGroup L] {n : Nat} (lg : K → L) (s t : Fin n → (Fin n → K) → K)
    (hs : PrefixDep s) (ht : PrefixDep t) (hne : ∀ i x, s i x ≠ 0) : Lawful (autoregressive lg s t) :=
  autoregressive_lawful' lg s t hs ht hne

/-- a 3-d autoregressive layer with genuinely point-dependent conditioners -/
def exARs : Fin 3 → (Fin 3 → ℚ) → ℚ := fun i x => if i.val = 0 then 2 else if i.val = 1 then x 0 * x 0 + 1 else 3
/-- shifts of the example layer -/
def exARt : Fin 3 → (Fin 3 → ℚ) → ℚ := fun i x => if i.val = 0 then 1 else if i.val = 1 then x 0 else x 0 * x 1

example : Lawful (autoregressive (L := ℚ) (fun a => a) exARs exARt) := by
  refine autoregressive_lawful _ _ _ ?_ ?_ ?_
  · intro i x x' h
    fin_cases i <;> simp [exARs]
    rw [h 0 (by simp)]
  · intro i x x' h
    fin_cases i <;> simp [exARt]
    · rw [h 0 (by simp)]
    · rw [h 0 (by simp), h 1 (by simp)]
  · intro i x
    fin_cases i <;> simp [exARs]
    have := mul_self_nonneg (x 0); intro h0; linarith

/-- the sweep loop really inverts: the example layer maps (1,2,3) to (3,5,11) and back -/
example : ((autoregressive (L := ℚ) (fun a => a) exARs exARt).fwd ![1, 2, 3]).1 = ![3, 5, 11] ∧
    ((autoregressive (L := ℚ) (fun a => a) exARs exARt).inv ![3, 5, 11]).1 = ![1, 2, 3] := by
  constructor <;> (funext i; fin_cases i <;> simp [autoregressive, arStep, iterN, exARs, exARt] <;> norm_num)

/-- the strict-prefix hypothesis is needed: a "conditioner" that looks at the feature it transforms gives a map the
sweep loop does not invert -/
theorem autoregressive_lawful_fails_without :
    ¬ Lawful (autoregressive (K := ℚ) (L := ℚ) (n := 1) (fun a => a) (fun _ x => x 0 + 1) (fun _ _ => 0)) := by
  intro h
  have := congrArg (fun p => p.1 0) (h.1 (fun _ => 1))
  simp [autoregressive, arStep, iterN] at this

/-- Lower-triangular affine map `y = M x + b` (`M` with non-zero diagonal `d` and strict part `A`) is lawful with
log-Jacobian `Σ lg (d i)`; it is the autoregressive layer with constant scales and affine shifts, and its inverse
loop is forward substitution.  (`triLower_fwd_eq`: the forward map is the matrix product.) -/
theorem triangular_lower_lawful [Field K] [AddCommGroup L] {n : Nat} (lg : K → L) (d : Fin n → K)
    (A : Fin n → Fin n → K) (b : Fin n → K) (hd : ∀ i, d i ≠ 0) :
    Lawful (triLower lg d A b) ∧
    ∀ x i, ((triLower lg d A b).fwd x).1 i = (∑ j, lowerMat d A i j * x j) + b i :=
  ⟨triLower_lawful' lg d A b hd, triLower_fwd_eq lg d A b⟩

example : Lawful (triLower (K := ℚ) (L := ℚ) (n := 3) (fun a => a) (fun _ => 2) (fun i j => i.val + j.val) (fun _ => 1)) :=
  (triangular_lower_lawful _ _ _ _ (fun _ => by norm_num)).1

/-- Upper-triangular affine map (back substitution) is lawful and its forward map is the matrix product. -/
theorem triangular_upper_lawful [Field K] [AddCommGroup L] {n : Nat} (lg : K → L) (d : Fin n → K)
    (A : Fin n → Fin n → K) (b : Fin n → K) (hd : ∀ i, d i ≠ 0) :
    Lawful (triUpper lg d A b) ∧
    ∀ x i, ((triUpper lg d A b).fwd x).1 i = (∑ j, upperMat d A i j * x j) + b i :=
  ⟨triUpper_lawful' lg d A b hd, triUpper_fwd_eq lg d A b⟩

example : Lawful (triUpper (K := ℚ) (L := ℚ) (n := 3) (fun a => a) (fun _ => 2) (fun i j => i.val + j.val) (fun _ => 1)) :=
  (triangular_upper_lawful _ _ _ _ (fun _ => by norm_num)).1

/-- **LU linear layer** (`LULinear`): `y = L (U x) + b` with unit-lower-triangular `L` and upper-triangular `U` with
non-zero diagonal `ud` is lawful with the log-Jacobian the code reports, `± Σ lg (ud i)`; the inverse is the two
triangular solves. -/
theorem lu_linear_lawful [Field K] [AddCommGroup L] {n : Nat} (lg : K → L) (Lo : Fin n → Fin n → K)
    (ud : Fin n → K) (Up : Fin n → Fin n → K) (b : Fin n → K) (hud : ∀ i, ud i ≠ 0) :
    Lawful (luLinear lg Lo ud Up b) ∧
    ∀ x i, ((luLinear lg Lo ud Up b).fwd x).1 i
      = (∑ j, lowerMat (fun _ => 1) Lo i j * (∑ k, upperMat ud Up j k * x k)) + b i :=
  ⟨luLinear_lawful' lg Lo ud Up b hud, luLinear_fwd_eq lg Lo ud Up b⟩

example : Lawful (luLinear (K := ℚ) (L := ℚ) (n := 2) (fun a => a) (fun _ _ => 5) (fun _ => 3) (fun _ _ => 7) (fun _ => 1)) :=
  (lu_linear_lawful _ _ _ _ _ (fun _ => by norm_num)).1

/-- **Cached evaluation path of the LU layer** (`using_cache=True`, what nessai builds, used in eval mode): the forward
map is the product with the cached matrix `W = lower @ upper`, and every left inverse of it — in particular the cached
`y ↦ W⁻¹ (y - b)` — is the modelled inverse (the two triangular solves).  Same function, different evaluation order. -/
theorem lu_linear_cached_path_same_function [Field K] [AddCommGroup L] {n : Nat} (lg : K → L)
    (Lo : Fin n → Fin n → K) (ud : Fin n → K) (Up : Fin n → Fin n → K) (b : Fin n → K) (hud : ∀ i, ud i ≠ 0) :
    (∀ x i, ((luLinear lg Lo ud Up b).fwd x).1 i
      = (∑ k, (∑ j, lowerMat (fun _ => 1) Lo i j * upperMat ud Up j k) * x k) + b i) ∧
    (∀ g : (Fin n → K) → (Fin n → K), (∀ x, g ((luLinear lg Lo ud Up b).fwd x).1 = x) →
      ∀ y, g y = ((luLinear lg Lo ud Up b).inv y).1) :=
  ⟨luLinear_fwd_eq_cached lg Lo ud Up b,
   fun g hg y => lawful_left_inverse_unique _ (luLinear_lawful' lg Lo ud Up b hud) g hg y⟩

example (x : Fin 2 → ℚ) (i : Fin 2) :
    ((luLinear (L := ℚ) (fun a => a) (fun _ _ => 5) (fun _ => 3) (fun _ _ => 7) (fun _ => 1)).fwd x).1 i
      = (∑ k, (∑ j, lowerMat (fun _ => 1) (fun _ _ => 5) i j * upperMat (fun _ => 3) (fun _ _ => 7) j k) * x k) + 1 :=
  (lu_linear_cached_path_same_function (fun a => a) _ _ _ _ (fun _ => by norm_num)).1 x i

/-- a zero on the diagonal of `U` makes the layer singular -/
theorem lu_linear_lawful_fails_without :
    ¬ Lawful (luLinear (K := ℚ) (L := ℚ) (n := 1) (fun a => a) (fun _ _ => 0) (fun _ => 0) (fun _ _ => 0) (fun _ => 0)) := by
  intro h
  have := congrArg (fun p => p.1 0) (h.1 (fun _ => 1))
  simp [luLinear, triUpper, triLower, autoregressive, Transform.comp, permutation, arStep, iterN, lowerRow, finRev] at this

/-- Over ℝ with `lg = log|·|` the log-Jacobian a coupling layer reports is the logarithm of the absolute
multiplicative volume factor `|∏_{masked} s i|` of the map (exact statement in the field, no rounding). -/
theorem coupling_logJ_eq_log_volume_factor {n : Nat} (m : Fin n → Bool)
    (s t : (Fin n → ℝ) → Fin n → ℝ) (hs : ∀ c i, m i = true → s c i ≠ 0) (x : Fin n → ℝ) :
    ((coupling Real.log m s t).fwd x).2 = Real.log |scaleProd m (s (maskOut m x))| :=
  scaleLogSum_eq_log_scaleProd m _ (fun i hi => hs _ i hi)

example : ((coupling (n := 1) Real.log (fun _ => true) (fun _ _ => 2) (fun _ _ => 0)).fwd (fun _ => 1)).2
    = Real.log |scaleProd (n := 1) (fun _ => true) (fun _ => (2 : ℝ))| :=
  coupling_logJ_eq_log_volume_factor _ _ _ (fun _ _ _ => by norm_num) _

/-- Over ℝ the log-Jacobian of the autoregressive layer is `log |∏ s i|`, and that of the LU layer `log |∏ ud i|`
(the multiplicative volume factors, exact in the field). -/
theorem autoregressive_logJ_eq_log_volume_factor {n : Nat} (s t : Fin n → (Fin n → ℝ) → ℝ)
    (hne : ∀ i x, s i x ≠ 0) (x : Fin n → ℝ) (Lo Up : Fin n → Fin n → ℝ) (ud b : Fin n → ℝ) (hud : ∀ i, ud i ≠ 0) :
    ((autoregressive Real.log s t).fwd x).2 = Real.log |scaleProd (fun _ => true) (fun i => s i x)| ∧
    ((luLinear Real.log Lo ud Up b).fwd x).2 = Real.log |scaleProd (fun _ => true) ud| :=
  ⟨scaleLogSum_eq_log_scaleProd _ _ (fun i _ => hne i x), scaleLogSum_eq_log_scaleProd _ _ (fun i _ => hud i)⟩

example : ((luLinear (n := 1) Real.log (fun _ _ => 0) (fun _ => 2) (fun _ _ => 0) (fun _ => 0)).fwd (fun _ => 1)).2
    = Real.log |scaleProd (n := 1) (fun _ => true) (fun _ => (2 : ℝ))| :=
  (autoregressive_logJ_eq_log_volume_factor (fun _ _ => 1) (fun _ _ => 0) (fun _ _ => one_ne_zero) _ _ _ _ _
    (fun _ => by norm_num)).2

/-! ## the density attached to a generated point equals the density evaluated at it

The hypotheses are POINTWISE (`RoundTripAt`): of the flow at the latent point the sample is generated from, and of the
reparameterisation at the generated x'-point.  They follow from `Lawful` (`Lawful.roundTripAt`) — proved above for
coupling / autoregressive / LU / affine / permutation stacks and for affine rescalings (`affine_rescaling_round_trip`).
nessai's boundary-inversion, angle / polar and logit reparameterisations are not globally invertible (two x map to one
x'; logit is only defined on (0,1)); they enter ONLY through the pointwise hypothesis at the generated point, which the
harness checks numerically on every generated point (C07 covers the reparameterisations themselves). -/

/-- `NFlow`: the log-density `sample_and_log_prob` returns with a sample equals `log_prob` of that sample, and
`forward_and_log_prob` of the sample returns the noise it was generated from with the same log-density. -/
theorem gen_density_eq_eval_density_nflow [AddCommGroup L] (f : NFlowM X Z L) (noise : Z)
    (h : RoundTripAt f.T noise) :
    f.logProb (f.sampleAndLogProb noise).1 = (f.sampleAndLogProb noise).2 ∧
    f.forwardAndLogProb (f.sampleAndLogProb noise).1 = (noise, (f.sampleAndLogProb noise).2) := by
  have e : f.T.fwd (f.T.inv noise).1 = (noise, -(f.T.inv noise).2) := h
  simp only [NFlowM.logProb, NFlowM.sampleAndLogProb, NFlowM.forwardAndLogProb, NFlowM.forward,
    NFlowM.baseLogProb]
  rw [e]
  exact ⟨by simp only []; abel, Prod.ext rfl (by simp only []; abel)⟩

/-- a small lawful flow on ℤ used in the satisfiability examples -/
def exFlow : NFlowM ℤ ℤ ℤ := ⟨⟨fun x => (x + 3, 2), fun z => (z - 3, -2)⟩, fun z => -z⟩
/-- the example flow is lawful (used to instantiate the theorems on a concrete, non-trivial state) -/
theorem exFlow_lawful : Lawful exFlow.T := ⟨fun x => by simp [exFlow], fun z => by simp [exFlow]⟩

example : exFlow.logProb (exFlow.sampleAndLogProb 10).1 = (exFlow.sampleAndLogProb 10).2 :=
  (gen_density_eq_eval_density_nflow exFlow 10 (exFlow_lawful.roundTripAt 10)).1

/-- the round-trip hypothesis is needed: a transform whose inverse reports the log-Jacobian with the
wrong sign attaches a different density to the sample than `log_prob` computes for it -/
theorem gen_density_eq_eval_density_fails_without :
    ∃ f : NFlowM ℤ ℤ ℤ, ¬ RoundTripAt f.T 0 ∧ f.logProb (f.sampleAndLogProb 0).1 ≠ (f.sampleAndLogProb 0).2 := by
  refine ⟨⟨⟨fun x => (x, 1), fun z => (z, 1)⟩, fun _ => 0⟩, ?_, by decide⟩
  intro h
  have := congrArg Prod.snd h
  simp at this

/-- `FlowModel.sample_and_log_prob` (no `z`, or supplied `z` with no alternative distribution): the returned
log-density equals `FlowModel.log_prob` at the returned sample, and `forward_and_log_prob` maps the sample back
to the latent point with that same log-density. -/
theorem gen_density_eq_eval_density_flowmodel [AddCommGroup L] (f : NFlowM X Z L)
    (noise : Z) (z : Option Z) (h : RoundTripAt f.T (z.getD noise)) :
    fmLogProb f (fmSampleAndLogProb f noise z none).1 = (fmSampleAndLogProb f noise z none).2 ∧
    fmForwardAndLogProb f (fmSampleAndLogProb f noise z none).1
      = (z.getD noise, (fmSampleAndLogProb f noise z none).2) := by
  cases z with
  | none => exact gen_density_eq_eval_density_nflow f noise h
  | some z =>
    have e : f.T.fwd (f.T.inv z).1 = (z, -(f.T.inv z).2) := h
    simp only [fmLogProb, fmSampleAndLogProb, fmForwardAndLogProb, NFlowM.logProb, NFlowM.forwardAndLogProb,
      NFlowM.forward, NFlowM.inverse, NFlowM.baseLogProb, Option.getD_some]
    rw [e]
    exact ⟨by simp only []; abel, Prod.ext rfl (by simp only []; abel)⟩

example : fmLogProb exFlow (fmSampleAndLogProb exFlow 0 (some 7) none).1
    = (fmSampleAndLogProb exFlow 0 (some 7) none).2 :=
  (gen_density_eq_eval_density_flowmodel exFlow 0 (some 7) (exFlow_lawful.roundTripAt 7)).1

/-- With an alternative latent distribution the base term of the returned density is THAT distribution's
log-density at `z` (not the flow's base density): the result is `alt z` plus the flow's log-Jacobian term
`log_prob(x) - base(z)`; it coincides with the flow density exactly when `alt z = base z`. -/
theorem flowmodel_alt_dist_uses_that_density [AddCommGroup L] (f : NFlowM X Z L)
    (noise z : Z) (alt : Z → L) (h : RoundTripAt f.T z) :
    (fmSampleAndLogProb f noise (some z) (some alt)).1 = (fmSampleAndLogProb f noise (some z) none).1 ∧
    (fmSampleAndLogProb f noise (some z) (some alt)).2
      = alt z + (fmLogProb f (fmSampleAndLogProb f noise (some z) (some alt)).1 - f.base z) := by
  have e : f.T.fwd (f.T.inv z).1 = (z, -(f.T.inv z).2) := h
  simp only [fmLogProb, fmSampleAndLogProb, NFlowM.logProb, NFlowM.inverse, NFlowM.baseLogProb]
  rw [e]
  refine ⟨?_, by simp only []; abel⟩
  simp only []

example : (fmSampleAndLogProb exFlow 0 (some 7) (some fun _ => 100)).2
    = 100 + (fmLogProb exFlow (fmSampleAndLogProb exFlow 0 (some 7) (some fun _ => 100)).1 - exFlow.base 7) :=
  (flowmodel_alt_dist_uses_that_density exFlow 0 7 (fun _ => 100) (exFlow_lawful.roundTripAt 7)).2

/-- `FlowProposal`: the density `backward_pass` attaches to the physical-space point it generates from `z`
(flow density minus the inverse-rescaling log-Jacobian) equals the density `forward_pass` computes at that
point (flow density plus the rescaling log-Jacobian), and `forward_pass` returns `z`; with and without rescaling.
Hypotheses, both pointwise: the flow round-trips at `z`; when rescaling is on, the reparameterisation round-trips at
the generated x'-point `(f.T.inv z).1` (inverse-rescaled point maps forward to it with the opposite log-Jacobian). -/
theorem gen_density_eq_eval_density_flowproposal [AddCommGroup L] (f : NFlowM X Z L) (R : Transform X X L)
    (rescale : Bool) (z : Z) (hT : RoundTripAt f.T z)
    (hR : rescale = true → RoundTripAt R (f.T.inv z).1) :
    fpForwardPass f R rescale (fpBackwardPass f R none rescale z).1
      = (z, (fpBackwardPass f R none rescale z).2) := by
  have eT : f.T.fwd (f.T.inv z).1 = (z, -(f.T.inv z).2) := hT
  cases rescale with
  | false =>
    simp only [fpForwardPass, fpBackwardPass, fmSampleAndLogProb, fmForwardAndLogProb, NFlowM.forwardAndLogProb,
      NFlowM.forward, NFlowM.inverse, NFlowM.baseLogProb, Bool.false_eq_true, if_false]
    rw [eT]
    exact Prod.ext rfl (by simp only []; abel)
  | true =>
    have eR : R.fwd (R.inv (f.T.inv z).1).1 = ((f.T.inv z).1, -(R.inv (f.T.inv z).1).2) := hR rfl
    simp only [fpForwardPass, fpBackwardPass, fmSampleAndLogProb, fmForwardAndLogProb, NFlowM.forwardAndLogProb,
      NFlowM.forward, NFlowM.inverse, NFlowM.baseLogProb, if_true]
    rw [eR]; simp only []; rw [eT]
    exact Prod.ext rfl (by simp only []; abel)

/-- **An affine rescaling satisfies the pointwise hypothesis everywhere.**  `x' i = x i · a i + b i` with `a i ≠ 0`
(rescale-to-bounds without inversion, z-score, scale, null): at every x'-point the inverse-rescaled point maps forward
to it with the opposite log-Jacobian. -/
theorem affine_rescaling_round_trip [Field K] [AddCommGroup L] {n : Nat} (lg : K → L) (a b : Fin n → K)
    (ha : ∀ i, a i ≠ 0) (x' : Fin n → K) : RoundTripAt (affine lg a b) x' :=
  (affine_lawful lg a b ha).roundTripAt x'

/-- a concrete 2-d flow (one coupling layer with a quadratic conditioner) and a concrete affine rescaling
(`x' = 2 x - 1`, the map of [0,1]² onto [-1,1]²) over ℚ -/
def exFlow2 : NFlowM (Fin 2 → ℚ) (Fin 2 → ℚ) ℚ :=
  ⟨coupling (fun a => a) (fun i => i.val == 1) (fun c _ => c 0 * c 0 + 1) (fun c _ => c 0), fun z => -(z 0 + z 1)⟩
/-- the affine rescaling of the examples -/
def exAffineR : Transform (Fin 2 → ℚ) (Fin 2 → ℚ) ℚ := affine (fun a => a) (fun _ => 2) (fun _ => -1)
/-- the example flow is lawful (a coupling layer with non-vanishing scale) -/
theorem exFlow2_lawful : Lawful exFlow2.T :=
  coupling_lawful (K := ℚ) (L := ℚ) (n := 2) (fun a => a) (fun i => i.val == 1) (fun c _ => c 0 * c 0 + 1)
    (fun c _ => c 0) (fun c i _ => by have := mul_self_nonneg (c 0); intro h0; linarith)

/-- both hypotheses instantiated: coupling flow + affine rescaling, at every latent point, with and without rescaling -/
example (rescale : Bool) (z : Fin 2 → ℚ) :
    fpForwardPass exFlow2 exAffineR rescale (fpBackwardPass exFlow2 exAffineR none rescale z).1
      = (z, (fpBackwardPass exFlow2 exAffineR none rescale z).2) :=
  gen_density_eq_eval_density_flowproposal exFlow2 exAffineR rescale z (exFlow2_lawful.roundTripAt z)
    (fun _ => affine_rescaling_round_trip _ _ _ (fun _ => by norm_num) _)

/-- a lawful rescaling on ℤ for the small computed examples: `x' = x - 1`, log-Jacobian 4 -/
def exR : Transform ℤ ℤ ℤ := ⟨fun x => (x - 1, 4), fun x' => (x' + 1, -4)⟩
/-- the example rescaling is lawful -/
theorem exR_lawful : Lawful exR := ⟨fun x => by simp [exR], fun z => by simp [exR]⟩

example : fpForwardPass exFlow exR true (fpBackwardPass exFlow exR none true 7).1
    = (7, (fpBackwardPass exFlow exR none true 7).2) :=
  gen_density_eq_eval_density_flowproposal exFlow exR true 7 (exFlow_lawful.roundTripAt 7)
    (fun _ => exR_lawful.roundTripAt _)

/-- the pointwise hypothesis on the reparameterisation is needed, and it is exactly what fails for a folding
(inversion-like) map at a point on the folded side: with `x' = |x|` the prime point `-1` is generated but never reached
forwards, and the attached density is not the forward density. -/
theorem gen_density_eq_eval_density_flowproposal_fails_without :
    ∃ R : Transform ℤ ℤ ℤ, ¬ RoundTripAt R (exFlow.T.inv 2).1 ∧
      fpForwardPass exFlow R true (fpBackwardPass exFlow R none true 2).1 ≠ (2, (fpBackwardPass exFlow R none true 2).2) := by
  refine ⟨⟨fun x => (x.natAbs, 0), fun x' => (x', 0)⟩, by unfold RoundTripAt; decide, by decide⟩

/-- `FlowProposal` with an alternative latent distribution (`latent_prior = uniform_nball`): the density attached
by `backward_pass` is the forward density with the flow's base term replaced by the alternative density at `z`
(same pointwise hypotheses). -/
theorem flowproposal_alt_dist_uses_that_density [AddCommGroup L] (f : NFlowM X Z L) (R : Transform X X L)
    (rescale : Bool) (z : Z) (alt : Z → L) (hT : RoundTripAt f.T z)
    (hR : rescale = true → RoundTripAt R (f.T.inv z).1) :
    (fpForwardPass f R rescale (fpBackwardPass f R (some alt) rescale z).1).1 = z ∧
    (fpBackwardPass f R (some alt) rescale z).2
      = alt z + ((fpForwardPass f R rescale (fpBackwardPass f R (some alt) rescale z).1).2 - f.base z) := by
  have eT : f.T.fwd (f.T.inv z).1 = (z, -(f.T.inv z).2) := hT
  cases rescale with
  | false =>
    simp only [fpForwardPass, fpBackwardPass, fmSampleAndLogProb, fmForwardAndLogProb, NFlowM.forwardAndLogProb,
      NFlowM.forward, NFlowM.inverse, NFlowM.baseLogProb, Bool.false_eq_true, if_false]
    rw [eT]
    exact ⟨rfl, by simp only []; abel⟩
  | true =>
    have eR : R.fwd (R.inv (f.T.inv z).1).1 = ((f.T.inv z).1, -(R.inv (f.T.inv z).1).2) := hR rfl
    simp only [fpForwardPass, fpBackwardPass, fmSampleAndLogProb, fmForwardAndLogProb, NFlowM.forwardAndLogProb,
      NFlowM.forward, NFlowM.inverse, NFlowM.baseLogProb, if_true]
    rw [eR]; simp only []; rw [eT]
    exact ⟨rfl, by simp only []; abel⟩

example (z : Fin 2 → ℚ) (alt : (Fin 2 → ℚ) → ℚ) :
    (fpForwardPass exFlow2 exAffineR true (fpBackwardPass exFlow2 exAffineR (some alt) true z).1).1 = z :=
  (flowproposal_alt_dist_uses_that_density exFlow2 exAffineR true z alt (exFlow2_lawful.roundTripAt z)
    (fun _ => affine_rescaling_round_trip _ _ _ (fun _ => by norm_num) _)).1

/-- `ImportanceFlowProposal.draw`: the `log_q` row attached to a drawn physical point (computed at the generated
`x'` with the Jacobian of the re-rescaled point) equals the row `compute_meta_proposal_samples` computes when
the same physical point is passed forwards — provided the reparameterisation round-trips at the generated `x'`
(pointwise) and clipping leaves the inverse-rescaled point unchanged. -/
theorem gen_density_eq_eval_density_importance [AddCommGroup L] (fs : List (NFlowM X Z L)) (R : Transform X X L)
    (clip : X → X) (i : Nat) (noise : Z) (x : X) (row : List L)
    (hR : ∀ fi, fs[i]? = some fi → RoundTripAt R (fi.sample noise))
    (hclip : ∀ fi, fs[i]? = some fi → clip (R.inv (fi.sample noise)).1 = (R.inv (fi.sample noise)).1)
    (h : ifpDraw fs R clip i noise = some (x, row)) : row = ifpMetaRow fs R x := by
  unfold ifpDraw ifmSampleIth at h
  cases hi : fs[i]? with
  | none => simp [hi] at h
  | some fi =>
    simp only [hi, Option.map_some, Option.some.injEq, Prod.mk.injEq] at h
    obtain ⟨hx, hrow⟩ := h
    rw [hclip fi hi] at hx hrow
    have eR : R.fwd (R.inv (fi.sample noise)).1 = (fi.sample noise, -(R.inv (fi.sample noise)).2) := hR fi hi
    subst hx
    unfold ifpMetaRow
    rw [← hrow, eR]

/-- both hypotheses instantiated with the affine rescaling and no clipping: whatever `draw` returns carries the forward row -/
example (noise : Fin 2 → ℚ) (x : Fin 2 → ℚ) (row : List ℚ)
    (h : ifpDraw [exFlow2, exFlow2] exAffineR id 1 noise = some (x, row)) :
    row = ifpMetaRow [exFlow2, exFlow2] exAffineR x :=
  gen_density_eq_eval_density_importance _ _ id 1 noise x row
    (fun _ _ => affine_rescaling_round_trip _ _ _ (fun _ => by norm_num) _) (fun _ _ => rfl) h

example : ifpDraw [exFlow] exR id 0 7 = some (5, [0, -1]) ∧ ifpMetaRow [exFlow] exR 5 = [0, -1] := by decide

/-- clipping that moves the generated point breaks the statement: the row still belongs to the unclipped `x'`
(this is what `clip=True` does for samples outside the unit hypercube when no logit is applied) -/
theorem gen_density_eq_eval_density_importance_fails_without :
    ∃ clip : ℤ → ℤ, ∃ x row, ifpDraw [exFlow] exR clip 0 7 = some (x, row) ∧ row ≠ ifpMetaRow [exFlow] exR x :=
  ⟨fun _ => 0, 0, [0, -1], by decide, by decide⟩

/-- the column of flow `i` in the row attached by `draw` is the generation-direction density of the drawn
point: base density of the noise minus the flow's inverse log-Jacobian minus the inverse-rescaling
log-Jacobian (what `sample_and_log_prob` followed by `log_prob -= log_j_inv` gives); pointwise hypotheses. -/
theorem importance_draw_column_is_generation_density [AddCommGroup L] (fs : List (NFlowM X Z L))
    (R : Transform X X L) (clip : X → X) (i : Nat) (noise : Z) (x : X) (row : List L) (fi : NFlowM X Z L)
    (hi : fs[i]? = some fi) (hT : RoundTripAt fi.T noise) (hR : RoundTripAt R (fi.sample noise))
    (hclip : clip (R.inv (fi.sample noise)).1 = (R.inv (fi.sample noise)).1)
    (h : ifpDraw fs R clip i noise = some (x, row)) :
    row[i + 1]? = some ((fi.sampleAndLogProb noise).2 - (R.inv (fi.sampleAndLogProb noise).1).2) := by
  unfold ifpDraw ifmSampleIth at h
  simp only [hi, Option.map_some, Option.some.injEq, Prod.mk.injEq] at h
  obtain ⟨_, hrow⟩ := h
  rw [hclip] at hrow
  have eR : R.fwd (R.inv (fi.sample noise)).1 = (fi.sample noise, -(R.inv (fi.sample noise)).2) := hR
  have eT : fi.T.fwd (fi.T.inv noise).1 = (noise, -(fi.T.inv noise).2) := hT
  rw [← hrow, eR]
  simp only [ifpLogQRow, ifmLogProbAll, List.getElem?_cons_succ, List.getElem?_map, hi, Option.map_some,
    NFlowM.logProb, NFlowM.sample, NFlowM.sampleAndLogProb]
  rw [eT]
  simp only [Option.some.injEq]
  abel

example : (([0, -1] : List ℤ))[0 + 1]? = some ((exFlow.sampleAndLogProb 7).2 - (exR.inv (exFlow.sampleAndLogProb 7).1).2) :=
  importance_draw_column_is_generation_density [exFlow] exR id 0 7 5 [0, -1] exFlow rfl (exFlow_lawful.roundTripAt 7)
    (exR_lawful.roundTripAt _) rfl (by decide)

/-- **Densities stored at draw time and extended later agree with the enlarged proposal.**  A point drawn when the
proposal holds the flows `fs` carries a row of `|fs|+1` columns; after a new flow `g` has been trained,
`update_log_q` (level `|fs|`) turns that stored row into exactly the row `compute_meta_proposal_samples` computes for
the same physical point under the enlarged list `fs ++ [g]`. -/
theorem importance_update_after_draw_is_forward_row [AddCommGroup L] (fs : List (NFlowM X Z L)) (g : NFlowM X Z L)
    (R : Transform X X L) (clip : X → X) (i : Nat) (noise : Z) (x : X) (row : List L)
    (hR : ∀ fi, fs[i]? = some fi → RoundTripAt R (fi.sample noise))
    (hclip : ∀ fi, fs[i]? = some fi → clip (R.inv (fi.sample noise)).1 = (R.inv (fi.sample noise)).1)
    (h : ifpDraw fs R clip i noise = some (x, row)) :
    ifpUpdateLogQ (fs ++ [g]) R fs.length x row = some (ifpMetaRow (fs ++ [g]) R x) := by
  have hrow := gen_density_eq_eval_density_importance fs R clip i noise x row hR hclip h
  subst hrow
  simp [ifpUpdateLogQ, ifmLogProbIth, ifpMetaRow, ifpLogQRow, ifmLogProbAll]

example : ifpUpdateLogQ ([exFlow] ++ [exFlow]) exR 1 5 [0, -1] = some (ifpMetaRow ([exFlow] ++ [exFlow]) exR 5) :=
  importance_update_after_draw_is_forward_row [exFlow] exFlow exR id 0 7 5 [0, -1]
    (fun _ _ => exR_lawful.roundTripAt _) (fun _ _ => rfl) (by decide)

/-! ## end to end for the layers proved above -/

/-- the layers whose lawfulness is proved here (for any conditioner functions) -/
inductive Builtin [Field K] [AddCommGroup L] {n : Nat} (lg : K → L) : Transform (Fin n → K) (Fin n → K) L → Prop
  | coupling (m : Fin n → Bool) (s t : (Fin n → K) → Fin n → K) (hs : ∀ c i, m i = true → s c i ≠ 0) :
      Builtin lg (coupling lg m s t)
  | affine (a b : Fin n → K) (ha : ∀ i, a i ≠ 0) : Builtin lg (affine lg a b)
  | permutation (σ σinv : Fin n → Fin n) (h1 : ∀ i, σ (σinv i) = i) (h2 : ∀ i, σinv (σ i) = i) :
      Builtin lg (permutation σ σinv)
  | autoregressive (s t : Fin n → (Fin n → K) → K) (hs : PrefixDep s) (ht : PrefixDep t) (hne : ∀ i x, s i x ≠ 0) :
      Builtin lg (autoregressive lg s t)
  | lu (Lo : Fin n → Fin n → K) (ud : Fin n → K) (Up : Fin n → Fin n → K) (b : Fin n → K) (hud : ∀ i, ud i ≠ 0) :
      Builtin lg (luLinear lg Lo ud Up b)

/-- every built-in layer is lawful -/
theorem builtin_lawful [Field K] [AddCommGroup L] {n : Nat} (lg : K → L)
    (t : Transform (Fin n → K) (Fin n → K) L) (h : Builtin lg t) : Lawful t := by
  cases h with
  | coupling m s t hs => exact coupling_lawful lg m s t hs
  | affine a b ha => exact affine_lawful lg a b ha
  | permutation σ σinv h1 h2 => exact permutation_lawful σ σinv h1 h2
  | autoregressive s t hs ht hne => exact autoregressive_lawful lg s t hs ht hne
  | lu Lo ud Up b hud => exact (lu_linear_lawful lg Lo ud Up b hud).1

example : Lawful (permutation (K := ℚ) (L := ℚ) (n := 2) Fin.rev Fin.rev) :=
  builtin_lawful (fun a => a) _ (Builtin.permutation _ _ (fun i => Fin.rev_rev i) (fun i => Fin.rev_rev i))

/-- one block of nessai's `RealNVP`: optional actnorm, optional linear transform (a permutation, optionally followed
by an LU layer), the affine coupling, optional batch norm (eval mode) -/
structure RealNVPBlock (n : Nat) (K : Type) where
  actnorm : Option ((Fin n → K) × (Fin n → K))
  perm : Option ((Fin n → Fin n) × (Fin n → Fin n))
  lu : Option ((Fin n → Fin n → K) × (Fin n → K) × (Fin n → Fin n → K) × (Fin n → K))
  mask : Fin n → Bool
  s : (Fin n → K) → Fin n → K
  t : (Fin n → K) → Fin n → K
  batchnorm : Option ((Fin n → K) × (Fin n → K))

/-- the layers of a RealNVP block, in the order the constructor appends them -/
def RealNVPBlock.layers [Field K] [AddCommGroup L] {n : Nat} (lg : K → L) (B : RealNVPBlock n K) :
    List (Transform (Fin n → K) (Fin n → K) L) :=
  (B.actnorm.map fun p => affine lg p.1 p.2).toList ++ (B.perm.map fun p => permutation p.1 p.2).toList ++
  (B.lu.map fun p => luLinear lg p.1 p.2.1 p.2.2.1 p.2.2.2).toList ++ [coupling lg B.mask B.s B.t] ++
  (B.batchnorm.map fun p => affine lg p.1 p.2).toList

/-- scales are non-zero and the permutation is one -/
def RealNVPBlock.Valid [Field K] {n : Nat} (B : RealNVPBlock n K) : Prop :=
  (∀ p, B.actnorm = some p → ∀ i, p.1 i ≠ 0) ∧
  (∀ p, B.perm = some p → (∀ i, p.1 (p.2 i) = i) ∧ (∀ i, p.2 (p.1 i) = i)) ∧
  (∀ p, B.lu = some p → ∀ i, p.2.1 i ≠ 0) ∧
  (∀ c i, B.mask i = true → B.s c i ≠ 0) ∧
  (∀ p, B.batchnorm = some p → ∀ i, p.1 i ≠ 0)

/-- **RealNVP stacks of any depth are lawful** (coupling layers with arbitrary conditioners, `linear_transform` ∈
{None, permutation, lu}, with or without actnorm / batch norm in eval mode; `pre_transform = batch_norm` is one more
affine layer in front). -/
theorem realnvp_stack_lawful [Field K] [AddCommGroup L] {n : Nat} (lg : K → L)
    (pre : Option ((Fin n → K) × (Fin n → K))) (hpre : ∀ p, pre = some p → ∀ i, p.1 i ≠ 0)
    (blocks : List (RealNVPBlock n K)) (hv : ∀ B ∈ blocks, B.Valid) :
    Lawful (composite ((pre.map fun p => affine lg p.1 p.2).toList ++ blocks.flatMap (·.layers lg))) := by
  apply forward_inverse
  intro t ht
  apply builtin_lawful lg
  simp only [List.mem_append, Option.mem_toList, Option.map_eq_some_iff, List.mem_flatMap] at ht
  rcases ht with ⟨p, hp, rfl⟩ | ⟨B, hB, ht⟩
  · exact Builtin.affine _ _ (hpre p hp)
  · obtain ⟨h1, h2, h3, h4, h5⟩ := hv B hB
    simp only [RealNVPBlock.layers, List.mem_append, Option.mem_toList, Option.map_eq_some_iff, List.mem_singleton] at ht
    rcases ht with (((⟨p, hp, rfl⟩ | ⟨p, hp, rfl⟩) | ⟨p, hp, rfl⟩) | rfl) | ⟨p, hp, rfl⟩
    · exact Builtin.affine _ _ (h1 p hp)
    · exact Builtin.permutation _ _ (h2 p hp).1 (h2 p hp).2
    · exact Builtin.lu _ _ _ _ (h3 p hp)
    · exact Builtin.coupling _ _ _ h4
    · exact Builtin.affine _ _ (h5 p hp)

/-- a concrete RealNVP block: reverse permutation, LU layer, quadratic-conditioner coupling, batch norm -/
def exRealNVPBlock : RealNVPBlock 2 ℚ :=
  ⟨none, some (Fin.rev, Fin.rev), some (fun _ _ => 5, fun _ => 3, fun _ _ => 7, fun _ => 1), fun i => i.val == 1,
    fun c _ => c 0 * c 0 + 1, fun c _ => c 0, some (fun _ => 2, fun _ => 0)⟩
/-- the concrete block meets the hypotheses -/
theorem exRealNVPBlock_valid : exRealNVPBlock.Valid := by
  refine ⟨by simp [exRealNVPBlock], ?_, ?_, ?_, ?_⟩
  · intro p hp; cases hp; exact ⟨fun i => Fin.rev_rev i, fun i => Fin.rev_rev i⟩
  · intro p hp; cases hp; intro i; norm_num
  · intro c i _; have := mul_self_nonneg (c 0); intro h0; simp only [exRealNVPBlock] at h0; linarith
  · intro p hp; cases hp; intro i; norm_num

example : Lawful (composite (L := ℚ)
    (((some (fun _ => 3, fun _ => 1) : Option ((Fin 2 → ℚ) × (Fin 2 → ℚ))).map
        fun p => affine (fun a => a) p.1 p.2).toList
      ++ [exRealNVPBlock, exRealNVPBlock, exRealNVPBlock].flatMap (·.layers (fun a => a)))) :=
  realnvp_stack_lawful (fun a => a) _ (fun p hp i => by cases hp; norm_num) _
    (fun B hB => by simp only [List.mem_cons, List.not_mem_nil, or_false, or_self] at hB; subst hB; exact exRealNVPBlock_valid)

/-- one block of nessai's `MaskedAutoregressiveFlow`: a permutation (reverse or random), the masked affine
autoregressive transform, optional batch norm (eval mode) -/
structure MAFBlock (n : Nat) (K : Type) where
  σ : Fin n → Fin n
  σinv : Fin n → Fin n
  s : Fin n → (Fin n → K) → K
  t : Fin n → (Fin n → K) → K
  batchnorm : Option ((Fin n → K) × (Fin n → K))

/-- the layers of a MAF block, in the order the constructor appends them -/
def MAFBlock.layers [Field K] [AddCommGroup L] {n : Nat} (lg : K → L) (B : MAFBlock n K) :
    List (Transform (Fin n → K) (Fin n → K) L) :=
  [permutation B.σ B.σinv, autoregressive lg B.s B.t] ++ (B.batchnorm.map fun p => affine lg p.1 p.2).toList

/-- the permutation is one, the conditioners look at the strict prefix only, scales are non-zero -/
def MAFBlock.Valid [Field K] {n : Nat} (B : MAFBlock n K) : Prop :=
  (∀ i, B.σ (B.σinv i) = i) ∧ (∀ i, B.σinv (B.σ i) = i) ∧ PrefixDep B.s ∧ PrefixDep B.t ∧ (∀ i x, B.s i x ≠ 0) ∧
  (∀ p, B.batchnorm = some p → ∀ i, p.1 i ≠ 0)

/-- **MAF stacks of any depth are lawful** (permutation + masked affine autoregressive layer with arbitrary
strict-prefix conditioners + optional batch norm in eval mode, repeated). -/
theorem maf_stack_lawful [Field K] [AddCommGroup L] {n : Nat} (lg : K → L)
    (blocks : List (MAFBlock n K)) (hv : ∀ B ∈ blocks, B.Valid) :
    Lawful (composite (blocks.flatMap (·.layers lg))) := by
  apply forward_inverse
  intro t ht
  apply builtin_lawful lg
  simp only [List.mem_flatMap] at ht
  obtain ⟨B, hB, ht⟩ := ht
  obtain ⟨h1, h2, h3, h4, h5, h6⟩ := hv B hB
  simp only [MAFBlock.layers, List.mem_append, List.mem_cons, List.not_mem_nil, or_false, Option.mem_toList,
    Option.map_eq_some_iff] at ht
  rcases ht with (rfl | rfl) | ⟨p, hp, rfl⟩
  · exact Builtin.permutation _ _ h1 h2
  · exact Builtin.autoregressive _ _ h3 h4 h5
  · exact Builtin.affine _ _ (h6 p hp)

/-- a concrete MAF block in 3 dimensions: reverse permutation + the autoregressive layer with the quadratic conditioner -/
def exMAFBlock : MAFBlock 3 ℚ := ⟨Fin.rev, Fin.rev, exARs, exARt, some (fun _ => 2, fun _ => 1)⟩
/-- the concrete block meets the hypotheses -/
theorem exMAFBlock_valid : exMAFBlock.Valid := by
  refine ⟨fun i => Fin.rev_rev i, fun i => Fin.rev_rev i, ?_, ?_, ?_, ?_⟩
  · intro i x x' h
    fin_cases i <;> simp [exMAFBlock, exARs]
    rw [h 0 (by simp)]
  · intro i x x' h
    fin_cases i <;> simp [exMAFBlock, exARt]
    · rw [h 0 (by simp)]
    · rw [h 0 (by simp), h 1 (by simp)]
  · intro i x
    fin_cases i <;> simp [exMAFBlock, exARs]
    have := mul_self_nonneg (x 0); intro h0; linarith
  · intro p hp; cases hp; intro i; norm_num

example : Lawful (composite (L := ℚ) ([exMAFBlock, exMAFBlock].flatMap (·.layers (fun a => a)))) :=
  maf_stack_lawful (fun a => a) _
    (fun B hB => by simp only [List.mem_cons, List.not_mem_nil, or_false, or_self] at hB; subst hB; exact exMAFBlock_valid)

/-- **End to end (partial).**  For a flow that is any stack of affine-coupling / masked-autoregressive / LU /
elementwise-affine / permutation layers with arbitrary conditioners (RealNVP with `linear_transform ∈ {None, permutation,
lu}` and MAF, with or without batch norm / actnorm), any base density and any reparameterisation that round-trips at the generated x'-point, the density
`FlowProposal` attaches to a generated physical point equals the density it computes forwards at that point, and forward
after inverse returns the input.  Gap to the property: rational-quadratic spline and SVD (Householder) layers are covered
only through the lawfulness hypothesis of the general theorems; normalisation (∫ = 1), batch norm in training mode and
floating point are not covered. -/
theorem builtin_stack_density_consistent_partial [Field K] [AddCommGroup L] {n : Nat} (lg : K → L)
    (ts : List (Transform (Fin n → K) (Fin n → K) L)) (hts : ∀ t ∈ ts, Builtin lg t)
    (base : (Fin n → K) → L) (R : Transform (Fin n → K) (Fin n → K) L)
    (rescale : Bool) (z : Fin n → K) (hR : rescale = true → RoundTripAt R ((composite ts).inv z).1) :
    Lawful (composite ts) ∧
    fpForwardPass ⟨composite ts, base⟩ R rescale (fpBackwardPass ⟨composite ts, base⟩ R none rescale z).1
      = (z, (fpBackwardPass ⟨composite ts, base⟩ R none rescale z).2) := by
  have hl : Lawful (composite ts) := forward_inverse ts (fun t ht => builtin_lawful lg t (hts t ht))
  exact ⟨hl, gen_density_eq_eval_density_flowproposal ⟨composite ts, base⟩ R rescale z (hl.roundTripAt z) hR⟩

/-- a concrete stack: coupling, reverse permutation, LU layer -/
def exStack : List (Transform (Fin 2 → ℚ) (Fin 2 → ℚ) ℚ) :=
  [coupling (fun a => a) (fun i => i.val == 1) (fun c _ => c 0 * c 0 + 1) (fun c _ => c 0), permutation Fin.rev Fin.rev,
    luLinear (fun a => a) (fun _ _ => 5) (fun _ => 3) (fun _ _ => 7) (fun _ => 1)]
/-- every layer of the concrete stack is built in -/
theorem exStack_builtin : ∀ t ∈ exStack, Builtin (fun a => a) t := by
  intro t ht
  simp only [exStack, List.mem_cons, List.not_mem_nil, or_false] at ht
  rcases ht with rfl | rfl | rfl
  · exact Builtin.coupling _ _ _ (fun c i _ => by have := mul_self_nonneg (c 0); intro h0; linarith)
  · exact Builtin.permutation _ _ (fun i => Fin.rev_rev i) (fun i => Fin.rev_rev i)
  · exact Builtin.lu _ _ _ _ (fun _ => by norm_num)

/-- the end-to-end statement for the concrete stack with the affine rescaling, at every latent point -/
example (rescale : Bool) (z : Fin 2 → ℚ) (base : (Fin 2 → ℚ) → ℚ) :
    fpForwardPass ⟨composite exStack, base⟩ exAffineR rescale (fpBackwardPass ⟨composite exStack, base⟩ exAffineR none rescale z).1
      = (z, (fpBackwardPass ⟨composite exStack, base⟩ exAffineR none rescale z).2) :=
  (builtin_stack_density_consistent_partial (fun a => a) exStack exStack_builtin base exAffineR rescale z
    (fun _ => affine_rescaling_round_trip _ _ _ (fun _ => by norm_num) _)).2

/-! ### the end of a training: best weights restored, then finalised, then saved -/

/-- the current source performs the three tail operations of `FlowModel.train` in the canonical order (regenerated from
the source on every run) -/
theorem train_tail_is_canonical : Gen.FlowTrain.trainTail = FlowTrain.canonical := by decide

/-- **The canonical order is the ONLY order of the three operations that leaves a consistent flow.**  For every
identifier of the last-epoch weights, of the stale constant and of the best-epoch weights (all different), running the
tail in the source's order leaves the model with the best weights, a normalisation constant computed for THEM, and a
weights file holding exactly that; each of the other five orders leaves the model or the file inconsistent (finalise
before restore: seeded C08-eA; save before finalise: seeded C12-d). -/
theorem train_tail_good_iff_canonical (last stale best : Nat) (h1 : best ≠ last) (h2 : best ≠ stale) (ops : List FlowTrain.Op)
    (hp : ops.Perm FlowTrain.canonical) :
    FlowTrain.Good best (FlowTrain.run best (FlowTrain.St.afterLoop last stale) ops) ↔ ops = FlowTrain.canonical := by
  have hl : ops.length = 3 := by simpa [FlowTrain.canonical] using hp.length_eq
  match ops, hl with
  | [a, b, c], _ =>
    have ha := hp.subset (List.mem_cons_self ..)
    cases a <;> cases b <;> cases c <;>
      simp_all [FlowTrain.canonical, FlowTrain.Good, FlowTrain.run, FlowTrain.step, FlowTrain.St.afterLoop, List.perm_iff_count] <;>
      omega

example : FlowTrain.Good 1 (FlowTrain.run 1 (FlowTrain.St.afterLoop 0 9) Gen.FlowTrain.trainTail) := by decide

end NessaiVerif.C08
