"""C16 — posterior resampling follows the posterior weights.

Real `draw_posterior_samples` / `effective_sample_size` / `effective_n_posterior_samples` /
`ImportanceNestedSampler.draw_posterior_samples` are run with the uniform draws of NumPy's global
generator scripted (only around the call) and compared with the Lean model `Model/Resample.lean`
executed over exact rationals; an independent exact-arithmetic oracle in Python states the
property on the real outputs.

Weights are dyadic rationals m*2^e (m odd or 0); the code is handed log(m*2^e) (-inf for 0).
The code compares in float log space, the model exactly: uniforms used for the exact comparison
are kept a relative 2^-34 away from every threshold that the float computation does not
reproduce exactly ("just below / just above" = 2^-30 away); thresholds that are exact in float
(w = w_max, w = 0, cdf entries that come out exactly) are probed at / one ulp below / one ulp above.
"""
import bisect
import contextlib
import logging
import math
import time
import types
from fractions import Fraction
from unittest import mock

import numpy as np

PROPS_MODULE = "NessaiVerif.Props.C16"
MANIFEST = dict(
    text="Lean theorems, for weight vectors of every length over any linearly ordered field, about a model of "
         "draw_posterior_samples / effective_sample_size / effective_n_posterior_samples in the linear weight domain: "
         "sample i is kept by rejection sampling iff u_i < w_i/w_max (so the maximum-weight sample is kept for every "
         "u in [0,1), a zero-weight sample never, at least one sample is kept, indices strictly increasing); a multinomial "
         "draw returns i iff u lies in [cdf_(i-1), cdf_i), an interval of length w_i/sum(w), never a zero-weight sample; "
         "the default number of draws floor(ESS) lies in [1,N] (that exactly n indices come back is how the model is "
         "built - one table look-up per uniform for the first n uniforms - and is checked on the real call by the tie); "
         "returned samples are nested[indices]; the ESS the code "
         "computes equals Kish's (sum w)^2/sum w^2, lies in [1,N] (Cauchy-Schwarz) and, like both samplers, is invariant "
         "under scaling all weights. List-level bridge over the reals (log-values with -inf entries, np.max, logsumexp = "
         "log sum exp, draws u = 0): the code's log-space rejection test, choice probabilities and ESS formula equal the "
         "linear-domain model on exp(log_w), and are unchanged when all log-weights are shifted by a constant. "
         "SOURCE TIE: effective_sample_size, effective_n_posterior_samples and draw_posterior_samples are translated from the "
         "current source on every run (harness/pylogvec2lean.py: log-weight vectors -> weights, uniform draws as input; "
         "Gen/ResampleTx.lean) and ess_source_eq_model, effective_n_source_eq_model, draw_posterior_source_rejection / "
         "_multinomial / _unknown / _eq_model_rejection re-prove that the generated definitions are the model's ess, effectiveN, "
         "rejectionIndices, multinomialIndices and drawPosterior. "
         "The model is also tied to the code by running the real functions (and the real "
         "ImportanceNestedSampler.draw_posterior_samples on a stub sampler with a real _INSIntegralState) with scripted "
         "uniforms (np.random.rand, and random_sample inside the real RandomState.choice) and comparing indices and sample "
         "ids exactly, ESS against the exact rational under 1e-9 relative. Probabilities are reduced to the deterministic "
         "event they are the probability of; a seeded frequency test with exact binomial bounds runs the unscripted generator.",
    note="Assumed: uniformity of NumPy's generator (interval length = probability); float rounding (theorems are about "
         "exact arithmetic; comparisons avoid a 2^-34 relative neighbourhood of thresholds that are inexact in float; "
         "int(ESS) can be one less than floor of the exact ESS when the latter is an integer, e.g. N equal weights). "
         "Domain: len(log_w) == nested.size >= 1, weights not all zero for multinomial resampling.",
    technique="Lean 4 proof (induction over lists, ordered-field algebra) + source-to-Lean translation of effective_sample_size / "
              "effective_n_posterior_samples / draw_posterior_samples re-proved equal to the model on every run + differential "
              "correspondence with scripted RNG",
    ref="5/C16")

LN2 = math.log(2.0)
PLACE = 2.0 ** -30
MARGIN = 2.0 ** -34
ESS_TOL = 1e-9
ONE_M = 1.0 - 2.0 ** -53          # largest float below one
TINY = 5e-324                      # smallest positive float
METHODS_MULT = ("multinomial_resampling", "importance_sampling")


# --------------------------------------------------------------------------------------------
# dyadic weights
# --------------------------------------------------------------------------------------------
def gen(ctx):
    """regenerate Gen/ResampleTx.lean: effective_sample_size, _BaseNSIntegralState.effective_n_posterior_samples and
    draw_posterior_samples translated from the current source (harness/pylogvec2lean.py: log-weight vectors -> the linear
    domain); C16.ess_source_eq_model / effective_n_source_eq_model / draw_posterior_source_eq_model are re-proved each run."""
    from . import core, py2lean
    from . import pylogvec2lean as V
    specs = [
        V.VecSpec(source="nessai/utils/stats.py", func="effective_sample_size", name="effective_sample_size",
                  params=[("log_w", "log_w", V.VLOG)], result="K"),
        V.VecSpec(source="nessai/evidence.py", cls="_BaseNSIntegralState", func="effective_n_posterior_samples",
                  name="effective_n_posterior_samples", params=[], result="K",
                  self_attrs={"log_posterior_weights": ("log_posterior_weights", V.VLOG)}),
        V.VecSpec(source="nessai/posterior.py", func="draw_posterior_samples", name="draw_posterior_samples",
                  params=[("nested_samples", "nested", V.ARR), ("nlive", None, V.OPTNAT), ("n", "n", V.OPTNAT),
                          ("log_w", "log_w", V.VLOG), ("method", "method", V.STR), ("return_indices", "return_indices", V.BOOL),
                          ("expectation", None, V.STR)],
                  result="Except Err (List α × List Nat)", uses_uniforms=True, uses_int=True,
                  calls={"effective_sample_size": ("effective_sample_size", [V.VLOG], V.LIN)},
                  # the arm that computes the weights itself is C02's (compute_weights): its text is pinned, its content dropped
                  delegate={"log_w is None": "_, log_w = compute_weights(nested_samples['logL'], nlive, expectation=expectation)"},
                  doc="`u`: the uniform draws; `intOf`: Python's `int()` of a positive float (floor)."),
    ]
    parts, infos = [], {}
    try:
        for sp in specs:
            lean, info = V.translate(core.REPO, sp)
            parts.append(lean)
            infos[sp.func] = info
    except py2lean.TranslationError as e:
        ctx.broken(f"translator: {e}", "Gen/ResampleTx.lean was left as it was (the theorems are about the last translatable source)")
        return
    except (OSError, SyntaxError) as e:
        ctx.broken(f"translator: cannot read/parse the source: {e}")
        return
    text = ("import NessaiVerif.Model.Resample\n"
            "/-\nGENERATED by harness/pylogvec2lean.py (harness/c16.py gen) from the CURRENT nessai source — do not edit.\n"
            "C16: effective sample size and posterior resampling, log-weight vectors -> linear domain.\n-/\n"
            "namespace NessaiVerif.Gen.ResampleTx\nopen NessaiVerif NessaiVerif.Np NessaiVerif.Resample\n\n"
            "variable {K : Type} {α : Type} [Add K] [Mul K] [Div K] [OfNat K 0] [OfNat K 1] [LT K] [DecidableLT K] [LE K] [DecidableLE K]\n\n"
            + "\n".join(parts) + "\nend NessaiVerif.Gen.ResampleTx\n")
    rewritten = py2lean.write_if_changed(core.LEAN / "NessaiVerif" / "Gen" / "ResampleTx.lean", text)
    ctx.extra["generated"] = dict(infos, rewritten=rewritten)


def canon(m, e):
    if m == 0:
        return (0, 0)
    while m % 2 == 0:
        m //= 2
        e += 1
    return (m, e)


def exact_w(me):
    m, e = me
    return Fraction(m) * (Fraction(2) ** e) if m else Fraction(0)


def log_weight(me):
    m, e = me
    if m == 0:
        return -math.inf
    if -1000 <= e <= 900 and m < 2 ** 53:
        return math.log(math.ldexp(float(m), e))
    return math.log(m) + e * LN2


def fmt_w(ws):
    return "[" + ",".join(f"{m}@{e}" for m, e in ws) + "]"


def fmt_u(us):
    out = []
    for u in us:
        p, q = float(u).as_integer_ratio()
        out.append(f"{p}@-{q.bit_length() - 1}")
    return "[" + ",".join(out) + "]"


def gen_weights(rng, N, kind):
    """list of canonical (m, e); at least one non-zero unless kind == 'allzero'"""
    if kind == "allzero":
        return [(0, 0)] * N
    if kind == "equal":
        me = canon(rng.randrange(1, 64) * 2 + 1, rng.randrange(-30, 10))
        ws = [me] * N
    elif kind == "dyadic":
        ws = [canon(rng.randrange(1, 2 ** rng.randrange(1, 17)), rng.randrange(-20, 1)) for _ in range(N)]
    elif kind == "normalised":
        ms = [rng.randrange(1, 2 ** 12) for _ in range(N - 1)]
        k = max(1, sum(ms)).bit_length() + rng.randrange(0, 3)
        ms.append(2 ** k - sum(ms))
        rng.shuffle(ms)
        ws = [canon(m, -k) for m in ms]
    elif kind == "neginf":
        ws = [canon(rng.randrange(1, 2 ** 10), rng.randrange(-12, 1)) if rng.random() < 0.6 else (0, 0)
              for _ in range(N)]
    elif kind == "extreme":
        off = rng.choice([0, 0, 3000, -2000])
        ws = [canon(rng.randrange(1, 2 ** 8), off + rng.choice([0, -1, -5, -60, -1100, -3000, -5000][:rng.randrange(2, 8)]))
              if rng.random() < 0.9 else (0, 0) for _ in range(N)]
    elif kind == "ns":
        # rising then falling posterior weights, like a nested sampling run
        c = rng.uniform(0.3, 0.9) * N
        a = rng.uniform(0.5, 40.0) / max(1.0, N) ** 2 * 40
        ws = [canon(rng.randrange(1, 2 ** 6), -int(a * (i - c) ** 2)) for i in range(N)]
    elif kind == "dominant":
        ws = [canon(rng.randrange(1, 8), -rng.randrange(40, 70)) for _ in range(N)]
        ws[rng.randrange(N)] = (1, 0)
    elif kind == "small-ints":
        ws = [canon(rng.randrange(0, 5), 0) for _ in range(N)]
    else:
        raise ValueError(kind)
    if all(m == 0 for m, _ in ws):
        ws[rng.randrange(N)] = (1, 0)
    return ws


WEIGHT_KINDS = ["equal", "dyadic", "dyadic", "normalised", "neginf", "extreme", "ns", "dominant", "small-ints"]


# --------------------------------------------------------------------------------------------
# exact reference quantities (Python fractions) and admissible uniforms
# --------------------------------------------------------------------------------------------
class Table:
    """exact weights, thresholds and cumulative table of one weight vector as the code sees it"""

    def __init__(self, ws, lw_seen=None):
        self.ws = list(ws)
        self.N = len(ws)
        self.w = [exact_w(me) for me in ws]
        self.lw = np.array([log_weight(me) for me in ws], dtype=float) if lw_seen is None else np.asarray(lw_seen, float)
        self.wmax = max(self.w) if self.w else Fraction(0)
        self.S = sum(self.w, Fraction(0))
        self._cum = None

    # ---- rejection
    def thr(self, i):
        return self.w[i] / self.wmax

    def rej_admissible(self, i, u):
        if self.wmax == 0:
            return True
        t = self.thr(i)
        if t == 0 or t == 1 or u == 0.0:
            return True          # log ratio is exactly -inf / 0, log(0) is exactly -inf
        if Fraction(u) == t:
            # u sits exactly on the threshold: usable when the float log-space test sits exactly on it too
            with np.errstate(all="ignore"):
                return bool(self.lw[i] - np.max(self.lw) == np.log(np.float64(u)))
        return abs(Fraction(u) - t) > MARGIN * t

    def rej_keep(self, i, u):
        return self.wmax > 0 and Fraction(u) * self.wmax < self.w[i]

    # ---- multinomial
    def _build(self):
        if self._cum is not None:
            return
        from scipy.special import logsumexp
        cum = [Fraction(0)]
        for x in self.w:
            cum.append(cum[-1] + x)
        self._cum = cum
        S = self.S
        self.bf = [float(c / S) for c in cum]            # float image of the boundaries B_0..B_N
        with np.errstate(all="ignore"):
            p = np.exp(self.lw - logsumexp(self.lw))
            c = p.cumsum()
            c /= c[-1]
        self.ch = c                                       # the float table of RandomState.choice
        self._exact = {}

    def boundary_exact(self, b):
        """is boundary B_b (= cdf entry b-1) reproduced exactly by the float table?"""
        self._build()
        if b == 0:
            return True
        r = self._exact.get(b)
        if r is None:
            r = Fraction(float(self.ch[b - 1])) * self.S == self._cum[b]
            self._exact[b] = r
        return r

    def mult_admissible(self, u):
        self._build()
        d = MARGIN + self.N * 2.0 ** -50
        j = bisect.bisect_left(self.bf, u - 2 * d)
        n = 0
        while j <= self.N and self.bf[j] <= u + 2 * d:
            if not self.boundary_exact(j):
                return False
            j += 1
            n += 1
            if n > 64:
                return False
        return True

    def mult_index(self, u):
        """exact: number of cdf entries <= u"""
        self._build()
        X = Fraction(u) * self.S
        cum = self._cum
        j = bisect.bisect_right(self.bf, u) - 1          # approximate: B_j <= u < B_{j+1}
        j = min(max(j, 0), self.N)
        while j < self.N and cum[j + 1] <= X:
            j += 1
        while j > 0 and cum[j] > X:
            j -= 1
        return j

    # ---- ESS
    def ess(self):
        Q = sum((x * x for x in self.w), Fraction(0))
        return self.S * self.S / Q


def _clip(u):
    u = float(u)
    if not (u == u) or u < 0.0:
        return 0.0
    if u >= 1.0:
        return ONE_M
    return u


def gen_rej_uniforms(rng, T):
    us, modes = [], []
    for i in range(T.N):
        for _ in range(20):
            mode = rng.choice(["rand", "rand", "below", "above", "zero", "one", "tiny", "ulp", "at"])
            t = T.thr(i) if T.wmax > 0 else Fraction(0)
            if mode == "rand":
                u = rng.random()
            elif mode == "at":
                if not (0 < t < 1) or t.denominator.bit_length() > 900 or Fraction(float(t)) != t:
                    continue
                u = float(t)
            elif mode == "below":
                u = _clip(float(t * Fraction(1 - PLACE)))
            elif mode == "above":
                u = _clip(float(t * Fraction(1 + PLACE)))
            elif mode == "zero":
                u = 0.0
            elif mode == "one":
                u = ONE_M
            elif mode == "tiny":
                u = rng.choice([TINY, 2.0 ** -1022, 2.0 ** -600, 1e-300])
            else:  # thresholds that are exact in float: 0 and 1
                u = rng.choice([0.0, TINY]) if t == 0 else (ONE_M if t == 1 else rng.random())
            if T.rej_admissible(i, u):
                break
        else:
            u, mode = 0.0, "zero"
        us.append(u)
        modes.append(mode)
    return us, modes


def gen_mult_uniforms(rng, T, count, exact_ok=True):
    T._build()
    us, modes = [], []
    for _ in range(count):
        for _ in range(40):
            mode = rng.choice(["rand", "rand", "below", "above", "at", "at-", "at+", "zero", "one"])
            b = rng.randrange(1, T.N + 1)
            if mode == "rand":
                u = rng.random()
            elif mode == "below":
                u = _clip(T.bf[b] * (1 - PLACE) - (PLACE if rng.random() < 0.3 else 0))
            elif mode == "above":
                u = _clip(T.bf[b] * (1 + PLACE))
            elif mode in ("at", "at-", "at+"):
                if not exact_ok or not T.boundary_exact(b):
                    continue
                c = float(T.ch[b - 1])
                u = _clip(c if mode == "at" else np.nextafter(c, 0.0 if mode == "at-" else 2.0))
            elif mode == "zero":
                u = 0.0
            else:
                u = ONE_M
            if T.mult_admissible(u):
                break
        else:
            u, mode = None, None
            for _ in range(1000):
                v = rng.random()
                if T.mult_admissible(v):
                    u, mode = v, "rand"
                    break
            if u is None:
                return None, None
        us.append(u)
        modes.append(mode)
    return us, modes


# --------------------------------------------------------------------------------------------
# scripting NumPy's global generator around one call
# --------------------------------------------------------------------------------------------
class ScriptExhausted(Exception):
    pass


class _ScriptedState(np.random.RandomState):
    """RandomState whose uniform stream is scripted: the real `choice` runs on top of it"""

    def __init__(self, us):
        super().__init__(0)
        self._us = np.asarray(us, dtype=float)
        self.requests = []

    def random_sample(self, size=None):
        k = 1 if size is None else int(np.prod(size))
        self.requests.append(k)
        if k > len(self._us):
            raise ScriptExhausted(f"{k} uniforms requested, {len(self._us)} scripted")
        out = self._us[:k].copy()
        return float(out[0]) if size is None else out.reshape(size)


@contextlib.contextmanager
def scripted(us):
    st = _ScriptedState(us)

    def rand(*shape):
        return st.random_sample(tuple(int(s) for s in shape) if shape else None)

    with mock.patch.object(np.random, "rand", rand), \
            mock.patch.object(np.random, "choice", st.choice), \
            mock.patch.object(np.random, "random_sample", st.random_sample), \
            mock.patch.object(np.random, "random", st.random_sample), \
            np.errstate(all="ignore"):
        yield st


def _exc(e):
    if isinstance(e, (ValueError, OverflowError)):
        return "err=value"
    return "err=" + type(e).__name__


def make_nested(N, logw=None):
    """nessai live points with a unique id in the first field"""
    from nessai.livepoint import numpy_array_to_live_points
    arr = np.stack([1000.0 + np.arange(N), np.linspace(-1.0, 1.0, N) if N else np.zeros(0)], axis=1)
    x = numpy_array_to_live_points(arr.reshape(N, 2), ["id", "y"])
    x["logL"] = np.arange(N, dtype=float) * 0.5 - 3.0
    return x


def ids_of(N):
    return [1000 + i for i in range(N)]


def canon_out(samples, indices):
    return ("ok [" + ",".join(str(int(i)) for i in np.asarray(indices).ravel()) + "] ["
            + ",".join(str(int(v)) for v in np.asarray(samples["id"]).ravel()) + "]")


_DRAW_CALLS = [0]


def run_draw(method, n, nested, lw, us):
    from nessai.posterior import draw_posterior_samples
    # every third call ALSO passes nlive: "If specified the weights are not computed and these weights are used instead" — the
    # supplied log_w wins (seeded change C16-hA gave nlive the precedence)
    _DRAW_CALLS[0] += 1
    extra = {"nlive": 1 + _DRAW_CALLS[0] % 7} if _DRAW_CALLS[0] % 3 == 0 else {}
    try:
        with scripted(us) as st:
            s, idx = draw_posterior_samples(nested, log_w=lw, n=n, method=method, return_indices=True, **extra)
    except ScriptExhausted as e:
        return "script-exhausted " + str(e), None, None, None
    except Exception as e:  # noqa
        return _exc(e), None, None, None
    return canon_out(s, idx), s, idx, st.requests


def run_draw_ins(method, n, use_final, cur, fin, us):
    """real ImportanceNestedSampler.draw_posterior_samples on a stub sampler holding real integral states"""
    from nessai.samplers.importancesampler import ImportanceNestedSampler as INS
    stub = types.SimpleNamespace(samples=cur[0], state=cur[1],
                                 final_samples_unit=(None if fin is None else fin[0]),
                                 final_samples=(None if fin is None else fin[0]),
                                 final_state=(None if fin is None else fin[1]))
    try:
        with scripted(us):
            s = INS.draw_posterior_samples(stub, sampling_method=method, n=n, use_final_samples=use_final)
    except ScriptExhausted as e:
        return "script-exhausted " + str(e), None
    except Exception as e:  # noqa
        return _exc(e), None
    return "ok [" + ",".join(str(int(v)) for v in np.asarray(s["id"]).ravel()) + "]", s


def ins_state(ws, split=None):
    """real _INSIntegralState fed samples whose logL + logW are the given log-weights"""
    from nessai.evidence import _INSIntegralState
    N = len(ws)
    dt = [("id", "f8"), ("y", "f8"), ("logL", "f8"), ("logW", "f8")]
    x = np.zeros(N, dtype=dt)
    x["id"] = 1000.0 + np.arange(N)
    x["logL"] = [log_weight(me) for me in ws]
    st = _INSIntegralState()
    if split is None or split <= 0 or split >= N:
        st.update_evidence(x)
    else:
        st.update_evidence(x[:split], x[split:])
    return x, st


# --------------------------------------------------------------------------------------------
# oracle: the property stated on the real outputs, exact arithmetic
# --------------------------------------------------------------------------------------------
def real_ess(lw):
    from nessai.utils.stats import effective_sample_size
    with np.errstate(all="ignore"):
        return float(effective_sample_size(lw))


def oracle_draw(T, method, n, nested, us, samples, indices):
    """returns None or a description of how the real output violates the property"""
    N = T.N
    idx = np.asarray(indices)
    if idx.ndim != 1 or idx.dtype.kind not in "iu":
        return f"indices are not a 1-d integer array: {idx!r}"
    if np.any(idx < 0) or np.any(idx >= N):
        return f"index out of range 0..{N - 1}: {idx.tolist()[:20]}"
    samples = np.asarray(samples)
    if samples.shape != idx.shape or samples.dtype != nested.dtype or samples.tobytes() != nested[idx].tobytes():
        return "returned samples are not nested_samples[indices]"
    il = idx.tolist()
    if method == "rejection_sampling":
        if any(b <= a for a, b in zip(il, il[1:])):
            return f"rejection indices not strictly increasing: {il[:20]}"
        kept = set(il)
        for i in range(N):
            u = us[i]
            if T.w[i] == 0 and i in kept:
                return f"zero-weight sample {i} accepted (u={u!r})"
            if T.wmax > 0 and T.w[i] == T.wmax and i not in kept:
                return f"maximum-weight sample {i} rejected (u={u!r})"
            if T.rej_admissible(i, u) and (i in kept) != T.rej_keep(i, u):
                return (f"sample {i}: kept={i in kept} but u={u!r} and w/w_max={float(T.thr(i))!r} "
                        f"(u < w/w_max is {T.rej_keep(i, u)})")
    else:
        want = n if n is not None else int(real_ess(T.lw))
        if len(il) != want:
            return f"{len(il)} draws returned, {want} requested" + ("" if n is not None else " (default int(ESS))")
        for k, i in enumerate(il):
            if T.w[i] == 0:
                return f"draw {k} selected zero-weight sample {i} (u={us[k]!r})"
            if T.mult_admissible(us[k]):
                j = T.mult_index(us[k])
                if i != j:
                    return (f"draw {k}: u={us[k]!r} lies in the cdf interval of sample {j} "
                            f"[{T.bf[j]!r},{T.bf[j + 1]!r}) but sample {i} was returned")
    return None


# --------------------------------------------------------------------------------------------
# shrinking a failing draw case
# --------------------------------------------------------------------------------------------
def case_of(layer, method, n, ws, us, **kw):
    c = dict(layer=layer, method=method, n=n, w=[list(me) for me in ws], u=[float(u) for u in us])
    c.update(kw)
    return c


def eval_draw_case(c):
    """re-run a function-layer draw case on the real code; returns (failure text or None, canonical output)"""
    ws = [tuple(me) for me in c["w"]]
    T = Table(ws)
    nested = make_nested(T.N)
    us = c["u"]
    if c["method"] == "rejection_sampling":
        if len(us) != T.N:
            return None, None
    else:
        if T.S == 0 or not all(T.mult_admissible(u) for u in us):
            return None, None
    canon, s, idx, _ = run_draw(c["method"], c["n"], nested, T.lw, us)
    if s is None:
        return f"raised {canon} on a valid input", canon
    return oracle_draw(T, c["method"], c["n"], nested, us, s, idx), canon


def shrink_draw_case(c, budget=250):
    """greedy deletion of weights/uniforms while the real code still violates the oracle"""
    if c.get("layer") != "function":
        return c
    best = c
    t0 = time.time()

    def variants(c):
        N = len(c["w"])
        rej = c["method"] == "rejection_sampling"
        size = max(1, N // 2)
        while size >= 1:
            for start in range(0, N, size):
                keep = [i for i in range(N) if not (start <= i < start + size)]
                if not keep:
                    continue
                d = dict(c)
                d["w"] = [c["w"][i] for i in keep]
                if rej:
                    d["u"] = [c["u"][i] for i in keep]
                yield d
            size //= 2
        if not rej:
            for k in range(len(c["u"])):
                d = dict(c)
                d["u"] = c["u"][:k] + c["u"][k + 1:]
                if d["n"] is not None:
                    d["n"] = len(d["u"])
                    yield d

    progress = True
    while progress and budget > 0 and time.time() - t0 < 20:
        progress = False
        for d in variants(best):
            budget -= 1
            if budget <= 0:
                break
            try:
                f, _ = eval_draw_case(d)
            except Exception:  # noqa
                f = None
            if f:
                best = d
                best["what"] = f
                progress = True
                break
    return best


# --------------------------------------------------------------------------------------------
# the layers
# --------------------------------------------------------------------------------------------
class Batch:
    """collects model lines to diff in one driver run"""

    def __init__(self, ctx):
        self.ctx = ctx
        self.lines, self.impls, self.cases = [], [], []

    def add(self, line, impl, case):
        self.lines.append(line)
        self.impls.append(impl)
        self.cases.append(case)

    def flush(self):
        if self.lines:
            slim = [c if len(c.get("w", ())) <= 64 else {k: v for k, v in c.items() if k not in ("w", "u")} | {"N": len(c["w"])}
                    for c in self.cases]
            self.ctx.diff_model(self.lines, self.impls, slim)
        self.lines, self.impls, self.cases = [], [], []


def report_fail(ctx, key, what, case):
    c = dict(case)
    c["what"] = what
    c = shrink_draw_case(c)
    ctx.oracle_fail(key, c.get("what", what), c)


def size_of(rng, ctx, big=False):
    r = rng.random()
    if r < 0.15:
        return rng.randrange(1, 4)
    if r < 0.6:
        return rng.randrange(2, 17)
    if r < 0.9:
        return rng.randrange(17, 80)
    return rng.randrange(80, 201)


def do_rejection(ctx, B, rng, N, kind, key_extra=""):
    ws = gen_weights(rng, N, kind)
    T = Table(ws)
    us, modes = gen_rej_uniforms(rng, T)
    nested = make_nested(N)
    n = rng.choice([None, None, 3])
    canon, s, idx, reqs = run_draw("rejection_sampling", n, nested, T.lw, us)
    case = case_of("function", "rejection_sampling", n, ws, us)
    key = "draw_posterior_samples:rejection_sampling"
    if s is None:
        report_fail(ctx, key, f"raised {canon} on a valid input", case)
    else:
        f = oracle_draw(T, "rejection_sampling", n, nested, us, s, idx)
        if f:
            report_fail(ctx, key, f, case)
    B.add(f"rs draw rejection_sampling {'none' if n is None else n} [{','.join(map(str, ids_of(N)))}] {fmt_w(ws)} {fmt_u(us)}",
          canon, case)
    ctx.case(("rej", tuple(ws), tuple(us)), N >= 2 and s is not None and len(idx) >= 1,
             case if N <= 6 else None, kind=f"rejection/{kind}")
    for m in set(modes):
        ctx.hist["u-rejection/" + m] += modes.count(m)


def do_multinomial(ctx, B, rng, N, kind, n_mode=None, max_draws=60):
    ws = gen_weights(rng, N, kind)
    T = Table(ws)
    method = rng.choice(METHODS_MULT)
    n_mode = n_mode or rng.choice(["default", "given", "given", "zero"] if N < 50 else ["default", "given"])
    E = T.ess()
    near_int = abs(E - round(E)) <= ESS_TOL * E
    if n_mode == "default":
        count = N                      # an upper bound of floor(ESS); the script hands out the first `size`
        n = None
    elif n_mode == "zero":
        count, n = 0, 0
    else:
        count = n = rng.randrange(1, max_draws + 1)
    us, modes = gen_mult_uniforms(rng, T, count)
    if us is None:
        ctx.case(("mult-skip", tuple(ws)), False, kind="multinomial/no-admissible-uniform")
        return
    nested = make_nested(N)
    canon, s, idx, reqs = run_draw(method, n, nested, T.lw, us)
    case = case_of("function", method, n, ws, us)
    key = "draw_posterior_samples:multinomial_resampling"
    n_model = n
    if s is None:
        report_fail(ctx, key, f"raised {canon} on a valid input", case)
    else:
        f = oracle_draw(T, method, n, nested, us, s, idx)
        if f:
            report_fail(ctx, key, f, case)
        if n is None and near_int:
            # the exact ESS is (within 1e-9 of) an integer k: float rounding may give int(ESS) = k-1
            k = round(E)
            if len(idx) in (k - 1, k):
                n_model = len(idx)
            ctx.hist["multinomial/default-n-ess-near-integer"] += 1
            if len(idx) == k - 1:
                ctx.hist["multinomial/default-n-int(float ESS)=exact-ESS-minus-1"] += 1
    B.add(f"rs draw {method} {'none' if n_model is None else n_model} [{','.join(map(str, ids_of(N)))}] {fmt_w(ws)} {fmt_u(us)}",
          canon, case)
    ctx.case(("mult", method, n, tuple(ws), tuple(us)), N >= 2 and s is not None and len(idx) >= 1,
             case if N <= 6 else None, kind=f"multinomial/{kind}/n-{n_mode}")
    for m in set(modes):
        ctx.hist["u-multinomial/" + m] += modes.count(m)


def _make_state_cls():
    """minimal concrete subclass: the inherited effective_n_posterior_samples is the code under test"""
    from nessai.evidence import _BaseNSIntegralState

    class S(_BaseNSIntegralState):
        def __init__(self, lw):
            self._lw = np.array(lw, dtype=float)
        log_evidence = 0.0
        log_evidence_error = 0.0

        @property
        def log_posterior_weights(self):
            return self._lw.copy()
    return S


def do_ess(ctx, rng, N, kind, lines, pend):
    from nessai.utils.stats import effective_sample_size
    ws = gen_weights(rng, N, kind)
    T = Table(ws)
    S = _make_state_cls()
    lw = T.lw
    before = lw.copy()
    with np.errstate(all="ignore"):
        e = float(effective_sample_size(lw))
        e_list = float(effective_sample_size([float(v) for v in lw]))
        en = float(S(lw).effective_n_posterior_samples)
        x, st = ins_state(ws, split=rng.randrange(0, N + 1))
        en_ins = float(st.effective_n_posterior_samples)
        shifts = [rng.choice([-700.0, -37.5, -1.0, 0.25, 3.0, 1000.0, rng.uniform(-50, 50)]) for _ in range(2)]
        e_shift = [float(effective_sample_size(lw + c)) for c in shifts]
    case = dict(layer="ess", w=[list(me) for me in ws])
    key = "effective_sample_size"
    if not np.array_equal(before, lw, equal_nan=True):
        ctx.oracle_fail(key, "effective_sample_size modified its input", case)
    tol = ESS_TOL * max(1.0, e)
    if not (1.0 - tol <= e <= N + tol):
        ctx.oracle_fail(key, f"ESS {e!r} outside [1, N={N}]", case)
    if abs(e_list - e) > 1e-12 * e:
        ctx.oracle_fail(key, f"ESS of a list {e_list!r} differs from ESS of the array {e!r}", case)
    for c, es in zip(shifts, e_shift):
        if not abs(es - e) <= ESS_TOL * e:
            ctx.oracle_fail(key, f"ESS changed from {e!r} to {es!r} when all log-weights were shifted by {c!r}",
                            dict(case, shift=c))
    if not abs(en - e) <= 1e-12 * e:
        ctx.oracle_fail("effective_n_posterior_samples", f"effective_n_posterior_samples {en!r} != effective_sample_size {e!r}", case)
    if not abs(en_ins - e) <= ESS_TOL * e:
        ctx.oracle_fail("effective_n_posterior_samples",
                        f"_INSIntegralState.effective_n_posterior_samples {en_ins!r} != Kish ESS {e!r} of the same weights", case)
    lines.append(f"rs ess {fmt_w(ws)}")
    pend.append(("ess", case, e, T))
    lines.append(f"rs effn {fmt_w(ws)}")
    pend.append(("effn", case, en, T))
    ctx.case(("ess", tuple(ws)), N >= 2, case if N <= 5 else None, kind=f"ess/{kind}")


def finish_ess(ctx, lines, pend):
    outs = ctx.model(lines)
    for line, out, (what, case, real, T) in zip(lines, outs, pend):
        toks = out.split()
        if not toks or toks[0] != "ok":
            ctx.disagree("model rejected an ESS input", {"line": line[:300], "model": out, "case": case})
            continue
        exact = Fraction(toks[1])
        if exact != T.ess():
            ctx.disagree("Lean ESS differs from the exact Kish value computed with Python fractions",
                         {"line": line[:300], "model": out, "case": case})
        if not math.isfinite(real) or not abs(Fraction(real) - exact) <= Fraction(ESS_TOL) * exact:
            ctx.disagree(f"{what}: real {real!r} differs from the exact model value by more than 1e-9 relative",
                         {"line": line[:300], "model": out[:200], "impl": repr(real), "case": case})
        if what == "ess":
            fl = int(toks[2])
            if fl != math.floor(exact) or not (1 <= fl <= T.N):
                ctx.disagree("model default n is not floor(ESS) in [1,N]", {"line": line[:300], "model": out[:200], "case": case})


def do_ins(ctx, B, rng, N, kind):
    """real ImportanceNestedSampler.draw_posterior_samples (stub self, real integral states)"""
    ws_cur = gen_weights(rng, N, kind)
    ws_fin = gen_weights(rng, N, rng.choice(["dyadic", "neginf", "ns"]))
    use_final = rng.random() < 0.6
    has_final = rng.random() < 0.6
    cur = ins_state(ws_cur, split=rng.randrange(0, N + 1))
    fin = ins_state(ws_fin) if has_final else None
    used_ws, used_state = (ws_fin, fin[1]) if (use_final and has_final) else (ws_cur, cur[1])
    with np.errstate(all="ignore"):
        lw_seen = np.array(used_state.log_posterior_weights, dtype=float)
    T = Table(used_ws, lw_seen=lw_seen)
    method = rng.choice(["rejection_sampling", "rejection_sampling", "multinomial_resampling", "importance_sampling"])
    key = "ImportanceNestedSampler.draw_posterior_samples"
    if method == "rejection_sampling":
        n = rng.choice([None, 5])
        us, _ = gen_rej_uniforms(rng, T)
    else:
        n = rng.choice([None, None, rng.randrange(1, 30), rng.randrange(1, 30), 0])
        us, _ = gen_mult_uniforms(rng, T, N if n is None else n)
        if us is None:
            return
    canon, s = run_draw_ins(method, n, use_final, cur, fin, us)
    case = case_of("ins", method, n, used_ws, us, use_final=use_final, has_final=has_final)
    n_model = n
    if s is None:
        ctx.oracle_fail(key, f"raised {canon} on a valid input", case)
    else:
        src = (fin[0] if (use_final and has_final) else cur[0])
        idv = [int(v) for v in s["id"]]
        if s.dtype != src.dtype or any(v < 1000 or v >= 1000 + N for v in idv):
            ctx.oracle_fail(key, "posterior samples are not elements of the nested samples", case)
        elif method == "rejection_sampling":
            f = oracle_draw(T, method, n, src, us, s, np.array([v - 1000 for v in idv], dtype=int))
            if f:
                ctx.oracle_fail(key, f, case)
        else:
            want = n if n is not None else int(float(used_state.effective_n_posterior_samples))
            E = T.ess()
            if n is None and abs(E - round(E)) <= ESS_TOL * E and len(idv) in (round(E) - 1, round(E)):
                n_model = len(idv)
            if len(idv) != want:
                ctx.oracle_fail(key, f"{len(idv)} samples returned, {want} requested", case)
            else:
                f = oracle_draw(T, method, len(idv), src, us, s, np.array([v - 1000 for v in idv], dtype=int))
                if f:
                    ctx.oracle_fail(key, f, case)
    # model: the same function on the weights of the state that must be used; only the samples are returned
    line = (f"rs draw {method} {'none' if n_model is None else n_model} [{','.join(map(str, ids_of(N)))}] "
            f"{fmt_w(used_ws)} {fmt_u(us)}")
    B.add_ins(line, canon, case)
    ctx.case(("ins", method, n, use_final, has_final, tuple(used_ws), tuple(us)), N >= 2 and s is not None,
             case if N <= 5 else None, kind=f"ins/{method}/final={int(use_final and has_final)}")


class InsBatch(Batch):
    """the INS wrapper returns samples only: compare with the sample part of the model output"""

    def __init__(self, ctx):
        super().__init__(ctx)
        self.ins = []

    def add_ins(self, line, impl, case):
        self.ins.append((line, impl, case))

    def flush(self):
        super().flush()
        if self.ins:
            outs = self.ctx.model([l for l, _, _ in self.ins])
            for (line, impl, case), out in zip(self.ins, outs):
                toks = out.split()
                mo = "ok " + toks[2] if len(toks) == 3 and toks[0] == "ok" else out
                if mo != impl:
                    self.ctx.disagree("model != ImportanceNestedSampler.draw_posterior_samples",
                                      {"line": line[:400], "model": mo[:400], "impl": impl[:400], "case": case})
        self.ins = []


INS_KEY = "ImportanceNestedSampler.draw_posterior_samples"


def eval_ins_case(c):
    """one concrete INS-wrapper case (weights of the state that must be used, uniforms, method, n) on the real
    code; returns (failure text or None, canonical output, model line)"""
    ws = [tuple(me) for me in c["w"]]
    N = len(ws)
    st = ins_state(ws)
    other = ins_state([(1, 0)] * N)          # a state that must NOT be used
    use_final, has_final = bool(c.get("use_final", True)), bool(c.get("has_final", False))
    if use_final and has_final:
        cur, fin, used = other, st, st
    else:
        cur, fin, used = st, (other if has_final else None), st
    with np.errstate(all="ignore"):
        lw_seen = np.array(used[1].log_posterior_weights, dtype=float)
    T = Table(ws, lw_seen=lw_seen)
    us = [float(u) for u in c["u"]]
    method, n = c["method"], c["n"]
    line = (f"rs draw {method} {'none' if n is None else n} [{','.join(map(str, ids_of(N)))}] {fmt_w(ws)} {fmt_u(us)}")
    if method == "rejection_sampling":
        if len(us) < N or not all(T.rej_admissible(i, us[i]) for i in range(N)):
            return None, None, None
    elif T.S == 0 or not all(T.mult_admissible(u) for u in us):
        return None, None, None
    canon, s = run_draw_ins(method, n, use_final, cur, fin, us)
    if s is None:
        return f"raised {canon} on a valid input", canon, line
    idv = [int(v) for v in s["id"]]
    if s.dtype != used[0].dtype or any(v < 1000 or v >= 1000 + N for v in idv):
        return "posterior samples are not elements of the nested samples", canon, line
    if method != "rejection_sampling":
        with np.errstate(all="ignore"):
            want = n if n is not None else int(float(used[1].effective_n_posterior_samples))
        if len(idv) != want:
            return f"{len(idv)} samples returned, {want} requested", canon, line
    f = oracle_draw(T, method, (None if method == "rejection_sampling" else len(idv)), used[0], us, s,
                    np.array([v - 1000 for v in idv], dtype=int))
    return f, canon, line


def run_ins_case(ctx, B, c, kind):
    f, canon, line = eval_ins_case(c)
    if canon is None:
        return
    if f:
        ctx.oracle_fail(INS_KEY, f, c)
    B.add_ins(line, canon, c)
    ctx.case((kind, repr(c)), len(c["w"]) >= 2, kind=kind)


def do_ins_zero(ctx, B):
    """n = 0 through the INS wrapper: zero samples must come back (as from the plain function), for every branch"""
    ws = [(1, 0), (1, -1), (3, -2)]
    for method in METHODS_MULT:
        for use_final, has_final in [(True, False), (True, True), (False, True)]:
            c = case_of("ins", method, 0, ws, [], use_final=use_final, has_final=has_final)
            run_ins_case(ctx, B, c, "ins/n=0")


def do_nlive(ctx, rng):
    """log_w=None: the weights are compute_weights(logL, nlive); same uniforms -> same indices"""
    from nessai.posterior import draw_posterior_samples, compute_weights
    nlive = rng.randrange(2, 30)
    N = nlive + rng.randrange(1, 120)
    nested = make_nested(N)
    nested["logL"] = np.sort(np.array([rng.gauss(0, 3) for _ in range(N)]))
    exp = rng.choice(["logt", "t"])
    method = rng.choice(["rejection_sampling", "multinomial_resampling"])
    n = None if method == "rejection_sampling" else rng.choice([None, 17])
    us = [rng.random() for _ in range(max(N, 17))]
    case = dict(layer="nlive", nlive=nlive, N=N, expectation=exp, method=method, n=n)
    try:
        with np.errstate(all="ignore"):
            _, lw = compute_weights(nested["logL"], nlive, expectation=exp)
        with scripted(us):
            a, ia = draw_posterior_samples(nested, nlive=nlive, n=n, method=method, return_indices=True, expectation=exp)
        with scripted(us):
            b, ib = draw_posterior_samples(nested, log_w=lw, n=n, method=method, return_indices=True)
    except Exception as e:  # noqa
        ctx.oracle_fail("draw_posterior_samples:nlive", f"raised {_exc(e)} {e}", case)
        return
    if not np.array_equal(ia, ib) or a.tobytes() != b.tobytes():
        ctx.oracle_fail("draw_posterior_samples:nlive",
                        "drawing with nlive differs from drawing with the weights compute_weights returns", case)
    if a.tobytes() != nested[ia].tobytes():
        ctx.oracle_fail("draw_posterior_samples:nlive", "returned samples are not nested_samples[indices]", case)
    ctx.case(("nlive", nlive, N, exp, method, n, tuple(us[:4])), True, kind="nlive/" + method)


def do_malformed(ctx, B, rng):
    ids = lambda N: "[" + ",".join(map(str, ids_of(N))) + "]"  # noqa
    # unknown method strings
    for m in ["nested_sampling", "rejection", "Rejection_Sampling", "multinomial", "x"]:
        ws = gen_weights(rng, 3, "dyadic")
        T = Table(ws)
        us = [0.25, 0.5, 0.75]
        canon, s, idx, _ = run_draw(m, None, make_nested(3), T.lw, us)
        case = case_of("malformed", m, None, ws, us)
        B.add(f"rs draw {m} none {ids(3)} {fmt_w(ws)} {fmt_u(us)}", canon, case)
        if canon != "err=value":
            ctx.oracle_fail("draw_posterior_samples:unknown-method", f"method {m!r} was not rejected with ValueError: {canon}", case)
        ctx.case(("bad-method", m), False, kind="malformed/unknown-method")
    # empty input
    for m, n in [("rejection_sampling", None), ("multinomial_resampling", None), ("multinomial_resampling", 2)]:
        canon, s, idx, _ = run_draw(m, n, make_nested(0), np.zeros(0), [0.5, 0.5])
        B.add(f"rs draw {m} {'none' if n is None else n} [] [] {fmt_u([0.5, 0.5])}", canon, case_of("malformed", m, n, [], [0.5, 0.5]))
        ctx.case(("empty", m, n), False, kind="malformed/empty")
    # len(log_w) != nested.size (both >= 2: NumPy broadcasting of length-1 arrays is outside the model)
    for m in ["rejection_sampling", "multinomial_resampling"]:
        for Nn, Nw in [(2, 3), (3, 2), (5, 9)]:
            ws = gen_weights(rng, Nw, "dyadic")
            T = Table(ws)
            us = [rng.random() for _ in range(max(Nn, Nw))]
            n = None if m == "rejection_sampling" else 2
            canon, s, idx, _ = run_draw(m, n, make_nested(Nn), T.lw, us)
            B.add(f"rs draw {m} {'none' if n is None else n} {ids(Nn)} {fmt_w(ws)} {fmt_u(us)}", canon,
                  case_of("malformed", m, n, ws, us, nested=Nn))
            ctx.case(("mismatch", m, Nn, Nw), False, kind="malformed/length-mismatch")
    # all weights zero (every log-weight -inf)
    for m, n in [("rejection_sampling", None), ("multinomial_resampling", None), ("importance_sampling", 3)]:
        for N in (1, 4):
            ws = gen_weights(rng, N, "allzero")
            T = Table(ws)
            us = [rng.random() for _ in range(4)]
            canon, s, idx, _ = run_draw(m, n, make_nested(N), T.lw, us)
            B.add(f"rs draw {m} {'none' if n is None else n} {ids(N)} {fmt_w(ws)} {fmt_u(us)}", canon,
                  case_of("malformed", m, n, ws, us))
            ctx.case(("allzero", m, n, N), False, kind="malformed/all-weights-zero")


def do_exhaustive(ctx, B, N, alphabet, grid):
    """every weight vector over a small alphabet x every admissible uniform vector over a grid"""
    import itertools
    cnt = 0
    for ms in itertools.product(alphabet, repeat=N):
        if not any(ms):
            continue
        ws = [canon(m, 0) for m in ms]
        T = Table(ws)
        nested = make_nested(N)
        for us in itertools.product(grid, repeat=N):
            us = list(us)
            if all(T.rej_admissible(i, us[i]) for i in range(N)):
                canon_, s, idx, _ = run_draw("rejection_sampling", None, nested, T.lw, us)
                case = case_of("function", "rejection_sampling", None, ws, us)
                if s is None:
                    ctx.oracle_fail("draw_posterior_samples:rejection_sampling", f"raised {canon_}", case)
                else:
                    f = oracle_draw(T, "rejection_sampling", None, nested, us, s, idx)
                    if f:
                        report_fail(ctx, "draw_posterior_samples:rejection_sampling", f, case)
                B.add(f"rs draw rejection_sampling none [{','.join(map(str, ids_of(N)))}] {fmt_w(ws)} {fmt_u(us)}", canon_, case)
                ctx.case(("ex-rej", tuple(ws), tuple(us)), N >= 2, kind="exhaustive/rejection")
                cnt += 1
            if all(T.mult_admissible(u) for u in us):
                canon_, s, idx, _ = run_draw("multinomial_resampling", N, nested, T.lw, us)
                case = case_of("function", "multinomial_resampling", N, ws, us)
                if s is None:
                    ctx.oracle_fail("draw_posterior_samples:multinomial_resampling", f"raised {canon_}", case)
                else:
                    f = oracle_draw(T, "multinomial_resampling", N, nested, us, s, idx)
                    if f:
                        report_fail(ctx, "draw_posterior_samples:multinomial_resampling", f, case)
                B.add(f"rs draw multinomial_resampling {N} [{','.join(map(str, ids_of(N)))}] {fmt_w(ws)} {fmt_u(us)}", canon_, case)
                ctx.case(("ex-mult", tuple(ws), tuple(us)), N >= 2, kind="exhaustive/multinomial")
                cnt += 1
    return cnt


def do_corpus(ctx, B):
    import json
    from .core import VERIF
    d = VERIF / "corpus" / "C16"
    for path in sorted(d.glob("*.json")) if d.exists() else []:
        for c in json.loads(path.read_text())["cases"]:
            if c.get("layer") == "ins":
                run_ins_case(ctx, B, case_of("ins", c["method"], c["n"], [tuple(me) for me in c["w"]], c["u"],
                                             use_final=c.get("use_final", True), has_final=c.get("has_final", False)),
                             "corpus/ins")
                continue
            ws = [tuple(me) for me in c["w"]]
            T = Table(ws)
            us = [float(u) for u in c["u"]]
            ok = (all(T.rej_admissible(i, u) for i, u in enumerate(us)) if c["method"] == "rejection_sampling"
                  else all(T.mult_admissible(u) for u in us))
            if not ok:
                continue
            nested = make_nested(T.N)
            canon_, s, idx, _ = run_draw(c["method"], c["n"], nested, T.lw, us)
            case = case_of("function", c["method"], c["n"], ws, us)
            key = "draw_posterior_samples:" + ("rejection_sampling" if c["method"] == "rejection_sampling" else "multinomial_resampling")
            if s is None:
                ctx.oracle_fail(key, f"raised {canon_} on a valid input", case)
            else:
                f = oracle_draw(T, c["method"], c["n"], nested, us, s, idx)
                if f:
                    ctx.oracle_fail(key, f, case)
            B.add(f"rs draw {c['method']} {'none' if c['n'] is None else c['n']} [{','.join(map(str, ids_of(T.N)))}] "
                  f"{fmt_w(ws)} {fmt_u(us)}", canon_, case)
            ctx.case(("corpus", path.name, repr(c)), T.N >= 2, kind="corpus")


def do_frequency(ctx, rng):
    """unscripted generator, seeded: selection frequencies within exact binomial bounds (false alarm < 1e-9 per run)"""
    from scipy.stats import binom
    from nessai.posterior import draw_posterior_samples
    alpha = 1e-11
    state = np.random.get_state()
    try:
        ws = gen_weights(rng, rng.randrange(3, 9), rng.choice(["dyadic", "neginf", "small-ints"]))
        T = Table(ws)
        N = T.N
        nested = make_nested(N)
        seed = rng.getrandbits(32)
        np.random.seed(seed)
        case = dict(layer="frequency", w=[list(me) for me in ws], numpy_seed=seed)
        n = 20000
        with np.errstate(all="ignore"):
            _, idx = draw_posterior_samples(nested, log_w=T.lw, n=n, method="multinomial_resampling", return_indices=True)
        counts = np.bincount(idx, minlength=N)
        for i in range(N):
            p = float(T.w[i] / T.S)
            lo, hi = binom.ppf(alpha, n, p), binom.ppf(1 - alpha, n, p)
            if not (lo <= counts[i] <= hi):
                ctx.oracle_fail("draw_posterior_samples:multinomial_resampling:frequency",
                                f"sample {i} with probability {p} drawn {counts[i]} times in {n} (bounds {lo}..{hi})", case)
        R = 4000
        kept = np.zeros(N, dtype=int)
        with np.errstate(all="ignore"):
            for _ in range(R):
                _, idx = draw_posterior_samples(nested, log_w=T.lw, return_indices=True)
                kept[idx] += 1
        for i in range(N):
            p = float(T.thr(i))
            lo, hi = binom.ppf(alpha, R, p), binom.ppf(1 - alpha, R, p)
            if p == 1.0:
                lo = hi = R
            if p == 0.0:
                lo = hi = 0
            if not (lo <= kept[i] <= hi):
                ctx.oracle_fail("draw_posterior_samples:rejection_sampling:frequency",
                                f"sample {i} with w/w_max={p} kept {kept[i]} times in {R} (bounds {lo}..{hi})", case)
        ctx.case(("freq", tuple(ws), seed), True, kind="frequency")
    finally:
        np.random.set_state(state)


def do_large(ctx, B, rng, N):
    """thorough: long weight vectors"""
    for kind in ["dyadic", "ns", "neginf"]:
        ws = gen_weights(rng, N, kind)
        T = Table(ws)
        us = [rng.random() for _ in range(N)]
        us = [u if T.rej_admissible(i, u) else 0.0 for i, u in enumerate(us)]
        nested = make_nested(N)
        canon, s, idx, _ = run_draw("rejection_sampling", None, nested, T.lw, us)
        case = case_of("function", "rejection_sampling", None, ws, us)
        if s is None:
            ctx.oracle_fail("draw_posterior_samples:rejection_sampling", f"raised {canon}", case)
        else:
            f = oracle_draw(T, "rejection_sampling", None, nested, us, s, idx)
            if f:
                report_fail(ctx, "draw_posterior_samples:rejection_sampling", f, case)
        B.add(f"rs draw rejection_sampling none [{','.join(map(str, ids_of(N)))}] {fmt_w(ws)} {fmt_u(us)}", canon, case)
        ctx.case(("large-rej", N, kind, tuple(us[:8])), True, kind=f"large/rejection/N={N}")
        k = 40
        mu, _ = gen_mult_uniforms(rng, T, k)
        if mu is not None:
            canon, s, idx, _ = run_draw("multinomial_resampling", k, nested, T.lw, mu)
            case = case_of("function", "multinomial_resampling", k, ws, mu)
            if s is None:
                ctx.oracle_fail("draw_posterior_samples:multinomial_resampling", f"raised {canon}", case)
            else:
                f = oracle_draw(T, "multinomial_resampling", k, nested, mu, s, idx)
                if f:
                    report_fail(ctx, "draw_posterior_samples:multinomial_resampling", f, case)
            B.add(f"rs draw multinomial_resampling {k} [{','.join(map(str, ids_of(N)))}] {fmt_w(ws)} {fmt_u(mu)}", canon, case)
            ctx.case(("large-mult", N, kind, tuple(mu[:8])), True, kind=f"large/multinomial/N={N}")
        # default n on a long vector: count only (the model would need floor(ESS) x N comparisons)
        e = real_ess(T.lw)
        E = T.ess()
        du = [rng.random() for _ in range(N)]
        canon, s, idx, _ = run_draw("multinomial_resampling", None, nested, T.lw, du)
        if s is None or len(idx) != int(e) or not (math.floor(E) - 1 <= len(idx) <= math.floor(E) + 1):
            ctx.oracle_fail("draw_posterior_samples:multinomial_resampling",
                            f"default n: {None if s is None else len(idx)} draws, ESS {e!r}", dict(layer="large", N=N, kind=kind))
        if not abs(Fraction(e) - E) <= Fraction(ESS_TOL) * E:
            ctx.oracle_fail("effective_sample_size", f"ESS {e!r} differs from exact {float(E)!r}", dict(layer="large", N=N, kind=kind))
        ctx.case(("large-default", N, kind), True, kind=f"large/default-n/N={N}")


def _quiet():
    logging.getLogger("nessai").setLevel(logging.CRITICAL)


def correspond(ctx):
    _quiet()
    ctx.rule = ("weights m*2^e (kinds: equal, random dyadic, normalised to sum 1, with -inf entries, extreme range 2^-5000..2^3000, "
                "nested-sampling shaped, one dominant, small integers), N in 1..200 (thorough: up to 1e5); uniforms: random, 2^-30 "
                "below/above every threshold w_i/w_max resp. cdf boundary, at / one ulp either side of thresholds that are exact in "
                "float, 0, 1-2^-53, subnormal; methods rejection_sampling / multinomial_resampling / importance_sampling, n given / "
                "0 / default; plus exhaustive small vectors, the INS wrapper on real integral states, nlive path, malformed inputs; "
                "non-trivial = N >= 2 and at least one index returned, distinct (method, n, weights, uniforms)")
    ctx.assume("np.random.rand / RandomState.random_sample are uniform on [0,1) (interval length = probability)",
               "float rounding: uniforms within 2^-34 (relative) of a threshold the float computation does not reproduce "
               "exactly are not used for the exact comparison",
               "len(log_w) == nested_samples.size >= 1; weights not all zero for multinomial resampling")
    ctx.trust("hand-written model Model/Resample.lean + Model/Np.lean (cumsum, ssr); tie = this correspondence",
              "NumPy legacy RandomState.choice is run for real on a scripted random_sample (subclass override)",
              "independent exact-arithmetic oracle in Python (fractions) on the real outputs")
    rng = ctx.rng
    B = InsBatch(ctx)
    # 0. committed corpus (minimised inputs that separated past mutants), run first
    do_corpus(ctx, B)
    # 1. exhaustive small scope
    grid = [0.0, TINY, 0.125, 0.25, 0.375, 0.5, 0.75, ONE_M]
    do_exhaustive(ctx, B, 1, [0, 1, 3], grid)
    do_exhaustive(ctx, B, 2, [0, 1, 2, 3], grid)
    if not ctx.quick:
        do_exhaustive(ctx, B, 3, [0, 1, 2, 4], [0.0, 0.25, 0.5, 0.75, ONE_M])
    B.flush()
    # 2. random structured cases
    n_cases = ctx.scale(260, 2500)
    for k in range(n_cases):
        N = size_of(rng, ctx)
        kind = rng.choice(WEIGHT_KINDS)
        do_rejection(ctx, B, rng, N, kind)
        N = size_of(rng, ctx)
        kind = rng.choice(WEIGHT_KINDS)
        do_multinomial(ctx, B, rng, N, kind)
        if len(B.lines) >= 400:
            B.flush()
    B.flush()
    # equal weights: exact ESS is the integer N, int(float ESS) may be N-1
    for N in range(1, ctx.scale(24, 80)):
        do_multinomial(ctx, B, rng, N, "equal", n_mode="default")
    # 3. ESS
    lines, pend = [], []
    for k in range(ctx.scale(250, 2500)):
        do_ess(ctx, rng, size_of(rng, ctx), rng.choice(WEIGHT_KINDS), lines, pend)
    from nessai.evidence import _NSIntegralState
    S = _make_state_cls()
    e0 = S(np.zeros(0)).effective_n_posterior_samples
    out0 = ctx.model(["rs effn []"])[0]
    if e0 != 0 or out0 != "ok 0":
        ctx.oracle_fail("effective_n_posterior_samples", f"empty posterior weights give {e0!r} (model {out0}), not 0", dict(layer="ess", w=[]))
    for k in range(ctx.scale(10, 60)):
        nl = rng.randrange(2, 50)
        st = _NSIntegralState(nl)
        ll = sorted(rng.gauss(0, 5) for _ in range(rng.randrange(1, 150)))
        with np.errstate(all="ignore"):
            for v in ll:
                st.increment(v)
            a = float(st.effective_n_posterior_samples)
            b = real_ess(st.log_posterior_weights)
        if not abs(a - b) <= 1e-12 * b or not (1 - 1e-9 <= a <= len(ll) * (1 + 1e-9)):
            ctx.oracle_fail("effective_n_posterior_samples", f"_NSIntegralState: {a!r} vs effective_sample_size {b!r}, N={len(ll)}",
                            dict(layer="ns-state", nlive=nl, logL=ll))
        ctx.case(("ns-state", nl, tuple(ll[:5])), True, kind="ess/_NSIntegralState")
    finish_ess(ctx, lines, pend)
    # 4. INS wrapper, nlive path, malformed, frequencies
    for k in range(ctx.scale(150, 1500)):
        do_ins(ctx, B, rng, size_of(rng, ctx), rng.choice(WEIGHT_KINDS))
    do_ins_zero(ctx, B)
    for k in range(ctx.scale(30, 300)):
        do_nlive(ctx, rng)
    do_malformed(ctx, B, rng)
    B.flush()
    for k in range(ctx.scale(2, 10)):
        do_frequency(ctx, rng)
    # 5. long vectors
    for N in ([1000] if ctx.quick else [1000, 10000, 100000]):
        do_large(ctx, B, rng, N)
        B.flush()


def search(ctx):
    """a tie or proof broke and no failing input is known: more random cases, oracle only (real code)"""
    _quiet()
    rng = ctx.rng
    t0 = time.time()
    box = ctx.scale(45, 600)

    class Null:
        def add(self, *a): pass
        def add_ins(self, *a): pass
    B = Null()
    while time.time() - t0 < box and not ctx.fails:
        do_rejection(ctx, B, rng, size_of(rng, ctx), rng.choice(WEIGHT_KINDS))
        do_multinomial(ctx, B, rng, size_of(rng, ctx), rng.choice(WEIGHT_KINDS))
        lines, pend = [], []
        do_ess(ctx, rng, size_of(rng, ctx), rng.choice(WEIGHT_KINDS), lines, pend)
        do_ins(ctx, B, rng, size_of(rng, ctx), rng.choice(WEIGHT_KINDS))


def replay(ctx, obj):
    _quiet()
    c = obj["case"]
    layer = c.get("layer")
    if layer == "function" and "w" in c:
        f, canon = eval_draw_case(c)
        ws = [tuple(me) for me in c["w"]]
        N = len(ws)
        line = (f"rs draw {c['method']} {'none' if c['n'] is None else c['n']} [{','.join(map(str, ids_of(N)))}] "
                f"{fmt_w(ws)} {fmt_u(c['u'])}")
        ctx.diff_model([line], [canon], [c])
        if f:
            ctx.oracle_fail(obj["key"], f, c)
        ctx.case(repr(c)[:200], True, c)
    elif layer == "ins" and "w" in c:
        B = InsBatch(ctx)
        run_ins_case(ctx, B, c, "replay/ins")
        B.flush()
    else:
        correspond(ctx)
