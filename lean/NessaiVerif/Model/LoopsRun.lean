import NessaiVerif.Model.Loops
import NessaiVerif.Gen.Loops
/-
C15 — the two `nested_sampling_loop` methods assembled from the loop skeleton (Model/Loops.lean)
and the guards generated from the Python source (Gen/Loops.lean).  Core Lean only.

`body` is everything one pass of the `while` body does apart from the break tests
(standard sampler: `check_state; consume_sample; update_state; periodically_log_state`;
importance sampler: new level, new samples, `criterion = compute_stopping_criterion()`,
`iteration += 1`, …).  Theorems quantify over every `body`; the driver uses the scripted bodies
at the end of this file, which replay a prescribed trajectory exactly like the harness does on
the real samplers.
-/
namespace NessaiVerif.Loops
open NessaiVerif.Gen.Loops

variable {K : Type} [LT K] [LE K] [DecidableLT K] [DecidableLE K]

/-- `NestedSampler.finalise` -/
def stdFinalise (s : Std K) : Std K :=
  let acc := finaliseLoop (finaliseNlive s.nlive) (s.live.getD []) 0 ⟨s.incs, s.nested⟩
  { s with incs := acc.incs, nested := acc.nested,
           live := if finaliseClearsLive then none else s.live,
           finalised := if finaliseSetsFlag then true else s.finalised }

/-- `NestedSampler.nested_sampling_loop` (with `prior_sampling=False`); `none`: still sampling after `fuel` bodies -/
def stdRun (body : Std K → Std K) (fuel : Nat) (s : Std K) : Option (Nat × Std K) :=
  if stdEntryReturn s then some (0, s)
  else match runLoop stdWhile stdTop stdBot body fuel s 0 with
    | none => none
    | some (k, s') => some (k, if stdFinaliseGuard s' then stdFinalise s' else s')

/-- `OrderedSamples.finalise` + the flag of `ImportanceNestedSampler.finalise` (which returns at once when already finalised) -/
def insFinalise (s : Ins K) : Ins K :=
  if s.finalised then s
  else { s with nested := s.nested ++ s.live.getD [], live := none, finalised := true }

/-- `ImportanceNestedSampler.nested_sampling_loop` -/
def insRun (body : Ins K → Ins K) (fuel : Nat) (s : Ins K) : Option (Nat × Ins K) :=
  if insEntryReturn s then some (0, s)
  else match runLoop insWhile insTop insBot body fuel s 0 with
    | none => none
    | some (k, s') => some (k, if insFinaliseGuard s' then insFinalise s' else s')

/-! ### scripted bodies (driver / correspondence) -/

/-- one `consume_sample`: the worst live point becomes a nested sample, a new point (fresh id) joins
the live set, `condition` takes the next prescribed value, `iteration += 1` -/
def stdScriptBody (s : Std K) : Std K :=
  let live := s.live.getD []
  { s with condition := s.traj.headD s.condition, traj := s.traj.tail,
           iteration := s.iteration + 1, bodies := s.bodies + 1,
           nested := s.nested ++ live.take 1,
           live := some (live.drop 1 ++ [1000 + s.bodies]) }

/-- one importance-sampler iteration: `criterion` takes the next prescribed vector, `iteration += 1` -/
def insScriptBody (s : Ins K) : Ins K :=
  { s with criterion := s.traj.headD s.criterion, traj := s.traj.tail,
           iteration := s.iteration + 1, bodies := s.bodies + 1 }

end NessaiVerif.Loops
