/-
C14 — seeded runs are reproducible and independent of the parallelisation settings.

Core Lean only (linked into the driver).  Three things live here:

1. the row types of the whole-package tables that `harness/c14_tables.py` regenerates from the nessai sources
   into `Gen/Tables.lean` (reads of the parallelisation settings, method calls on the pool, random-number call
   sites, draws guarded by a setting);
2. the HAND-WRITTEN allow-lists the generated tables are judged against (the batch-evaluation layer and its
   wiring, the order-preserving pool API, the exceptions for random sources, the known setting-guarded draws).
   They are deliberately not generated: a new read of `n_pool` in a sampler, a new unseeded generator, a new
   `imap_unordered` makes a table row that no entry admits, and the theorem of Props/C14.lean stops checking;
3. a small model of the one known interference: `Model.configure_pool` switching `allow_vectorised` off and the
   vectorisation probe (`Model.vectorised_likelihood`) drawing ten prior points from the seeded NumPy generator.
-/
namespace NessaiVerif.Tables

/-! ## 1. rows of the generated tables -/

/-- how a parallelisation setting is read at a site:
* `forward` — the value is only handed on (`f(n_pool=n_pool)`, `self.n_pool = n_pool`);
* `guard`   — tested by an `if` whose branches only store settings / log (`if chunksize: model.chunksize = chunksize`);
* `test`    — any other condition (if / while / conditional expression / left operand of `and`/`or` / comprehension filter);
* `use`     — anything else (positional argument, receiver of a method call, return value, f-string). -/
inductive ReadKind | forward | guard | test | use
deriving DecidableEq, Repr

structure PoolRead where
  file : String
  func : String
  line : Nat
  setting : String
  kind : ReadKind
deriving DecidableEq, Repr

structure PoolCall where
  file : String
  func : String
  line : Nat
  method : String
deriving DecidableEq, Repr

/-- what a random-number site does -/
inductive SiteKind | draw | seed | construct | state | reference
deriving DecidableEq, Repr

/-- where the numbers come from:
* `numpyGlobal` — the legacy global `numpy.random` generator (also `scipy.stats` `.rvs` without `random_state`);
* `torchGlobal` — the default torch generator;
* `delegated` — a `.sample…(…)` method of a flow / distribution object (torch / glasflow code drawing from the default
  torch generator — an assumption about third-party code);
* `freshSeeded` / `freshUnseeded` — construction of a new generator with / without an explicit seed;
* `explicitGenerator` — a draw through a `generator=` / `random_state=` argument;
* `stdlibRandom` — Python's `random` module; `osEntropy` — `os.urandom`, `uuid4`, `secrets`, `torch.seed`. -/
inductive RngSource
  | numpyGlobal | torchGlobal | delegated | freshSeeded | freshUnseeded | explicitGenerator | stdlibRandom | osEntropy
deriving DecidableEq, Repr

structure RngSite where
  file : String
  func : String
  line : Nat
  call : String
  kind : SiteKind
  source : RngSource
deriving DecidableEq, Repr

structure GuardedDraw where
  file : String
  func : String
  line : Nat
  setting : String
  draw : String
deriving DecidableEq, Repr

/-! ## 2. hand-written allow-lists -/

/-- `layer`: part of the batch-evaluation layer, may branch on and use the settings;
    `wiring`: a constructor that only forwards them (kinds `forward` and `guard`). -/
inductive Mode | layer | wiring
deriving DecidableEq, Repr

structure Allow where
  file : String
  func : String
  mode : Mode
deriving DecidableEq, Repr

/-- The batch-evaluation layer and the wiring that leads to it.  Every function is listed by (file, qualified name). -/
def batchLayer : List Allow := [
  -- the layer itself (C10's model covers `batch_evaluate_function` and `array_split_chunksize`)
  ⟨"nessai/utils/multiprocessing.py", "batch_evaluate_function", .layer⟩,
  ⟨"nessai/utils/multiprocessing.py", "get_n_pool", .layer⟩,
  ⟨"nessai/utils/structures.py", "array_split_chunksize", .layer⟩,
  ⟨"nessai/model.py", "Model.batch_evaluate_log_likelihood", .layer⟩,
  ⟨"nessai/model.py", "Model.batch_evaluate_log_prior", .layer⟩,
  ⟨"nessai/model.py", "Model.batch_evaluate_log_prior_unit_hypercube", .layer⟩,
  ⟨"nessai/model.py", "Model.configure_pool", .layer⟩,
  ⟨"nessai/model.py", "Model.close_pool", .layer⟩,
  -- the vectorisation probe: decides `vectorised` for the layer.  Its VALUE is covered by the batch-consistency
  -- hypothesis; its SIDE EFFECT on the random stream is not — see `knownGuardedDraws` and section 3.
  ⟨"nessai/model.py", "Model.vectorised_likelihood", .layer⟩,
  -- wiring: constructors that hand the settings to `Model.configure_pool` / store them on the model
  ⟨"nessai/flowsampler.py", "FlowSampler.__init__", .wiring⟩,
  ⟨"nessai/samplers/base.py", "BaseNestedSampler.__init__", .wiring⟩,
  ⟨"nessai/samplers/nestedsampler.py", "NestedSampler.__init__", .wiring⟩,
  ⟨"nessai/samplers/importancesampler.py", "ImportanceNestedSampler.__init__", .wiring⟩
]

def modeAdmits : Mode → ReadKind → Bool
  | .layer, _ => true
  | .wiring, .forward => true
  | .wiring, .guard => true
  | .wiring, _ => false

/-- is this read of a parallelisation setting inside the batch layer / its wiring? -/
def readAllowed (r : PoolRead) : Bool :=
  batchLayer.any fun a => a.file == r.file && a.func == r.func && modeAdmits a.mode r.kind

/-- the pool methods the layer may call: `map` returns results in input order (the `PoolLawful` hypothesis of C10
    is about `map`); `imap_unordered`, `apply_async`, … are not admitted. -/
def poolApi : List String := ["map", "close", "join", "terminate"]

def callAllowed (c : PoolCall) : Bool :=
  poolApi.contains c.method &&
    batchLayer.any fun a => a.file == c.file && a.func == c.func && a.mode == .layer

/-- Justified exceptions for random sources, by (file, function, call text).  Empty at the pinned commit. -/
def rngExceptions : List (String × String × String) := []

/-- does the site draw from a source that `configure_random_seed` seeds (given the list of sources it seeds)? -/
def sourceSeeded (seeded : List RngSource) : RngSource → Bool
  | .numpyGlobal => seeded.contains .numpyGlobal
  | .torchGlobal => seeded.contains .torchGlobal
  | .delegated => seeded.contains .torchGlobal
  | .freshSeeded => true          -- deterministic given its explicit seed argument
  | .freshUnseeded => false
  | .explicitGenerator => false   -- would need its own justification (exception list)
  | .stdlibRandom => false        -- `configure_random_seed` does not seed the `random` module
  | .osEntropy => false

def siteOk (seeded : List RngSource) (s : RngSite) : Bool :=
  sourceSeeded seeded s.source || rngExceptions.contains (s.file, s.func, s.call)

/-- The places where drawing random numbers is conditional on a parallelisation setting, by (file, function, setting).
    Exactly the vectorisation probe: `Model.vectorised_likelihood` draws ten prior points iff `allow_vectorised`
    (which `configure_pool` switches off for a pool of unknown size) and `batch_evaluate_log_likelihood` evaluates
    that property iff `allow_vectorised`.  This is the recorded finding of C14, not an endorsement. -/
def knownGuardedDraws : List (String × String × String) := [
  ("nessai/model.py", "Model.vectorised_likelihood", "allow_vectorised"),
  ("nessai/model.py", "Model.batch_evaluate_log_likelihood", "allow_vectorised")
]

def guardedKnown (g : GuardedDraw) : Bool := knownGuardedDraws.contains (g.file, g.func, g.setting)

/-! ## 3. the vectorisation probe and `configure_pool` -/

/-- Python truthiness of an optional count (`None` and `0` are falsy) -/
def truthy : Option Nat → Bool
  | some n => n != 0
  | none => false

/-- arguments of `Model.configure_pool` as far as they matter: is a user pool given, what `get_n_pool` finds on it,
    the `n_pool` argument -/
structure PoolArgs where
  userPool : Bool
  detected : Option Nat
  nPoolArg : Option Nat
deriving DecidableEq, Repr

/-- `Model.configure_pool` (first call): resulting `(allow_vectorised, n_pool, pool present)` from the initial
    `allow_vectorised`.  Follows the code: a user pool whose size can neither be found nor was given switches
    vectorisation off; without a user pool a truthy `n_pool` creates a pool. -/
def configurePool (allow0 : Bool) (a : PoolArgs) : Bool × Option Nat × Bool :=
  if a.userPool then
    if a.detected.isNone && !truthy a.nPoolArg then (false, a.nPoolArg, true)
    else if truthy a.detected then (allow0, a.detected, true)
    else (allow0, a.nPoolArg, true)
  else if truthy a.nPoolArg then (allow0, a.nPoolArg, true)
  else (allow0, a.nPoolArg, false)

/-- number of `new_point` calls of the probe (the literal `range(10)` in `Model.vectorised_likelihood`) -/
def probePoints : Nat := 10

/-- first `Model.batch_evaluate_log_likelihood` after seeding: number of prior points drawn from the seeded NumPy
    generator by the probe, the `vectorised` flag handed to `batch_evaluate_function`, and the cache afterwards.
    `cached` is `Model._vectorised_likelihood` (`none` on a fresh model instance), `isVec` what the probe would find. -/
def probe (allow : Bool) (cached : Option Bool) (isVec : Bool) : Nat × Bool × Option Bool :=
  if !allow then (0, false, cached)              -- `allow_vectorised and …` short-circuits: property not evaluated
  else match cached with
    | some v => (0, v, some v)                     -- cached: no draw
    | none => (probePoints, isVec, some isVec)     -- probe: ten `new_point` calls

/-- random points consumed by the probe in a run that starts with these settings -/
def probeDraws (allow0 : Bool) (a : PoolArgs) (cached : Option Bool) (isVec : Bool) : Nat :=
  (probe (configurePool allow0 a).1 cached isVec).1


/-! ## 4. `BaseNestedSampler.configure_random_seed` -/

/-- Python values of the `seed` argument: `None` or an integer.  `seed is None` -/
def pyIsNone : Option Int → Bool
  | none => true
  | some _ => false

/-- truthiness of the seed argument (`if seed:` / `if not seed:`): `None` and `0` are falsy -/
def pyTruthy : Option Int → Bool
  | none => false
  | some n => n != 0

inductive CmpOp | eq | ne | lt | le | gt | ge
deriving DecidableEq, Repr

/-- `seed <op> c` for an integer constant (`None == c` is False, `None != c` True; ordering with `None` modelled False) -/
def pyCmp (op : CmpOp) (s : Option Int) (c : Int) : Bool :=
  match s, op with
  | none, .ne => true
  | none, _ => false
  | some n, .eq => n == c
  | some n, .ne => n != c
  | some n, .lt => decide (n < c)
  | some n, .le => decide (n ≤ c)
  | some n, .gt => decide (n > c)
  | some n, .ge => decide (n ≥ c)

/-- an assignment to `seed` (the argument) or `self.seed` inside `configure_random_seed` -/
structure SeedBind where
  line : Nat
  target : String
  value : String
  inGuard : Bool
deriving DecidableEq, Repr

/-- a call that seeds a generator inside `configure_random_seed` -/
structure SeedCall where
  line : Nat
  call : String
  source : RngSource
  arg : String
  unconditional : Bool
deriving DecidableEq, Repr

/-- the argument may only be rebound inside the replacement branch; `self.seed` must store exactly the argument, outside it -/
def seedBindOk (b : SeedBind) : Bool :=
  if b.target == "seed" then b.inGuard
  else b.target == "self.seed" && b.value == "seed" && !b.inGuard

/-- a seeding call must be a top-level statement (executed on every path) and pass the stored seed -/
def seedCallOk (c : SeedCall) : Bool :=
  c.unconditional && (c.arg == "self.seed" || c.arg == "seed")

/-- `self.seed` is stored before every seeding call, and both global generators are seeded unconditionally -/
def seedingOk (binds : List SeedBind) (calls : List SeedCall) : Bool :=
  binds.all seedBindOk && calls.all seedCallOk &&
  binds.any (fun b => b.target == "self.seed") &&
  calls.all (fun c => binds.all fun b => b.target != "self.seed" || decide (b.line < c.line)) &&
  calls.any (fun c => c.source == .numpyGlobal) && calls.any (fun c => c.source == .torchGlobal)


/-! ## 5. order of seeding and drawing in the constructor chain -/

/-- one call executed by `FlowSampler(...)` for a new run (constructors expanded in place, in execution order) -/
structure CallStep where
  idx : Nat
  file : String
  func : String
  line : Nat
  call : String
  draws : Bool
  seeds : Bool
deriving DecidableEq, Repr

/-- Calls that draw random numbers BEFORE `configure_random_seed` and are admitted because what they draw is discarded:
`Model.verify_model` draws test points to check the user's prior / likelihood, keeps none of them and stores nothing
that depends on them (that the results do not depend on the generator state before seeding is what the digest runs
with a different scrambled ambient state per run observe). By (file, function, call text). -/
def preSeedDiscarded : List (String × String × String) := [
  ("nessai/samplers/base.py", "BaseNestedSampler.__init__", "model.verify_model")
]

/-- the chain seeds, exactly once, and every drawing call before the seeding step is an admitted discarded one -/
def chainSeedsFirst (steps : List CallStep) : Bool :=
  (steps.filter (·.seeds)).length == 1 &&
  (steps.takeWhile (fun s => !s.seeds)).all fun s => !s.draws || preSeedDiscarded.contains (s.file, s.func, s.call)

end NessaiVerif.Tables
