import NessaiVerif.Model.Term
/-
C20 — helper lemmas for the loop models (FlowProposal.populate, both branches).
-/
namespace NessaiVerif.Term

/-! ### EF / maximum -/

theorem max2_eq (a b : EF) : EF.max2 a b = a ∨ EF.max2 a b = b := by
  unfold EF.max2
  split
  · left; rfl
  · right; rfl
  · split <;> simp

theorem foldl_max2_mem (xs : List EF) (x : EF) : xs.foldl EF.max2 x = x ∨ xs.foldl EF.max2 x ∈ xs := by
  induction xs generalizing x with
  | nil => simp
  | cons y ys ih =>
    simp only [List.foldl_cons, List.mem_cons]
    rcases ih (EF.max2 x y) with h | h
    · rcases max2_eq x y with h' | h'
      · left; rw [h, h']
      · right; left; rw [h, h']
    · right; right; exact h

/-- `ndarray.max()` of a non-empty array is one of its elements -/
theorem maxNp_mem (xs : List EF) (h : xs ≠ []) : EF.maxNp xs ∈ xs := by
  cases xs with
  | nil => exact absurd rfl h
  | cons x r =>
    simp only [EF.maxNp, List.mem_cons]
    rcases foldl_max2_mem r x with h | h
    · left; exact h
    · right; exact h

theorem foldl_max2_nan (xs : List EF) : xs.foldl EF.max2 .nan = .nan := by
  induction xs with
  | nil => rfl
  | cons y ys ih => simpa [EF.max2] using ih

theorem foldl_max2_all_nan (xs : List EF) (x : EF) (hx : x = .nan) :
    xs.foldl EF.max2 x = .nan := by
  subst hx; exact foldl_max2_nan xs

theorem foldl_max2_all_ninf (xs : List EF) (h : ∀ y ∈ xs, y = .ninf) : xs.foldl EF.max2 .ninf = .ninf := by
  induction xs with
  | nil => rfl
  | cons y ys ih =>
    have hy : y = .ninf := h y (by simp)
    subst hy
    simp only [List.foldl_cons]
    have : EF.max2 .ninf .ninf = .ninf := by decide
    rw [this]
    exact ih (fun z hz => h z (by simp [hz]))

/-- the point attaining a finite maximum is always accepted: `0 > log(u)` for every `u` in [0, 1) -/
theorem acc_at_max (c : Int) (u : LU) : accLU (EF.sub (.fin c) (.fin c)) u = true := by
  cases u <;> simp [EF.sub, accLU]

/-! ### acceptIds -/

theorem acceptIds_pos (c : Int) (u : Nat → LU) (l : List Item) (j : Nat)
    (h : ∃ it ∈ l, it.logw = .fin c) : 1 ≤ (acceptIds (.fin c) u l j).length := by
  induction l generalizing j with
  | nil => obtain ⟨_, h, _⟩ := h; cases h
  | cons a r ih =>
    unfold acceptIds
    obtain ⟨it, hit, hw⟩ := h
    rcases List.mem_cons.mp hit with rfl | hr
    · rw [hw, acc_at_max]; simp
    · split
      · simp
      · exact ih (j + 1) ⟨it, hr, hw⟩

theorem acceptIds_nan (u : Nat → LU) (l : List Item) (j : Nat) : acceptIds .nan u l j = [] := by
  induction l generalizing j with
  | nil => rfl
  | cons a r ih =>
    unfold acceptIds
    have : EF.sub a.logw .nan = .nan := by cases a.logw <;> rfl
    rw [this]; simp [accLU, ih]

theorem acceptIds_all_ninf (u : Nat → LU) (l : List Item) (j : Nat) (h : ∀ it ∈ l, it.logw = .ninf) :
    acceptIds .ninf u l j = [] := by
  induction l generalizing j with
  | nil => rfl
  | cons a r ih =>
    unfold acceptIds
    have ha : a.logw = .ninf := h a (by simp)
    rw [ha]
    have : EF.sub .ninf .ninf = .nan := rfl
    rw [this]
    simp [accLU]
    exact ih (j + 1) (fun it hit => h it (by simp [hit]))

/-! ### standard branch -/

/-- the progress hypothesis: the batch is not empty after the truncation and the maximum of its
log-weights is a finite number -/
def Good (m : Option EF) (b : Batch) : Prop :=
  b.items.filter (keep m) ≠ [] ∧ ∃ c, EF.maxNp ((b.items.filter (keep m)).map (·.logw)) = .fin c

/-- the excluded batches: nothing survives the truncation, or every surviving log-weight is NaN, or
every surviving log-weight is −∞ -/
def Stuck (m : Option EF) (b : Batch) : Prop :=
  (∀ it ∈ b.items.filter (keep m), it.logw = .nan) ∨ (∀ it ∈ b.items.filter (keep m), it.logw = .ninf)

theorem stdStep_used (N : Nat) (m : Option EF) (u : Nat → Nat → LU) (st : StdState) (b : Batch) :
    (stdStep N m u st b).used = st.used + 1 := by
  unfold stdStep; simp only []; split <;> rfl

theorem stdStep_nAcc_ge (N : Nat) (m : Option EF) (u : Nat → Nat → LU) (st : StdState) (b : Batch) :
    st.nAcc ≤ (stdStep N m u st b).nAcc := by
  unfold stdStep; simp only []; split <;> simp

theorem stdStep_good (N : Nat) (m : Option EF) (u : Nat → Nat → LU) (st : StdState) (b : Batch)
    (hg : Good m b) : st.nAcc + 1 ≤ (stdStep N m u st b).nAcc := by
  obtain ⟨hne, c, hc⟩ := hg
  unfold stdStep
  simp only []
  have hemp : (b.items.filter (keep m)).isEmpty = false := by
    cases h : b.items.filter (keep m) with
    | nil => exact absurd h hne
    | cons _ _ => rfl
  rw [hemp]
  simp only [Bool.false_eq_true, if_false]
  rw [hc]
  have hmem : (.fin c : EF) ∈ (b.items.filter (keep m)).map (·.logw) := by
    rw [← hc]; exact maxNp_mem _ (by simpa using hne)
  obtain ⟨it, hit, hw⟩ := List.mem_map.mp hmem
  have := acceptIds_pos c (u st.calls) (b.items.filter (keep m)) 0 ⟨it, hit, hw⟩
  omega

theorem stdStep_stuck (N : Nat) (m : Option EF) (u : Nat → Nat → LU) (st : StdState) (b : Batch)
    (hs : Stuck m b) : (stdStep N m u st b).nAcc = st.nAcc := by
  unfold stdStep
  simp only []
  cases hx : b.items.filter (keep m) with
  | nil => simp
  | cons a r =>
    simp only [List.isEmpty_cons, Bool.false_eq_true, if_false]
    rcases hs with h | h
    · rw [hx] at h
      have hmx : EF.maxNp ((a :: r).map (·.logw)) = .nan := by
        simp only [List.map_cons, EF.maxNp]
        exact foldl_max2_all_nan _ _ (h a (by simp))
      rw [hmx, acceptIds_nan]; simp
    · rw [hx] at h
      have hmx : EF.maxNp ((a :: r).map (·.logw)) = .ninf := by
        simp only [List.map_cons, EF.maxNp]
        rw [h a (by simp)]
        exact foldl_max2_all_ninf _ (by
          intro y hy; obtain ⟨it, hit, rfl⟩ := List.mem_map.mp hy; exact h it (by simp [hit]))
      rw [hmx, acceptIds_all_ninf _ _ _ h]; simp

theorem stdStep_len (N : Nat) (m : Option EF) (u : Nat → Nat → LU) (st : StdState) (b : Batch)
    (hlt : st.nAcc < N) (hinv : st.xs.length = min st.nAcc N) :
    (stdStep N m u st b).xs.length = min (stdStep N m u st b).nAcc N := by
  unfold stdStep
  simp only []
  split
  · simpa using hinv
  · simp only [List.length_append, List.length_take]
    omega

/-- generalised termination statement of the standard branch -/
theorem populateStd_done (N : Nat) (m : Option EF) (u : Nat → Nat → LU) (bs : List Batch) (st : StdState)
    (hg : ∀ b ∈ bs, Good m b) (hlen : N ≤ st.nAcc + bs.length) (hinv : st.xs.length = min st.nAcc N) :
    ∃ s, populateStd N m u bs st = .done s ∧ N ≤ s.nAcc ∧ s.used + st.nAcc ≤ st.used + max N st.nAcc
      ∧ s.xs.length = N := by
  induction bs generalizing st with
  | nil =>
    simp only [List.length_nil, Nat.add_zero] at hlen
    refine ⟨st, by simp [populateStd, hlen], hlen, by omega, by omega⟩
  | cons b bs ih =>
    unfold populateStd
    by_cases h : N ≤ st.nAcc
    · exact ⟨st, by simp [h], h, by omega, by omega⟩
    · simp only [h, if_false]
      have hgood := stdStep_good N m u st b (hg b (by simp))
      have hused := stdStep_used N m u st b
      have hl := stdStep_len N m u st b (by omega) hinv
      obtain ⟨s, hs, h1, h2, h3⟩ := ih (stdStep N m u st b) (fun b' hb' => hg b' (by simp [hb']))
        (by simp only [List.length_cons] at hlen; omega) hl
      exact ⟨s, hs, h1, by omega, h3⟩

theorem populateStd_spin (N : Nat) (m : Option EF) (u : Nat → Nat → LU) (bs : List Batch) (st : StdState)
    (hs : ∀ b ∈ bs, Stuck m b) (hN : st.nAcc < N) :
    ∃ s, populateStd N m u bs st = .spin s ∧ s.nAcc = st.nAcc ∧ s.used = st.used + bs.length := by
  induction bs generalizing st with
  | nil => exact ⟨st, by simp [populateStd, Nat.not_le.mpr hN], rfl, by simp⟩
  | cons b bs ih =>
    unfold populateStd
    simp only [Nat.not_le.mpr hN, if_false]
    have h1 := stdStep_stuck N m u st b (hs b (by simp))
    have h2 := stdStep_used N m u st b
    obtain ⟨s, hs', ha, hu⟩ := ih (stdStep N m u st b) (fun b' hb' => hs b' (by simp [hb'])) (by omega)
    exact ⟨s, hs', by omega, by simp only [List.length_cons]; omega⟩


/-! ### exact accounting of the standard branch: which batches accept, and how many points -/

/-- Boolean form of `Good` (decidable on concrete streams) -/
def isGood (m : Option EF) (b : Batch) : Bool :=
  !(b.items.filter (keep m)).isEmpty && (EF.maxNp ((b.items.filter (keep m)).map (·.logw))).isFinite

theorem isGood_iff (m : Option EF) (b : Batch) : isGood m b = true ↔ Good m b := by
  unfold isGood Good
  constructor
  · intro h
    simp only [Bool.and_eq_true, Bool.not_eq_true', List.isEmpty_eq_false_iff] at h
    refine ⟨h.1, ?_⟩
    cases hm : EF.maxNp ((b.items.filter (keep m)).map (·.logw)) with
    | fin c => exact ⟨c, rfl⟩
    | nan => rw [hm] at h; simp [EF.isFinite] at h
    | ninf => rw [hm] at h; simp [EF.isFinite] at h
    | pinf => rw [hm] at h; simp [EF.isFinite] at h
  · rintro ⟨hne, c, hc⟩
    simp only [Bool.and_eq_true, Bool.not_eq_true', List.isEmpty_eq_false_iff]
    exact ⟨hne, by rw [hc]; rfl⟩

/-- number of points the loop body accepts from batch `b` when it is the `calls`-th non-empty batch -/
def batchAcc (m : Option EF) (u : Nat → Nat → LU) (calls : Nat) (b : Batch) : Nat :=
  if (b.items.filter (keep m)).isEmpty then 0
  else (acceptIds (EF.maxNp ((b.items.filter (keep m)).map (·.logw))) (u calls) (b.items.filter (keep m)) 0).length

/-- does batch `b` consume a call of `np.random.rand` (it does unless it is empty after truncation) -/
def batchCalls (m : Option EF) (b : Batch) : Nat := if (b.items.filter (keep m)).isEmpty then 0 else 1

/-- total number of points a stream would accept, the `calls`-th `rand` call being the next one -/
def stdAccepted (m : Option EF) (u : Nat → Nat → LU) : List Batch → Nat → Nat
  | [], _ => 0
  | b :: bs, calls => batchAcc m u calls b + stdAccepted m u bs (calls + batchCalls m b)

theorem stdStep_nAcc_eq (N : Nat) (m : Option EF) (u : Nat → Nat → LU) (st : StdState) (b : Batch) :
    (stdStep N m u st b).nAcc = st.nAcc + batchAcc m u st.calls b := by
  unfold stdStep batchAcc; simp only []; split <;> simp

theorem stdStep_calls_eq (N : Nat) (m : Option EF) (u : Nat → Nat → LU) (st : StdState) (b : Batch) :
    (stdStep N m u st b).calls = st.calls + batchCalls m b := by
  unfold stdStep batchCalls; simp only []; split <;> simp

theorem max2_eq_ninf (x y : EF) (h : EF.max2 x y = .ninf) : x = .ninf ∧ y = .ninf := by
  cases x <;> cases y <;> simp [EF.max2, EF.gt] at h ⊢
  split at h <;> cases h

theorem foldl_max2_eq_ninf (xs : List EF) (x : EF) (h : xs.foldl EF.max2 x = .ninf) :
    x = .ninf ∧ ∀ y ∈ xs, y = .ninf := by
  induction xs generalizing x with
  | nil => exact ⟨h, by simp⟩
  | cons y ys ih =>
    obtain ⟨h1, h2⟩ := ih (EF.max2 x y) h
    obtain ⟨hx, hy⟩ := max2_eq_ninf x y h1
    exact ⟨hx, by intro z hz; rcases List.mem_cons.mp hz with rfl | hz; exact hy; exact h2 z hz⟩

theorem acceptIds_pinf (u : Nat → LU) (l : List Item) (j : Nat) : acceptIds .pinf u l j = [] := by
  induction l generalizing j with
  | nil => rfl
  | cons a r ih =>
    unfold acceptIds
    have : accLU (EF.sub a.logw .pinf) (u j) = false := by cases a.logw <;> simp [EF.sub, accLU]
    rw [this]; simp [ih]

/-- a Good batch accepts at least one point -/
theorem batchAcc_pos (m : Option EF) (u : Nat → Nat → LU) (calls : Nat) (b : Batch) (hg : Good m b) :
    1 ≤ batchAcc m u calls b := by
  have := stdStep_good 0 m u { calls := calls } b hg
  rw [stdStep_nAcc_eq] at this
  simpa using this

/-- a batch that is not Good accepts NOTHING: empty after truncation, or a maximum weight that is NaN
(one NaN weight suffices), −∞ or +∞ -/
theorem batchAcc_zero (m : Option EF) (u : Nat → Nat → LU) (calls : Nat) (b : Batch) (hg : ¬ Good m b) :
    batchAcc m u calls b = 0 := by
  unfold batchAcc
  cases hx : b.items.filter (keep m) with
  | nil => simp
  | cons a r =>
    simp only [List.isEmpty_cons, Bool.false_eq_true, if_false]
    cases hm : EF.maxNp ((a :: r).map (·.logw)) with
    | fin c => exact absurd ⟨by rw [hx]; simp, c, by rw [hx]; exact hm⟩ hg
    | nan => rw [acceptIds_nan]; rfl
    | pinf => rw [acceptIds_pinf]; rfl
    | ninf =>
      have hall : ∀ it ∈ a :: r, it.logw = .ninf := by
        simp only [List.map_cons, EF.maxNp] at hm
        obtain ⟨h1, h2⟩ := foldl_max2_eq_ninf _ _ hm
        intro it hit
        rcases List.mem_cons.mp hit with rfl | hr
        · exact h1
        · exact h2 _ (List.mem_map.mpr ⟨it, hr, rfl⟩)
      rw [acceptIds_all_ninf _ _ _ hall]; rfl

/-- exact termination criterion of the standard branch -/
theorem populateStd_isDone_iff (N : Nat) (m : Option EF) (u : Nat → Nat → LU) (bs : List Batch) (st : StdState) :
    (populateStd N m u bs st).isDone = true ↔ N ≤ st.nAcc + stdAccepted m u bs st.calls := by
  induction bs generalizing st with
  | nil =>
    unfold populateStd stdAccepted
    by_cases h : N ≤ st.nAcc <;> simp [h, Outcome.isDone]
  | cons b bs ih =>
    unfold populateStd stdAccepted
    by_cases h : N ≤ st.nAcc
    · simp only [h, if_true, Outcome.isDone, true_iff]; omega
    · simp only [h, if_false]
      rw [ih, stdStep_nAcc_eq, stdStep_calls_eq]
      omega

theorem countGood_le_stdAccepted (m : Option EF) (u : Nat → Nat → LU) (bs : List Batch) (calls : Nat) :
    bs.countP (isGood m) ≤ stdAccepted m u bs calls := by
  induction bs generalizing calls with
  | nil => simp [stdAccepted]
  | cons b bs ih =>
    unfold stdAccepted
    rw [List.countP_cons]
    have := ih (calls + batchCalls m b)
    by_cases hg : isGood m b = true
    · have := batchAcc_pos m u calls b ((isGood_iff m b).mp hg)
      simp only [hg, if_true]; omega
    · simp only [hg, Bool.false_eq_true, if_false]; omega

theorem stdAccepted_zero (m : Option EF) (u : Nat → Nat → LU) (bs : List Batch) (calls : Nat)
    (h : ∀ b ∈ bs, isGood m b = false) : stdAccepted m u bs calls = 0 := by
  induction bs generalizing calls with
  | nil => rfl
  | cons b bs ih =>
    unfold stdAccepted
    have hb : ¬ Good m b := by
      intro hg; have := (isGood_iff m b).mpr hg; rw [h b (by simp)] at this; cases this
    rw [batchAcc_zero m u calls b hb, ih _ (fun b' hb' => h b' (by simp [hb']))]

/-! ### accumulate branch -/

/-- hypothesis of the bound: every batch proposes at least one point and at least one survives the truncation -/
def NonEmpty (m : Option EF) (b : Batch) : Prop := b.items.filter (keep m) ≠ [] ∧ 1 ≤ b.drawn

instance (m : Option EF) (b : Batch) : Decidable (NonEmpty m b) := by unfold NonEmpty; exact inferInstance

theorem accStep_used (N : Nat) (m : Option EF) (maxS : Nat) (u : Nat → Nat → LU) (st : AccState) (b : Batch) :
    (accStep N m maxS u st b).1.used = st.used + 1 := by
  unfold accStep; simp only []; split
  · rfl
  · split <;> rfl

theorem accStep_nProp (N : Nat) (m : Option EF) (maxS : Nat) (u : Nat → Nat → LU) (st : AccState) (b : Batch) :
    (accStep N m maxS u st b).1.nProp = st.nProp + b.drawn := by
  unfold accStep; simp only []; split
  · rfl
  · split <;> rfl

theorem accStep_break (N : Nat) (m : Option EF) (maxS : Nat) (u : Nat → Nat → LU) (st : AccState) (b : Batch)
    (h : NonEmpty m b) : (accStep N m maxS u st b).2 = decide (maxS < st.nProp + b.drawn) := by
  obtain ⟨hne, _⟩ := h
  unfold accStep
  simp only []
  have hemp : (b.items.filter (keep m)).isEmpty = false := by
    cases h : b.items.filter (keep m) with
    | nil => exact absurd h hne
    | cons _ _ => rfl
  rw [hemp]
  simp only [Bool.false_eq_true, if_false]
  split <;> rfl

theorem accStep_empty (N : Nat) (m : Option EF) (maxS : Nat) (u : Nat → Nat → LU) (st : AccState) (b : Batch)
    (h : b.items.filter (keep m) = []) :
    accStep N m maxS u st b = ({ st with nProp := st.nProp + b.drawn, used := st.used + 1 }, false) := by
  unfold accStep; simp [h]

theorem accFinish_used (N : Nat) (u : Nat → Nat → LU) (st : AccState) : (accFinish N u st).used = st.used := rfl

theorem accFinish_len (N : Nat) (u : Nat → Nat → LU) (st : AccState) : (accFinish N u st).xs.length ≤ N := by
  unfold accFinish; simp only [List.length_take]; omega

/-- generalised bound for the accumulate branch: the `max_samples` guard ends the loop -/
theorem populateAcc_done (N : Nat) (m : Option EF) (maxS : Nat) (u : Nat → Nat → LU) (bs : List Batch) (st : AccState)
    (hg : ∀ b ∈ bs, NonEmpty m b) (hlen : maxS + 1 ≤ st.nProp + bs.length) (hinv : st.nProp ≤ maxS) :
    ∃ r, populateAcc N m maxS u bs st = .done r ∧ r.used + st.nProp ≤ st.used + maxS + 1 ∧ r.xs.length ≤ N := by
  induction bs generalizing st with
  | nil => simp only [List.length_nil] at hlen; omega
  | cons b bs ih =>
    unfold populateAcc
    by_cases h : N ≤ st.nAcc
    · exact ⟨accFinish N u st, by simp [h], by rw [accFinish_used]; omega, accFinish_len _ _ _⟩
    · simp only [h, if_false]
      have hb := hg b (by simp)
      have hbrk := accStep_break N m maxS u st b hb
      have hused := accStep_used N m maxS u st b
      have hprop := accStep_nProp N m maxS u st b
      rcases hst : accStep N m maxS u st b with ⟨st', brk⟩
      rw [hst] at hbrk hused hprop
      simp only at hbrk hused hprop
      cases brk with
      | true =>
        refine ⟨accFinish N u st', rfl, ?_, accFinish_len _ _ _⟩
        rw [accFinish_used]; have := hb.2; omega
      | false =>
        have hle : ¬ maxS < st.nProp + b.drawn := by
          intro hc; simp [hc] at hbrk
        obtain ⟨r, hr, h1, h2⟩ := ih st' (fun b' hb' => hg b' (by simp [hb']))
          (by simp only [List.length_cons] at hlen; have := hb.2; omega) (by omega)
        exact ⟨r, hr, by have := hb.2; omega, h2⟩

theorem populateAcc_spin (N : Nat) (m : Option EF) (maxS : Nat) (u : Nat → Nat → LU) (bs : List Batch) (st : AccState)
    (he : ∀ b ∈ bs, b.items.filter (keep m) = []) (hN : st.nAcc < N) :
    ∃ r, populateAcc N m maxS u bs st = .spin r ∧ r.used = st.used + bs.length := by
  induction bs generalizing st with
  | nil => exact ⟨accFinish N u st, by simp [populateAcc, Nat.not_le.mpr hN], by simp [accFinish_used]⟩
  | cons b bs ih =>
    unfold populateAcc
    simp only [Nat.not_le.mpr hN, if_false]
    rw [accStep_empty N m maxS u st b (he b (by simp))]
    simp only
    obtain ⟨r, hr, hu⟩ := ih { st with nProp := st.nProp + b.drawn, used := st.used + 1 }
      (fun b' hb' => he b' (by simp [hb'])) hN
    exact ⟨r, hr, by simp only [List.length_cons] at *; omega⟩

end NessaiVerif.Term
